//go:build verif

package swarm

// C04, family 3: a real Swarm with a REAL resource manager (small limits, so refusals happen), a
// recording gater and stub transport connections whose connection scope the harness opens exactly as a
// transport does (Close() = scope.Done()).  Seeded operation sequences exercise every stage at which a
// connection or stream attempt can stop inside the swarm: addConn refused by InterceptUpgraded or by a
// closed swarm, OpenStream refused by the resource manager, the muxer's OpenStream failing, addStream on
// a connection that is closing, inbound streams refused, SetProtocol / SetService / ReserveMemory
// refused (the user then resets, as BasicHost does), Reset racing Close, remote close, connection Close
// with open streams and running handlers, and Swarm.Close at the end or half-way.  After every step the
// swarm is quiescent (synctest.Wait) and Stat() is audited against the ledger of live objects; the
// ledgers are validated by TLC against spec/C04_Obs.tla.

import (
	"context"
	"errors"
	"fmt"
	"math/rand"
	"net"
	"os"
	"path/filepath"
	"sort"
	"sync"
	"testing"
	"testing/synctest"
	"time"

	"github.com/libp2p/go-libp2p/core/control"
	"github.com/libp2p/go-libp2p/core/network"
	"github.com/libp2p/go-libp2p/core/peer"
	"github.com/libp2p/go-libp2p/core/protocol"
	"github.com/libp2p/go-libp2p/core/transport"
	"github.com/libp2p/go-libp2p/internal/vfc04"
	"github.com/libp2p/go-libp2p/internal/vfh"
	"github.com/libp2p/go-libp2p/p2p/host/eventbus"
	"github.com/libp2p/go-libp2p/p2p/host/peerstore/pstoremem"
	rcmgr "github.com/libp2p/go-libp2p/p2p/host/resource-manager"
	ma "github.com/multiformats/go-multiaddr"
)

// muxed stream that reports what the code did to it
type vfC04MS struct {
	*vfStubStream
	id      string
	mu      sync.Mutex
	resets  int
	onReset func(ms *vfC04MS)
}

func (s *vfC04MS) note() {
	s.mu.Lock()
	s.resets++
	cb := s.onReset
	s.mu.Unlock()
	if cb != nil {
		cb(s)
	}
}
func (s *vfC04MS) Reset() error { s.note(); return s.vfStubStream.Reset() }
func (s *vfC04MS) ResetWithError(c network.StreamErrorCode) error {
	s.note()
	return s.vfStubStream.ResetWithError(c)
}

// transport connection stub that owns a real connection scope, like upgrader.transportConn
type vfC04Conn struct {
	*vfStubConn
	scope   network.ConnManagementScope
	led     *vfc04.Ledger
	mu      sync.Mutex
	done    bool
	openErr error
	opened  []*vfC04MS
	nextMS  func() *vfC04MS
	// interference points (zz_verif_c04_interf_test.go): a stream open parked INSIDE OpenStream after the muxer
	// created the stream, an inbound stream parked in AcceptStream's hand-over, callbacks around Close
	parkOpen   chan struct{}
	parkAccept chan struct{}
	onClose    func(phase string)
}

func (c *vfC04Conn) release() {
	c.mu.Lock()
	first := !c.done
	c.done = true
	c.mu.Unlock()
	if first {
		c.led.RawClose(c.Name)
	}
	c.scope.Done()
}
func (c *vfC04Conn) hook(phase string) {
	c.mu.Lock()
	h := c.onClose
	c.mu.Unlock()
	if h != nil {
		h(phase)
	}
}
func (c *vfC04Conn) Close() error {
	c.hook("close-pre")
	c.release()
	err := c.vfStubConn.Close()
	c.hook("close-post")
	return err
}
func (c *vfC04Conn) CloseWithError(e network.ConnErrorCode) error {
	c.hook("close-pre")
	c.release()
	err := c.vfStubConn.CloseWithError(e)
	c.hook("close-post")
	return err
}
func (c *vfC04Conn) AcceptStream() (network.MuxedStream, error) {
	ms, err := c.vfStubConn.AcceptStream()
	if err != nil {
		return nil, err
	}
	c.mu.Lock()
	park := c.parkAccept
	c.parkAccept = nil
	c.mu.Unlock()
	if park != nil {
		<-park // the stream was accepted on the live connection; the hand-over to the swarm is delayed
	}
	return ms, nil
}
func (c *vfC04Conn) Scope() network.ConnScope { return c.scope }
func (c *vfC04Conn) OpenStream(ctx context.Context) (network.MuxedStream, error) {
	c.mu.Lock()
	err := c.openErr
	c.mu.Unlock()
	if err != nil {
		return nil, err
	}
	if c.IsClosed() {
		return nil, errVfStub
	}
	ms := c.nextMS()
	c.mu.Lock()
	c.opened = append(c.opened, ms)
	park := c.parkOpen
	c.parkOpen = nil
	c.mu.Unlock()
	if park != nil {
		<-park // the muxer has opened the stream on the live connection; the return to the caller is delayed
	}
	return ms, nil
}

type vfC04SwGater struct {
	mu     sync.Mutex
	reject bool
}

func (g *vfC04SwGater) InterceptPeerDial(peer.ID) bool                        { return true }
func (g *vfC04SwGater) InterceptAddrDial(peer.ID, ma.Multiaddr) bool          { return true }
func (g *vfC04SwGater) InterceptAccept(network.ConnMultiaddrs) bool           { return true }
func (g *vfC04SwGater) InterceptSecured(network.Direction, peer.ID, network.ConnMultiaddrs) bool {
	return true
}
func (g *vfC04SwGater) InterceptUpgraded(network.Conn) (bool, control.DisconnectReason) {
	g.mu.Lock()
	defer g.mu.Unlock()
	return !g.reject, 0
}

// stub listening transport: Swarm.Listen / Close bookkeeping
type vfC04SwListener struct {
	addr   ma.Multiaddr
	once   sync.Once
	closed chan struct{}
	closes int
}

func (l *vfC04SwListener) Accept() (transport.CapableConn, error) {
	<-l.closed
	return nil, transport.ErrListenerClosed
}
func (l *vfC04SwListener) Close() error {
	l.closes++
	l.once.Do(func() { close(l.closed) })
	return nil
}
func (l *vfC04SwListener) Addr() net.Addr          { return &net.TCPAddr{IP: net.IPv4(127, 0, 0, 1), Port: 7001} }
func (l *vfC04SwListener) Multiaddr() ma.Multiaddr { return l.addr }

type vfC04SwTransport struct {
	mu        sync.Mutex
	listeners []*vfC04SwListener
}

func (t *vfC04SwTransport) Dial(context.Context, ma.Multiaddr, peer.ID) (transport.CapableConn, error) {
	return nil, errors.New("vf: no dialling")
}
func (t *vfC04SwTransport) CanDial(ma.Multiaddr) bool { return false }
func (t *vfC04SwTransport) Listen(a ma.Multiaddr) (transport.Listener, error) {
	l := &vfC04SwListener{addr: a, closed: make(chan struct{})}
	t.mu.Lock()
	t.listeners = append(t.listeners, l)
	t.mu.Unlock()
	return l, nil
}
func (t *vfC04SwTransport) Protocols() []int { return []int{ma.P_TCP} }
func (t *vfC04SwTransport) Proxy() bool      { return false }

type vfC04SwObj struct {
	id     string
	kind   string
	state  string // pending | live | ended
	conn   *vfC04SwConnRec
	stream *Stream
	ms     *vfC04MS
	dir    string
	mem    int
}
type vfC04SwConnRec struct {
	obj  *vfC04SwObj
	stub *vfC04Conn
	c    *Conn
}

const (
	vfC04ProtoA = protocol.ID("/vf/a")
	vfC04ProtoB = protocol.ID("/vf/b")
)

func vfC04SwScenario(t *testing.T, seed int64, tr *vfh.Trace, cover map[string]int) {
	rnd := rand.New(rand.NewSource(seed))
	led := &vfc04.Ledger{T: tr}
	local := peer.ID("vf-local")
	peers := []peer.ID{peer.ID("vf-remote-1"), peer.ID("vf-remote-2")}
	// small limits chosen per scenario so that refusals happen at different points
	lim := struct{ sysS, peerS, protoS, svcS, connsIn, mem int }{
		sysS: 2 + rnd.Intn(4), peerS: 1 + rnd.Intn(3), protoS: 1 + rnd.Intn(2), svcS: 1 + rnd.Intn(2),
		connsIn: 1 + rnd.Intn(3), mem: 1000 * (1 + rnd.Intn(3))}
	rm, err := vfc04.NewRM(func(c *rcmgr.PartialLimitConfig) {
		c.System.Streams = rcmgr.LimitVal(lim.sysS)
		c.PeerDefault.Streams = rcmgr.LimitVal(lim.peerS)
		c.ProtocolDefault.Streams = rcmgr.LimitVal(lim.protoS)
		c.ServiceDefault.Streams = rcmgr.LimitVal(lim.svcS)
		c.System.ConnsInbound = rcmgr.LimitVal(lim.connsIn)
		c.System.Memory = rcmgr.LimitVal64(lim.mem)
	})
	if err != nil {
		t.Fatal(err)
	}
	ps, err := pstoremem.NewPeerstore()
	if err != nil {
		t.Fatal(err)
	}
	bus := eventbus.NewBus()
	g := &vfC04SwGater{}
	sw, err := NewSwarm(local, ps, bus, WithResourceManager(rm), WithConnectionGater(g))
	if err != nil {
		t.Fatal(err)
	}
	tpt := &vfC04SwTransport{}
	if err := sw.AddTransport(tpt); err != nil {
		t.Fatal(err)
	}
	if err := sw.Listen(ma.StringCast("/ip4/127.0.0.1/tcp/7001")); err != nil {
		t.Fatal(err)
	}

	var mu sync.Mutex
	var conns []*vfC04SwConnRec
	var streams []*vfC04SwObj
	byMS := map[*vfC04MS]*vfC04SwObj{}
	nObj := 0
	newID := func(p string) string { nObj++; return fmt.Sprintf("%s%d", p, nObj) }
	hit := func(k string) { mu.Lock(); cover[k]++; mu.Unlock() }
	endObj := func(o *vfC04SwObj, why string) {
		mu.Lock()
		was := o.state
		if was != "ended" {
			o.state = "ended"
		}
		mu.Unlock()
		if was != "ended" {
			led.End(o.id, why, "")
		}
	}
	handlerBlocks := rnd.Intn(2) == 0
	var hwg sync.WaitGroup
	sw.SetStreamHandler(func(s network.Stream) {
		st := s.(*Stream)
		ms, _ := st.stream.(*vfC04MS)
		mu.Lock()
		o := byMS[ms]
		if o != nil && o.state == "pending" {
			o.state = "live"
			o.stream = st
		} else {
			o = nil
		}
		mu.Unlock()
		if o == nil {
			tr.Emit("bad_accept", "addr", "handler for an unknown or ended stream")
			return
		}
		led.Live(o.id)
		if handlerBlocks {
			hwg.Add(1)
			defer hwg.Done()
			b := make([]byte, 1)
			s.Read(b) // returns when the stream is reset or closed
		}
	})

	audit := func(final bool) {
		synctest.Wait()
		led.Audit("s", final, vfc04.ReadUsage(rm), 0)
	}
	closed := false
	addConn := func(dir network.Direction, reject bool) {
		o := &vfC04SwObj{id: newID("c"), kind: "conn", state: "pending", dir: map[network.Direction]string{network.DirInbound: "in", network.DirOutbound: "out"}[dir]}
		led.Begin(o.id, "conn", o.dir, "s", true)
		p := peers[rnd.Intn(len(peers))]
		raddr := ma.StringCast(fmt.Sprintf("/ip4/10.0.0.%d/tcp/%d", 1+nObj%200, 2000+nObj))
		scope, err := rm.OpenConnection(dir, true, raddr)
		if err != nil {
			hit("conn:rcmgr-open")
			endObj(o, "rcmgr-open")
			return
		}
		if err := scope.SetPeer(p); err != nil {
			scope.Done()
			hit("conn:rcmgr-setpeer")
			endObj(o, "rcmgr-setpeer")
			return
		}
		stub := &vfC04Conn{vfStubConn: newVfStubConn(o.id, local, p, ma.StringCast("/ip4/127.0.0.1/tcp/7001"), raddr, false), scope: scope, led: led}
		rec := &vfC04SwConnRec{obj: o, stub: stub}
		o.conn = rec
		stub.nextMS = func() *vfC04MS { return &vfC04MS{vfStubStream: newVfStubStream()} }
		g.mu.Lock()
		g.reject = reject
		g.mu.Unlock()
		led.RawOpen(o.id)
		c, err := sw.addConn(stub, dir)
		g.mu.Lock()
		g.reject = false
		g.mu.Unlock()
		if err != nil {
			if reject && !closed {
				hit("handed:gater")
			} else {
				hit("handed:swarmclosed")
			}
			endObj(o, "addconn:"+err.Error())
			return
		}
		rec.c = c
		mu.Lock()
		o.state = "live"
		conns = append(conns, rec)
		mu.Unlock()
		led.Live(o.id)
	}
	liveConns := func() []*vfC04SwConnRec {
		var out []*vfC04SwConnRec
		for _, c := range conns {
			if c.obj.state == "live" {
				out = append(out, c)
			}
		}
		return out
	}
	liveStreams := func() []*vfC04SwObj {
		var out []*vfC04SwObj
		for _, s := range streams {
			if s.state == "live" {
				out = append(out, s)
			}
		}
		return out
	}
	endStreamsOf := func(rec *vfC04SwConnRec, why string) {
		for _, s := range streams {
			if s.conn == rec && s.state != "ended" {
				endObj(s, why)
			}
		}
	}
	newStream := func(rec *vfC04SwConnRec, muxErr bool, cancelled bool) {
		o := &vfC04SwObj{id: newID("s"), kind: "stream", state: "pending", dir: "out", conn: rec}
		streams = append(streams, o)
		led.Begin(o.id, "stream", "out", "s", false)
		rec.stub.mu.Lock()
		if muxErr {
			rec.stub.openErr = errors.New("vf: muxer refuses")
		}
		rec.stub.mu.Unlock()
		ctx, cancel := context.WithTimeout(context.Background(), 5*time.Second)
		if cancelled {
			cancel()
		}
		s, err := rec.c.NewStream(ctx)
		cancel()
		rec.stub.mu.Lock()
		rec.stub.openErr = nil
		rec.stub.mu.Unlock()
		if err != nil {
			switch {
			case muxErr:
				hit("stream-out:muxer-error")
			case errors.Is(err, network.ErrResourceLimitExceeded):
				hit("stream-out:rcmgr-open")
			default:
				hit("stream-out:conn-closed")
			}
			endObj(o, "newstream:"+err.Error())
			return
		}
		o.stream = s.(*Stream)
		o.state = "live"
		led.Live(o.id)
	}
	inbound := func(rec *vfC04SwConnRec) {
		o := &vfC04SwObj{id: newID("s"), kind: "stream", state: "pending", dir: "in", conn: rec}
		ms := &vfC04MS{vfStubStream: newVfStubStream(), id: o.id}
		o.ms = ms
		ms.onReset = func(ms *vfC04MS) {
			// the code reset a muxed stream it never handed to the handler: the attempt is over
			mu.Lock()
			pend := o.state == "pending"
			mu.Unlock()
			if pend {
				hit("stream-in:refused")
				endObj(o, "reset-before-handler")
			}
		}
		mu.Lock()
		streams = append(streams, o)
		byMS[ms] = o
		mu.Unlock()
		led.Begin(o.id, "stream", "in", "s", false)
		select {
		case rec.stub.Inbound <- ms:
		default:
			endObj(o, "not-delivered")
		}
	}
	userReset := func(o *vfC04SwObj, why string) {
		o.stream.Reset()
		endObj(o, why)
	}
	streamOp := func(o *vfC04SwObj) {
		switch rnd.Intn(7) {
		case 0:
			p := []protocol.ID{vfC04ProtoA, vfC04ProtoB}[rnd.Intn(2)]
			if err := o.stream.SetProtocol(p); err != nil {
				hit("stream:setprotocol-refused")
				tr.Emit("refused", "o", o.id, "what", "SetProtocol")
				userReset(o, "setprotocol-refused") // what BasicHost does
			}
		case 1:
			if err := o.stream.Scope().SetService([]string{"svc1", "svc2"}[rnd.Intn(2)]); err != nil {
				hit("stream:setservice-refused")
				tr.Emit("refused", "o", o.id, "what", "SetService")
				userReset(o, "setservice-refused")
			}
		case 2:
			n := 400 + rnd.Intn(900)
			if err := o.stream.Scope().ReserveMemory(n, network.ReservationPriorityAlways); err != nil {
				hit("stream:reservememory-refused")
				tr.Emit("refused", "o", o.id, "what", "ReserveMemory")
			} else {
				o.mem += n
			}
		case 3:
			o.stream.Close()
			endObj(o, "closed")
		case 4:
			userReset(o, "reset")
		case 5: // Reset racing Close
			var wg sync.WaitGroup
			wg.Add(2)
			go func() { defer wg.Done(); o.stream.Reset() }()
			go func() { defer wg.Done(); o.stream.Close() }()
			wg.Wait()
			hit("stream:reset-racing-close")
			endObj(o, "reset+close")
		case 6: // span that is not released explicitly: released with the stream
			if sp, err := o.stream.Scope().BeginSpan(); err == nil {
				if err := sp.ReserveMemory(300, network.ReservationPriorityAlways); err != nil {
					hit("stream:span-refused")
				}
				if rnd.Intn(2) == 0 {
					sp.Done()
				}
			}
		}
	}
	closeSwarm := func() {
		tr.Emit("note", "what", "swarm_close_call")
		sw.Close()
		closed = true
		synctest.Wait()
		nl := len(sw.ListenAddresses())
		for _, l := range tpt.listeners {
			if l.closes == 0 {
				nl++
			}
		}
		tr.Emit("swarm_closed", "rm", "s", "conns", len(sw.Conns()), "listeners", nl)
		for _, c := range conns {
			c.obj.state = "ended"
		}
		for _, s := range streams {
			s.state = "ended"
		}
	}

	steps := 10 + rnd.Intn(14)
	closeAt := -1
	if rnd.Intn(4) == 0 {
		closeAt = rnd.Intn(steps)
	}
	for i := 0; i < steps; i++ {
		if i == closeAt {
			hit("swarm-close-midway")
			closeSwarm()
			audit(false)
			// a closed swarm: everything below must fail and leave nothing
			addConn(network.DirInbound, false)
			audit(false)
			continue
		}
		lc, ls := liveConns(), liveStreams()
		r := rnd.Intn(100)
		switch {
		case closed:
			addConn([]network.Direction{network.DirInbound, network.DirOutbound}[rnd.Intn(2)], false)
		case len(lc) == 0 || r < 12:
			addConn([]network.Direction{network.DirInbound, network.DirOutbound}[rnd.Intn(2)], r%6 == 0)
		case r < 34:
			newStream(lc[rnd.Intn(len(lc))], r%5 == 0, r%7 == 0)
		case r < 50:
			inbound(lc[rnd.Intn(len(lc))])
		case r < 80 && len(ls) > 0:
			streamOp(ls[rnd.Intn(len(ls))])
		case r < 86:
			rec := lc[rnd.Intn(len(lc))]
			hit("conn:close-with-streams")
			rec.c.Close()
			synctest.Wait()
			endStreamsOf(rec, "conn-closed")
			endObj(rec.obj, "closed")
		case r < 92:
			rec := lc[rnd.Intn(len(lc))]
			hit("conn:remote-close")
			tr.Emit("note", "what", "remote_close", "o", rec.obj.id)
			rec.stub.RemoteClose()
			synctest.Wait()
			endStreamsOf(rec, "conn-gone")
			endObj(rec.obj, "remote-closed")
		case r < 96: // NewStream racing Close of the connection
			rec := lc[rnd.Intn(len(lc))]
			hit("conn:close-racing-newstream")
			var wg sync.WaitGroup
			wg.Add(2)
			go func() { defer wg.Done(); newStream(rec, false, false) }()
			go func() { defer wg.Done(); rec.c.Close() }()
			wg.Wait()
			synctest.Wait()
			endStreamsOf(rec, "conn-closed")
			endObj(rec.obj, "closed")
		default:
			inbound(lc[rnd.Intn(len(lc))])
			inbound(lc[rnd.Intn(len(lc))])
		}
		audit(false)
	}
	if !closed {
		closeSwarm()
	}
	hwg.Wait()
	synctest.Wait()
	ps.Close()
	rm.Close()
	synctest.Wait()
	led.Audit("s", true, vfc04.ReadUsage(rm), len(vfc04.Census()))
}

func TestVerifC04Swarm(t *testing.T) {
	res := vfh.NewResult()
	defer func() {
		if err := res.Write(); err != nil {
			t.Fatal(err)
		}
	}()
	iters := vfh.EnvInt("VERIF_C04_SWARM_ITERS", 120)
	only := int64(0)
	var onlyInterf *vfC04InterfPlan
	if v := os.Getenv("VERIF_C04_ONLY"); v != "" {
		var p struct {
			Seed int64 `json:"seed"`
			Park string `json:"park"`
		}
		if err := jsonUnmarshalVF([]byte(v), &p); err != nil {
			t.Fatal(err)
		}
		only, iters = p.Seed, vfh.EnvInt("VERIF_C04_REPEAT", 1)
		if p.Park != "" {
			onlyInterf = &vfC04InterfPlan{}
			if err := jsonUnmarshalVF([]byte(v), onlyInterf); err != nil {
				t.Fatal(err)
			}
			only = 1
		}
	}
	res.Rule = "one evaluation = one seeded operation sequence (10-23 steps) on a real Swarm with a real resource manager (small random limits) and stub transport connections that own a real connection scope; after every step the swarm is quiescent and Stat() is audited against the live objects; non-trivial = at least one refusal/failure/race stage was hit; distinct = distinct (stage:kind) failure classes hit, counted over the run"
	path := ""
	if vfh.Out() != "" {
		path = filepath.Join(vfh.Out(), "c04_swarm.ndjson")
		os.Remove(path)
	}
	cover := map[string]int{}
	fired := 0
	stuck := 0
	if only == 0 || onlyInterf != nil {
		plans := vfC04InterfPlans()
		if onlyInterf != nil {
			plans = nil
			for r := 0; r < vfh.EnvInt("VERIF_C04_REPEAT", 1); r++ {
				plans = append(plans, *onlyInterf)
			}
			iters = 0
		}
		for i, plan := range plans {
			if stuck >= 4 {
				res.Inc("skipped_after_stuck", len(plans)-i)
				break
			}
			tr := vfh.NewTrace(fmt.Sprintf("i%d", i))
			hit := false
			dl, hung := vfc04.RunBubble(t, 25*time.Second, func(t *testing.T) { hit = vfC04SwInterf(t, plan, tr) })
			if dl != "" {
				tr.Emit("deadlock", "msg", dl)
				stuck++
			}
			if hung != "" {
				stuck++
				res.Inc("hangs", 1)
				res.Sample(map[string]any{"plan": plan.String(), "hung": hung})
			}
			if hit {
				fired++
				cover["interference:"+plan.Park+":"+plan.Trigger+":"+plan.Release]++
			}
			res.Count(1, tr.Len())
			if path != "" {
				if err := tr.AppendTo(path, map[string]any{"family": "swarm", "cfg": "stub-conns", "plan": plan.String(), "kind": "interference",
					"side": "", "k": 0, "hit": hit, "stage": "swarm", "hang": hung, "p": plan}); err != nil {
					t.Fatal(err)
				}
			}
			if i == 0 {
				res.Sample(map[string]any{"plan": plan.String(), "events": tr.Events()})
			}
		}
	}
	for i := 0; i < iters; i++ {
		if stuck >= 4 {
			res.Inc("skipped_after_stuck", iters-i)
			break
		}
		seed := vfh.Seed()*1000003 + int64(i)
		if only != 0 {
			seed = only // replay of one scenario (the driver reproduces a rejected ledger before it reports it)
		}
		tr := vfh.NewTrace(fmt.Sprintf("s%d", i))
		before := 0
		for _, v := range cover {
			before += v
		}
		dl, hung := vfc04.RunBubble(t, 25*time.Second, func(t *testing.T) { vfC04SwScenario(t, seed, tr, cover) })
		if dl != "" {
			tr.Emit("deadlock", "msg", dl)
			stuck++
		}
		if hung != "" {
			stuck++
			res.Inc("hangs", 1)
			res.Sample(map[string]any{"scenario_seed": seed, "hung": hung})
		}
		after := 0
		for _, v := range cover {
			after += v
		}
		if after > before {
			fired++
		}
		res.Count(1, tr.Len())
		if path != "" {
			if err := tr.AppendTo(path, map[string]any{"family": "swarm", "cfg": "stub-conns", "plan": fmt.Sprintf("seed=%d", seed), "kind": "sequence",
				"side": "", "k": 0, "hit": after > before, "stage": "swarm", "hang": hung, "p": map[string]any{"seed": seed}}); err != nil {
				t.Fatal(err)
			}
		}
		if i == 0 {
			evs := tr.Events()
			if len(evs) > 40 {
				evs = evs[:40]
			}
			res.Sample(map[string]any{"scenario_seed": seed, "first_events": evs})
		}
	}
	keys := make([]string, 0, len(cover))
	for k := range cover {
		keys = append(keys, "swarm|"+k)
		res.Case(k)
	}
	sort.Strings(keys)
	res.Set("exits", keys)
	res.Set("exit_counts", cover)
	res.Set("evaluations", res.Replayed)
	res.Set("fired", fired)
	if path != "" {
		res.Traces = []string{path}
	}
}
