//go:build verif

package swarm

// Conformance harness for C01 (security handshakes authenticate the remote peer's identity), swarm
// part: a dial for peer P never hands the application a connection authenticated as anyone other
// than P.  Replays the behaviours of spec/C01_Handshake.tla (part S) on a REAL Swarm whose transport is
// scripted: behind address i it returns a CapableConn reporting P, a CapableConn reporting somebody
// else, or an error, at fixed instants of virtual time (synctest) so that the outcomes arrive in the
// model's order whatever the dial ranker does.  Observed: what DialPeer returns, every Connected
// notification, the swarm's connection listings, and whether each wrong connection was closed.

import (
	"context"
	"encoding/json"
	"errors"
	"fmt"
	"path/filepath"
	"sort"
	"sync"
	"testing"
	"testing/synctest"
	"time"

	"github.com/libp2p/go-libp2p/core/network"
	"github.com/libp2p/go-libp2p/core/peer"
	"github.com/libp2p/go-libp2p/core/peerstore"
	"github.com/libp2p/go-libp2p/core/transport"
	"github.com/libp2p/go-libp2p/internal/vfh"
	"github.com/libp2p/go-libp2p/p2p/host/eventbus"
	"github.com/libp2p/go-libp2p/p2p/host/peerstore/pstoremem"
	ma "github.com/multiformats/go-multiaddr"
	mafmt "github.com/multiformats/go-multiaddr-fmt"
)

type vfC01Tpt struct {
	mu     sync.Mutex
	t0     time.Time
	local  peer.ID
	p, q   peer.ID
	outs   map[string]string // address bytes -> "P" | "Q" | "fail"
	order  map[string]int
	conns  []*vfStubConn // every connection handed to the swarm, in order
	tried  int
	asked  []peer.ID
}

func (t *vfC01Tpt) CanDial(a ma.Multiaddr) bool { return mafmt.TCP.Matches(a) }
func (t *vfC01Tpt) Listen(ma.Multiaddr) (transport.Listener, error) {
	return nil, errors.New("verif: no listening")
}
func (t *vfC01Tpt) Protocols() []int { return []int{ma.P_TCP} }
func (t *vfC01Tpt) Proxy() bool      { return false }
func (t *vfC01Tpt) Dial(ctx context.Context, raddr ma.Multiaddr, p peer.ID) (transport.CapableConn, error) {
	t.mu.Lock()
	out, ok := t.outs[string(raddr.Bytes())]
	i := t.order[string(raddr.Bytes())]
	t.asked = append(t.asked, p)
	t.mu.Unlock()
	if !ok {
		return nil, errors.New("verif: unknown address")
	}
	// outcome i is delivered at t0 + 2s + i*100ms, after every ranking delay
	tm := time.NewTimer(time.Until(t.t0.Add(2*time.Second + time.Duration(i)*100*time.Millisecond)))
	defer tm.Stop()
	select {
	case <-tm.C:
	case <-ctx.Done():
		return nil, ctx.Err()
	}
	t.mu.Lock()
	defer t.mu.Unlock()
	t.tried++
	switch out {
	case "fail":
		return nil, errors.New("verif: scripted dial failure")
	case "P":
		c := newVfStubConn(fmt.Sprintf("a%d:P", i), t.local, t.p, ma.StringCast("/ip4/127.0.0.1/tcp/1"), raddr, false)
		c.Tpt = t
		t.conns = append(t.conns, c)
		return c, nil
	}
	// a transport (or a security handshake gone wrong) that authenticated somebody else
	c := newVfStubConn(fmt.Sprintf("a%d:Q", i), t.local, t.q, ma.StringCast("/ip4/127.0.0.1/tcp/1"), raddr, false)
	c.Tpt = t
	t.conns = append(t.conns, c)
	return c, nil
}

func vfC01SwarmWalk(t *testing.T, res *vfh.Result, w *vfh.Walk) (err error) {
	synctest.Test(t, func(t *testing.T) {
		var init struct {
			Outs []string `json:"outs"`
		}
		if err = json.Unmarshal(w.Init, &init); err != nil {
			return
		}
		ps, e := pstoremem.NewPeerstore()
		if e != nil {
			err = e
			return
		}
		defer ps.Close()
		local, P, Q := peer.ID("vf-local-c01"), peer.ID("vf-remote-c01-P"), peer.ID("vf-remote-c01-Q")
		sw, e := NewSwarm(local, ps, eventbus.NewBus())
		if e != nil {
			err = e
			return
		}
		defer sw.Close()
		tp := &vfC01Tpt{t0: time.Now(), local: local, p: P, q: Q, outs: map[string]string{}, order: map[string]int{}}
		if err = sw.AddTransport(tp); err != nil {
			return
		}
		var addrs []ma.Multiaddr
		for i, o := range init.Outs {
			a := ma.StringCast(fmt.Sprintf("/ip4/1.2.3.%d/tcp/4001", i+1))
			tp.outs[string(a.Bytes())] = o
			tp.order[string(a.Bytes())] = i
			addrs = append(addrs, a)
		}
		ps.AddAddrs(P, addrs, peerstore.PermanentAddrTTL)
		var nmu sync.Mutex
		var connected []network.Conn
		sw.Notify(&network.NotifyBundle{ConnectedF: func(_ network.Network, c network.Conn) {
			nmu.Lock()
			connected = append(connected, c)
			nmu.Unlock()
		}})
		mm := func(class, what string, exp, got any) {
			var pre []vfh.Op
			for _, s := range w.Steps {
				pre = append(pre, s.Op)
			}
			res.AddMismatch(vfh.Mismatch{Class: class, What: what, Walk: w.Walk, Expected: exp, Got: got, Prefix: pre,
				Cfg: map[string]any{"outs": init.Outs, "seed": vfh.Seed()}})
		}
		for _, st := range w.Steps {
			if st.Op.Name() == "warm" {
				// warm history: an honest dial of P succeeds first; its connection is closed again
				a0 := ma.StringCast("/ip4/1.2.3.200/tcp/4001")
				tp.mu.Lock()
				tp.outs[string(a0.Bytes())], tp.order[string(a0.Bytes())] = "P", 0
				tp.mu.Unlock()
				ps.ClearAddrs(P)
				ps.AddAddr(P, a0, peerstore.PermanentAddrTTL)
				ctx, cancel := context.WithTimeout(context.Background(), 30*time.Second)
				c, derr := sw.DialPeer(ctx, P)
				cancel()
				if derr != nil || c.RemotePeer() != P {
					mm("L2:honest-dial-fails", "the honest dial of the warm-up did not return a connection to P", "P", fmt.Sprint(derr))
				} else {
					c.Close()
				}
				synctest.Wait()
				ps.ClearAddrs(P)
				ps.AddAddrs(P, addrs, peerstore.PermanentAddrTTL)
				tp.mu.Lock()
				delete(tp.outs, string(a0.Bytes()))
				tp.conns, tp.tried, tp.asked = nil, 0, nil
				tp.t0 = time.Now()
				tp.mu.Unlock()
				nmu.Lock()
				connected = nil
				nmu.Unlock()
				res.Inc("S.warm", 1)
				continue
			}
			if st.Op.Name() != "dial" {
				continue
			}
			ctx, cancel := context.WithTimeout(context.Background(), 30*time.Second)
			c, derr := sw.DialPeer(ctx, P)
			cancel()
			synctest.Wait()
			// ---- L1: what the application was handed
			got := "err"
			if derr == nil && c != nil {
				got = "P"
				if c.RemotePeer() != P {
					got = "Q"
					mm("dial-returned-wrong-peer", fmt.Sprintf("DialPeer(%s) returned a connection whose RemotePeer() is %s", P, c.RemotePeer()), P.String(), c.RemotePeer().String())
				}
			}
			visible := map[string]bool{}
			nmu.Lock()
			for _, nc := range connected {
				if nc.RemotePeer() == P {
					visible["P"] = true
				} else {
					visible["Q"] = true
					mm("dial-wrong-peer-conn-notified", fmt.Sprintf("a dial for %s produced a Connected notification for a connection authenticated as %s", P, nc.RemotePeer()), P.String(), nc.RemotePeer().String())
				}
			}
			nmu.Unlock()
			for _, lc := range sw.Conns() {
				if lc.RemotePeer() != P {
					mm("dial-wrong-peer-conn-listed", fmt.Sprintf("after a dial for %s the swarm lists a connection authenticated as %s", P, lc.RemotePeer()), P.String(), lc.RemotePeer().String())
				}
			}
			if len(sw.ConnsToPeer(Q)) > 0 {
				mm("dial-wrong-peer-conn-listed", "after a dial for P the swarm lists a connection to the other peer", 0, len(sw.ConnsToPeer(Q)))
			}
			tp.mu.Lock()
			closed, open := 0, 0
			for _, sc := range tp.conns {
				if sc.Rp != P {
					if sc.IsClosed() {
						closed++
					} else {
						open++
					}
				}
			}
			tried := tp.tried
			for _, a := range tp.asked {
				if a != P {
					mm("L2:transport-asked-for-another-peer", "the swarm asked the transport for another peer than the one dialled", P.String(), a.String())
				}
			}
			tp.mu.Unlock()
			if open > 0 {
				mm("L2:wrong-conn-left-open", "a connection authenticated as somebody else was not closed after the dial", 0, open)
			}
			// ---- L2: the model
			var vis []string
			for k := range visible {
				vis = append(vis, k)
			}
			sort.Strings(vis)
			expVis := vfh.CanonSet(st.Op.L("visible"))
			gotm := map[string]any{"res": got, "visible": vis, "closed": closed, "tried": tried, "err": fmt.Sprint(derr)}
			expm := map[string]any{"res": st.Op.S("res"), "visible": expVis, "closed": st.Op.I("closed"), "tried": st.Op.I("tried")}
			if got != st.Op.S("res") {
				mm("L2:dial-result", "DialPeer result differs from the model", expm, gotm)
			} else if closed != st.Op.I("closed") || tried != st.Op.I("tried") || len(vis) != len(expVis) {
				mm("L2:dial-detail", "closed / tried / visible differ from the model", expm, gotm)
			}
			switch got {
			case "P":
				res.Inc("S.returned", 1)
			case "err":
				res.Inc("S.refused", 1)
			}
			res.Inc("S.wrong-closed", closed)
			res.Sample(gotm)
		}
		res.Count(1, len(w.Steps))
		res.Case(fmt.Sprint(init.Outs, len(w.Steps)))
	})
	return err
}

func TestVerifC01SwarmReplay(t *testing.T) {
	res := vfh.NewResult()
	res.Rule = "distinct = address outcome vectors executed"
	defer func() {
		if err := res.Write(); err != nil {
			t.Error(err)
		}
	}()
	_, walks, err := vfh.LoadWalks(filepath.Join(vfh.In(), "S.jsonl"))
	if err != nil {
		t.Fatal(err)
	}
	for i := range walks {
		if err := vfC01SwarmWalk(t, res, &walks[i]); err != nil {
			t.Fatalf("walk %d: %v", i, err)
		}
	}
	res.Set("S.walks", len(walks))
}
