//go:build verif

package swarm

// Conformance harness for C20 (black-hole detection).  Replays every transition of the bounded
// TLC state graphs of spec/C20_BlackHole.tla on the real BlackHoleSuccessCounter /
// blackHoleDetector and compares observable results and the projected state after every step.

import (
	"fmt"
	"math/rand"
	"os"
	"path/filepath"
	"sort"
	"strings"
	"sync"
	"testing"

	"github.com/libp2p/go-libp2p/internal/vfh"
	ma "github.com/multiformats/go-multiaddr"
	manet "github.com/multiformats/go-multiaddr/net"
)

type vfC20Kind struct {
	Pub bool `json:"pub"`
	UDP bool `json:"udp"`
	IP6 bool `json:"ip6"`
}

func (k vfC20Kind) key() string { return fmt.Sprintf("%v/%v/%v", k.Pub, k.UDP, k.IP6) }

// Concrete multiaddrs for each abstract address kind.  The families are built at start-up from a broad
// list of IP literals (ordinary public and private ranges, but also CGNAT 100.64/10, benchmarking
// 198.18/15, documentation ranges, link-local, unique-local, NAT64, 6to4, IPv4-mapped IPv6, multicast,
// reserved) crossed with transport suffixes, and classified by manet.IsPublicAddr and by the protocols
// the multiaddr contains - NOT by the detector's own helpers - so a detector that classifies an unusual
// range differently from the rest of the stack is seen.
var vfC20Forms = map[vfC20Kind][]string{}

func init() {
	ips := []string{
		"/ip4/1.2.3.4", "/ip4/8.8.8.8", "/ip4/151.101.1.1", "/ip4/203.0.113.7", "/ip4/100.64.1.1", "/ip4/100.127.255.254",
		"/ip4/198.18.0.1", "/ip4/192.0.2.1", "/ip4/198.51.100.9", "/ip4/169.254.1.1", "/ip4/192.168.1.5", "/ip4/10.1.2.3",
		"/ip4/172.16.0.9", "/ip4/172.31.255.1", "/ip4/127.0.0.1", "/ip4/192.0.0.8", "/ip4/240.0.0.1", "/ip4/224.0.0.251",
		"/ip6/2001:4860:4860::8888", "/ip6/2606:4700::1111", "/ip6/2a00:1450:4001::1", "/ip6/2001:db8::1", "/ip6/fe80::1",
		"/ip6/::1", "/ip6/fc00::5", "/ip6/fd00::5", "/ip6/64:ff9b::102:304", "/ip6/2002:102:304::1", "/ip6/::ffff:1.2.3.4",
		"/ip6/::ffff:192.168.1.5", "/ip6/ff02::1", "/ip6/100::1",
		"/dns4/example.com", "/dns6/example.com", "/dns/example.com",
	}
	sfx := []string{"/tcp/4001", "/tcp/443/tls/ws", "/udp/4001/quic-v1", "/udp/443/quic-v1/webtransport", "/udp/4001/webrtc-direct"}
	for _, ip := range ips {
		for _, sf := range sfx {
			a, err := ma.NewMultiaddr(ip + sf)
			if err != nil {
				continue
			}
			k := vfC20Kind{Pub: manet.IsPublicAddr(a)}
			for _, pr := range a.Protocols() {
				switch pr.Code {
				case ma.P_UDP:
					k.UDP = true
				case ma.P_IP6:
					k.IP6 = true
				}
			}
			vfC20Forms[k] = append(vfC20Forms[k], a.String())
		}
	}
	for _, k := range []vfC20Kind{{true, true, false}, {true, false, false}, {true, true, true}, {true, false, true},
		{false, true, false}, {false, false, false}, {false, true, true}, {false, false, true}} {
		if len(vfC20Forms[k]) == 0 {
			panic("verif C20: no concrete address form for kind " + k.key())
		}
	}
}

func vfC20Kinds(l []any) []vfC20Kind {
	var out []vfC20Kind
	for _, e := range l {
		m, _ := e.(map[string]any)
		k := vfC20Kind{}
		k.Pub, _ = m["pub"].(bool)
		k.UDP, _ = m["udp"].(bool)
		k.IP6, _ = m["ip6"].(bool)
		out = append(out, k)
	}
	return out
}

func vfC20KindOne(m map[string]any) vfC20Kind {
	k := vfC20Kind{}
	k.Pub, _ = m["pub"].(bool)
	k.UDP, _ = m["udp"].(bool)
	k.IP6, _ = m["ip6"].(bool)
	return k
}

type vfC20Counter struct {
	Win  []bool `json:"win"`
	Succ int    `json:"succ"`
	Req  int    `json:"req"`
	St   string `json:"st"`
}

func vfC20Project(c *BlackHoleSuccessCounter) vfC20Counter {
	c.mu.Lock()
	defer c.mu.Unlock()
	w := append([]bool{}, c.dialResults...)
	return vfC20Counter{Win: w, Succ: c.successes, Req: c.requests % c.N, St: c.state.String()}
}

type vfC20State struct {
	Win  map[string][]bool `json:"win"`
	Succ map[string]int    `json:"succ"`
	Req  map[string]int    `json:"req"`
	St   map[string]string `json:"st"`
}

type vfC20Sys struct {
	n, min   int
	ro       bool
	udp, ip6 *BlackHoleSuccessCounter
	d        *blackHoleDetector
	rnd      *rand.Rand
	// L1 monitors over the real results only
	blockedRun map[string]int    // consecutive Blocked answers per counter
	ledger     map[string][]bool // outcomes recorded since the last clearing success
}

func vfC20New(n, min int, ro bool, seed int64) *vfC20Sys {
	s := &vfC20Sys{n: n, min: min, ro: ro, rnd: rand.New(rand.NewSource(seed))}
	s.udp = &BlackHoleSuccessCounter{N: n, MinSuccesses: min, Name: "UDP"}
	s.ip6 = &BlackHoleSuccessCounter{N: n, MinSuccesses: min, Name: "IPv6"}
	s.d = &blackHoleDetector{udp: s.udp, ipv6: s.ip6, readOnly: ro}
	s.blockedRun = map[string]int{}
	s.ledger = map[string][]bool{}
	return s
}

func (s *vfC20Sys) ctr(c string) *BlackHoleSuccessCounter {
	if c == "udp" {
		return s.udp
	}
	return s.ip6
}

var vfC20Parsed sync.Map

func (s *vfC20Sys) addr(k vfC20Kind) ma.Multiaddr {
	forms := vfC20Forms[k]
	f := forms[s.rnd.Intn(len(forms))]
	if a, ok := vfC20Parsed.Load(f); ok {
		return a.(ma.Multiaddr)
	}
	a := ma.StringCast(f)
	vfC20Parsed.Store(f, a)
	return a
}

// l1Record maintains the harness's own ledger and checks the two state clauses of the statement on
// the real object: blocked only after a full window with too few successes; a success while blocked
// clears it.
func (s *vfC20Sys) l1Record(c string, ok bool, before, after string) string {
	if before == "Blocked" && ok {
		s.ledger[c] = nil
		s.blockedRun[c] = 0
		if after == "Blocked" {
			return "success while blocked did not clear the blocked state"
		}
		return ""
	}
	s.ledger[c] = append(s.ledger[c], ok)
	if len(s.ledger[c]) > s.n {
		s.ledger[c] = s.ledger[c][1:]
	}
	if after == "Blocked" {
		succ := 0
		for _, b := range s.ledger[c] {
			if b {
				succ++
			}
		}
		if len(s.ledger[c]) < s.n || succ >= s.min {
			return fmt.Sprintf("blocked with window %v (N=%d, MinSuccesses=%d)", s.ledger[c], s.n, s.min)
		}
	}
	return ""
}

func (s *vfC20Sys) l1Handle(c string, res string) string {
	if res == "Blocked" {
		s.blockedRun[c]++
		if s.blockedRun[c] >= s.n {
			return fmt.Sprintf("%d consecutive requests refused without a probe (N=%d)", s.blockedRun[c], s.n)
		}
	} else {
		s.blockedRun[c] = 0
	}
	return ""
}

func (s *vfC20Sys) project() vfC20State {
	st := vfC20State{Win: map[string][]bool{}, Succ: map[string]int{}, Req: map[string]int{}, St: map[string]string{}}
	for _, c := range []string{"udp", "ipv6"} {
		p := vfC20Project(s.ctr(c))
		st.Win[c], st.Succ[c], st.Req[c], st.St[c] = p.Win, p.Succ, p.Req, p.St
	}
	return st
}

// step executes one model action on the real objects; returns (class, description) of an L1
// violation or of an L2 divergence ("L2:" prefix on class), or "" when everything agrees.
func (s *vfC20Sys) step(op vfh.Op) (string, string, any, any) {
	switch op.Name() {
	case "record":
		c := op.S("c")
		before := s.ctr(c).State().String()
		s.ctr(c).RecordResult(op.B("ok"))
		after := s.ctr(c).State().String()
		if msg := s.l1Record(c, op.B("ok"), before, after); msg != "" {
			return "record-state", msg, nil, after
		}
	case "handle":
		c := op.S("c")
		stBefore := s.ctr(c).State().String()
		res := s.ctr(c).HandleRequest().String()
		if msg := s.l1Handle(c, res); msg != "" {
			return "probe-starved", msg, op.S("res"), res
		}
		if res != op.S("res") {
			if stBefore == "Blocked" && (res == "Probing" || res == "Blocked") {
				return "L2:probe-phase", "probe phase differs from the model", op.S("res"), res
			}
			return "handle-result", fmt.Sprintf("HandleRequest in state %s", stBefore), op.S("res"), res
		}
	case "filter":
		kinds := vfC20Kinds(op.L("addrs"))
		var addrs []ma.Multiaddr
		kindOf := map[string]vfC20Kind{}
		for _, k := range kinds {
			a := s.addr(k)
			addrs = append(addrs, a)
			kindOf[a.String()] = k
		}
		s.rnd.Shuffle(len(addrs), func(i, j int) { addrs[i], addrs[j] = addrs[j], addrs[i] })
		stU, stV := s.udp.State().String(), s.ip6.State().String()
		before := s.project()
		valid, black := s.d.FilterAddrs(addrs)
		var got []string
		for _, a := range valid {
			got = append(got, kindOf[a.String()].key())
		}
		sort.Strings(got)
		var want []string
		for _, k := range vfC20Kinds(op.L("kept")) {
			want = append(want, k.key())
		}
		sort.Strings(want)
		if len(valid)+len(black) != len(addrs) {
			return "filter-partition", "valid+blackHoled is not a partition of the input", len(addrs), len(valid) + len(black)
		}
		// L1: unaffected addresses are never removed; removal only while that family is blocked
		for _, a := range black {
			k := kindOf[a.String()]
			if !k.Pub || (!k.UDP && !k.IP6) {
				return "filter-scope", fmt.Sprintf("removed unaffected address %s", a), want, got
			}
			if !((k.UDP && (stU == "Blocked" || (s.ro && stU != "Allowed"))) || (k.IP6 && (stV == "Blocked" || (s.ro && stV != "Allowed")))) {
				return "filter-scope", fmt.Sprintf("removed %s although no counter of its family is blocked (udp=%s ipv6=%s)", a, stU, stV), want, got
			}
		}
		if s.ro {
			if vfh.Canon(before) != vfh.Canon(s.project()) {
				return "readonly-mutates", "FilterAddrs changed counter state in read-only mode", before, s.project()
			}
			// refuses unless known-good
			for _, a := range valid {
				k := kindOf[a.String()]
				if k.Pub && ((k.UDP && stU != "Allowed") || (k.IP6 && stV != "Allowed")) {
					return "readonly-admits", fmt.Sprintf("read-only detector admitted %s with udp=%s ipv6=%s", a, stU, stV), want, got
				}
			}
		} else {
			// infer each consulted counter's real answer from an address that belongs to that family
			// only, and feed the probe monitor with it
			for _, c := range []string{"udp", "ipv6"} {
				consulted, inferred := false, false
				for _, k := range kinds {
					if k.Pub && ((c == "udp" && k.UDP) || (c == "ipv6" && k.IP6)) {
						consulted = true
					}
				}
				for _, k := range kinds {
					only := k.Pub && ((c == "udp" && k.UDP && !k.IP6) || (c == "ipv6" && k.IP6 && !k.UDP))
					if !only {
						continue
					}
					ans := "NotBlocked"
					if !vfC20Has(got, k.key()) {
						ans = "Blocked"
					}
					inferred = true
					if msg := s.l1Handle(c, ans); msg != "" {
						return "probe-starved", msg, want, got
					}
					break
				}
				if consulted && !inferred {
					s.blockedRun[c] = 0 // answer not observable from this call: the monitor starts over (never alarms on a guess)
				}
			}
		}
		if fmt.Sprint(got) != fmt.Sprint(want) {
			phaseOnly := !s.ro
			for _, k := range kinds {
				if vfC20Has(want, k.key()) == vfC20Has(got, k.key()) {
					continue
				}
				if !(k.Pub && ((k.UDP && stU == "Blocked") || (k.IP6 && stV == "Blocked"))) {
					phaseOnly = false
				}
			}
			if phaseOnly {
				return "L2:probe-phase", "filter result differs from the model only in probe phase", want, got
			}
			return "filter-result", fmt.Sprintf("FilterAddrs(%v) udp=%s ipv6=%s", addrs, stU, stV), want, got
		}
	case "drecord":
		k := vfC20KindOne(op.M("addr"))
		a := s.addr(k)
		before := s.project()
		s.d.RecordResult(a, op.B("ok"))
		after := s.project()
		for _, c := range []string{"udp", "ipv6"} {
			touched := !s.ro && k.Pub && ((c == "udp" && k.UDP) || (c == "ipv6" && k.IP6))
			if !touched {
				if vfh.Canon(vfC20Sub(before, c)) != vfh.Canon(vfC20Sub(after, c)) {
					cls := "drecord-scope"
					if s.ro {
						cls = "readonly-mutates"
					}
					return cls, fmt.Sprintf("RecordResult(%s) changed the %s counter", a, c), vfC20Sub(before, c), vfC20Sub(after, c)
				}
				continue
			}
			if msg := s.l1Record(c, op.B("ok"), before.St[c], after.St[c]); msg != "" {
				return "record-state", msg, nil, after.St[c]
			}
		}
	default:
		return "L2:unknown-op", "unknown op " + op.Name(), nil, nil
	}
	return "", "", nil, nil
}

func vfC20KeysOf(l []any) []string {
	var out []string
	for _, k := range vfC20Kinds(l) {
		out = append(out, k.key())
	}
	sort.Strings(out)
	return out
}
func vfC20Has(l []string, k string) bool {
	for _, e := range l {
		if e == k {
			return true
		}
	}
	return false
}
func vfC20Sub(s vfC20State, c string) any {
	return map[string]any{"win": s.Win[c], "succ": s.Succ[c], "req": s.Req[c], "st": s.St[c]}
}

func vfC20StateEq(model []byte, real vfC20State) (bool, bool, string) {
	// returns (observable state equal, internal state equal, canonical model)
	var m map[string]any
	if err := jsonUnmarshalVF(model, &m); err != nil {
		return false, false, string(model)
	}
	delete(m, "run")
	obsM := vfh.Canon(m["st"])
	obsR := vfh.Canon(real.St)
	// normalise nil vs empty windows
	for c, w := range real.Win {
		if w == nil {
			real.Win[c] = []bool{}
		}
	}
	return obsM == obsR, vfh.Canon(m) == vfh.Canon(real), vfh.Canon(m)
}

func TestVerifC20Replay(t *testing.T) {
	res := vfh.NewResult()
	defer func() {
		if err := res.Write(); err != nil {
			t.Fatal(err)
		}
	}()
	files, _ := filepath.Glob(filepath.Join(vfh.In(), "*.jsonl"))
	if len(files) == 0 {
		t.Fatalf("no behaviour files in %q", vfh.In())
	}
	res.Rule = "one case = one (model instance, source state, action+arguments) transition executed on the real counter/detector; distinct = distinct such transitions; all are non-trivial (each compares a result or a state)"
	var wg sync.WaitGroup
	defer wg.Wait()
	for _, f := range files {
		hdr, walks, err := vfh.LoadWalks(f)
		if err != nil {
			t.Fatalf("%s: %v", f, err)
		}
		wg.Add(1)
		go func() {
			defer wg.Done()
			n, min := int(hdr["N"].(float64)), int(hdr["MinSucc"].(float64))
			ro, _ := hdr["ReadOnly"].(bool)
			inst := fmt.Sprintf("N%d/M%d/ro=%v", n, min, ro)
			for _, w := range walks {
				sys := vfC20New(n, min, ro, vfh.Seed()*7919+int64(w.Walk))
				var prefix []vfh.Op
				prevKey := string(w.Init)
				loose := false // the real object and the model are out of step: only the model-free clauses are judged
				for i, st := range w.Steps {
					prefix = append(prefix, st.Op)
					cls, what, exp, got := sys.step(st.Op)
					res.Case(inst + "|" + prevKey + "|" + vfh.Canon(st.Op))
					prevKey = string(st.State)
					if loose && (cls == "filter-result" || strings.HasPrefix(cls, "L2:")) {
						cls = ""
					}
					if cls == "" && !loose {
						obsEq, allEq, mcanon := vfC20StateEq(st.State, sys.project())
						if !obsEq {
							// State() is public; but cross-check with the L1 monitors: they ran in step().
							cls, what, exp, got = "state", "State() after "+st.Op.Name(), mcanon, sys.project()
						} else if !allEq {
							cls, what, exp, got = "L2:internal", "internal counter fields differ from the model", mcanon, sys.project()
						}
					}
					res.Count(0, 1)
					if cls != "" {
						res.AddMismatch(vfh.Mismatch{Class: cls, What: what, Walk: w.Walk, Step: i, Expected: exp, Got: got,
							Prefix: prefix, Cfg: map[string]any{"N": n, "MinSucc": min, "ReadOnly": ro, "file": filepath.Base(f)}})
						if strings.HasPrefix(cls, "L2:") {
							loose = true // keep going: the rest of the walk is still a legal history for the real object
							continue
						}
						break
					}
				}
				res.Count(1, 0)
				if w.Walk == 0 && len(w.Steps) > 0 {
					k := 8
					if len(w.Steps) < k {
						k = len(w.Steps)
					}
					res.Sample(map[string]any{"instance": inst, "first_steps": w.Steps[:k]})
				}
			}
		}()
	}
	_ = os.Stdout
}

// TestVerifC20Production drives the production parameters (N=100, MinSuccesses=5) with long seeded
// sequences and checks the statement's clauses with the L1 monitors (no model state needed).
func TestVerifC20Production(t *testing.T) {
	res := vfh.NewResult()
	defer res.Write()
	res.Rule = "one case = one seeded sequence of RecordResult/HandleRequest/FilterAddrs calls at N=100, MinSuccesses=5; monitors: blocked only after a full window with <5 successes, a success while blocked clears, at most N-1 consecutive refusals"
	seqs := 40
	if vfh.Thorough() {
		seqs = 400
	}
	for i := 0; i < seqs; i++ {
		sys := vfC20New(100, 5, false, vfh.Seed()*104729+int64(i))
		pSucc := []float64{0.0, 0.02, 0.04, 0.06, 0.5}[i%5]
		steps := 0
		var bad string
		for j := 0; j < 3000 && bad == ""; j++ {
			c := []string{"udp", "ipv6"}[sys.rnd.Intn(2)]
			steps++
			if sys.rnd.Intn(3) == 0 {
				r := sys.ctr(c).HandleRequest().String()
				bad = sys.l1Handle(c, r)
			} else {
				ok := sys.rnd.Float64() < pSucc
				if j > 1500 && i%2 == 0 {
					ok = sys.rnd.Float64() < 0.5 // dials start succeeding again
				}
				before := sys.ctr(c).State().String()
				sys.ctr(c).RecordResult(ok)
				bad = sys.l1Record(c, ok, before, sys.ctr(c).State().String())
			}
		}
		res.Count(1, steps)
		res.Case(fmt.Sprintf("prod-%d-%v", i, pSucc))
		if bad != "" {
			res.AddMismatch(vfh.Mismatch{Class: "production-" + bad[:10], What: bad, Walk: -1, Step: steps, Cfg: map[string]any{"N": 100, "MinSucc": 5, "seq": i}})
		}
	}
}
