//go:build verif

package swarm

import (
	"context"
	"encoding/json"
	"errors"

	"github.com/libp2p/go-libp2p/core/peer"

	ma "github.com/multiformats/go-multiaddr"
)

func jsonUnmarshalVF(b []byte, v any) error { return json.Unmarshal(b, v) }

// vfDNS is a scripted network.MultiaddrDNSResolver: /dnsaddr names map to whole address lists, /dns4 and
// /dns6 names to IP prefixes.  No network.
type vfDNS struct {
	addr map[string][]ma.Multiaddr
	host map[string][]string
}

func (d *vfDNS) ResolveDNSAddr(_ context.Context, _ peer.ID, maddr ma.Multiaddr, _ int, limit int) ([]ma.Multiaddr, error) {
	name, err := maddr.ValueForProtocol(ma.P_DNSADDR)
	if err != nil {
		return nil, err
	}
	out, ok := d.addr[name]
	if !ok {
		return nil, errors.New("verif: no such dnsaddr name")
	}
	if len(out) > limit {
		out = out[:limit]
	}
	return append([]ma.Multiaddr(nil), out...), nil
}

func (d *vfDNS) ResolveDNSComponent(_ context.Context, maddr ma.Multiaddr, limit int) ([]ma.Multiaddr, error) {
	first, rest := ma.SplitFirst(maddr)
	if first == nil {
		return nil, errors.New("verif: empty address")
	}
	ips, ok := d.host[first.Value()]
	if !ok {
		return nil, errors.New("verif: no such host name")
	}
	var out []ma.Multiaddr
	for _, ip := range ips {
		if len(out) == limit {
			break
		}
		out = append(out, ma.StringCast(ip).Encapsulate(rest))
	}
	return out, nil
}
