//go:build verif

package swarm

import "encoding/json"

func jsonUnmarshalVF(b []byte, v any) error { return json.Unmarshal(b, v) }
