//go:build verif

package swarm

// C05, extension engine "dial back-off" (spec/C05_Backoff.tla, spec/C05_BackoffObs.tla).
//
// (a) TestVerifC05boReplay: every transition of the TLC state graph of the object-level instances is driven through a
//     real DialBackoff inside a synctest bubble (time.Now is virtual; the cleanup goroutine is the real one, started by
//     init(ctx) and cancelled inside the bubble).  One model tick is BackoffBase/Base of real time.  After every step
//     the answers of Backoff() for every (peer, address) are compared with the answers TLC computed for the state
//     (L1: the object is public through Swarm.Backoff()), and the entries map is compared in-package (L2).  A tick is
//     walked in three sleeps so that Backoff() is also asked 1 ns after the old instant and 1 ns before the new one.
// (b) TestVerifC05boSwarm: a real Swarm with scripted transports in a synctest bubble; the same addresses fail in
//     consecutive generations of DialPeer callers at scripted instants (exactly at / 1 ms around the end of a
//     back-off, right after a success, force-direct, ...).  Only observables are recorded; TLC decides whether each
//     recorded execution is a behaviour of spec/C05_BackoffObs.tla.

import (
	"context"
	"encoding/json"
	"errors"
	"fmt"
	"hash/fnv"
	"math/rand"
	"os"
	"path/filepath"
	"sort"
	"sync"
	"testing"
	"testing/synctest"
	"time"

	"github.com/libp2p/go-libp2p/core/network"
	"github.com/libp2p/go-libp2p/core/peer"
	"github.com/libp2p/go-libp2p/core/peerstore"
	"github.com/libp2p/go-libp2p/core/transport"
	"github.com/libp2p/go-libp2p/internal/vfh"
	"github.com/libp2p/go-libp2p/p2p/host/eventbus"
	"github.com/libp2p/go-libp2p/p2p/host/peerstore/pstoremem"
	ma "github.com/multiformats/go-multiaddr"
	mafmt "github.com/multiformats/go-multiaddr-fmt"
)

// ---------------------------------------------------------------------------------------------
// (a) replay on the real DialBackoff
// ---------------------------------------------------------------------------------------------

type vfC05boEnt struct {
	Tries int `json:"tries"`
	Until int `json:"until"`
}

type vfC05boState struct {
	Now int                              `json:"now"`
	Due bool                             `json:"due"`
	Ent map[string]map[string]vfC05boEnt `json:"ent"`
	Inb map[string]map[string]bool       `json:"inb"`
}

var vfC05boAddrOf = map[string]ma.Multiaddr{
	"a1": ma.StringCast("/ip4/1.2.3.4/tcp/4001"),
	"a2": ma.StringCast("/ip4/1.2.3.4/udp/4001/quic-v1"),
	"a3": ma.StringCast("/ip6/2001:db8::1/tcp/4001"),
}

func vfC05boPeer(name string) peer.ID { return peer.ID("vf-c05bo-" + name) }

type vfC05boObj struct {
	db     *DialBackoff
	t0     time.Time
	unit   time.Duration
	peers  []string
	addrs  []string
	cancel context.CancelFunc
}

// answers of the public Backoff() for every (peer, address)
func (o *vfC05boObj) answers() map[string]map[string]bool {
	out := map[string]map[string]bool{}
	for _, p := range o.peers {
		out[p] = map[string]bool{}
		for _, a := range o.addrs {
			out[p][a] = o.db.Backoff(vfC05boPeer(p), vfC05boAddrOf[a])
		}
	}
	return out
}

// in-package projection of the entries map; an `until` that is not a whole number of ticks is reported as it is
func (o *vfC05boObj) entries() (map[string]map[string]vfC05boEnt, string) {
	out := map[string]map[string]vfC05boEnt{}
	odd := ""
	o.db.lock.RLock()
	defer o.db.lock.RUnlock()
	for _, p := range o.peers {
		out[p] = map[string]vfC05boEnt{}
		m, ok := o.db.entries[vfC05boPeer(p)]
		if ok && len(m) == 0 {
			odd += fmt.Sprintf("empty inner map for %s; ", p)
		}
		for _, a := range o.addrs {
			e := m[string(vfC05boAddrOf[a].Bytes())]
			if e == nil {
				out[p][a] = vfC05boEnt{}
				continue
			}
			d := e.until.Sub(o.t0)
			if d%o.unit != 0 {
				odd += fmt.Sprintf("%s/%s until=t0+%v; ", p, a, d)
			}
			out[p][a] = vfC05boEnt{Tries: e.tries, Until: int(d / o.unit)}
		}
	}
	if n := len(o.db.entries); n > len(o.peers) {
		odd += fmt.Sprintf("%d peers in the map; ", n)
	}
	return out, odd
}

func vfC05boSameAnswers(a, b map[string]map[string]bool) bool {
	if len(a) != len(b) {
		return false
	}
	for p, m := range a {
		n, ok := b[p]
		if !ok || len(m) != len(n) {
			return false
		}
		for k, v := range m {
			if w, ok := n[k]; !ok || w != v {
				return false
			}
		}
	}
	return true
}

func vfC05boSameEntries(a, b map[string]map[string]vfC05boEnt) bool {
	if len(a) != len(b) {
		return false
	}
	for p, m := range a {
		n, ok := b[p]
		if !ok || len(m) != len(n) {
			return false
		}
		for k, v := range m {
			if w, ok := n[k]; !ok || w != v {
				return false
			}
		}
	}
	return true
}

func vfC05boBoolMap(v any) map[string]map[string]bool {
	out := map[string]map[string]bool{}
	m, _ := v.(map[string]any)
	for p, x := range m {
		out[p] = map[string]bool{}
		mm, _ := x.(map[string]any)
		for a, y := range mm {
			out[p][a], _ = y.(bool)
		}
	}
	return out
}

// one walk inside its own bubble
func vfC05boReplayWalk(t *testing.T, res *vfh.Result, inst string, hdr map[string]any, w vfh.Walk, unit time.Duration) {
	var init vfC05boState
	if err := json.Unmarshal(w.Init, &init); err != nil {
		t.Fatalf("init state: %v", err)
	}
	o := &vfC05boObj{db: &DialBackoff{}, t0: time.Now(), unit: unit}
	for p := range init.Ent {
		o.peers = append(o.peers, p)
	}
	sort.Strings(o.peers)
	for a := range init.Ent[o.peers[0]] {
		o.addrs = append(o.addrs, a)
	}
	sort.Strings(o.addrs)
	ctx, cancel := context.WithCancel(context.Background())
	o.db.init(ctx) // starts the real cleanup goroutine (ticker of period BackoffMax)
	defer func() {
		cancel()
		synctest.Wait()
	}()
	prev := init
	prevRaw := []byte(w.Init)
	l2seen := false
	report := func(i int, cls, what string, exp, got any) {
		var prefix []vfh.Op
		for _, st := range w.Steps[:i+1] {
			prefix = append(prefix, st.Op)
		}
		res.AddMismatch(vfh.Mismatch{Class: cls, What: what, Walk: w.Walk, Step: i, Expected: exp, Got: got,
			Prefix: prefix, Cfg: map[string]any{"instance": inst, "unit": unit.String(), "header": hdr}})
	}
	steps := 0
	defer func() { res.Count(1, steps) }()
	for i, st := range w.Steps {
		var cur vfC05boState
		if err := json.Unmarshal(st.State, &cur); err != nil {
			t.Fatalf("state: %v", err)
		}
		name := st.Op.Name()
		h := fnv.New64a()
		h.Write(prevRaw)
		h.Write([]byte(name + st.Op.S("p") + st.Op.S("a")))
		res.Case(inst + string(h.Sum(nil)))
		prevRaw = st.State
		bad := false
		switch name {
		case "add":
			o.db.AddBackoff(vfC05boPeer(st.Op.S("p")), vfC05boAddrOf[st.Op.S("a")])
		case "clear":
			o.db.Clear(vfC05boPeer(st.Op.S("p")))
		case "tick":
			// 1 ns after the old instant: the same answers as at the old instant
			time.Sleep(time.Nanosecond)
			if got := o.answers(); !vfC05boSameAnswers(got, prev.Inb) {
				report(i, "backoff-answer", fmt.Sprintf("Backoff() 1 ns after tick %d", prev.Now), prev.Inb, got)
				bad = true
			}
			// 1 ns before the new instant
			time.Sleep(unit - 2*time.Nanosecond)
			if got, exp := o.answers(), vfC05boBoolMap(st.Op["before"]); !vfC05boSameAnswers(got, exp) {
				report(i, "backoff-answer", fmt.Sprintf("Backoff() 1 ns before tick %d", cur.Now), exp, got)
				bad = true
			}
			time.Sleep(time.Nanosecond)
			synctest.Wait() // if the ticker fired at this instant the cleanup goroutine has run now
		case "cleanup":
			// done by the real goroutine when its ticker fired
		default:
			t.Fatalf("unknown op %q", name)
		}
		if got := time.Since(o.t0); got != time.Duration(cur.Now)*unit {
			t.Fatalf("harness clock %v, model tick %d", got, cur.Now)
		}
		if got := o.answers(); !vfC05boSameAnswers(got, cur.Inb) {
			report(i, "backoff-answer", fmt.Sprintf("Backoff() after %s at tick %d", name, cur.Now), cur.Inb, got)
			bad = true
		}
		if !cur.Due && !l2seen { // while a cleanup is due in the model the real goroutine is already ahead
			got, odd := o.entries()
			if odd != "" || !vfC05boSameEntries(got, cur.Ent) {
				report(i, "L2:backoff-entries", "entries map after "+name+" "+odd, cur.Ent, got)
				l2seen = true // internal divergence: keep checking the answers (L1) on the rest of the walk
			}
		}
		steps++
		prev = cur
		if bad {
			break
		}
	}
}

func TestVerifC05boReplay(t *testing.T) {
	res := vfh.NewResult()
	defer func() {
		if err := res.Write(); err != nil {
			t.Fatal(err)
		}
	}()
	files, _ := filepath.Glob(filepath.Join(vfh.In(), "*.jsonl"))
	if len(files) == 0 {
		t.Fatalf("no behaviour files in %q", vfh.In())
	}
	res.Rule = "one case = one (instance, source state, action) transition of the TLC graph executed on a real DialBackoff under virtual time; Backoff() of every (peer, address) compared after every step and 1 ns around every tick, entries map compared in-package"
	oldB, oldC, oldM := BackoffBase, BackoffCoef, BackoffMax
	defer func() { BackoffBase, BackoffCoef, BackoffMax = oldB, oldC, oldM }()
	type job struct {
		inst string
		hdr  map[string]any
		w    vfh.Walk
	}
	var jobs []job
	var unit time.Duration
	sched := ""
	for _, f := range files {
		hdr, walks, err := vfh.LoadWalks(f)
		if err != nil {
			t.Fatalf("%s: %v", f, err)
		}
		num := func(k string) int { v, _ := hdr[k].(float64); return int(v) }
		base, coef, max := num("Base"), num("Coef"), num("Max")
		if base <= 0 || max <= 0 {
			t.Fatalf("%s: header without schedule constants: %v", f, hdr)
		}
		if s := fmt.Sprint(base, coef, max); sched == "" {
			sched = s
		} else if s != sched {
			t.Fatalf("%s: the instances of one run must share the schedule constants (%s vs %s)", f, s, sched)
		}
		// scale: one model tick = (default BackoffBase) / Base, so that BackoffBase keeps its real value
		unit = oldB / time.Duration(base)
		BackoffBase, BackoffCoef, BackoffMax = time.Duration(base)*unit, time.Duration(coef)*unit, time.Duration(max)*unit
		for _, w := range walks {
			jobs = append(jobs, job{filepath.Base(f), hdr, w})
			if w.Walk == 1 && len(w.Steps) > 0 {
				res.Sample(map[string]any{"instance": filepath.Base(f), "unit": unit.String(), "first_steps": w.Steps[:min(10, len(w.Steps))]})
			}
		}
	}
	// the walks are independent (one bubble, one DialBackoff each): four chunks side by side
	const chunks = 4
	t.Run("walks", func(t *testing.T) {
		for c := 0; c < chunks; c++ {
			t.Run(fmt.Sprint("chunk", c), func(t *testing.T) {
				t.Parallel()
				for i := c; i < len(jobs); i += chunks {
					j := jobs[i]
					synctest.Test(t, func(t *testing.T) { vfC05boReplayWalk(t, res, j.inst, j.hdr, j.w, unit) })
				}
			})
		}
	})
}

// ---------------------------------------------------------------------------------------------
// (b) generations of callers on a real Swarm
// ---------------------------------------------------------------------------------------------

type vfC05boOut struct {
	Kind  string // ok | fail | hang | canceled
	Delay time.Duration
}

type vfC05boAddr struct {
	Key   string // "p1/a1"
	Peer  string
	Addr  ma.Multiaddr
	Relay bool
	Outs  []vfC05boOut // outcome of the 1st, 2nd, ... attempt (the last one repeats)
}

type vfC05boCaller struct {
	Peer   string
	Offset time.Duration
	Force  bool
}

type vfC05boStep struct {
	Op      string // gen | sleep | until | failplus | close | probe
	Callers []vfC05boCaller
	D       time.Duration
	Key     string
}

type vfC05boScenario struct {
	Seed            int64
	Template        string
	Base, Coef, Max time.Duration
	Addrs           []*vfC05boAddr
	Steps           []vfC05boStep
}

type vfC05boRun struct {
	sc       *vfC05boScenario
	tr       *vfh.Trace
	t0       time.Time
	mu       sync.Mutex
	byAddr   map[string]*vfC05boAddr // peer name + "|" + addr bytes
	attempt  map[string]int
	lastFail map[string]time.Duration
	local    peer.ID
	names    map[peer.ID]string
	ncall    int
}

func (r *vfC05boRun) now() int64 {
	d := time.Since(r.t0)
	if d%time.Millisecond != 0 {
		panic(fmt.Sprintf("verif: instant %v is not a whole number of milliseconds", d))
	}
	return int64(d / time.Millisecond)
}

type vfC05boTpt struct {
	r      *vfC05boRun
	protos []int
	proxy  bool
	match  func(ma.Multiaddr) bool
}

func (t *vfC05boTpt) CanDial(a ma.Multiaddr) bool { return t.match(a) }
func (t *vfC05boTpt) Listen(ma.Multiaddr) (transport.Listener, error) {
	return nil, errors.New("verif: no listening")
}
func (t *vfC05boTpt) Protocols() []int { return t.protos }
func (t *vfC05boTpt) Proxy() bool      { return t.proxy }
func (t *vfC05boTpt) Dial(ctx context.Context, raddr ma.Multiaddr, p peer.ID) (transport.CapableConn, error) {
	r := t.r
	r.mu.Lock()
	pn := r.names[p]
	a := r.byAddr[pn+"|"+string(raddr.Bytes())]
	if a == nil {
		r.mu.Unlock()
		r.tr.Emit("tdial_unknown", "addr", raddr.String(), "t", r.now())
		return nil, errors.New("verif: unknown address")
	}
	k := r.attempt[a.Key]
	r.attempt[a.Key] = k + 1
	out := a.Outs[len(a.Outs)-1]
	if k < len(a.Outs) {
		out = a.Outs[k]
	}
	r.mu.Unlock()
	r.tr.Emit("tdial_start", "k", a.Key, "p", a.Peer, "t", r.now())
	end := func(res string) {
		if res == "fail" || res == "timeout" {
			r.mu.Lock()
			r.lastFail[a.Key] = time.Since(r.t0)
			r.mu.Unlock()
		}
		r.tr.Emit("tdial_end", "k", a.Key, "p", a.Peer, "res", res, "t", r.now())
	}
	ctxRes := func() string {
		if errors.Is(ctx.Err(), context.DeadlineExceeded) {
			return "timeout" // the dial job's own timeout: a failed attempt
		}
		return "cancel"
	}
	tm := time.NewTimer(out.Delay)
	defer tm.Stop()
	select {
	case <-tm.C:
	case <-ctx.Done():
		end(ctxRes())
		return nil, ctx.Err()
	}
	switch out.Kind {
	case "hang":
		<-ctx.Done()
		end(ctxRes())
		return nil, ctx.Err()
	case "fail":
		end("fail")
		return nil, errors.New("verif: scripted dial failure")
	case "canceled":
		// a transport whose own machinery was cancelled while the swarm's callers are still waiting
		end("canceled")
		return nil, context.Canceled
	}
	c := newVfStubConn("", r.local, p, ma.StringCast("/ip4/127.0.0.1/tcp/1"), raddr, a.Relay)
	c.Tpt = t
	end("ok")
	return c, nil
}

const vfC05boRelayID = "12D3KooWD3eckifWpRn9wQpMG9R9hX3sD158z7EqHWmweQAJU5SA"

func vfC05boGen(seed int64, idx int) *vfC05boScenario {
	rnd := rand.New(rand.NewSource(seed))
	ms := func(n int) time.Duration { return time.Duration(n) * time.Millisecond }
	sc := &vfC05boScenario{Seed: seed, Base: 5 * time.Second, Coef: time.Second, Max: 5 * time.Minute}
	small := func() { sc.Base, sc.Coef, sc.Max = 2*time.Second, time.Second, 5*time.Second }
	mk := func(p, a, s string, relay bool, outs ...vfC05boOut) *vfC05boAddr {
		x := &vfC05boAddr{Key: p + "/" + a, Peer: p, Addr: ma.StringCast(s), Relay: relay, Outs: outs}
		sc.Addrs = append(sc.Addrs, x)
		return x
	}
	fail := func(n int) vfC05boOut { return vfC05boOut{"fail", ms(n)} }
	okay := func(n int) vfC05boOut { return vfC05boOut{"ok", ms(n)} }
	step := func(s vfC05boStep) { sc.Steps = append(sc.Steps, s) }
	gen := func(cs ...vfC05boCaller) { step(vfC05boStep{Op: "gen", Callers: cs}) }
	one := func(p string) { gen(vfC05boCaller{Peer: p}) }
	until := func(key string, d time.Duration) { step(vfC05boStep{Op: "until", Key: key, D: d}) }
	failplus := func(key string, d time.Duration) { step(vfC05boStep{Op: "failplus", Key: key, D: d}) }
	sleep := func(d time.Duration) { step(vfC05boStep{Op: "sleep", D: d}) }
	closeAll := func() { step(vfC05boStep{Op: "close"}) }
	tcp1, tcp2, quic1 := "/ip4/1.2.3.4/tcp/4001", "/ip4/1.2.3.5/tcp/4002", "/ip4/1.2.3.4/udp/4001/quic-v1"
	relay1 := "/ip4/9.9.9.9/tcp/4001/p2p/" + vfC05boRelayID + "/p2p-circuit"
	lat := func() int { return 10 * (2 + rnd.Intn(30)) }
	// generations around the end of a back-off: 1 ms before (refused), exactly at it and later (dialled)
	deltas := []time.Duration{-ms(1), 0, 0, ms(1), ms(10 * rnd.Intn(200))}
	switch idx % 15 {
	case 0:
		// the whole default schedule up to the cap: 5 s, 6 s, 9 s, ... 294 s, 300 s, 300 s
		sc.Template = "ladder-default"
		mk("p1", "a1", tcp1, false, fail(lat()))
		one("p1")
		for i := 0; i < 21; i++ {
			d := deltas[rnd.Intn(len(deltas))]
			until("p1/a1", d)
			one("p1")
			if d < 0 {
				until("p1/a1", 0)
				one("p1")
			}
		}
		failplus("p1/a1", sc.Max-ms(1)) // the cap: refused 1 ms before Max after the failure, dialled at Max
		one("p1")
		failplus("p1/a1", sc.Max)
		one("p1")
	case 1:
		sc.Template = "ladder-small"
		small()
		mk("p1", "a1", tcp1, false, fail(lat()))
		mk("p1", "a2", quic1, false, fail(lat()))
		one("p1")
		for i := 0; i < 8; i++ {
			k := []string{"p1/a1", "p1/a2"}[rnd.Intn(2)]
			until(k, deltas[rnd.Intn(len(deltas))])
			one("p1")
		}
		failplus("p1/a1", sc.Max-ms(1))
		one("p1")
		failplus("p1/a1", sc.Max)
		one("p1")
	case 2:
		// a success forgives: the next generation dials at once and the schedule starts again from Base
		sc.Template = "success-clears"
		mk("p1", "a1", tcp1, false, fail(lat()), fail(lat()), fail(lat()), okay(lat()), fail(lat()))
		one("p1")
		for i := 0; i < 3; i++ {
			until("p1/a1", 0)
			one("p1")
		}
		closeAll()
		one("p1")
		until("p1/a1", -ms(1))
		one("p1")
		until("p1/a1", 0)
		one("p1")
	case 3:
		// a success over one address clears the back-off of the peer's other addresses
		sc.Template = "success-other-address"
		mk("p1", "a1", tcp1, false, fail(lat()))
		mk("p1", "a2", quic1, false, fail(lat()), fail(lat()), okay(lat()), fail(lat()))
		one("p1")
		until("p1/a1", 0)
		one("p1")
		until("p1/a2", 0) // a1 (dialled after a2) is still in back-off
		one("p1")
		closeAll()
		one("p1")
	case 4:
		// force-direct ignores back-off (and never uses the relay address)
		sc.Template = "force-direct"
		mk("p1", "a1", tcp1, false, fail(lat()))
		mk("p1", "r1", relay1, true, fail(lat()))
		one("p1")
		sleep(ms(10 * (1 + rnd.Intn(100))))
		gen(vfC05boCaller{Peer: "p1", Force: true})
		sleep(ms(10 * (1 + rnd.Intn(100))))
		one("p1")
		until("p1/a1", -ms(1))
		gen(vfC05boCaller{Peer: "p1", Force: true})
		until("p1/a1", 0)
		one("p1")
	case 5:
		// a failure after the worker obtained a connection adds no back-off
		sc.Template = "connected-no-backoff"
		mk("p1", "t1", tcp1, false, fail(2000), fail(lat()))
		mk("p1", "r1", relay1, true, okay(100), fail(lat()))
		gen(vfC05boCaller{Peer: "p1"}, vfC05boCaller{Peer: "p1", Offset: ms(53), Force: true})
		closeAll()
		one("p1")
	case 6, 7:
		// an address refused for back-off is retried by a later request of the same worker
		sc.Template = "retry-same-worker"
		mk("p1", "a1", tcp1, false, fail(1000), fail(100))
		mk("p1", "a2", quic1, false, fail(100), vfC05boOut{"hang", 0}, fail(100))
		one("p1")
		until("p1/a2", 0)
		if idx%15 == 6 {
			gen(vfC05boCaller{Peer: "p1"}, vfC05boCaller{Peer: "p1", Offset: ms(1503 + 10*rnd.Intn(100))})
		} else {
			sc.Template = "retry-same-worker-force"
			gen(vfC05boCaller{Peer: "p1"}, vfC05boCaller{Peer: "p1", Offset: ms(303 + 10*rnd.Intn(20)), Force: true})
		}
		until("p1/a1", 0)
		one("p1")
	case 8:
		// cleanup forgets a peer whose entries have all been expired for their next duration
		sc.Template = "cleanup-small"
		small()
		mk("p1", "a1", tcp1, false, fail(100))
		sleep(ms(100))
		one("p1") // fails at 200: until 2200, good until 5200: kept at 5000, removed at 10000
		if rnd.Intn(2) == 0 {
			sleep(ms(6800)) // 7000: after the cleanup that kept it
			one("p1")
			sleep(ms(20000))
		} else {
			sleep(ms(10300))
		}
		one("p1") // starts again from Base
		failplus("p1/a1", sc.Base-ms(1))
		one("p1")
		failplus("p1/a1", sc.Base)
		one("p1")
	case 9:
		// cleanup works per peer: the old entry of one address survives while another address keeps failing
		sc.Template = "cleanup-peer-granularity"
		small()
		mk("p1", "a2", tcp1, false, fail(100))
		mk("p1", "r1", relay1, true, fail(100))
		one("p1")
		for i := 0; i < 6; i++ {
			until("p1/a2", 0)
			gen(vfC05boCaller{Peer: "p1", Force: true})
		}
		until("p1/a2", 0)
		one("p1")
		failplus("p1/r1", sc.Base)
		one("p1")
		failplus("p1/r1", sc.Base+sc.Coef)
		one("p1")
	case 10:
		// two peers behind the same multiaddr: failures and successes of one never touch the other
		sc.Template = "two-peers-same-address"
		mk("p1", "a1", tcp1, false, fail(100))
		mk("p2", "a1", tcp1, false, fail(100), okay(100), fail(100))
		one("p1")
		one("p2")
		until("p1/a1", 0)
		one("p1")
		until("p2/a1", 0)
		one("p2")
		closeAll()
		one("p1")
		one("p2")
		gen(vfC05boCaller{Peer: "p1"}, vfC05boCaller{Peer: "p2", Offset: ms(3)})
	case 11:
		// a cancellation error is not a failure of the address
		sc.Template = "canceled-no-backoff"
		mk("p1", "a1", tcp1, false, vfC05boOut{"canceled", ms(lat())}, fail(lat()), vfC05boOut{"canceled", ms(lat())}, fail(lat()))
		one("p1")
		one("p1")
		until("p1/a1", 0)
		one("p1")
		one("p1")
		until("p1/a1", -ms(1))
		one("p1")
	case 12:
		// a force-direct caller joins a worker in which a caller that is not force-direct has already queued the
		// address (ranking delay not yet over): the code checks back-off with the first request's context
		sc.Template = "force-joins-queued"
		mk("p1", "a1", tcp1, false, fail(1000), fail(100))
		mk("p1", "a2", quic1, false, fail(100), vfC05boOut{"hang", 0}, fail(100))
		one("p1")
		until("p1/a2", 0)
		gen(vfC05boCaller{Peer: "p1"}, vfC05boCaller{Peer: "p1", Offset: ms(103), Force: true})
		until("p1/a1", 0)
		one("p1")
	default:
		sc.Template = "random"
		if rnd.Intn(2) == 0 {
			small()
		}
		forms := []struct {
			n, s  string
			relay bool
		}{{"a1", tcp1, false}, {"a2", quic1, false}, {"a3", tcp2, false}, {"r1", relay1, true}}
		rnd.Shuffle(len(forms), func(i, j int) { forms[i], forms[j] = forms[j], forms[i] })
		na := 1 + rnd.Intn(3)
		var keys []string
		for i := 0; i < na; i++ {
			var outs []vfC05boOut
			for k := 0; k < 6; k++ {
				kind := []string{"fail", "fail", "fail", "ok", "canceled"}[rnd.Intn(5)]
				outs = append(outs, vfC05boOut{kind, ms(lat())})
			}
			keys = append(keys, mk("p1", forms[i].n, forms[i].s, forms[i].relay, outs...).Key)
		}
		for g := 0; g < 7+rnd.Intn(5); g++ {
			k := keys[rnd.Intn(len(keys))]
			switch rnd.Intn(7) {
			case 0:
				until(k, -ms(1))
			case 1, 2:
				until(k, 0)
			case 3:
				failplus(k, sc.Base)
			case 4:
				failplus(k, sc.Max)
			case 5:
				sleep(ms(10 * (1 + rnd.Intn(800))))
			}
			cs := []vfC05boCaller{{Peer: "p1", Force: rnd.Intn(5) == 0}}
			if rnd.Intn(4) == 0 {
				cs = append(cs, vfC05boCaller{Peer: "p1", Offset: ms(3 + 10*rnd.Intn(60)), Force: rnd.Intn(4) == 0})
			}
			gen(cs...)
			closeAll()
		}
	}
	return sc
}

func vfC05boIsDialError(err error) bool {
	var de *DialError
	return errors.As(err, &de)
}

func vfC05boExecute(t *testing.T, sc *vfC05boScenario, tr *vfh.Trace) {
	BackoffBase, BackoffCoef, BackoffMax = sc.Base, sc.Coef, sc.Max
	ps, err := pstoremem.NewPeerstore()
	if err != nil {
		t.Fatal(err)
	}
	local := peer.ID("vf-local-c05bo")
	r := &vfC05boRun{sc: sc, tr: tr, t0: time.Now(), byAddr: map[string]*vfC05boAddr{}, attempt: map[string]int{},
		lastFail: map[string]time.Duration{}, local: local, names: map[peer.ID]string{}}
	sw, err := NewSwarm(local, ps, eventbus.NewBus()) // backf.init: the cleanup ticker starts now
	if err != nil {
		t.Fatal(err)
	}
	tcp := &vfC05boTpt{r: r, protos: []int{ma.P_TCP}, match: func(a ma.Multiaddr) bool { return mafmt.TCP.Matches(a) }}
	quic := &vfC05boTpt{r: r, protos: []int{ma.P_QUIC_V1}, match: func(a ma.Multiaddr) bool {
		_, err := a.ValueForProtocol(ma.P_QUIC_V1)
		return err == nil
	}}
	relay := &vfC05boTpt{r: r, protos: []int{ma.P_CIRCUIT}, proxy: true, match: func(a ma.Multiaddr) bool {
		_, err := a.ValueForProtocol(ma.P_CIRCUIT)
		return err == nil
	}}
	for _, tp := range []*vfC05boTpt{tcp, quic, relay} {
		if err := sw.AddTransport(tp); err != nil {
			t.Fatal(err)
		}
	}
	ms := func(d time.Duration) int64 { return int64(d / time.Millisecond) }
	tr.Emit("config", "base", ms(sc.Base), "coef", ms(sc.Coef), "max", ms(sc.Max), "template", sc.Template)
	pid := func(name string) peer.ID { return peer.ID("vf-remote-c05bo-" + name) }
	byKey := map[string]*vfC05boAddr{}
	for _, a := range sc.Addrs {
		r.names[pid(a.Peer)] = a.Peer
		r.byAddr[a.Peer+"|"+string(a.Addr.Bytes())] = a
		byKey[a.Key] = a
		ps.AddAddrs(pid(a.Peer), []ma.Multiaddr{a.Addr}, peerstore.PermanentAddrTTL)
		tr.Emit("addr", "k", a.Key, "p", a.Peer, "relay", a.Relay)
	}
	probe := func() {
		for _, a := range sc.Addrs {
			tr.Emit("probe", "k", a.Key, "res", sw.Backoff().Backoff(pid(a.Peer), a.Addr), "t", r.now())
		}
	}
	sleepTo := func(at time.Duration) {
		if d := at - time.Since(r.t0); d > 0 {
			time.Sleep(d)
		}
	}
	dial := func(c vfC05boCaller, name string) {
		time.Sleep(c.Offset)
		ctx := context.Background()
		if c.Force {
			ctx = network.WithForceDirectDial(ctx, "verif")
		}
		tr.Emit("dial_call", "c", name, "p", c.Peer, "force", c.Force, "t", r.now())
		conn, err := sw.DialPeer(ctx, pid(c.Peer))
		bo, fl := []string{}, []string{}
		switch {
		case err == nil:
			tr.Emit("dial_ret", "c", name, "res", "conn", "peer_ok", conn.RemotePeer() == pid(c.Peer), "bo", bo, "fl", fl, "t", r.now())
		case !vfC05boIsDialError(err) && (errors.Is(err, context.DeadlineExceeded) || errors.Is(err, context.Canceled)):
			// DialPeer's own timeout (the callers of these scenarios have no deadline of their own)
			tr.Emit("dial_ret", "c", name, "res", "ctx", "bo", bo, "fl", fl, "t", r.now())
		default:
			cause := "other"
			var de *DialError
			if errors.As(err, &de) {
				switch {
				case errors.Is(de.Cause, ErrAllDialsFailed):
					cause = "alldialsfailed"
				case errors.Is(de.Cause, ErrNoGoodAddresses):
					cause = "nogoodaddrs"
				case errors.Is(de.Cause, ErrNoAddresses):
					cause = "noaddrs"
				}
				for _, te := range de.DialErrors {
					k := "?" + te.Address.String()
					if a := r.byAddr[c.Peer+"|"+string(te.Address.Bytes())]; a != nil {
						k = a.Key
					}
					if errors.Is(te.Cause, ErrDialBackoff) {
						bo = append(bo, k)
					} else {
						fl = append(fl, k)
					}
				}
			}
			tr.Emit("dial_ret", "c", name, "res", "err", "cause", cause, "bo", bo, "fl", fl, "skipped", de != nil && de.Skipped > 0, "t", r.now())
		}
	}
	for _, st := range sc.Steps {
		switch st.Op {
		case "sleep":
			time.Sleep(st.D)
		case "until":
			// planning only: aim at the end of the back-off the real table holds for this address
			a := byKey[st.Key]
			sw.backf.lock.RLock()
			var at time.Duration = -1
			if e := sw.backf.entries[pid(a.Peer)][string(a.Addr.Bytes())]; e != nil {
				at = e.until.Sub(r.t0) + st.D
			}
			sw.backf.lock.RUnlock()
			sleepTo(at)
		case "failplus":
			r.mu.Lock()
			f, ok := r.lastFail[st.Key]
			r.mu.Unlock()
			if ok {
				sleepTo(f + st.D)
			}
		case "close":
			for _, a := range sc.Addrs {
				for _, c := range sw.ConnsToPeer(pid(a.Peer)) {
					c.Close()
				}
			}
			synctest.Wait()
			tr.Emit("conn_close", "t", r.now())
		case "gen":
			probe()
			var wg sync.WaitGroup
			for _, c := range st.Callers {
				r.ncall++
				name := fmt.Sprintf("c%d", r.ncall)
				wg.Add(1)
				go func() {
					defer wg.Done()
					dial(c, name)
				}()
			}
			wg.Wait()
			synctest.Wait()
			probe()
		}
	}
	// two more cleanup periods, then the table must answer "no" everywhere
	time.Sleep(3*sc.Max + time.Second)
	synctest.Wait()
	probe()
	tr.Emit("end", "t", r.now())
	sw.Close()
	ps.Close()
	synctest.Wait()
}

func TestVerifC05boSwarm(t *testing.T) {
	res := vfh.NewResult()
	defer func() {
		// the replay test owns <out>/result.json
		if out := vfh.Out(); out != "" {
			sub := filepath.Join(out, "swarm")
			os.MkdirAll(sub, 0o755)
			os.Setenv("VERIF_OUT", sub)
			defer os.Setenv("VERIF_OUT", out)
		}
		if err := res.Write(); err != nil {
			t.Fatal(err)
		}
	}()
	iters := vfh.EnvInt("VERIF_C05BO_ITERS", 28)
	res.Rule = "one case = one seeded scenario (template or random: 1-3 addresses of 1-2 peers with scripted outcome per attempt; consecutive generations of 1-2 DialPeer callers at instants aimed exactly at / 1 ms around the end of a back-off, right after a success, at failure+Base / +Max, force-direct or not) run on a real Swarm in virtual time; distinct = distinct recorded event sequences"
	oldB, oldC, oldM := BackoffBase, BackoffCoef, BackoffMax
	defer func() { BackoffBase, BackoffCoef, BackoffMax = oldB, oldC, oldM }()
	path := ""
	if vfh.Out() != "" {
		path = filepath.Join(vfh.Out(), "c05bo_traces.ndjson")
		os.Remove(path)
	}
	for i := 0; i < iters; i++ {
		seed := vfh.Seed()*1000033 + int64(i)
		sc := vfC05boGen(seed, i)
		tr := vfh.NewTrace(fmt.Sprintf("bo%d-%s", i, sc.Template))
		synctest.Test(t, func(t *testing.T) { vfC05boExecute(t, sc, tr) })
		res.Count(1, tr.Len())
		res.Inc("template-"+sc.Template, 1)
		sig := ""
		for _, e := range tr.Events() {
			sig += fmt.Sprint(e["ev"], e["c"], e["k"], e["res"], e["bo"], e["t"], ";")
		}
		res.Case(sig)
		if path != "" {
			if err := tr.AppendTo(path, map[string]any{"seed": seed, "template": sc.Template}); err != nil {
				t.Fatal(err)
			}
		}
		if i == 3 {
			evs := tr.Events()
			if len(evs) > 40 {
				evs = evs[:40]
			}
			res.Sample(map[string]any{"scenario_seed": seed, "template": sc.Template, "first_events": evs})
		}
	}
	if path != "" {
		res.Traces = []string{path}
	}
}
