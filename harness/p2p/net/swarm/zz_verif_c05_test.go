//go:build verif

package swarm

// C05, code -> spec: a real Swarm with scripted transports runs inside a synctest bubble (virtual
// time), so dial outcomes, completion instants, caller cancellation instants, connection closes and
// back-off are explicit choices of a seeded scenario.  Only observables are recorded (each caller's
// call and return, each transport Dial start and end with the virtual instant, context cancellations,
// connection closes) plus, at the end, the residue the statement names (attempts, tokens, workers);
// TLC decides whether each recorded execution is a behaviour of spec/C05_Obs.tla.

import (
	"context"
	"errors"
	"fmt"
	"math/rand"
	"os"
	"path/filepath"
	"sync"
	"sync/atomic"
	"testing"
	"testing/synctest"
	"time"

	"github.com/libp2p/go-libp2p/core/network"
	"github.com/libp2p/go-libp2p/core/peer"
	"github.com/libp2p/go-libp2p/core/peerstore"
	"github.com/libp2p/go-libp2p/core/transport"
	"github.com/libp2p/go-libp2p/internal/vfh"
	"github.com/libp2p/go-libp2p/p2p/host/eventbus"
	"github.com/libp2p/go-libp2p/p2p/host/peerstore/pstoremem"
	ma "github.com/multiformats/go-multiaddr"
	mafmt "github.com/multiformats/go-multiaddr-fmt"
)

type vfC05Out struct {
	Kind  string // ok | fail | hang
	Delay time.Duration
}

type vfC05Addr struct {
	Name  string
	Addr  ma.Multiaddr
	Relay bool
	FD    bool
	Outs  []vfC05Out // outcome of the 1st, 2nd, ... attempt (last one repeats)
}

type vfC05Caller struct {
	Name        string
	Start       time.Duration
	Cancel      time.Duration // 0 = never
	Timeout     time.Duration // 0 = none (DialPeer's own timeout applies)
	ForceDirect bool
	SimConnect  bool // hole-punch style caller (simultaneous connect: no ranking delay)
	HookK       int    // >0: at the HookK-th ctx.Value look-up the swarm makes for this call, HookEv happens synchronously
	HookEv      string // cancel (the caller's own context) | closeany (an established connection is closed)
}

type vfC05CloseEv struct {
	At   time.Duration
	Addr string // close the connection established over this address (if any)
}

// vfC05Blocker is a DialPeer to ANOTHER peer whose single TCP dial holds a file-descriptor token of the
// (swarm-wide) limiter from Start for Hold
type vfC05Blocker struct {
	Start, Hold time.Duration
}

type vfC05Scenario struct {
	Seed     int64
	Blockers []vfC05Blocker
	Addrs    []*vfC05Addr
	Callers  []vfC05Caller
	Closes   []vfC05CloseEv
	PerPeer  int
	FDLimit  int
	Template string
}

type vfC05Run struct {
	sc      *vfC05Scenario
	tr      *vfh.Trace
	t0      time.Time
	mu      sync.Mutex
	byAddr  map[string]*vfC05Addr
	attempt map[string]int
	conns   map[string]*vfStubConn // addr name -> last established stub conn
	connID  map[*vfStubConn]string
	nconn   int
	local   peer.ID
	remote  peer.ID
	blocker map[string]time.Duration // address bytes of another peer -> how long its dial holds
}

func (r *vfC05Run) now() int64 { return int64(time.Since(r.t0) / time.Millisecond) }

type vfC05Tpt struct {
	r      *vfC05Run
	protos []int
	proxy  bool
	match  func(ma.Multiaddr) bool
}

func (t *vfC05Tpt) CanDial(a ma.Multiaddr) bool { return t.match(a) }
func (t *vfC05Tpt) Listen(ma.Multiaddr) (transport.Listener, error) {
	return nil, errors.New("verif: no listening")
}
func (t *vfC05Tpt) Protocols() []int { return t.protos }
func (t *vfC05Tpt) Proxy() bool      { return t.proxy }
func (t *vfC05Tpt) Dial(ctx context.Context, raddr ma.Multiaddr, p peer.ID) (transport.CapableConn, error) {
	r := t.r
	r.mu.Lock()
	a := r.byAddr[string(raddr.Bytes())]
	if hold, ok := r.blocker[string(raddr.Bytes())]; ok && a == nil && p != r.remote {
		r.mu.Unlock()
		r.tr.Emit("ext_start", "t", r.now())
		tm := time.NewTimer(hold)
		defer tm.Stop()
		select {
		case <-tm.C:
		case <-ctx.Done():
		}
		r.tr.Emit("ext_end", "t", r.now())
		return nil, errors.New("verif: blocker dial over")
	}
	if a == nil {
		r.mu.Unlock()
		r.tr.Emit("tdial_unknown", "addr", raddr.String(), "t", r.now())
		return nil, errors.New("verif: unknown address")
	}
	k := r.attempt[a.Name]
	r.attempt[a.Name] = k + 1
	out := a.Outs[len(a.Outs)-1]
	if k < len(a.Outs) {
		out = a.Outs[k]
	}
	r.mu.Unlock()
	r.tr.Emit("tdial_start", "a", a.Name, "fd", a.FD, "relay", a.Relay, "t", r.now(), "peer_ok", p == r.remote)
	tm := time.NewTimer(out.Delay)
	defer tm.Stop()
	select {
	case <-tm.C:
	case <-ctx.Done():
		r.tr.Emit("tdial_end", "a", a.Name, "res", vfC05CtxRes(ctx), "t", r.now())
		return nil, ctx.Err()
	}
	switch out.Kind {
	case "hang":
		<-ctx.Done()
		r.tr.Emit("tdial_end", "a", a.Name, "res", vfC05CtxRes(ctx), "t", r.now())
		return nil, ctx.Err()
	case "fail":
		r.tr.Emit("tdial_end", "a", a.Name, "res", "fail", "t", r.now())
		return nil, errors.New("verif: scripted dial failure")
	}
	c := newVfStubConn("", r.local, r.remote, ma.StringCast("/ip4/127.0.0.1/tcp/1"), raddr, a.Relay)
	c.Tpt = t
	r.mu.Lock()
	r.nconn++
	id := fmt.Sprintf("k%d", r.nconn)
	c.Name = id
	r.conns[a.Name] = c
	r.connID[c] = id
	r.mu.Unlock()
	r.tr.Emit("tdial_end", "a", a.Name, "res", "ok", "conn", id, "t", r.now())
	return c, nil
}

// the dial job's own timeout is a failed attempt; a cancellation (all callers left, or another dial
// won) is not
func vfC05CtxRes(ctx context.Context) string {
	if errors.Is(ctx.Err(), context.DeadlineExceeded) {
		return "timeout"
	}
	return "cancel"
}

// vfC05LowPrio: the documented "better alternative" rule (swarm_dial.go, doc comment of
// filterLowPriorityAddresses), computed from the spelling of the addresses only: a /webtransport (or
// draft /quic) address is dropped when a /quic-v1 address with the same IP and UDP port is known, a /ws
// or /wss address when a plain /tcp address with the same IP and TCP port is known.
func vfC05LowPrio(a ma.Multiaddr, all []ma.Multiaddr) bool {
	has := func(x ma.Multiaddr, code int) bool { _, err := x.ValueForProtocol(code); return err == nil }
	if has(a, ma.P_CIRCUIT) {
		return false
	}
	tuple := func(x ma.Multiaddr, l4 int) string {
		ip, err := x.ValueForProtocol(ma.P_IP4)
		if err != nil {
			if ip, err = x.ValueForProtocol(ma.P_IP6); err != nil {
				return ""
			}
		}
		port, err := x.ValueForProtocol(l4)
		if err != nil {
			return ""
		}
		return ip + "|" + port
	}
	isWS := func(x ma.Multiaddr) bool { return has(x, ma.P_WS) || has(x, ma.P_WSS) }
	switch {
	case has(a, ma.P_WEBTRANSPORT) || has(a, ma.P_QUIC):
		for _, b := range all {
			if !has(b, ma.P_CIRCUIT) && has(b, ma.P_QUIC_V1) && !has(b, ma.P_WEBTRANSPORT) && tuple(b, ma.P_UDP) == tuple(a, ma.P_UDP) {
				return true
			}
		}
	case isWS(a):
		for _, b := range all {
			if !has(b, ma.P_CIRCUIT) && has(b, ma.P_TCP) && !isWS(b) && tuple(b, ma.P_TCP) == tuple(a, ma.P_TCP) {
				return true
			}
		}
	}
	return false
}

func vfC05Gen(seed int64, idx int) *vfC05Scenario {
	rnd := rand.New(rand.NewSource(seed))
	sc := &vfC05Scenario{Seed: seed, PerPeer: 1 + rnd.Intn(3), FDLimit: 1 + rnd.Intn(3)}
	ms := func(n int) time.Duration { return time.Duration(n) * time.Millisecond }
	mk := func(name, s string, relay, fd bool, outs ...vfC05Out) *vfC05Addr {
		return &vfC05Addr{Name: name, Addr: ma.StringCast(s), Relay: relay, FD: fd, Outs: outs}
	}
	relayID := "12D3KooWD3eckifWpRn9wQpMG9R9hX3sD158z7EqHWmweQAJU5SA"
	switch idx % 40 {
	case 0, 1:
		// template "stale": a connection obtained over one address is closed while the worker is kept
		// alive by a caller that cannot use it; a later caller asks again
		sc.Template = "stale"
		sc.PerPeer, sc.FDLimit = 4, 4
		sc.Addrs = []*vfC05Addr{
			mk("r1", "/ip4/9.9.9.9/tcp/4001/p2p/"+relayID+"/p2p-circuit", true, false, vfC05Out{"ok", ms(100 + rnd.Intn(50))}),
			mk("t1", "/ip4/1.2.3.4/tcp/4001", false, true, vfC05Out{"hang", 0}),
		}
		sc.Callers = []vfC05Caller{
			{Name: "cA", Start: 0},
			{Name: "cB", Start: ms(10 + rnd.Intn(40)), ForceDirect: true, Timeout: ms(3000)},
			{Name: "cC", Start: ms(2300 + rnd.Intn(200))},
		}
		sc.Closes = []vfC05CloseEv{{At: ms(2200), Addr: "r1"}}
		if idx%40 == 1 {
			sc.Callers[2].Start = ms(2500 + rnd.Intn(400))
		}
		return sc
	}
	if idx%40 == 2 || idx%40 == 3 {
		// template "fdjoin": the relay dial succeeds and serves the ordinary caller while the ranker still holds
		// back a direct address; a force-direct caller that joined the same worker must still get that attempt
		sc.Template = "fdjoin"
		sc.PerPeer, sc.FDLimit = 4, 4
		last := vfC05Out{"ok", ms(30 + rnd.Intn(60))}
		if idx%40 == 3 {
			last = vfC05Out{"fail", ms(30 + rnd.Intn(60))}
		}
		sc.Addrs = []*vfC05Addr{
			mk("r1", "/ip4/9.9.9.9/tcp/4001/p2p/"+relayID+"/p2p-circuit", true, false, vfC05Out{"ok", ms(80 + rnd.Intn(60))}),
			mk("t1", "/ip4/1.2.3.4/tcp/4001", false, true, vfC05Out{"fail", ms(20 + rnd.Intn(60))}),
			mk("w1", "/ip4/1.2.3.4/udp/4002/webrtc-direct", false, false, last),
		}
		sc.Callers = []vfC05Caller{
			{Name: "cA", Start: 0},
			{Name: "cB", Start: ms(5 + rnd.Intn(300)), ForceDirect: true},
		}
		return sc
	}
	if m := idx % 40; m >= 4 && m <= 7 {
		// template "fdstarve": dials to other peers hold every file-descriptor token; a job of this peer takes the
		// per-peer token(s) and parks on the FD wait list; every caller gives up (the worker exits, the parked jobs
		// stay behind, cancelled); a NEW dial of the peer queues behind the stale tokens; then an FD token frees.
		// The new dial must get its attempt (promptly), within both caps.
		sc.Template = "fdstarve"
		sc.FDLimit, sc.PerPeer = 1, 1
		if m >= 6 {
			sc.PerPeer = 2
		}
		sc.Blockers = []vfC05Blocker{{Start: 0, Hold: ms(1800 + rnd.Intn(600))}}
		kind := []string{"ok", "fail", "hang"}[rnd.Intn(3)]
		sc.Addrs = []*vfC05Addr{mk("t1", "/ip4/1.2.3.4/tcp/4001", false, true, vfC05Out{kind, ms(300 + rnd.Intn(300))})}
		if m >= 6 {
			sc.Addrs = append(sc.Addrs, mk("t2", "/ip4/1.2.3.5/tcp/4001", false, true, vfC05Out{"fail", ms(300 + rnd.Intn(300))}))
		}
		cA := vfC05Caller{Name: "cA", Start: ms(50 + rnd.Intn(100))}
		if m%2 == 0 {
			cA.Cancel = ms(600 + rnd.Intn(150))
		} else {
			cA.Timeout = ms(500 + rnd.Intn(150))
		}
		cB := vfC05Caller{Name: "cB", Start: ms(800 + rnd.Intn(300))}
		if kind == "hang" {
			cB.Timeout = ms(6000)
		}
		sc.Callers = []vfC05Caller{cA, cB}
		if rnd.Intn(2) == 0 {
			sc.Callers = append(sc.Callers, vfC05Caller{Name: "cC", Start: ms(900 + rnd.Intn(2000)), Timeout: ms(4000 + rnd.Intn(3000))})
		}
		return sc
	}
	sc.Template = "random"
	kinds := []string{"ok", "fail", "fail", "hang"}
	na := 1 + rnd.Intn(4)
	forms := []struct {
		s         string
		relay, fd bool
	}{
		{"/ip4/1.2.3.4/tcp/4001", false, true},
		{"/ip4/1.2.3.4/udp/4001/quic-v1", false, false},
		{"/ip6/2001:db8::1/tcp/4001", false, true},
		{"/ip4/192.168.1.7/tcp/4001", false, true},
		{"/ip4/9.9.9.9/tcp/4001/p2p/" + relayID + "/p2p-circuit", true, false},
		{"/ip6/2001:db8::1/udp/4001/quic-v1", false, false},
		// forms the default ranker treats specially (same-port webtransport after quic, webrtc-direct,
		// secure websocket, private quic, a second relay)
		{"/ip4/1.2.3.4/udp/4001/quic-v1/webtransport", false, false},
		{"/ip4/1.2.3.4/udp/4002/webrtc-direct", false, false},
		{"/ip4/1.2.3.4/tcp/443/tls/ws", false, true},
		{"/ip4/1.2.3.4/tcp/4001/ws", false, true},
		{"/ip6/2001:db8::1/tcp/443/tls/ws", false, true},
		{"/ip4/192.168.1.7/udp/4001/quic-v1", false, false},
		{"/ip6/2001:db8::2/udp/4001/quic-v1/webtransport", false, false},
		{"/ip4/8.8.4.4/udp/4001/quic-v1/p2p/" + relayID + "/p2p-circuit", true, false},
	}
	if idx%3 != 0 {
		na = 1 + rnd.Intn(7)
	}
	rnd.Shuffle(len(forms), func(i, j int) { forms[i], forms[j] = forms[j], forms[i] })
	for i := 0; i < na; i++ {
		f := forms[i]
		var outs []vfC05Out
		for k := 0; k < 2; k++ {
			outs = append(outs, vfC05Out{kinds[rnd.Intn(len(kinds))], ms(rnd.Intn(700))})
		}
		sc.Addrs = append(sc.Addrs, mk(fmt.Sprintf("a%d", i+1), f.s, f.relay, f.fd, outs...))
	}
	nc := 1 + rnd.Intn(4)
	for i := 0; i < nc; i++ {
		c := vfC05Caller{Name: fmt.Sprintf("c%d", i+1), Start: ms(rnd.Intn(900))}
		switch rnd.Intn(5) {
		case 0:
			c.Cancel = c.Start + ms(1+rnd.Intn(800))
		case 1:
			c.Timeout = ms(50 + rnd.Intn(900))
		}
		c.ForceDirect = rnd.Intn(5) == 0
		c.SimConnect = rnd.Intn(4) == 0
		if rnd.Intn(4) == 0 {
			c.Start += ms(20000 + rnd.Intn(3000)) // a later generation (after the dial timeout of the first)
		}
		if idx%4 == 3 && rnd.Intn(2) == 0 {
			// an event at one of the swarm's own context look-ups for this call (between two of its steps)
			c.HookK = 1 + rnd.Intn(6)
			c.HookEv = []string{"cancel", "closeany"}[rnd.Intn(2)]
			if c.HookEv == "cancel" {
				c.Timeout, c.Cancel = 0, c.Start+ms(100000)
			}
		}
		sc.Callers = append(sc.Callers, c)
	}
	if rnd.Intn(3) == 0 {
		sc.Closes = append(sc.Closes, vfC05CloseEv{At: ms(200 + rnd.Intn(1500)), Addr: sc.Addrs[rnd.Intn(len(sc.Addrs))].Name})
	}
	return sc
}

func vfC05Execute(t *testing.T, sc *vfC05Scenario, tr *vfh.Trace) {
	ps, err := pstoremem.NewPeerstore()
	if err != nil {
		t.Fatal(err)
	}
	local, remote := peer.ID("vf-local-c05"), peer.ID("vf-remote-c05")
	dns := &vfDNS{addr: map[string][]ma.Multiaddr{}, host: map[string][]string{"h.example": {"/ip4/1.2.3.4"}}}
	sw, err := NewSwarm(local, ps, eventbus.NewBus(), WithMultiaddrResolver(dns))
	if err != nil {
		t.Fatal(err)
	}
	sw.limiter = newDialLimiterWithParams(sw.dialAddr, sc.FDLimit, sc.PerPeer)
	r := &vfC05Run{sc: sc, tr: tr, t0: time.Now(), byAddr: map[string]*vfC05Addr{}, attempt: map[string]int{},
		conns: map[string]*vfStubConn{}, connID: map[*vfStubConn]string{}, local: local, remote: remote,
		blocker: map[string]time.Duration{}}
	tcp := &vfC05Tpt{r: r, protos: []int{ma.P_TCP}, match: func(a ma.Multiaddr) bool { return mafmt.TCP.Matches(a) }}
	has := func(a ma.Multiaddr, code int) bool {
		_, err := a.ValueForProtocol(code)
		return err == nil
	}
	quic := &vfC05Tpt{r: r, protos: []int{ma.P_QUIC_V1}, match: func(a ma.Multiaddr) bool {
		return has(a, ma.P_QUIC_V1) && !has(a, ma.P_WEBTRANSPORT)
	}}
	wt := &vfC05Tpt{r: r, protos: []int{ma.P_WEBTRANSPORT}, match: func(a ma.Multiaddr) bool { return has(a, ma.P_WEBTRANSPORT) }}
	wrtc := &vfC05Tpt{r: r, protos: []int{ma.P_WEBRTC_DIRECT}, match: func(a ma.Multiaddr) bool { return has(a, ma.P_WEBRTC_DIRECT) }}
	ws := &vfC05Tpt{r: r, protos: []int{ma.P_WS}, match: func(a ma.Multiaddr) bool { return has(a, ma.P_WS) || has(a, ma.P_WSS) }}
	relay := &vfC05Tpt{r: r, protos: []int{ma.P_CIRCUIT}, proxy: true, match: func(a ma.Multiaddr) bool {
		_, err := a.ValueForProtocol(ma.P_CIRCUIT)
		return err == nil
	}}
	for _, tp := range []*vfC05Tpt{tcp, quic, wt, wrtc, ws, relay} {
		if err := sw.AddTransport(tp); err != nil {
			t.Fatal(err)
		}
	}
	var all []ma.Multiaddr
	var names []string
	var all0 []ma.Multiaddr
	for _, a := range sc.Addrs {
		all0 = append(all0, a.Addr)
	}
	drnd := rand.New(rand.NewSource(sc.Seed ^ 0x5eed))
	viaDNS := sc.Template == "random" && drnd.Intn(3) == 0 // published behind /dnsaddr or /dns4 names (also twice: plain and behind a name)
	for _, a := range sc.Addrs {
		r.byAddr[string(a.Addr.Bytes())] = a
		pub := a.Addr
		if viaDNS {
			switch drnd.Intn(4) {
			case 0:
				dns.addr["vf.example"] = append(dns.addr["vf.example"], a.Addr)
				pub = nil
			case 1:
				dns.addr["vf.example"] = append(dns.addr["vf.example"], a.Addr) // and plain as well
			case 2:
				if a.Addr.String() == "/ip4/1.2.3.4/tcp/4001" {
					pub = ma.StringCast("/dns4/h.example/tcp/4001")
				}
			}
		}
		if pub != nil {
			all = append(all, pub)
		}
		names = append(names, a.Name)
		tr.Emit("addr", "a", a.Name, "relay", a.Relay, "fd", a.FD, "s", a.Addr.String(), "low", vfC05LowPrio(a.Addr, all0))
	}
	if len(dns.addr["vf.example"]) > 0 {
		all = append(all, ma.StringCast("/dnsaddr/vf.example"))
	}
	ps.AddAddrs(remote, all, peerstore.PermanentAddrTTL)
	tr.Emit("config", "perpeer", sc.PerPeer, "fdlimit", sc.FDLimit, "template", sc.Template)
	var wg sync.WaitGroup
	for i, b := range sc.Blockers {
		bp := peer.ID(fmt.Sprintf("vf-blocker-c05-%d", i))
		ba := ma.StringCast(fmt.Sprintf("/ip4/5.5.5.%d/tcp/4001", i+1))
		r.blocker[string(ba.Bytes())] = b.Hold
		ps.AddAddrs(bp, []ma.Multiaddr{ba}, peerstore.PermanentAddrTTL)
		wg.Add(1)
		go func(b vfC05Blocker) {
			defer wg.Done()
			time.Sleep(b.Start)
			sw.DialPeer(context.Background(), bp) // fails when its scripted dial is over
		}(b)
	}
	for _, c := range sc.Callers {
		wg.Add(1)
		go func(c vfC05Caller) {
			defer wg.Done()
			time.Sleep(c.Start)
			ctx := context.Background()
			var cancel context.CancelFunc = func() {}
			if c.Timeout > 0 {
				ctx, cancel = context.WithTimeout(ctx, c.Timeout)
			} else if c.Cancel > 0 {
				ctx, cancel = context.WithCancel(ctx)
				tm := time.AfterFunc(c.Cancel-c.Start, func() {
					tr.Emit("ctx_cancel", "c", c.Name, "t", r.now())
					cancel()
				})
				defer tm.Stop()
			}
			defer cancel()
			if c.ForceDirect {
				ctx = network.WithForceDirectDial(ctx, "verif")
			}
			if c.SimConnect {
				ctx = network.WithSimultaneousConnect(ctx, c.Name != "c1", "verif")
			}
			if c.HookK > 0 {
				ctx = &vfC12HookCtx{Context: ctx, n: new(atomic.Int32), k: int32(c.HookK), fire: func() {
					tr.Emit("hook", "c", c.Name, "k", c.HookK, "hev", c.HookEv, "t", r.now())
					switch c.HookEv {
					case "cancel":
						tr.Emit("ctx_cancel", "c", c.Name, "t", r.now())
						cancel()
					case "closeany":
						for _, cn := range sw.ConnsToPeer(remote) {
							stub, _ := cn.(*Conn).conn.(*vfStubConn)
							r.mu.Lock()
							id := r.connID[stub]
							r.mu.Unlock()
							tr.Emit("conn_close", "conn", id, "t", r.now())
							cn.Close()
							tr.Emit("conn_closed", "conn", id, "t", r.now())
							break
						}
					}
				}}
			}
			dl := int64(0)
			if c.Timeout > 0 {
				dl = r.now() + int64(c.Timeout/time.Millisecond)
			}
			tr.Emit("dial_call", "c", c.Name, "force", c.ForceDirect, "t", r.now())
			conn, err := sw.DialPeer(ctx, remote)
			switch {
			case err == nil:
				sc := conn.(*Conn)
				stub, _ := sc.conn.(*vfStubConn)
				r.mu.Lock()
				id := r.connID[stub]
				r.mu.Unlock()
				tr.Emit("dial_ret", "c", c.Name, "res", "conn", "conn", id, "open", !conn.IsClosed(),
					"peer_ok", conn.RemotePeer() == remote, "proxy", stub != nil && stub.Limited, "t", r.now())
			// the caller's own context, or DialPeer's own 60 s timeout (the caller's context is then still
		// alive); C05_Obs accepts a context-type return only with one of these justifications
		case (ctx.Err() != nil && (errors.Is(err, context.Canceled) || errors.Is(err, context.DeadlineExceeded))) ||
			(ctx.Err() == nil && err == context.DeadlineExceeded): // bare, not a DialError listing a job's deadline
				tr.Emit("dial_ret", "c", c.Name, "res", "ctx", "dl", dl, "t", r.now())
			default:
				cause := "other"
				var de *DialError
				if errors.As(err, &de) {
					switch {
					case errors.Is(de.Cause, ErrAllDialsFailed):
						cause = "alldialsfailed"
					case errors.Is(de.Cause, ErrNoGoodAddresses):
						cause = "nogoodaddrs"
					case errors.Is(de.Cause, ErrNoAddresses):
						cause = "noaddrs"
					}
				}
				tr.Emit("dial_ret", "c", c.Name, "res", "err", "cause", cause, "t", r.now())
			}
		}(c)
	}
	for _, ce := range sc.Closes {
		wg.Add(1)
		go func(ce vfC05CloseEv) {
			defer wg.Done()
			time.Sleep(ce.At)
			r.mu.Lock()
			stub := r.conns[ce.Addr]
			id := r.connID[stub]
			r.mu.Unlock()
			if stub == nil {
				return
			}
			for _, c := range sw.ConnsToPeer(remote) {
				if c.(*Conn).conn == transport.CapableConn(stub) {
					tr.Emit("conn_close", "conn", id, "t", r.now())
					c.Close()
					tr.Emit("conn_closed", "conn", id, "t", r.now())
				}
			}
		}(ce)
	}
	wg.Wait()
	// let every timeout of the dial machinery pass in virtual time, then look at what is left
	time.Sleep(3 * time.Minute)
	synctest.Wait()
	sw.dsync.mutex.Lock()
	nds := len(sw.dsync.dials)
	sw.dsync.mutex.Unlock()
	sw.limiter.lk.Lock()
	active, fd, wfd, wpeer := len(sw.limiter.activePerPeer), sw.limiter.fdConsuming, len(sw.limiter.waitingOnFd), len(sw.limiter.waitingOnPeerLimit)
	sw.limiter.lk.Unlock()
	tr.Emit("residue", "dsync", nds, "active_peers", active, "fd", fd, "waiting_fd", wfd, "waiting_peer", wpeer, "t", r.now())
	sw.Close()
	ps.Close()
	synctest.Wait()
}

func TestVerifC05Swarm(t *testing.T) {
	res := vfh.NewResult()
	defer func() {
		if err := res.Write(); err != nil {
			t.Fatal(err)
		}
	}()
	iters := vfh.EnvInt("VERIF_C05_ITERS", 100)
	res.Rule = "one case = one seeded scenario (1-4 addresses with scripted outcome/latency per attempt, 1-4 callers with start/cancel/timeout/force-direct, connection closes, caps 1-3) run on a real Swarm in virtual time; distinct = distinct recorded event sequences"
	path := ""
	if vfh.Out() != "" {
		path = filepath.Join(vfh.Out(), "c05_traces.ndjson")
		os.Remove(path)
	}
	for i := 0; i < iters; i++ {
		seed := vfh.Seed()*1000003 + int64(i)
		sc := vfC05Gen(seed, i)
		tr := vfh.NewTrace(fmt.Sprintf("it%d", i))
		synctest.Test(t, func(t *testing.T) { vfC05Execute(t, sc, tr) })
		res.Count(1, tr.Len())
		sig := ""
		for _, e := range tr.Events() {
			sig += fmt.Sprint(e["ev"], e["c"], e["a"], e["res"], e["t"], ";")
		}
		res.Case(sig)
		if path != "" {
			if err := tr.AppendTo(path, map[string]any{"seed": seed, "template": sc.Template}); err != nil {
				t.Fatal(err)
			}
		}
		if i == 2 {
			evs := tr.Events()
			if len(evs) > 30 {
				evs = evs[:30]
			}
			res.Sample(map[string]any{"scenario_seed": seed, "template": sc.Template, "first_events": evs})
		}
	}
	if path != "" {
		res.Traces = []string{path}
	}
}
