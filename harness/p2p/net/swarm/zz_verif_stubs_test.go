//go:build verif

package swarm

// Stub transport-level objects shared by the swarm harnesses (C05, C06, C12): a CapableConn whose
// every aspect the harness controls, and an in-memory muxed stream.

import (
	"context"
	"errors"
	"io"
	"sync"
	"sync/atomic"
	"time"

	ic "github.com/libp2p/go-libp2p/core/crypto"
	"github.com/libp2p/go-libp2p/core/network"
	"github.com/libp2p/go-libp2p/core/peer"
	"github.com/libp2p/go-libp2p/core/transport"
	ma "github.com/multiformats/go-multiaddr"
)

var errVfStub = errors.New("verif stub: closed")

type vfStubStream struct {
	once   sync.Once
	closed chan struct{}
}

func newVfStubStream() *vfStubStream { return &vfStubStream{closed: make(chan struct{})} }
func (s *vfStubStream) Read(p []byte) (int, error) {
	<-s.closed
	return 0, io.EOF
}
func (s *vfStubStream) Write(p []byte) (int, error) {
	select {
	case <-s.closed:
		return 0, errVfStub
	default:
		return len(p), nil
	}
}
func (s *vfStubStream) Close() error                                 { s.once.Do(func() { close(s.closed) }); return nil }
func (s *vfStubStream) CloseWrite() error                            { return nil }
func (s *vfStubStream) CloseRead() error                             { return nil }
func (s *vfStubStream) Reset() error                                 { return s.Close() }
func (s *vfStubStream) ResetWithError(network.StreamErrorCode) error { return s.Close() }
func (s *vfStubStream) SetDeadline(time.Time) error                  { return nil }
func (s *vfStubStream) SetReadDeadline(time.Time) error              { return nil }
func (s *vfStubStream) SetWriteDeadline(time.Time) error             { return nil }

// vfStubConn is a transport.CapableConn. The harness injects inbound streams through Inbound and
// makes the remote side go away with RemoteClose.
type vfStubConn struct {
	Name     string
	Lp, Rp   peer.ID
	La, Ra   ma.Multiaddr
	Limited  bool
	Tpt      transport.Transport
	Inbound  chan network.MuxedStream
	once     sync.Once
	closedCh chan struct{}
	closed   atomic.Bool
	Closes   atomic.Int32 // number of Close/CloseWithError calls (observable: the raw conn was closed)
	OpenErr  error
}

func newVfStubConn(name string, lp, rp peer.ID, la, ra ma.Multiaddr, limited bool) *vfStubConn {
	return &vfStubConn{Name: name, Lp: lp, Rp: rp, La: la, Ra: ra, Limited: limited,
		Inbound: make(chan network.MuxedStream, 4), closedCh: make(chan struct{})}
}

func (c *vfStubConn) shut() {
	c.once.Do(func() {
		c.closed.Store(true)
		close(c.closedCh)
	})
}
func (c *vfStubConn) RemoteClose() { c.shut() }
func (c *vfStubConn) Close() error { c.Closes.Add(1); c.shut(); return nil }
func (c *vfStubConn) CloseWithError(network.ConnErrorCode) error {
	c.Closes.Add(1)
	c.shut()
	return nil
}
func (c *vfStubConn) IsClosed() bool { return c.closed.Load() }
func (c *vfStubConn) OpenStream(ctx context.Context) (network.MuxedStream, error) {
	if c.closed.Load() {
		return nil, errVfStub
	}
	if c.OpenErr != nil {
		return nil, c.OpenErr
	}
	return newVfStubStream(), nil
}
func (c *vfStubConn) AcceptStream() (network.MuxedStream, error) {
	select {
	case s := <-c.Inbound:
		return s, nil
	case <-c.closedCh:
		return nil, errVfStub
	}
}
func (c *vfStubConn) LocalPeer() peer.ID                 { return c.Lp }
func (c *vfStubConn) RemotePeer() peer.ID                { return c.Rp }
func (c *vfStubConn) RemotePublicKey() ic.PubKey         { return nil }
func (c *vfStubConn) ConnState() network.ConnectionState { return network.ConnectionState{} }
func (c *vfStubConn) LocalMultiaddr() ma.Multiaddr       { return c.La }
func (c *vfStubConn) RemoteMultiaddr() ma.Multiaddr      { return c.Ra }
func (c *vfStubConn) Scope() network.ConnScope           { return &network.NullScope{} }
func (c *vfStubConn) Transport() transport.Transport     { return c.Tpt }
func (c *vfStubConn) As(any) bool                        { return false }
func (c *vfStubConn) Stat() network.ConnStats            { return network.ConnStats{Stats: network.Stats{Limited: c.Limited}} }

var _ transport.CapableConn = (*vfStubConn)(nil)
