//go:build verif

package swarm

// C12, code -> spec: limited (relayed) versus direct connections at the swarm level.  Same set-up as
// the C05 harness (real Swarm, scripted transports, virtual time); the scenario adds NewStream callers
// with allow-limited / no-dial flags, force-direct dials, inbound direct or limited connections
// appearing and connections closing at scripted instants, and connectedness probes taken at settled
// instants.  TLC validates the recorded observables against spec/C12_Obs.tla.

import (
	"context"
	"errors"
	"fmt"
	"math/rand"
	"os"
	"path/filepath"
	"sort"
	"sync"
	"sync/atomic"
	"testing"
	"testing/synctest"
	"time"

	"github.com/libp2p/go-libp2p/core/network"
	"github.com/libp2p/go-libp2p/core/peer"
	"github.com/libp2p/go-libp2p/core/peerstore"
	"github.com/libp2p/go-libp2p/internal/vfh"
	"github.com/libp2p/go-libp2p/p2p/host/eventbus"
	"github.com/libp2p/go-libp2p/p2p/host/peerstore/pstoremem"
	ma "github.com/multiformats/go-multiaddr"
	mafmt "github.com/multiformats/go-multiaddr-fmt"
)

type vfC12Caller struct {
	Name         string
	Kind         string // newstream | dial
	Start        time.Duration
	Timeout      time.Duration
	AllowLimited bool
	NoDial       bool
	ForceDirect  bool
	HookK        int    // >0: at the HookK-th ctx.Value call made on behalf of this call, HookEv happens synchronously
	HookEv       string // adddirect | addlimited | closeout
}

// vfC12HookCtx: every ctx.Value lookup the swarm makes for a call (GetNoDial, GetAllowLimitedConn,
// GetDialPeerTimeout, ...) is an interference point between two of its steps - e.g. between NewStream's
// connection lookup and waitForDirectConn's registration.
type vfC12HookCtx struct {
	context.Context
	n    *atomic.Int32
	k    int32
	fire func()
}

func (h *vfC12HookCtx) Value(key any) any {
	if h.n.Add(1) == h.k {
		h.fire()
	}
	return h.Context.Value(key)
}

type vfC12ConnEv struct {
	At      time.Duration
	Kind    string // add | close | halfdead | closeout | flash
	Name    string
	Limited bool
	Refuse  bool // add: the connection stays open but its muxer refuses to open streams
}

func vfC12Execute(t *testing.T, seed int64, tr *vfh.Trace) {
	rnd := rand.New(rand.NewSource(seed))
	ms := func(n int) time.Duration { return time.Duration(n) * time.Millisecond }
	ps, err := pstoremem.NewPeerstore()
	if err != nil {
		t.Fatal(err)
	}
	local, remote := peer.ID("vf-local-c12"), peer.ID("vf-remote-c12")
	dns := &vfDNS{addr: map[string][]ma.Multiaddr{}, host: map[string][]string{"h.example": {"/ip4/1.2.3.4"}}}
	sw, err := NewSwarm(local, ps, eventbus.NewBus(), WithMultiaddrResolver(dns))
	if err != nil {
		t.Fatal(err)
	}
	relayID := "12D3KooWD3eckifWpRn9wQpMG9R9hX3sD158z7EqHWmweQAJU5SA"
	sc := &vfC05Scenario{Seed: seed}
	kinds := []string{"ok", "ok", "fail", "hang"}
	out := func() vfC05Out { return vfC05Out{kinds[rnd.Intn(len(kinds))], ms(50 + rnd.Intn(600))} }
	var addrs []*vfC05Addr
	if rnd.Intn(5) != 0 {
		addrs = append(addrs, &vfC05Addr{Name: "r1", Addr: ma.StringCast("/ip4/9.9.9.9/tcp/4001/p2p/" + relayID + "/p2p-circuit"), Relay: true, Outs: []vfC05Out{out(), out()}})
	}
	if rnd.Intn(3) != 0 {
		addrs = append(addrs, &vfC05Addr{Name: "t1", Addr: ma.StringCast("/ip4/1.2.3.4/tcp/4001"), FD: true, Outs: []vfC05Out{out(), out()}})
	}
	if rnd.Intn(3) == 0 {
		addrs = append(addrs, &vfC05Addr{Name: "q1", Addr: ma.StringCast("/ip4/1.2.3.4/udp/4001/quic-v1"), Outs: []vfC05Out{out(), out()}})
	}
	sc.Addrs = addrs
	r := &vfC05Run{sc: sc, tr: tr, t0: time.Now(), byAddr: map[string]*vfC05Addr{}, attempt: map[string]int{},
		conns: map[string]*vfStubConn{}, connID: map[*vfStubConn]string{}, local: local, remote: remote}
	tcp := &vfC05Tpt{r: r, protos: []int{ma.P_TCP}, match: func(a ma.Multiaddr) bool { return mafmt.TCP.Matches(a) }}
	quic := &vfC05Tpt{r: r, protos: []int{ma.P_QUIC_V1}, match: func(a ma.Multiaddr) bool {
		_, err := a.ValueForProtocol(ma.P_QUIC_V1)
		return err == nil
	}}
	relay := &vfC05Tpt{r: r, protos: []int{ma.P_CIRCUIT}, proxy: true, match: func(a ma.Multiaddr) bool {
		_, err := a.ValueForProtocol(ma.P_CIRCUIT)
		return err == nil
	}}
	for _, tp := range []*vfC05Tpt{tcp, quic, relay} {
		if err := sw.AddTransport(tp); err != nil {
			t.Fatal(err)
		}
	}
	var all []ma.Multiaddr
	viaDNS := rnd.Intn(3) == 0 // some addresses are published behind /dnsaddr or /dns4 names and must be resolved first
	for _, a := range sc.Addrs {
		r.byAddr[string(a.Addr.Bytes())] = a
		pub := a.Addr
		how := "plain"
		if viaDNS {
			switch rnd.Intn(3) {
			case 0:
				dns.addr["vf.example"] = append(dns.addr["vf.example"], a.Addr)
				pub, how = nil, "dnsaddr"
			case 1:
				if a.Name == "t1" {
					pub, how = ma.StringCast("/dns4/h.example/tcp/4001"), "dns4"
				}
			}
		}
		if pub != nil {
			all = append(all, pub)
		}
		tr.Emit("addr", "a", a.Name, "relay", a.Relay, "fd", a.FD, "how", how)
	}
	if len(dns.addr["vf.example"]) > 0 {
		all = append(all, ma.StringCast("/dnsaddr/vf.example"))
	}
	if len(all) > 0 {
		ps.AddAddrs(remote, all, peerstore.PermanentAddrTTL)
	}
	// inbound connections and closes
	var evs []vfC12ConnEv
	nin := rnd.Intn(3)
	var inbound []*vfStubConn
	for i := 0; i < nin; i++ {
		lim := rnd.Intn(2) == 0
		name := fmt.Sprintf("i%d", i+1)
		evs = append(evs, vfC12ConnEv{At: ms(rnd.Intn(1500)), Kind: "add", Name: name, Limited: lim, Refuse: !lim && rnd.Intn(4) == 0})
		if rnd.Intn(2) == 0 {
			// "halfdead": the transport connection has died but the swarm has not noticed yet (its accept loop
			// is woken only afterwards): a dead connection must not count for connectedness in that window
			evs = append(evs, vfC12ConnEv{At: ms(1500 + rnd.Intn(1500)), Kind: []string{"close", "halfdead"}[rnd.Intn(2)], Name: name})
		}
	}
	if rnd.Intn(2) == 0 {
		evs = append(evs, vfC12ConnEv{At: ms(800 + rnd.Intn(2000)), Kind: "closeout"})
	}
	if rnd.Intn(3) == 0 {
		// a direct connection that is gone again at once: waiters are woken and find only what was there before
		evs = append(evs, vfC12ConnEv{At: ms(300 + rnd.Intn(2500)), Kind: "flash", Name: "f1"})
	}
	// callers
	var callers []vfC12Caller
	nc := 1 + rnd.Intn(4)
	for i := 0; i < nc; i++ {
		c := vfC12Caller{Name: fmt.Sprintf("c%d", i+1), Start: ms(rnd.Intn(2500)), Kind: "newstream"}
		switch rnd.Intn(6) {
		case 0:
			c.Kind = "dial"
			c.ForceDirect = true
		case 1:
			c.Kind = "connstream" // NewStream called directly on whatever connection is listed
		}
		c.AllowLimited = rnd.Intn(3) == 0
		c.NoDial = rnd.Intn(4) == 0
		if rnd.Intn(2) == 0 {
			c.Timeout = ms(100 + rnd.Intn(2500))
		}
		callers = append(callers, c)
	}
	if rnd.Intn(6) == 0 {
		// "waiters": a limited connection only; several NewStream calls wait for a direct one; some give up
		// (deadline) before it appears, the others must still be served when it does
		evs = []vfC12ConnEv{{At: ms(rnd.Intn(80)), Kind: "add", Name: "w0", Limited: true},
			{At: ms(1400 + rnd.Intn(600)), Kind: "add", Name: "wd", Limited: false}}
		if rnd.Intn(3) == 0 {
			evs = append(evs, vfC12ConnEv{At: ms(900 + rnd.Intn(300)), Kind: "flash", Name: "wf"})
		}
		callers = nil
		for i, n := 0, 2+rnd.Intn(3); i < n; i++ {
			c := vfC12Caller{Name: fmt.Sprintf("c%d", i+1), Kind: "newstream", Start: ms(150 + rnd.Intn(300)), NoDial: rnd.Intn(2) == 0}
			switch {
			case i == 0:
				c.Timeout = ms(200 + rnd.Intn(500)) // gives up first
			case rnd.Intn(3) == 0:
				c.Timeout = ms(4000 + rnd.Intn(2000))
			}
			callers = append(callers, c)
		}
	}
	if rnd.Intn(3) == 0 {
		// "hooked": a limited connection is there first; one NewStream caller that may not use it gets an
		// event (a direct connection appears, ...) at one of the swarm's own context look-ups for that call
		evs = append(evs, vfC12ConnEv{At: ms(rnd.Intn(100)), Kind: "add", Name: "h0", Limited: true})
		h := vfC12Caller{Name: "ch", Kind: "newstream", Start: ms(300 + rnd.Intn(1500)), NoDial: rnd.Intn(3) != 0,
			HookK: 1 + rnd.Intn(5), HookEv: []string{"adddirect", "adddirect", "adddirect", "addlimited", "closeout"}[rnd.Intn(5)]}
		if rnd.Intn(2) == 0 {
			h.Timeout = ms(500 + rnd.Intn(3000))
		}
		callers = append(callers, h)
	}
	inboundIDs := map[string]*vfStubConn{}
	addedAt := map[*vfStubConn]int64{}
	var imu sync.Mutex
	directSince := func() int64 {
		r.mu.Lock()
		defer r.mu.Unlock()
		imu.Lock()
		defer imu.Unlock()
		since := int64(-1)
		for stub := range r.connID {
			if !stub.IsClosed() && !stub.Limited {
				if at, ok := addedAt[stub]; ok && (since < 0 || at < since) {
					since = at
				} else if !ok {
					since = 0 // dialled connection: time of establishment not tracked, treat as old
				}
			}
		}
		return since
	}
	openStubs := func() (ids []string, direct, any bool) {
		r.mu.Lock()
		defer r.mu.Unlock()
		imu.Lock()
		defer imu.Unlock()
		for stub, id := range r.connID {
			if !stub.IsClosed() {
				ids = append(ids, id)
				any = true
				if !stub.Limited {
					direct = true
				}
			}
		}
		sort.Strings(ids)
		return
	}
	_ = inbound
	var wg sync.WaitGroup
	var doEv func(e vfC12ConnEv)
	doEv = func(e vfC12ConnEv) {
		{
			switch e.Kind {
			case "add", "flash":
				stub := newVfStubConn(e.Name, local, remote, ma.StringCast("/ip4/127.0.0.1/tcp/1"), ma.StringCast("/ip4/5.6.7.8/tcp/999"), e.Limited)
				if e.Refuse {
					stub.OpenErr = errors.New("verif: muxer out of streams")
				}
				if e.Limited {
					stub.Tpt = relay
				} else {
					stub.Tpt = tcp
				}
				r.mu.Lock()
				r.connID[stub] = e.Name
				r.mu.Unlock()
				imu.Lock()
				inboundIDs[e.Name] = stub
				addedAt[stub] = r.now()
				imu.Unlock()
				tr.Emit("conn_add", "conn", e.Name, "limited", e.Limited, "t", r.now())
				if e.Kind == "flash" {
					// the remote side drops it while the swarm is still admitting it
					stub.closed.Store(true)
				}
				if _, err := sw.addConn(stub, network.DirInbound); err != nil {
					tr.Emit("conn_add_refused", "conn", e.Name, "t", r.now())
				}
				if e.Kind == "flash" {
					tr.Emit("conn_close", "conn", e.Name, "t", r.now())
					stub.RemoteClose()
				}
			case "close", "halfdead":
				imu.Lock()
				stub := inboundIDs[e.Name]
				imu.Unlock()
				if stub != nil {
					tr.Emit("conn_close", "conn", e.Name, "t", r.now())
					if e.Kind == "halfdead" && !stub.IsClosed() {
						stub.closed.Store(true) // dead, nobody told the swarm yet
						ids, _, _ := openStubs()
						if ids == nil {
							ids = []string{}
						}
						st := map[network.Connectedness]string{network.Connected: "C", network.Limited: "L", network.NotConnected: "N"}[sw.Connectedness(remote)]
						tr.Emit("probe_st", "st", st, "open", ids, "t", r.now())
					}
					stub.RemoteClose()
				}
			case "closeout":
				for _, c := range sw.ConnsToPeer(remote) {
					stub := c.(*Conn).conn.(*vfStubConn)
					r.mu.Lock()
					id := r.connID[stub]
					r.mu.Unlock()
					tr.Emit("conn_close", "conn", id, "t", r.now())
					c.Close()
					break
				}
			}
		}
	}
	for _, e := range evs {
		wg.Add(1)
		go func(e vfC12ConnEv) {
			defer wg.Done()
			time.Sleep(e.At)
			doEv(e)
		}(e)
	}
	for _, c := range callers {
		wg.Add(1)
		go func(c vfC12Caller) {
			defer wg.Done()
			time.Sleep(c.Start)
			ctx := context.Background()
			cancel := func() {}
			dl := int64(0)
			if c.Timeout > 0 {
				ctx, cancel = context.WithTimeout(ctx, c.Timeout)
				dl = r.now() + int64(c.Timeout/time.Millisecond)
			}
			defer cancel()
			if c.AllowLimited {
				ctx = network.WithAllowLimitedConn(ctx, "verif")
			}
			if c.NoDial {
				ctx = network.WithNoDial(ctx, "verif")
			}
			if c.ForceDirect {
				ctx = network.WithForceDirectDial(ctx, "verif")
			}
			if c.HookK > 0 {
				hev := map[string]vfC12ConnEv{
					"adddirect":  {Kind: "add", Name: "hd", Limited: false},
					"addlimited": {Kind: "add", Name: "hl", Limited: true},
					"closeout":   {Kind: "closeout"},
				}[c.HookEv]
				ctx = &vfC12HookCtx{Context: ctx, n: new(atomic.Int32), k: int32(c.HookK), fire: func() {
					tr.Emit("hook", "c", c.Name, "k", c.HookK, "hev", c.HookEv, "t", r.now())
					doEv(hev)
				}}
			}
			stubOf := func(cn network.Conn) (string, bool) {
				stub, _ := cn.(*Conn).conn.(*vfStubConn)
				r.mu.Lock()
				defer r.mu.Unlock()
				return r.connID[stub], stub != nil && stub.Limited
			}
			if c.Kind == "dial" {
				tr.Emit("dial_call", "c", c.Name, "force", true, "t", r.now())
				conn, err := sw.DialPeer(ctx, remote)
				if err == nil {
					id, lim := stubOf(conn)
					tr.Emit("dial_ret", "c", c.Name, "res", "conn", "conn", id, "limited", lim, "t", r.now())
				} else {
					tr.Emit("dial_ret", "c", c.Name, "res", "err", "t", r.now())
				}
				return
			}
			tr.Emit("ns_call", "c", c.Name, "allow", c.AllowLimited, "nodial", c.NoDial || c.Kind == "connstream", "onconn", c.Kind == "connstream", "dl", dl, "t", r.now())
			var s network.Stream
			var err error
			if c.Kind == "connstream" {
				cs := sw.ConnsToPeer(remote)
				if len(cs) == 0 {
					err = network.ErrNoConn
				} else {
					s, err = cs[int(c.Start/time.Millisecond)%len(cs)].NewStream(ctx)
				}
			} else {
				s, err = sw.NewStream(ctx, remote)
			}
			_, direct, any := openStubs()
			switch {
			case err == nil:
				id, lim := stubOf(s.Conn())
				tr.Emit("ns_ret", "c", c.Name, "res", "stream", "conn", id, "limited", lim, "t", r.now())
				s.Reset()
			case errors.Is(err, network.ErrLimitedConn):
				tr.Emit("ns_ret", "c", c.Name, "res", "limitedconn", "direct_open", direct, "direct_since", directSince(), "any_open", any, "t", r.now())
			case errors.Is(err, network.ErrNoConn):
				tr.Emit("ns_ret", "c", c.Name, "res", "noconn", "direct_open", direct, "direct_since", directSince(), "any_open", any, "t", r.now())
			case ctx.Err() != nil:
				tr.Emit("ns_ret", "c", c.Name, "res", "ctx", "dl", dl, "direct_open", direct, "direct_since", directSince(), "t", r.now())
			case vfC12IsDialErr(err):
				tr.Emit("ns_ret", "c", c.Name, "res", "dialerr", "t", r.now())
			case errors.Is(err, context.DeadlineExceeded):
				tr.Emit("ns_ret", "c", c.Name, "res", "waittimeout", "direct_open", direct, "direct_since", directSince(), "any_open", any, "t", r.now())
			default:
				tr.Emit("ns_ret", "c", c.Name, "res", "othererr", "direct_open", direct, "any_open", any, "err", err.Error(), "t", r.now())
			}
		}(c)
	}
	// connectedness probes at settled instants
	stop := make(chan struct{})
	var pwg sync.WaitGroup
	pwg.Add(1)
	go func() {
		defer pwg.Done()
		for {
			select {
			case <-stop:
				return
			case <-time.After(ms(333)):
			}
			synctest.Wait()
			ids, _, _ := openStubs()
			st := map[network.Connectedness]string{network.Connected: "C", network.Limited: "L", network.NotConnected: "N"}[sw.Connectedness(remote)]
			var listed []string
			for _, c := range sw.ConnsToPeer(remote) {
				stub := c.(*Conn).conn.(*vfStubConn)
				r.mu.Lock()
				listed = append(listed, r.connID[stub])
				r.mu.Unlock()
			}
			sort.Strings(listed)
			if ids == nil {
				ids = []string{}
			}
			if listed == nil {
				listed = []string{}
			}
			tr.Emit("probe", "st", st, "open", ids, "listed", listed, "t", r.now())
		}
	}()
	wg.Wait()
	close(stop)
	pwg.Wait()
	time.Sleep(3 * time.Minute)
	synctest.Wait()
	sw.directConnNotifs.Lock()
	nw := len(sw.directConnNotifs.m)
	sw.directConnNotifs.Unlock()
	tr.Emit("waiters", "n", nw, "t", r.now())
	sw.Close()
	ps.Close()
	synctest.Wait()
}

func vfC12IsDialErr(err error) bool {
	var de *DialError
	return errors.As(err, &de)
}

func TestVerifC12Swarm(t *testing.T) {
	res := vfh.NewResult()
	defer func() {
		if err := res.Write(); err != nil {
			t.Fatal(err)
		}
	}()
	iters := vfh.EnvInt("VERIF_C12_ITERS", 100)
	res.Rule = "one case = one seeded scenario (relay/direct addresses with scripted outcomes, NewStream callers with allow-limited/no-dial flags and deadlines, force-direct dials, inbound direct/limited connections appearing and closing) on a real Swarm in virtual time; distinct = distinct recorded event sequences"
	path := ""
	if vfh.Out() != "" {
		path = filepath.Join(vfh.Out(), "c12_traces.ndjson")
		os.Remove(path)
	}
	for i := 0; i < iters; i++ {
		seed := vfh.Seed()*1000003 + int64(i)
		tr := vfh.NewTrace(fmt.Sprintf("it%d", i))
		synctest.Test(t, func(t *testing.T) { vfC12Execute(t, seed, tr) })
		res.Count(1, tr.Len())
		sig := ""
		for _, e := range tr.Events() {
			sig += fmt.Sprint(e["ev"], e["c"], e["a"], e["res"], e["st"], e["t"], ";")
		}
		res.Case(sig)
		if path != "" {
			if err := tr.AppendTo(path, map[string]any{"seed": seed}); err != nil {
				t.Fatal(err)
			}
		}
		if i == 1 {
			evs := tr.Events()
			if len(evs) > 30 {
				evs = evs[:30]
			}
			res.Sample(map[string]any{"scenario_seed": seed, "first_events": evs})
		}
	}
	if path != "" {
		res.Traces = []string{path}
	}
}
