//go:build verif

package swarm

// C04, swarm family, interference scenarios.  The callbacks the swarm makes into the transport connection
// (OpenStream, AcceptStream, a stream's Reset, Close) are the interference points of doClose / addStream /
// removeStream.  A stream open is parked INSIDE the stub's OpenStream after the muxer created the stream
// (or an inbound stream is parked in AcceptStream's hand-over) and is released from inside one of the
// callbacks the close path makes - the transport Close before / after it takes effect, the n-th Reset of
// another open stream - or before / after the whole call, for every trigger (Conn.Close, CloseWithError,
// remote close, Swarm.Close, a user's Reset of another stream).  The callback returns only when the
// released operation has run to its end, so the window is hit deterministically.  Oracle as everywhere:
// quiescent audits of Stat() against the ledger, Swarm.Close returns (a blocked Close is a verdict).

import (
	"context"
	"fmt"
	"sync"
	"testing"
	"testing/synctest"
	"time"

	"github.com/libp2p/go-libp2p/core/network"
	"github.com/libp2p/go-libp2p/core/peer"
	"github.com/libp2p/go-libp2p/internal/vfc04"
	"github.com/libp2p/go-libp2p/internal/vfh"
	"github.com/libp2p/go-libp2p/p2p/host/eventbus"
	"github.com/libp2p/go-libp2p/p2p/host/peerstore/pstoremem"
	ma "github.com/multiformats/go-multiaddr"
)

type vfC04InterfPlan struct {
	Park    string `json:"park"`    // open (outbound, inside OpenStream) | accept (inbound, AcceptStream's hand-over)
	Others  string `json:"others"`  // the other streams open on the connection: o = outbound, i = inbound (e.g. "oi")
	Trigger string `json:"trigger"` // conn-close | conn-close-err | remote-close | swarm-close | stream-reset
	Release string `json:"release"` // before | close-pre | close-post | reset-1 | reset-2 | after
	Blocks  bool   `json:"blocks"`  // inbound handlers block until their stream is reset
}

func (p vfC04InterfPlan) String() string {
	return fmt.Sprintf("interference/park=%s/others=%s/%s/release=%s/blocks=%v", p.Park, p.Others, p.Trigger, p.Release, p.Blocks)
}

func vfC04InterfPlans() []vfC04InterfPlan {
	var out []vfC04InterfPlan
	for _, park := range []string{"open", "accept"} {
		for _, others := range []string{"o", "oi", "i"} {
			for _, trig := range []string{"conn-close", "conn-close-err", "remote-close", "swarm-close", "stream-reset"} {
				for _, rel := range []string{"before", "close-pre", "close-post", "reset-1", "reset-2", "after"} {
					if park == "accept" && (trig == "remote-close" || (trig == "swarm-close" && rel == "after")) {
						continue // the accept loop itself is parked: it cannot notice the remote close / Close waits for it
					}
					if trig == "stream-reset" && (rel == "close-pre" || rel == "close-post" || rel == "reset-2") {
						continue // no transport Close, one Reset
					}
					if rel == "reset-2" && len(others) < 2 {
						continue
					}
					out = append(out, vfC04InterfPlan{Park: park, Others: others, Trigger: trig, Release: rel, Blocks: len(out)%2 == 1})
				}
			}
		}
	}
	return out
}

func vfC04SwInterf(t *testing.T, plan vfC04InterfPlan, tr *vfh.Trace) (hit bool) {
	led := &vfc04.Ledger{T: tr}
	local, remote := peer.ID("vf-local"), peer.ID("vf-remote-1")
	rm, err := vfc04.NewRM(nil)
	if err != nil {
		t.Fatal(err)
	}
	ps, err := pstoremem.NewPeerstore()
	if err != nil {
		t.Fatal(err)
	}
	sw, err := NewSwarm(local, ps, eventbus.NewBus(), WithResourceManager(rm))
	if err != nil {
		t.Fatal(err)
	}
	var mu sync.Mutex
	state := map[string]string{} // object -> pending | live | ended
	byMS := map[*vfC04MS]string{}
	endOnce := func(o, why string) {
		mu.Lock()
		was := state[o]
		state[o] = "ended"
		mu.Unlock()
		if was != "ended" {
			led.End(o, why, "")
		}
	}
	parkedDone := make(chan struct{})
	var doneOnce sync.Mutex
	doneFlag := false
	signalDone := func() {
		doneOnce.Lock()
		if !doneFlag {
			doneFlag = true
			close(parkedDone)
		}
		doneOnce.Unlock()
	}
	var hwg sync.WaitGroup
	sw.SetStreamHandler(func(s network.Stream) {
		ms, _ := s.(*Stream).stream.(*vfC04MS)
		mu.Lock()
		o := byMS[ms]
		ok := o != "" && state[o] == "pending"
		if ok {
			state[o] = "live"
		}
		mu.Unlock()
		if !ok {
			tr.Emit("bad_accept", "addr", "handler for an unknown or ended stream")
			return
		}
		led.Live(o)
		if o == "sp" {
			signalDone()
		}
		if plan.Blocks {
			hwg.Add(1)
			defer hwg.Done()
			s.Read(make([]byte, 1)) // returns when the stream is reset or closed
		}
	})
	// the release machinery
	park := make(chan struct{})
	var relMu sync.Mutex
	released := false
	rel := func(where string) {
		relMu.Lock()
		first := !released
		released = true
		relMu.Unlock()
		if !first {
			return
		}
		hit = true
		tr.Emit("note", "what", "parked-operation-released", "where", where)
		close(park)
		<-parkedDone // the callback returns only when the released operation has run to its end
	}
	nReset := 0
	resetHook := func(ms *vfC04MS) {
		mu.Lock()
		o := byMS[ms]
		pendingIn := o != "" && state[o] == "pending"
		mu.Unlock()
		if o == "sp" {
			if pendingIn {
				endOnce("sp", "reset-before-handler") // inbound, refused before it reached the handler
			}
			signalDone()
			return
		}
		relMu.Lock()
		nReset++
		n := nReset
		relMu.Unlock()
		if plan.Release == fmt.Sprintf("reset-%d", n) {
			rel(plan.Release)
		}
	}
	// the connection
	led.Begin("c1", "conn", "out", "s", true)
	raddr := ma.StringCast("/ip4/10.0.0.1/tcp/2001")
	scope, err := rm.OpenConnection(network.DirOutbound, true, raddr)
	if err != nil {
		t.Fatal(err)
	}
	scope.SetPeer(remote)
	stub := &vfC04Conn{vfStubConn: newVfStubConn("c1", local, remote, ma.StringCast("/ip4/127.0.0.1/tcp/7001"), raddr, false), scope: scope, led: led}
	var nextName string
	stub.nextMS = func() *vfC04MS {
		ms := &vfC04MS{vfStubStream: newVfStubStream(), onReset: resetHook}
		mu.Lock()
		byMS[ms] = nextName
		mu.Unlock()
		return ms
	}
	stub.onClose = func(phase string) {
		if plan.Release == phase {
			rel(phase)
		}
	}
	led.RawOpen("c1")
	c, err := sw.addConn(stub, network.DirOutbound)
	if err != nil {
		t.Fatal(err)
	}
	state["c1"] = "live"
	led.Live("c1")
	// the other open streams
	var others []*Stream
	for i, d := range []byte(plan.Others) {
		o := fmt.Sprintf("s%d", i+1)
		mu.Lock()
		state[o] = "pending"
		mu.Unlock()
		if d == 'o' {
			led.Begin(o, "stream", "out", "s", false)
			nextName = o
			s, err := c.NewStream(context.Background())
			if err != nil {
				t.Fatal(err)
			}
			mu.Lock()
			state[o] = "live"
			mu.Unlock()
			led.Live(o)
			others = append(others, s.(*Stream))
		} else {
			led.Begin(o, "stream", "in", "s", false)
			ms := &vfC04MS{vfStubStream: newVfStubStream(), onReset: resetHook}
			mu.Lock()
			byMS[ms] = o
			mu.Unlock()
			stub.Inbound <- ms
			synctest.Wait()
		}
	}
	synctest.Wait()
	led.Audit("s", false, vfc04.ReadUsage(rm), 0)
	// park the operation
	mu.Lock()
	state["sp"] = "pending"
	mu.Unlock()
	var wg sync.WaitGroup
	if plan.Park == "open" {
		led.Begin("sp", "stream", "out", "s", false)
		nextName = "sp"
		stub.mu.Lock()
		stub.parkOpen = park
		stub.mu.Unlock()
		wg.Add(1)
		go func() {
			defer wg.Done()
			s, err := c.NewStream(context.Background())
			if err != nil {
				endOnce("sp", "newstream:"+err.Error())
			} else {
				_ = s
				mu.Lock()
				state["sp"] = "live"
				mu.Unlock()
				led.Live("sp")
			}
			signalDone()
		}()
	} else {
		led.Begin("sp", "stream", "in", "s", false)
		ms := &vfC04MS{vfStubStream: newVfStubStream(), onReset: resetHook}
		mu.Lock()
		byMS[ms] = "sp"
		mu.Unlock()
		stub.mu.Lock()
		stub.parkAccept = park
		stub.mu.Unlock()
		stub.Inbound <- ms
	}
	synctest.Wait() // the operation is parked inside the transport connection's callback
	if plan.Release == "before" {
		rel("before")
		synctest.Wait()
	}
	connGone := true
	switch plan.Trigger {
	case "conn-close":
		c.Close()
	case "conn-close-err":
		c.CloseWithError(network.ConnShutdown)
	case "remote-close":
		tr.Emit("note", "what", "remote_close", "o", "c1")
		stub.RemoteClose()
	case "swarm-close":
		tr.Emit("note", "what", "swarm_close_call")
		sw.Close()
	case "stream-reset":
		connGone = false
		if len(others) > 0 {
			others[0].Reset()
			endOnce("s1", "reset")
		} else {
			// the only other stream is inbound: find exactly that one among the registered streams (the
			// released operation may have registered its own stream meanwhile; map order is random)
			for _, s := range c.GetStreams() {
				ms, _ := s.(*Stream).stream.(*vfC04MS)
				mu.Lock()
				isS1 := byMS[ms] == "s1"
				mu.Unlock()
				if isS1 {
					s.Reset()
					endOnce("s1", "reset")
					break
				}
			}
		}
	}
	synctest.Wait()
	rel("after") // (no-op when it was released earlier)
	wg.Wait()
	synctest.Wait()
	if connGone {
		// the connection is closed: the swarm has reset every stream that was registered on it
		mu.Lock()
		var live []string
		for o, st := range state {
			if o != "c1" && st != "ended" {
				live = append(live, o)
			}
		}
		mu.Unlock()
		for _, o := range []string{"s1", "s2", "sp"} {
			for _, l := range live {
				if l == o {
					endOnce(o, "conn-closed")
				}
			}
		}
		endOnce("c1", "closed")
	}
	if plan.Trigger == "swarm-close" {
		tr.Emit("swarm_closed", "rm", "s", "conns", len(sw.Conns()), "listeners", len(sw.ListenAddresses()))
	}
	led.Audit("s", false, vfc04.ReadUsage(rm), 0)
	if plan.Trigger != "swarm-close" {
		tr.Emit("note", "what", "swarm_close_call")
		sw.Close() // must return: every stream reference has been released
		synctest.Wait()
		tr.Emit("swarm_closed", "rm", "s", "conns", len(sw.Conns()), "listeners", len(sw.ListenAddresses()))
	}
	hwg.Wait()
	synctest.Wait()
	ps.Close()
	rm.Close()
	synctest.Wait()
	_ = time.Second
	led.Audit("s", true, vfc04.ReadUsage(rm), len(vfc04.Census()))
	return hit
}
