//go:build verif

package swarm_test

// C01, end to end: real swarms over loopback (TCP with the real upgrader and Noise or TLS, and QUIC,
// which uses Identity.ConfigForPeer).  A dialer is told that peer P lives at an address where host Q
// listens: DialPeer(P) must fail and must leave nothing authenticated as Q in the dialer's hands; told
// the truth, it must report P, and P must report the dialer.  This is the only place where
// upgrader.setupSecurity (which passes the dialled peer to the security transport) and the QUIC
// transport's use of ConfigForPeer run in a real handshake; everything else about QUIC/WebTransport/
// WebRTC is covered only through the verifier they share.

import (
	"context"
	"crypto/rand"
	"fmt"
	"io"
	"sync"
	"testing"
	"time"

	"github.com/libp2p/go-libp2p/core/crypto"
	"github.com/libp2p/go-libp2p/core/network"
	"github.com/libp2p/go-libp2p/core/peer"
	"github.com/libp2p/go-libp2p/core/peerstore"
	"github.com/libp2p/go-libp2p/core/sec"
	"github.com/libp2p/go-libp2p/internal/vfh"
	"github.com/libp2p/go-libp2p/p2p/host/eventbus"
	"github.com/libp2p/go-libp2p/p2p/host/peerstore/pstoremem"
	"github.com/libp2p/go-libp2p/p2p/muxer/yamux"
	"github.com/libp2p/go-libp2p/p2p/net/swarm"
	tptu "github.com/libp2p/go-libp2p/p2p/net/upgrader"
	"github.com/libp2p/go-libp2p/p2p/security/noise"
	libp2ptls "github.com/libp2p/go-libp2p/p2p/security/tls"
	libp2pquic "github.com/libp2p/go-libp2p/p2p/transport/quic"
	"github.com/libp2p/go-libp2p/p2p/transport/quicreuse"
	"github.com/libp2p/go-libp2p/p2p/transport/tcp"
	ma "github.com/multiformats/go-multiaddr"
	"github.com/quic-go/quic-go"
)

type vfC01Host struct {
	name    string
	id      peer.ID
	sw      *swarm.Swarm
	ps      peerstore.Peerstore
	tcpA    ma.Multiaddr
	quicA   ma.Multiaddr
	closers []io.Closer
	mu      sync.Mutex
	seen    []network.Conn // every Connected notification
}

func (h *vfC01Host) close() {
	h.sw.Close()
	for _, c := range h.closers {
		c.Close()
	}
	h.ps.Close()
}

func vfC01NewHost(name, keyType, security string, listen bool) (*vfC01Host, error) {
	var priv crypto.PrivKey
	var err error
	switch keyType {
	case "ECDSA":
		priv, _, err = crypto.GenerateECDSAKeyPair(rand.Reader)
	case "Secp256k1":
		priv, _, err = crypto.GenerateSecp256k1Key(rand.Reader)
	case "RSA":
		priv, _, err = crypto.GenerateRSAKeyPair(2048, rand.Reader)
	default:
		priv, _, err = crypto.GenerateEd25519Key(rand.Reader)
	}
	if err != nil {
		return nil, err
	}
	id, err := peer.IDFromPrivateKey(priv)
	if err != nil {
		return nil, err
	}
	ps, err := pstoremem.NewPeerstore()
	if err != nil {
		return nil, err
	}
	h := &vfC01Host{name: name, id: id, ps: ps}
	if err := ps.AddPrivKey(id, priv); err != nil {
		return nil, err
	}
	if err := ps.AddPubKey(id, priv.GetPublic()); err != nil {
		return nil, err
	}
	h.sw, err = swarm.NewSwarm(id, ps, eventbus.NewBus())
	if err != nil {
		return nil, err
	}
	h.sw.Notify(&network.NotifyBundle{ConnectedF: func(_ network.Network, c network.Conn) {
		h.mu.Lock()
		h.seen = append(h.seen, c)
		h.mu.Unlock()
	}})
	muxers := []tptu.StreamMuxer{{ID: yamux.ID, Muxer: yamux.DefaultTransport}}
	var st sec.SecureTransport
	if security == "tls" {
		st, err = libp2ptls.New(libp2ptls.ID, priv, muxers)
	} else {
		st, err = noise.New(noise.ID, priv, muxers)
	}
	if err != nil {
		return nil, err
	}
	up, err := tptu.New([]sec.SecureTransport{st}, muxers, nil, nil, nil)
	if err != nil {
		return nil, err
	}
	tcpT, err := tcp.NewTCPTransport(up, nil, nil, tcp.DisableReuseport())
	if err != nil {
		return nil, err
	}
	reuse, err := quicreuse.NewConnManager(quic.StatelessResetKey{}, quic.TokenGeneratorKey{})
	if err != nil {
		return nil, err
	}
	h.closers = append(h.closers, reuse)
	quicT, err := libp2pquic.NewTransport(priv, reuse, nil, nil, nil)
	if err != nil {
		return nil, err
	}
	if c, ok := quicT.(io.Closer); ok {
		h.closers = append(h.closers, c)
	}
	if err := h.sw.AddTransport(tcpT); err != nil {
		return nil, err
	}
	if err := h.sw.AddTransport(quicT); err != nil {
		return nil, err
	}
	if listen {
		if err := h.sw.Listen(ma.StringCast("/ip4/127.0.0.1/tcp/0"), ma.StringCast("/ip4/127.0.0.1/udp/0/quic-v1")); err != nil {
			return nil, err
		}
		for _, a := range h.sw.ListenAddresses() {
			if _, err := a.ValueForProtocol(ma.P_QUIC_V1); err == nil {
				h.quicA = a
			} else {
				h.tcpA = a
			}
		}
		if h.tcpA == nil || h.quicA == nil {
			return nil, fmt.Errorf("%s: listen addresses %v", name, h.sw.ListenAddresses())
		}
	}
	return h, nil
}

func TestVerifC01EndToEnd(t *testing.T) {
	res := vfh.NewResult()
	res.Rule = "distinct = (transport, security, key types, truthful/misdirected) dials executed"
	defer func() {
		if err := res.Write(); err != nil {
			t.Error(err)
		}
	}()
	types := []string{"Ed25519", "ECDSA", "Secp256k1", "RSA"}
	seed := int(vfh.Seed())
	type combo struct{ tpt, security string }
	combos := []combo{{"tcp", "noise"}, {"tcp", "tls"}, {"quic", "tls13"}}
	rounds := 1
	if vfh.Thorough() {
		rounds = 4
	}
	for r := 0; r < rounds; r++ {
		for ci, cb := range combos {
			security := cb.security
			if security == "tls13" {
				security = "noise" // irrelevant for QUIC
			}
			tp, tq, td := types[(seed+r+ci)%4], types[(seed+r+ci+1)%4], types[(seed+2*r+ci+2)%4]
			P, err := vfC01NewHost("P", tp, security, true)
			if err != nil {
				t.Fatal(err)
			}
			Q, err := vfC01NewHost("Q", tq, security, true)
			if err != nil {
				t.Fatal(err)
			}
			addrOf := func(h *vfC01Host) ma.Multiaddr {
				if cb.tpt == "quic" {
					return h.quicA
				}
				return h.tcpA
			}
			for _, mode := range []string{"truthful", "misdirected", "warm-misdirected"} {
				misdirected := mode != "truthful"
				D, err := vfC01NewHost("D", td, security, false)
				if err != nil {
					t.Fatal(err)
				}
				if mode == "warm-misdirected" {
					// warm history: the same dialer first reaches the real P (and Q, so that whatever it remembers
					// about either is in place), closes the connections, and is then told that P lives where Q listens
					for _, h := range []*vfC01Host{P, Q} {
						D.ps.AddAddr(h.id, addrOf(h), peerstore.PermanentAddrTTL)
						ctx, cancel := context.WithTimeout(context.Background(), 20*time.Second)
						c, werr := D.sw.DialPeer(ctx, h.id)
						cancel()
						if werr != nil || c.RemotePeer() != h.id {
							res.AddMismatch(vfh.Mismatch{Class: "L2:truthful-dial-failed", What: fmt.Sprintf("warm-up dial over %s/%s failed: %v", cb.tpt, cb.security, werr), Walk: -1})
						}
						D.sw.ClosePeer(h.id)
						D.ps.ClearAddrs(h.id)
					}
					D.mu.Lock()
					D.seen = nil
					D.mu.Unlock()
				}
				target := addrOf(P)
				if misdirected {
					target = addrOf(Q) // the dialer is told that P lives where Q listens
				}
				D.ps.AddAddr(P.id, target, peerstore.PermanentAddrTTL)
				cfg := map[string]any{"transport": cb.tpt, "security": cb.security, "keys": tp + "/" + tq + "/" + td, "mode": mode, "seed": seed}
				mm := func(class, what string, exp, got any) {
					res.AddMismatch(vfh.Mismatch{Class: class, What: what, Walk: -1, Expected: exp, Got: got, Cfg: cfg})
				}
				ctx, cancel := context.WithTimeout(context.Background(), 20*time.Second)
				c, derr := D.sw.DialPeer(ctx, P.id)
				cancel()
				if derr == nil && c.RemotePeer() != P.id {
					mm("dial-returned-wrong-peer", fmt.Sprintf("DialPeer(P) over %s/%s returned a connection whose RemotePeer() is %s", cb.tpt, cb.security, c.RemotePeer()), P.id.String(), c.RemotePeer().String())
				}
				if derr == nil && misdirected {
					mm("dial-completed-with-the-wrong-host", fmt.Sprintf("DialPeer(P) over %s/%s succeeded although the address belongs to another host, which holds no key of P", cb.tpt, cb.security), "error", c.RemotePeer().String())
				}
				if derr == nil {
					if k := c.RemotePublicKey(); k == nil || !c.RemotePeer().MatchesPublicKey(k) {
						mm("remote-peer-not-derived-from-remote-key", fmt.Sprintf("the connection returned by DialPeer(P) over %s/%s reports a remote peer that is not the ID of its RemotePublicKey()", cb.tpt, cb.security), c.RemotePeer().String(), fmt.Sprint(k))
					}
				}
				D.mu.Lock()
				for _, sc := range D.seen {
					if sc.RemotePeer() != P.id {
						mm("dial-wrong-peer-conn-notified", fmt.Sprintf("a dial for P over %s/%s produced a Connected notification for %s", cb.tpt, cb.security, sc.RemotePeer()), P.id.String(), sc.RemotePeer().String())
					}
				}
				D.mu.Unlock()
				for _, lc := range D.sw.Conns() {
					if lc.RemotePeer() != P.id {
						mm("dial-wrong-peer-conn-listed", "after a dial for P the dialer lists a connection to somebody else", P.id.String(), lc.RemotePeer().String())
					}
				}
				if !misdirected && derr != nil {
					mm("L2:truthful-dial-failed", fmt.Sprintf("DialPeer(P) at P's own %s/%s address failed: %v", cb.tpt, cb.security, derr), "connection", derr.Error())
				}
				res.Sample(map[string]any{"cfg": cfg, "err": fmt.Sprint(derr)})
				switch {
				case derr == nil:
					res.Inc("E.connected."+cb.tpt+"."+cb.security, 1)
				default:
					res.Inc("E.refused."+cb.tpt+"."+cb.security, 1)
				}
				res.Case(fmt.Sprint(cfg))
				res.Count(1, 1)
				D.close()
			}
			P.close()
			Q.close()
		}
	}
}
