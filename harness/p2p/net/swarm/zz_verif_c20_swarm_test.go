//go:build verif

package swarm

// C20 at the swarm's call sites (swarm_dial.go: FilterAddrs in filterKnownUndialables, RecordResult in
// dialAddr): a real Swarm with small black-hole counters and scripted transports in virtual time.  Each
// request is a DialPeer to a fresh peer that has a public UDP (QUIC) address, a public TCP address and
// a private UDP address; the UDP path follows a seeded script of black-hole and healthy phases.  Only
// observables are recorded (which addresses reached a transport, with which outcome, per request); TLC
// validates them against spec/C20_SwarmObs.tla, which re-uses the counter of C20_BlackHole to know what
// the statement allows after the outcomes observed so far.

import (
	"context"
	"errors"
	"fmt"
	"math/rand"
	"os"
	"path/filepath"
	"sync"
	"testing"
	"testing/synctest"
	"time"

	"github.com/libp2p/go-libp2p/core/peer"
	"github.com/libp2p/go-libp2p/core/peerstore"
	"github.com/libp2p/go-libp2p/core/transport"
	"github.com/libp2p/go-libp2p/internal/vfh"
	"github.com/libp2p/go-libp2p/p2p/host/eventbus"
	"github.com/libp2p/go-libp2p/p2p/host/peerstore/pstoremem"
	ma "github.com/multiformats/go-multiaddr"
	mafmt "github.com/multiformats/go-multiaddr-fmt"
)

type vfC20Tpt struct {
	protos []int
	match  func(ma.Multiaddr) bool
	tr     *vfh.Trace
	local  peer.ID
	mu     *sync.Mutex
	kind   map[string]string // address bytes -> "upub" | "tpub" | "upriv"
	ok     map[string]bool   // address bytes -> outcome
	mis    map[string]bool   // address bytes -> the transport reaches somebody else (the network path works)
	req    *int
}

func (t *vfC20Tpt) CanDial(a ma.Multiaddr) bool { return t.match(a) }
func (t *vfC20Tpt) Listen(ma.Multiaddr) (transport.Listener, error) {
	return nil, errors.New("verif: no listening")
}
func (t *vfC20Tpt) Protocols() []int { return t.protos }
func (t *vfC20Tpt) Proxy() bool      { return false }
func (t *vfC20Tpt) Dial(ctx context.Context, raddr ma.Multiaddr, p peer.ID) (transport.CapableConn, error) {
	t.mu.Lock()
	k, ok, i := t.kind[string(raddr.Bytes())], t.ok[string(raddr.Bytes())], *t.req
	mis := t.mis[string(raddr.Bytes())]
	t.mu.Unlock()
	t.tr.Emit("tdial_start", "k", k, "i", i)
	select {
	case <-time.After(10 * time.Millisecond):
	case <-ctx.Done():
		t.tr.Emit("tdial_end", "k", k, "i", i, "ok", false)
		return nil, ctx.Err()
	}
	if !ok {
		t.tr.Emit("tdial_end", "k", k, "i", i, "ok", false)
		return nil, errors.New("verif: scripted failure")
	}
	if mis {
		p = peer.ID("vf-c20-somebody-else")
	}
	c := newVfStubConn("c", t.local, p, ma.StringCast("/ip4/127.0.0.1/tcp/1"), raddr, false)
	c.Tpt = t
	t.tr.Emit("tdial_end", "k", k, "i", i, "ok", true)
	return c, nil
}

func vfC20SwarmScenario(t *testing.T, seed int64, tr *vfh.Trace) {
	rnd := rand.New(rand.NewSource(seed))
	n := 2 + rnd.Intn(3)
	min := 1 + rnd.Intn(n)
	ps, err := pstoremem.NewPeerstore()
	if err != nil {
		t.Fatal(err)
	}
	local := peer.ID("vf-local-c20")
	sw, err := NewSwarm(local, ps, eventbus.NewBus(),
		WithUDPBlackHoleSuccessCounter(&BlackHoleSuccessCounter{N: n, MinSuccesses: min, Name: "UDP"}),
		WithIPv6BlackHoleSuccessCounter(nil))
	if err != nil {
		t.Fatal(err)
	}
	var mu sync.Mutex
	kind, okm, mism := map[string]string{}, map[string]bool{}, map[string]bool{}
	req := 0
	quic := &vfC20Tpt{protos: []int{ma.P_QUIC_V1}, tr: tr, local: local, mu: &mu, kind: kind, ok: okm, mis: mism, req: &req, match: func(a ma.Multiaddr) bool {
		_, err := a.ValueForProtocol(ma.P_QUIC_V1)
		return err == nil
	}}
	tcp := &vfC20Tpt{protos: []int{ma.P_TCP}, tr: tr, local: local, mu: &mu, kind: kind, ok: okm, mis: mism, req: &req, match: func(a ma.Multiaddr) bool { return mafmt.TCP.Matches(a) }}
	// relayed addresses: to the detector a circuit address over a public UDP relay is a public UDP address like any other
	circuit := &vfC20Tpt{protos: []int{ma.P_CIRCUIT}, tr: tr, local: local, mu: &mu, kind: kind, ok: okm, mis: mism, req: &req, match: func(a ma.Multiaddr) bool {
		_, err := a.ValueForProtocol(ma.P_CIRCUIT)
		return err == nil
	}}
	relayID := "12D3KooWD3eckifWpRn9wQpMG9R9hX3sD158z7EqHWmweQAJU5SA"
	for _, tp := range []*vfC20Tpt{quic, tcp, circuit} {
		if err := sw.AddTransport(tp); err != nil {
			t.Fatal(err)
		}
	}
	tr.Emit("config", "N", n, "min", min)
	nreq := 4*n + rnd.Intn(6*n)
	healthy := rnd.Intn(3) == 0 // which phase the UDP path starts in
	left := 1 + rnd.Intn(3*n)
	pubIPs := []string{"1.2.3.4", "8.8.8.8", "151.101.1.1", "93.184.216.34"}
	privIPs := []string{"192.168.1.7", "10.0.0.9", "100.64.1.1", "172.16.5.5"}
	for i := 1; i <= nreq; i++ {
		if left == 0 {
			healthy = !healthy
			left = 1 + rnd.Intn(3*n)
		}
		left--
		p := peer.ID(fmt.Sprintf("vf-c20-peer-%d", i))
		hasU, hasT, hasP := rnd.Intn(6) != 0, rnd.Intn(3) != 0, rnd.Intn(3) == 0
		if !hasU && !hasT && !hasP {
			hasU = true
		}
		var addrs []ma.Multiaddr
		add := func(s, k string, ok bool) {
			a := ma.StringCast(s)
			mu.Lock()
			kind[string(a.Bytes())] = k
			okm[string(a.Bytes())] = ok
			mu.Unlock()
			addrs = append(addrs, a)
		}
		if hasU {
			if rnd.Intn(3) == 0 {
				add(fmt.Sprintf("/ip4/%s/udp/%d/quic-v1/p2p/%s/p2p-circuit", pubIPs[rnd.Intn(len(pubIPs))], 4000+i, relayID), "upub", healthy)
			} else {
				add(fmt.Sprintf("/ip4/%s/udp/%d/quic-v1", pubIPs[rnd.Intn(len(pubIPs))], 4000+i), "upub", healthy)
			}
			if healthy && rnd.Intn(6) == 0 {
				// the dial works at the network level but reaches another peer: an outcome of the path, not of the peer
				mu.Lock()
				mism[string(addrs[len(addrs)-1].Bytes())] = true
				mu.Unlock()
			}
		}
		if hasT {
			add(fmt.Sprintf("/ip4/%s/tcp/%d", pubIPs[rnd.Intn(len(pubIPs))], 4000+i), "tpub", false)
		}
		if hasP {
			add(fmt.Sprintf("/ip4/%s/udp/%d/quic-v1", privIPs[rnd.Intn(len(privIPs))], 4000+i), "upriv", false)
		}
		ps.AddAddrs(p, addrs, peerstore.PermanentAddrTTL)
		if rnd.Intn(4) == 0 {
			// calls of the swarm's dial function that never reach a transport (context already cancelled, no
			// transport for the address, dial to self): no dial happened, so the detector has nothing to learn
			ua := ma.StringCast(fmt.Sprintf("/ip4/%s/udp/%d/quic-v1", pubIPs[rnd.Intn(len(pubIPs))], 3000+i))
			for j, m := 0, 1+rnd.Intn(n+1); j < m; j++ {
				var err error
				how := []string{"cancelled", "notransport", "self"}[rnd.Intn(3)]
				switch how {
				case "cancelled":
					cctx, cancel := context.WithCancel(context.Background())
					cancel()
					_, err = sw.dialAddr(cctx, p, ua, nil)
				case "notransport":
					_, err = sw.dialAddr(context.Background(), p, ma.StringCast(fmt.Sprintf("/ip4/%s/udp/%d/webrtc-direct", pubIPs[rnd.Intn(len(pubIPs))], 3000+i)), nil)
				case "self":
					_, err = sw.dialAddr(context.Background(), local, ua, nil)
				}
				tr.Emit("nodial", "how", how, "err", err != nil)
			}
		}
		mu.Lock()
		req = i
		mu.Unlock()
		tr.Emit("req", "i", i, "upub", hasU, "tpub", hasT, "upriv", hasP)
		conn, err := sw.DialPeer(context.Background(), p)
		tr.Emit("ret", "i", i, "conn", err == nil)
		if err == nil {
			conn.Close()
		}
		synctest.Wait()
	}
	sw.Close()
	ps.Close()
	synctest.Wait()
}

func TestVerifC20Swarm(t *testing.T) {
	res := vfh.NewResult()
	defer func() {
		if err := res.Write(); err != nil {
			t.Fatal(err)
		}
	}()
	iters := vfh.EnvInt("VERIF_C20_ITERS", 60)
	res.Rule = "one case = one seeded sequence of DialPeer calls to fresh peers (public UDP / public TCP / private UDP addresses) through a real Swarm with a small UDP black-hole counter (N 2..4, MinSuccesses 1..N) while the UDP path alternates between black-hole and healthy phases; distinct = distinct recorded sequences"
	path := ""
	if vfh.Out() != "" {
		path = filepath.Join(vfh.Out(), "c20_swarm_traces.ndjson")
		os.Remove(path)
	}
	for i := 0; i < iters; i++ {
		seed := vfh.Seed()*1000003 + int64(i)
		tr := vfh.NewTrace(fmt.Sprintf("it%d", i))
		synctest.Test(t, func(t *testing.T) { vfC20SwarmScenario(t, seed, tr) })
		res.Count(1, tr.Len())
		sig := ""
		for _, e := range tr.Events() {
			sig += fmt.Sprint(e["ev"], e["k"], e["ok"], e["conn"], ";")
		}
		res.Case(sig)
		if path != "" {
			if err := tr.AppendTo(path, map[string]any{"seed": seed}); err != nil {
				t.Fatal(err)
			}
		}
		if i == 0 {
			evs := tr.Events()
			if len(evs) > 30 {
				evs = evs[:30]
			}
			res.Sample(map[string]any{"scenario_seed": seed, "first_events": evs})
		}
	}
	if path != "" {
		res.Traces = []string{path}
	}
}
