//go:build verif

package swarm

// C06, spec -> code: every transition of the bounded state graphs of spec/C06_ConnEvents.tla is
// driven through a real connectionEventsEmitter.  The owner-supplied callbacks and the
// `connectedness` function are gates, so each model action releases exactly one goroutine of the
// real code, and testing/synctest's Wait() gives a deterministic "everything is blocked again"
// point at which observables (callbacks started/finished, calls returned, events published) and the
// emitter's maps are compared with the model.

import (
	"encoding/json"
	"fmt"
	"path/filepath"
	"sort"
	"sync"
	"testing"
	"testing/synctest"

	"github.com/libp2p/go-libp2p/core/event"
	"github.com/libp2p/go-libp2p/core/network"
	"github.com/libp2p/go-libp2p/core/peer"
	"github.com/libp2p/go-libp2p/core/transport"
	"github.com/libp2p/go-libp2p/internal/vfh"
)

type vfC06StubCC struct {
	transport.CapableConn
	p peer.ID
}

func (s *vfC06StubCC) RemotePeer() peer.ID { return s.p }

type vfC06FakeEmitter struct {
	mu  sync.Mutex
	evs [][2]string
	ids map[peer.ID]string
}

func (f *vfC06FakeEmitter) Emit(e any) error {
	ev := e.(event.EvtPeerConnectednessChanged)
	st := "N"
	switch ev.Connectedness {
	case network.Connected:
		st = "C"
	case network.Limited:
		st = "L"
	}
	f.mu.Lock()
	f.evs = append(f.evs, [2]string{f.ids[ev.Peer], st})
	f.mu.Unlock()
	return nil
}
func (f *vfC06FakeEmitter) Close() error { return nil }

type vfC06Gate struct {
	entered  int
	finished int
	release  chan struct{}
}

type vfC06Sys struct {
	mu       sync.Mutex
	free     bool // free-run: gates no longer block (tear-down)
	em       *connectionEventsEmitter
	fe       *vfC06FakeEmitter
	conns    map[string]*Conn
	name     map[*Conn]string
	peerOf   map[string]string
	peerID   map[string]peer.ID
	limited  map[string]bool
	inmap    map[string]bool
	cg, dg   map[string]*vfC06Gate // Connected / Disconnected gates per conn
	addRet   map[string]bool
	remRet   map[string]bool
	notifyAt bool
	notifyCh chan struct{}
	// the run loop has its answer from `connectedness` (computed when NotifyRead released it) and is
	// parked before acting on it until NotifyPub: whatever the model does in between happens in between
	rdAt  bool
	rdVal string
	rdCh  chan struct{}
	closeRet bool
	order    []string // observable callback log: "C+c1","C-c1","D+c1","D-c1"
	// the harness's own ledger of what it has done (not model state)
	seenL, addStarted, remStarted map[string]bool
	closeCalled                   bool
}

func vfC06New(conns []string, peerOf map[string]string, limited map[string]bool) *vfC06Sys {
	s := &vfC06Sys{conns: map[string]*Conn{}, name: map[*Conn]string{}, peerOf: peerOf, limited: limited,
		peerID: map[string]peer.ID{}, inmap: map[string]bool{}, cg: map[string]*vfC06Gate{}, dg: map[string]*vfC06Gate{},
		addRet: map[string]bool{}, remRet: map[string]bool{}, notifyCh: make(chan struct{}), rdCh: make(chan struct{}),
		seenL: map[string]bool{}, addStarted: map[string]bool{}, remStarted: map[string]bool{}}
	s.fe = &vfC06FakeEmitter{ids: map[peer.ID]string{}}
	for _, c := range conns {
		p := peerOf[c]
		if _, ok := s.peerID[p]; !ok {
			id := peer.ID("vf-peer-" + p)
			s.peerID[p] = id
			s.fe.ids[id] = p
		}
		cn := &Conn{conn: &vfC06StubCC{p: s.peerID[p]}}
		s.conns[c] = cn
		s.name[cn] = c
		s.cg[c] = &vfC06Gate{release: make(chan struct{})}
		s.dg[c] = &vfC06Gate{release: make(chan struct{})}
	}
	s.em = newConnectionEventsEmitter(s.connectedness, s.fe, s.onConnected, s.onDisconnected)
	return s
}

func (s *vfC06Sys) cness(p peer.ID) network.Connectedness {
	haveL := false
	for c, in := range s.inmap {
		if !in || s.peerID[s.peerOf[c]] != p {
			continue
		}
		if s.limited[c] {
			haveL = true
		} else {
			return network.Connected
		}
	}
	if haveL {
		return network.Limited
	}
	return network.NotConnected
}

// connectedness is what the run loop calls: it waits at the notify gate, then answers from the
// harness's registration map as of the moment it is released.
func (s *vfC06Sys) connectedness(p peer.ID) network.Connectedness {
	s.mu.Lock()
	free := s.free
	s.notifyAt = true
	s.mu.Unlock()
	if !free {
		<-s.notifyCh
	}
	s.mu.Lock()
	s.notifyAt = false
	v := s.cness(p)
	s.rdAt = true
	s.rdVal = map[network.Connectedness]string{network.Connected: "C", network.Limited: "L", network.NotConnected: "N"}[v]
	free = s.free
	s.mu.Unlock()
	if !free {
		<-s.rdCh
	}
	s.mu.Lock()
	s.rdAt = false
	s.mu.Unlock()
	return v
}

func (s *vfC06Sys) gate(g *vfC06Gate, tag, c string) {
	s.mu.Lock()
	g.entered++
	s.order = append(s.order, tag+"+"+c)
	free := s.free
	s.mu.Unlock()
	if !free {
		<-g.release
	}
	s.mu.Lock()
	g.finished++
	s.order = append(s.order, tag+"-"+c)
	s.mu.Unlock()
}

func (s *vfC06Sys) onConnected(c *Conn)    { s.gate(s.cg[s.name[c]], "C", s.name[c]) }
func (s *vfC06Sys) onDisconnected(c *Conn) { s.gate(s.dg[s.name[c]], "D", s.name[c]) }

type vfC06State struct {
	Seen      []string          `json:"seen"`
	Inmap     []string          `json:"inmap"`
	Apc       map[string]string `json:"apc"`
	Rpc       map[string]string `json:"rpc"`
	Queue     [][]string        `json:"queue"`
	Connected []string          `json:"connected"`
	Pending   []string          `json:"pending"`
	Last      map[string]string `json:"last"`
	NConn     map[string]int    `json:"nConn"`
	NDisc     map[string]int    `json:"nDisc"`
	Pub       [][]string        `json:"pub"`
	Closed    string            `json:"closed"`
	Rd        struct {
		On  bool   `json:"on"`
		P   string `json:"p"`
		Typ string `json:"typ"`
		New string `json:"new"`
	} `json:"rd"`
}

// apply performs one model action on the real emitter.
func (s *vfC06Sys) apply(op vfh.Op) {
	c := op.S("c")
	switch op.Name() {
	case "register":
		s.mu.Lock()
		s.inmap[c] = true
		s.seenL[c] = true
		s.mu.Unlock()
	case "unregister":
		s.mu.Lock()
		s.inmap[c] = false
		s.mu.Unlock()
	case "addstart":
		s.mu.Lock()
		s.addStarted[c] = true
		s.mu.Unlock()
		go func() {
			s.em.AddConn(s.conns[c])
			s.mu.Lock()
			s.addRet[c] = true
			s.mu.Unlock()
		}()
	case "addcbret":
		select {
		case s.cg[c].release <- struct{}{}:
		default: // nobody is inside onConnected: observe() reports it
		}
	case "adddiscret", "remdiscret":
		select {
		case s.dg[c].release <- struct{}{}:
		default:
		}
	case "remstart":
		s.mu.Lock()
		s.remStarted[c] = true
		s.mu.Unlock()
		go func() {
			s.em.RemoveConn(s.conns[c])
			s.mu.Lock()
			s.remRet[c] = true
			s.mu.Unlock()
		}()
	case "notifyread":
		select {
		case s.notifyCh <- struct{}{}:
		default:
		}
	case "notifypub":
		select {
		case s.rdCh <- struct{}{}:
		default:
		}
	case "closecall":
		s.mu.Lock()
		s.closeCalled = true
		s.mu.Unlock()
		go func() {
			s.em.Close()
			s.mu.Lock()
			s.closeRet = true
			s.mu.Unlock()
		}()
	case "closeret":
	}
	synctest.Wait()
}

// observe checks the real emitter against the model state after a step. Returns (class, what,
// expected, got) of the first disagreement; L1 = callbacks, returns and published events.
func (s *vfC06Sys) observe(m *vfC06State, conns []string) (string, string, any, any) {
	s.mu.Lock()
	defer s.mu.Unlock()
	for _, c := range conns {
		// callbacks
		wantC, wantD := m.NConn[c], m.NDisc[c]
		if s.cg[c].entered != wantC {
			return "connected-count", fmt.Sprintf("Connected started %d times for %s", s.cg[c].entered, c), wantC, s.cg[c].entered
		}
		if s.dg[c].entered != wantD {
			return "disconnected-count", fmt.Sprintf("Disconnected started %d times for %s", s.dg[c].entered, c), wantD, s.dg[c].entered
		}
		// ordering on the real log: D+ only after C-
		// calls returned
		wantAddRet := m.Apc[c] == "done" || m.Apc[c] == "skipped"
		if s.addRet[c] != wantAddRet {
			return "addconn-return", fmt.Sprintf("AddConn(%s) returned=%v in model state %s", c, s.addRet[c], m.Apc[c]), wantAddRet, s.addRet[c]
		}
		wantRemRet := m.Rpc[c] == "done" || m.Rpc[c] == "skipped"
		if s.remRet[c] != wantRemRet {
			return "removeconn-return", fmt.Sprintf("RemoveConn(%s) returned=%v in model state %s", c, s.remRet[c], m.Rpc[c]), wantRemRet, s.remRet[c]
		}
	}
	seenC := map[string]bool{}
	for _, e := range s.order {
		if e[:2] == "C-" {
			seenC[e[2:]] = true
		}
		if e[:2] == "D+" && !seenC[e[2:]] {
			return "disconnected-before-connected-returned", "Disconnected started before Connected returned for " + e[2:], nil, s.order
		}
	}
	// published events
	s.fe.mu.Lock()
	var pub [][]string
	for _, e := range s.fe.evs {
		pub = append(pub, []string{e[0], e[1]})
	}
	s.fe.mu.Unlock()
	// L1 on the real sequence: no state published twice in a row for a peer, except NotConnected
	lastPub := map[string]string{}
	for _, e := range pub {
		prev, ok := lastPub[e[0]]
		if !ok {
			prev = "N"
		}
		if e[1] == prev && e[1] != "N" {
			return "connectedness-repeated", fmt.Sprintf("state %s published twice in a row for %s", e[1], e[0]), m.Pub, pub
		}
		lastPub[e[0]] = e[1]
	}
	// L1 at quiescence: the last published state is the truth
	quiet := len(m.Queue) == 0 && m.Closed == "open" && !m.Rd.On
	for _, c := range m.Seen {
		if !(m.Apc[c] == "done" || m.Apc[c] == "skipped") {
			quiet = false
		}
		in := false
		for _, x := range m.Inmap {
			if x == c {
				in = true
			}
		}
		if !in && !(m.Rpc[c] == "done" || m.Rpc[c] == "skipped") {
			quiet = false
		}
	}
	if quiet && !s.notifyAt && !s.rdAt && len(s.em.peerConnectednessCh) == 0 {
		for p, id := range s.peerID {
			truth := map[network.Connectedness]string{network.Connected: "C", network.Limited: "L", network.NotConnected: "N"}[s.cness(id)]
			got, ok := lastPub[p]
			if !ok {
				got = "N"
			}
			if got != truth {
				return "connectedness-stale", fmt.Sprintf("at quiescence the last published state of %s is %s but it is %s", p, got, truth), truth, got
			}
		}
	}
	if vfh.Canon(pub) != vfh.Canon(m.Pub) && !(len(pub) == 0 && len(m.Pub) == 0) {
		// The schedule is the model's, so the published sequence is determined - except that the statement
		// PERMITS, not requires, the repeated NotConnected that announces a connection which vanished before it
		// was announced: the real sequence must be the model's with some of ITS repeated-NotConnected entries
		// left out.  Anything else (an extra event, a repeated NotConnected the model has no reason for, another
		// order) is an observable failure.
		if !vfC06PubAllowed(m.Pub, pub) {
			return "connectedness-events-not-allowed", "PeerConnectednessChanged sequence cannot be obtained from the model's by leaving out permitted repeated NotConnected events", m.Pub, pub
		}
		return "L2:published-events", "PeerConnectednessChanged sequence differs from the model (permitted repeated NotConnected left out)", m.Pub, pub
	}
	// Close must not return while a callback is running or events are queued
	inflight := false
	for _, c := range conns {
		if m.Apc[c] == "cb" || m.Apc[c] == "cbD" || m.Rpc[c] == "cbD" {
			inflight = true
		}
	}
	if s.closeRet && (inflight || len(m.Queue) > 0) {
		return "close-returned-early", "emitter Close returned while a callback was running or events were queued", m.Closed, "returned"
	}
	if m.Closed == "closed" && !s.closeRet {
		return "L2:close-not-returned", "model says Close returned", "closed", "not returned"
	}
	// L2: the emitter's own maps and queue
	s.em.notifsLk.Lock()
	var conn, pend []string
	for c := range s.em.connected {
		conn = append(conn, s.name[c])
	}
	for c := range s.em.pendingDisconnect {
		pend = append(pend, s.name[c])
	}
	s.em.notifsLk.Unlock()
	sort.Strings(conn)
	sort.Strings(pend)
	if fmt.Sprint(conn) != fmt.Sprint(append([]string{}, m.Connected...)) {
		return "L2:connected-map", "emitter.connected differs", m.Connected, conn
	}
	if fmt.Sprint(pend) != fmt.Sprint(append([]string{}, m.Pending...)) {
		return "L2:pending-map", "emitter.pendingDisconnect differs", m.Pending, pend
	}
	q := len(s.em.peerConnectednessCh)
	if s.notifyAt {
		q++
	}
	if q != len(m.Queue) {
		return "L2:queue", "queued connectedness events differ", len(m.Queue), q
	}
	if s.rdAt != m.Rd.On || (s.rdAt && s.rdVal != m.Rd.New) {
		return "L2:lookup", "the run loop's pending connectedness look-up differs", m.Rd, []any{s.rdAt, s.rdVal}
	}
	return "", "", nil, nil
}

// pure checks the clauses that need no model state: callback order and multiplicity, no repeated
// published state, and - whenever the real emitter is observably at rest and the harness owes it no call -
// that the last published state of every peer is the truth.  Usable after the model and the real
// emitter got out of step.
func (s *vfC06Sys) pure(conns []string) (string, string, any, any) {
	s.mu.Lock()
	defer s.mu.Unlock()
	seenC := map[string]bool{}
	for _, e := range s.order {
		if e[:2] == "C-" {
			seenC[e[2:]] = true
		}
		if e[:2] == "D+" && !seenC[e[2:]] {
			return "disconnected-before-connected-returned", "Disconnected started before Connected returned for " + e[2:], nil, s.order
		}
	}
	rest := !s.notifyAt && !s.rdAt && len(s.em.peerConnectednessCh) == 0 && !s.closeCalled
	for _, c := range conns {
		if s.cg[c].entered > 1 || s.dg[c].entered > 1 {
			return "callback-twice", fmt.Sprintf("a callback started more than once for %s", c), 1, []int{s.cg[c].entered, s.dg[c].entered}
		}
		if s.cg[c].entered != s.cg[c].finished || s.dg[c].entered != s.dg[c].finished {
			rest = false
		}
		if s.addStarted[c] != s.addRet[c] || s.remStarted[c] != s.remRet[c] {
			rest = false
		}
		if s.seenL[c] && !s.addStarted[c] {
			rest = false // the harness still owes AddConn
		}
		if s.seenL[c] && !s.inmap[c] && !s.remStarted[c] {
			rest = false // the harness still owes RemoveConn
		}
		if !s.closeCalled && s.addRet[c] && s.remRet[c] && s.cg[c].entered == 1 && s.dg[c].entered != 1 { // (a closing emitter lets calls return at once)
			return "disconnected-missing", fmt.Sprintf("AddConn and RemoveConn of %s returned, Connected ran, Disconnected never did", c), 1, s.dg[c].entered
		}
	}
	s.fe.mu.Lock()
	lastPub := map[string]string{}
	var pub [][]string
	for _, e := range s.fe.evs {
		pub = append(pub, []string{e[0], e[1]})
		prev, ok := lastPub[e[0]]
		if !ok {
			prev = "N"
		}
		if e[1] == prev && e[1] != "N" {
			s.fe.mu.Unlock()
			return "connectedness-repeated", fmt.Sprintf("state %s published twice in a row for %s", e[1], e[0]), nil, pub
		}
		lastPub[e[0]] = e[1]
	}
	s.fe.mu.Unlock()
	if rest {
		for p, id := range s.peerID {
			truth := map[network.Connectedness]string{network.Connected: "C", network.Limited: "L", network.NotConnected: "N"}[s.cness(id)]
			got, ok := lastPub[p]
			if !ok {
				got = "N"
			}
			if got != truth {
				return "connectedness-stale", fmt.Sprintf("at rest the last published state of %s is %s but it is %s", p, got, truth), truth, got
			}
		}
	}
	return "", "", nil, nil
}

// settle gives the emitter every call the harness still owes it and lets everything run to rest.
func (s *vfC06Sys) settle(conns []string) {
	s.mu.Lock()
	closed := s.closeCalled
	var owedAdd, owedRem []string
	for _, c := range conns {
		if s.seenL[c] && !s.addStarted[c] {
			owedAdd = append(owedAdd, c)
		}
		if s.seenL[c] && !s.inmap[c] && !s.remStarted[c] {
			owedRem = append(owedRem, c)
		}
	}
	s.mu.Unlock()
	if closed {
		return
	}
	for _, c := range owedAdd {
		s.apply(vfh.Op{"name": "addstart", "c": c})
	}
	for _, c := range owedRem {
		s.apply(vfh.Op{"name": "remstart", "c": c})
	}
	for i := 0; i < 200; i++ {
		synctest.Wait()
		progressed := false
		for _, g := range []map[string]*vfC06Gate{s.cg, s.dg} {
			for _, c := range conns {
				select {
				case g[c].release <- struct{}{}:
					progressed = true
				default:
				}
			}
		}
		select {
		case s.notifyCh <- struct{}{}:
			progressed = true
		default:
		}
		select {
		case s.rdCh <- struct{}{}:
			progressed = true
		default:
		}
		if !progressed {
			break
		}
	}
	synctest.Wait()
}

// vfC06PubAllowed: real == model minus some of the model's repeated-NotConnected entries.
func vfC06PubAllowed(model, real [][]string) bool {
	last := map[string]string{}
	j := 0
	for _, e := range model {
		prev, ok := last[e[0]]
		if !ok {
			prev = "N"
		}
		last[e[0]] = e[1]
		if j < len(real) && real[j][0] == e[0] && real[j][1] == e[1] {
			j++
			continue
		}
		if e[1] == "N" && prev == "N" {
			continue // a permitted repeated NotConnected the real emitter did not publish
		}
		return false
	}
	return j == len(real)
}

func (s *vfC06Sys) teardown() {
	s.mu.Lock()
	s.free = true
	s.mu.Unlock()
	// release whatever is blocked
	for {
		synctest.Wait()
		progressed := false
		for _, g := range []map[string]*vfC06Gate{s.cg, s.dg} {
			for _, x := range g {
				select {
				case x.release <- struct{}{}:
					progressed = true
				default:
				}
			}
		}
		select {
		case s.notifyCh <- struct{}{}:
			progressed = true
		default:
		}
		select {
		case s.rdCh <- struct{}{}:
			progressed = true
		default:
		}
		if !progressed {
			break
		}
	}
	s.em.Close()
	synctest.Wait()
}

func TestVerifC06Emitter(t *testing.T) {
	res := vfh.NewResult()
	defer func() {
		if err := res.Write(); err != nil {
			t.Fatal(err)
		}
	}()
	files, _ := filepath.Glob(filepath.Join(vfh.In(), "*.jsonl"))
	if len(files) == 0 {
		t.Fatalf("no behaviour files in %q", vfh.In())
	}
	res.Rule = "one case = one transition (source state, schedulable segment of AddConn/RemoveConn/run loop/Close) of the bounded model executed on a real connectionEventsEmitter under synctest; distinct = distinct transitions; all compare callbacks, returns and published events"
	for _, f := range files {
		hdr, walks, err := vfh.LoadWalks(f)
		if err != nil {
			t.Fatalf("%s: %v", f, err)
		}
		var conns []string
		for _, c := range hdr["Conns"].([]any) {
			conns = append(conns, c.(string))
		}
		peerOf := map[string]string{}
		for k, v := range hdr["PeerOf"].(map[string]any) {
			peerOf[k] = v.(string)
		}
		limited := map[string]bool{}
		for _, c := range hdr["Limited"].([]any) {
			limited[c.(string)] = true
		}
		for _, w := range walks {
			synctest.Test(t, func(t *testing.T) {
				sys := vfC06New(conns, peerOf, limited)
				defer sys.teardown()
				var prefix []vfh.Op
				outOfStep, failed := false, false
				prev := string(w.Init)
				for i, st := range w.Steps {
					prefix = append(prefix, st.Op)
					sys.apply(st.Op)
					var m vfC06State
					if err := json.Unmarshal(st.State, &m); err != nil {
						t.Fatalf("bad state: %v", err)
					}
					res.Case(filepath.Base(f) + "|" + prev + "|" + vfh.Canon(st.Op))
					prev = string(st.State)
					res.Count(0, 1)
					var cls, what string
					var exp, got any
					if !outOfStep {
						cls, what, exp, got = sys.observe(&m, conns)
					} else {
						cls, what, exp, got = sys.pure(conns)
					}
					if cls != "" {
						res.AddMismatch(vfh.Mismatch{Class: cls, What: what, Walk: w.Walk, Step: i, Expected: exp, Got: got, Prefix: prefix,
							Cfg: map[string]any{"file": filepath.Base(f)}})
						if len(cls) > 3 && cls[:3] == "L2:" && !outOfStep {
							// the real emitter and the model are out of step: the rest of the walk is still a
							// legal history for the real emitter, judged by the model-free clauses only
							outOfStep = true
							continue
						}
						failed = true
						break
					}
				}
				if !failed {
					// every walk ends at rest: the calls still owed are made, every gate opens
					sys.settle(conns)
					if cls, what, exp, got := sys.pure(conns); cls != "" {
						res.AddMismatch(vfh.Mismatch{Class: cls, What: what, Walk: w.Walk, Step: len(w.Steps), Expected: exp, Got: got, Prefix: prefix,
							Cfg: map[string]any{"file": filepath.Base(f), "at": "settled"}})
					}
				}
				res.Count(1, 0)
				if w.Walk == 0 {
					k := len(w.Steps)
					if k > 10 {
						k = 10
					}
					var ops []vfh.Op
					for _, st := range w.Steps[:k] {
						ops = append(ops, st.Op)
					}
					res.Sample(map[string]any{"file": filepath.Base(f), "first_ops": ops})
				}
			})
		}
	}
}
