//go:build verif

package upgrader_test

// Conformance harness for C02, session start, whole upgrade: the behaviours of spec/C02_Start.tla on the REAL
// upgrader (optional private-network protector, multistream security negotiation, Noise or TLS handshake,
// muxer negotiated inside the handshake or by multistream, yamux) over internal/vfc02.HeldPair: delivery
// under test-controlled chunking from the very first byte of the raw connection - the pnet nonce together
// with the first ciphertext, negotiation replies together with what follows, the last handshake message or
// the multistream muxer reply together with the first yamux frames - and the writer opening a stream and
// writing immediately after its Upgrade call returned (both roles).  L1 ledger only: what the reader of the
// stream gets is what was written.

import (
	"context"
	"crypto/rand"
	"fmt"
	"io"
	"net"
	"strings"
	"testing"

	"github.com/libp2p/go-libp2p/core/crypto"
	"github.com/libp2p/go-libp2p/core/network"
	"github.com/libp2p/go-libp2p/core/peer"
	ipnet "github.com/libp2p/go-libp2p/core/pnet"
	"github.com/libp2p/go-libp2p/core/sec"
	"github.com/libp2p/go-libp2p/core/transport"
	"github.com/libp2p/go-libp2p/internal/vfc02"
	"github.com/libp2p/go-libp2p/internal/vfh"
	"github.com/libp2p/go-libp2p/p2p/muxer/yamux"
	"github.com/libp2p/go-libp2p/p2p/net/upgrader"
	"github.com/libp2p/go-libp2p/p2p/security/noise"
	libp2ptls "github.com/libp2p/go-libp2p/p2p/security/tls"
	ma "github.com/multiformats/go-multiaddr"
)

type vfC02MaConn struct {
	net.Conn
	l, r ma.Multiaddr
}

func (c *vfC02MaConn) LocalMultiaddr() ma.Multiaddr  { return c.l }
func (c *vfC02MaConn) RemoteMultiaddr() ma.Multiaddr { return c.r }

type vfC02Up struct {
	id peer.ID
	u  transport.Upgrader
}

// variant: <sec>-<early|mss>-<psk|open>
func vfC02NewUp(variant string) (*vfC02Up, error) {
	parts := strings.Split(variant, "-")
	priv, _, err := crypto.GenerateEd25519Key(rand.Reader)
	if err != nil {
		return nil, err
	}
	id, err := peer.IDFromPrivateKey(priv)
	if err != nil {
		return nil, err
	}
	muxers := []upgrader.StreamMuxer{{ID: yamux.ID, Muxer: yamux.DefaultTransport}}
	var secMuxers []upgrader.StreamMuxer
	if parts[1] == "early" {
		secMuxers = muxers
	}
	var st sec.SecureTransport
	if parts[0] == "tls" {
		st, err = libp2ptls.New(libp2ptls.ID, priv, secMuxers)
	} else {
		st, err = noise.New(noise.ID, priv, secMuxers)
	}
	if err != nil {
		return nil, err
	}
	var psk ipnet.PSK
	if parts[2] == "psk" {
		psk = make([]byte, 32)
		for i := range psk {
			psk[i] = byte(i*5 + 1)
		}
	}
	u, err := upgrader.New([]sec.SecureTransport{st}, muxers, psk, &network.NullResourceManager{}, nil)
	if err != nil {
		return nil, err
	}
	return &vfC02Up{id: id, u: u}, nil
}

func TestVerifC02UpgradeStart(t *testing.T) {
	res := vfh.NewResult()
	res.Rule = "distinct = (operation, tail pending, chunk at/over the handshake boundary, carry) combinations executed on real upgrades"
	defer func() {
		if err := res.Write(); err != nil {
			t.Fatal(err)
		}
	}()
	variants := []string{"noise-early-open", "noise-mss-psk", "tls-early-psk", "tls-mss-open"}
	if vfh.Thorough() {
		variants = nil
		for _, s := range []string{"noise", "tls"} {
			for _, m := range []string{"early", "mss"} {
				for _, p := range []string{"open", "psk"} {
					variants = append(variants, s+"-"+m+"-"+p)
				}
			}
		}
	}
	type pair struct{ a, b *vfC02Up }
	ups := map[string]pair{}
	for _, v := range variants {
		a, err := vfC02NewUp(v)
		if err != nil {
			t.Fatal(err)
		}
		b, err := vfC02NewUp(v)
		if err != nil {
			t.Fatal(err)
		}
		ups[v] = pair{a, b}
	}
	la, lb := ma.StringCast("/ip4/127.0.0.1/tcp/1001"), ma.StringCast("/ip4/127.0.0.1/tcp/1002")
	end := func(c transport.CapableConn) *vfc02.StartEnd {
		var opened, accepted network.MuxedStream
		return &vfc02.StartEnd{
			// the writer opens a stream of its own and writes; the reader accepts it
			W: func() (io.Writer, error) {
				s, err := c.OpenStream(context.Background())
				opened = s
				return s, err
			},
			R: func() (io.Reader, error) {
				s, err := c.AcceptStream()
				accepted = s
				return s, err
			},
			Close: func() {
				if opened != nil {
					opened.Reset()
				}
				if accepted != nil {
					accepted.Reset()
				}
				c.Close()
			},
		}
	}
	cfg := vfc02.StartCfg{
		Layer: "upgrade", Variants: variants, Async: true, Probes: 5,
		Sizes: []int{1, 17, 1000, 3900, 5000, 70000}, // (three of them stay below the 256 kB stream window: the writes happen before anything is released)
		// muxer inside the handshake: the initiator's last handshake message needs no answer; muxer by
		// multistream: the responder's reply is the last thing written before it returns
		TailWriter: func(v string) string {
			if strings.Contains(v, "-early-") {
				return "init"
			}
			return "resp"
		},
		Dial: func(v string, c net.Conn) (*vfc02.StartEnd, error) {
			cc, err := ups[v].a.u.Upgrade(context.Background(), nil, &vfC02MaConn{c, la, lb}, network.DirOutbound, ups[v].b.id, &network.NullScope{})
			if err != nil {
				return nil, fmt.Errorf("outbound upgrade: %w", err)
			}
			return end(cc), nil
		},
		Accept: func(v string, c net.Conn) (*vfc02.StartEnd, error) {
			cc, err := ups[v].b.u.Upgrade(context.Background(), nil, &vfC02MaConn{c, lb, la}, network.DirInbound, "", &network.NullScope{})
			if err != nil {
				return nil, fmt.Errorf("inbound upgrade: %w", err)
			}
			return end(cc), nil
		},
	}
	if err := vfc02.RunStart(res, cfg, "start_*.jsonl", vfh.EnvInt("VERIF_C02_ROUNDS", 1), vfh.EnvInt("VERIF_C02_PAR", 4)); err != nil {
		t.Fatal(err)
	}
}
