//go:build verif

package upgrader_test

// C04, family 1: systematic fault injection on the REAL upgrader (real Noise / TLS security, yamux,
// optional PSK, a recording ConnectionGater, a REAL resource manager on each side) fed in both
// directions with in-memory raw connections (internal/vfc04) whose every Read/Write/Close the harness
// sees and can fail.  Outbound: Upgrader.Upgrade on one end; inbound: Upgrader.UpgradeListener over a
// fake manet.Listener handing out the other end.  Every attempt runs in its own synctest bubble
// (virtual time: stalls run into the real deadlines: accept timeout, negotiate timeout, keep-alive).
//
// A fault-free dry run counts the I/O operations on both ends; the attempt is then re-run once for
// every operation index k x {err, eof, stall, cancel/listener-Close, conn-Close} x end, plus the gater
// hooks rejecting, the real resource manager refusing (limit = current usage), nil peer, forced private
// network without PSK, bad PSK, nobody accepting (accept-queue timeout) and the threshold scenarios.
// The observable ledger of every run (begin/live/end of each attempt, raw_open/raw_close, final audit
// of Stat() on both managers + goroutine census) is validated by TLC against spec/C04_Obs.tla.

import (
	"context"
	"crypto/rand"
	"encoding/json"
	"fmt"
	"io"
	mrand "math/rand"
	"os"
	"path/filepath"
	"sort"
	"strings"
	"sync"
	"sync/atomic"
	"testing"
	"testing/synctest"
	"time"

	"github.com/libp2p/go-libp2p/core/control"
	"github.com/libp2p/go-libp2p/core/crypto"
	"github.com/libp2p/go-libp2p/core/network"
	"github.com/libp2p/go-libp2p/core/peer"
	ipnet "github.com/libp2p/go-libp2p/core/pnet"
	"github.com/libp2p/go-libp2p/core/sec"
	"github.com/libp2p/go-libp2p/core/transport"
	"github.com/libp2p/go-libp2p/internal/vfc04"
	"github.com/libp2p/go-libp2p/internal/vfh"
	rcmgr "github.com/libp2p/go-libp2p/p2p/host/resource-manager"
	"github.com/libp2p/go-libp2p/p2p/muxer/yamux"
	"github.com/libp2p/go-libp2p/p2p/net/upgrader"
	"github.com/libp2p/go-libp2p/p2p/security/noise"
	libp2ptls "github.com/libp2p/go-libp2p/p2p/security/tls"
	ma "github.com/multiformats/go-multiaddr"
	manet "github.com/multiformats/go-multiaddr/net"
	"net"
)

// ----------------------------------------------------------------------------------------------
// configuration and plans

type vfC04Cfg struct {
	Sec   string `json:"sec"`   // noise | tls
	Early bool   `json:"early"` // muxer negotiated inside the security handshake
	PSK   string `json:"psk"`   // "" | ok | bad
}

func (c vfC04Cfg) String() string {
	e := "mss"
	if c.Early {
		e = "early"
	}
	p := "nopsk"
	if c.PSK != "" {
		p = "psk-" + c.PSK
	}
	return c.Sec + "/" + e + "/" + p
}

type vfC04Plan struct {
	Kind string `json:"kind"` // none | err | eof | stall | cancel | lclose | cclose | <special>
	Side string `json:"side"` // d | l (end the fault lands on)
	K    int    `json:"k"`
	// specials
	N             int           `json:"n"`         // number of dialers (default 1)
	NoAccept      bool          `json:"no_accept"` // nobody calls Accept
	QueueLen      int           `json:"queue_len"` // AcceptQueueLength override (0 = default)
	CloseAt       time.Duration `json:"close_at"`  // listener Close issued at this virtual time (0 = at the end)
	AcceptTimeout time.Duration `json:"accept_timeout"`
	AcceptDelay   time.Duration `json:"accept_delay"` // the acceptor starts calling Accept this late
	DialerHangsUp bool          `json:"dialer_hangs_up"` // the dialer closes its connection as soon as Upgrade returns
	Stagger       time.Duration `json:"stagger"` // dialer i arrives i*Stagger late
	K2            int           `json:"k2"`    // a second fault, on the OTHER end
	Kind2         string        `json:"kind2"` // err | eof | stall
}

func (p vfC04Plan) String() string {
	s := p.Kind
	if p.Side != "" {
		s += fmt.Sprintf("@%s%d", p.Side, p.K)
	}
	if p.N > 1 {
		s += fmt.Sprintf("/n%d", p.N)
	}
	if p.NoAccept {
		s += "/noaccept"
	}
	if p.QueueLen > 0 {
		s += fmt.Sprintf("/q%d", p.QueueLen)
	}
	if p.CloseAt > 0 {
		s += "/close@" + p.CloseAt.String()
	}
	if p.AcceptDelay > 0 {
		s += "/accept+" + p.AcceptDelay.String()
	}
	if p.AcceptTimeout > 0 {
		s += "/at" + p.AcceptTimeout.String()
	}
	if p.DialerHangsUp {
		s += "/hangup"
	}
	if p.K2 > 0 {
		s += fmt.Sprintf("/+%s@%d", p.Kind2, p.K2)
	}
	if p.Stagger > 0 {
		s += "/stagger" + p.Stagger.String()
	}
	return s
}

type vfC04Outcome struct {
	OpsD, OpsL int
	Hit        bool   // the fault / special actually happened
	Stage      string // stage of the attempt on the faulted side when it fired
	Op         string // r | w
	DialErr    []string
	Accepted   int
	Deadlock   string
	Hung       string
	Leaked     []string
	Notes      []string
}

// ----------------------------------------------------------------------------------------------
// identities (plain data, created once)

var vfC04Keys struct {
	once         sync.Once
	privD, privL crypto.PrivKey
	idD, idL     peer.ID
}

func vfC04Ids(t *testing.T) {
	vfC04Keys.once.Do(func() {
		var err error
		vfC04Keys.privD, _, err = crypto.GenerateEd25519Key(rand.Reader)
		if err != nil {
			t.Fatal(err)
		}
		vfC04Keys.privL, _, err = crypto.GenerateEd25519Key(rand.Reader)
		if err != nil {
			t.Fatal(err)
		}
		vfC04Keys.idD, _ = peer.IDFromPrivateKey(vfC04Keys.privD)
		vfC04Keys.idL, _ = peer.IDFromPrivateKey(vfC04Keys.privL)
	})
}

// ----------------------------------------------------------------------------------------------
// stage tracking: decorators handed to the real upgrader through its public constructor

type vfC04Stages struct {
	mu sync.Mutex
	m  map[int]string // local port of the raw end -> stage
	// onPoint is called from inside the upgrade at points where no I/O happens: "gate" (InterceptSecured
	// is about to allow) and "mux" (the muxer session has just been created); inbound = listener side
	onPoint func(point string, inbound bool)
}

func (s *vfC04Stages) set(port int, st string) {
	s.mu.Lock()
	if s.m == nil {
		s.m = map[int]string{}
	}
	s.m[port] = st
	s.mu.Unlock()
}
func (s *vfC04Stages) get(port int) string {
	s.mu.Lock()
	defer s.mu.Unlock()
	if st, ok := s.m[port]; ok {
		return st
	}
	return "raw"
}
func vfC04Port(a net.Addr) int {
	if t, ok := a.(*net.TCPAddr); ok {
		return t.Port
	}
	return 0
}
func vfC04MaPort(m ma.Multiaddr) int {
	s, err := m.ValueForProtocol(ma.P_TCP)
	if err != nil {
		return 0
	}
	var p int
	fmt.Sscanf(s, "%d", &p)
	return p
}

type vfC04Sec struct {
	sec.SecureTransport
	st *vfC04Stages
}

func (s *vfC04Sec) SecureInbound(ctx context.Context, c net.Conn, p peer.ID) (sec.SecureConn, error) {
	s.st.set(vfC04Port(c.LocalAddr()), "handshake")
	sc, err := s.SecureTransport.SecureInbound(ctx, c, p)
	if err == nil {
		s.st.set(vfC04Port(c.LocalAddr()), "secured")
	}
	return sc, err
}
func (s *vfC04Sec) SecureOutbound(ctx context.Context, c net.Conn, p peer.ID) (sec.SecureConn, error) {
	s.st.set(vfC04Port(c.LocalAddr()), "handshake")
	sc, err := s.SecureTransport.SecureOutbound(ctx, c, p)
	if err == nil {
		s.st.set(vfC04Port(c.LocalAddr()), "secured")
	}
	return sc, err
}

type vfC04Mux struct {
	network.Multiplexer
	st *vfC04Stages
}

func (m *vfC04Mux) NewConn(c net.Conn, server bool, scope network.PeerScope) (network.MuxedConn, error) {
	mc, err := m.Multiplexer.NewConn(c, server, scope)
	if err == nil {
		m.st.set(vfC04Port(c.LocalAddr()), "muxed")
		if h := m.st.onPoint; h != nil {
			h("mux", server)
		}
	}
	return mc, err
}

type vfC04Gater struct {
	inbound       bool
	st            *vfC04Stages
	rejectAccept  bool
	rejectSecured bool
	calls         atomic.Int32
	rejected      atomic.Int32
}

func (g *vfC04Gater) InterceptPeerDial(peer.ID) bool               { return true }
func (g *vfC04Gater) InterceptAddrDial(peer.ID, ma.Multiaddr) bool { return true }
func (g *vfC04Gater) InterceptAccept(a network.ConnMultiaddrs) bool {
	g.calls.Add(1)
	if g.rejectAccept {
		g.rejected.Add(1)
		return false
	}
	g.st.set(vfC04MaPort(a.LocalMultiaddr()), "secneg")
	return true
}
func (g *vfC04Gater) InterceptSecured(_ network.Direction, _ peer.ID, a network.ConnMultiaddrs) bool {
	g.calls.Add(1)
	if g.rejectSecured {
		g.rejected.Add(1)
		return false
	}
	g.st.set(vfC04MaPort(a.LocalMultiaddr()), "muxneg")
	if h := g.st.onPoint; h != nil {
		h("gate", g.inbound)
	}
	return true
}
func (g *vfC04Gater) InterceptUpgraded(network.Conn) (bool, control.DisconnectReason) {
	return true, 0
}

type vfC04Tpt struct{}

func (vfC04Tpt) Dial(context.Context, ma.Multiaddr, peer.ID) (transport.CapableConn, error) {
	return nil, fmt.Errorf("vf: not a dialling transport")
}
func (vfC04Tpt) CanDial(ma.Multiaddr) bool                       { return false }
func (vfC04Tpt) Listen(ma.Multiaddr) (transport.Listener, error) { return nil, fmt.Errorf("vf") }
func (vfC04Tpt) Protocols() []int                                { return []int{ma.P_TCP} }
func (vfC04Tpt) Proxy() bool                                     { return false }
func (vfC04Tpt) String() string                                  { return "vfC04" }

// ----------------------------------------------------------------------------------------------
// one scenario inside a bubble

const (
	vfC04DialTimeout = 30 * time.Second
	vfC04Patience    = 3 * time.Minute // virtual: every natural timeout has fired by then
)

func vfC04Upgrader(t *testing.T, cfg vfC04Cfg, side string, rm network.ResourceManager, g *vfC04Gater, st *vfC04Stages, at time.Duration) transport.Upgrader {
	priv := vfC04Keys.privD
	if side == "l" {
		priv = vfC04Keys.privL
	}
	muxers := []upgrader.StreamMuxer{{ID: yamux.ID, Muxer: &vfC04Mux{Multiplexer: yamux.DefaultTransport, st: st}}}
	var secMuxers []upgrader.StreamMuxer
	if cfg.Early {
		secMuxers = muxers
	}
	var stpt sec.SecureTransport
	var err error
	switch cfg.Sec {
	case "tls":
		stpt, err = libp2ptls.New(libp2ptls.ID, priv, secMuxers)
	default:
		stpt, err = noise.New(noise.ID, priv, secMuxers)
	}
	if err != nil {
		t.Fatal(err)
	}
	var psk ipnet.PSK
	switch cfg.PSK {
	case "ok":
		psk = make([]byte, 32)
		for i := range psk {
			psk[i] = byte(i * 7)
		}
	case "bad":
		psk = make([]byte, 31)
	}
	var opts []upgrader.Option
	if at > 0 {
		opts = append(opts, upgrader.WithAcceptTimeout(at))
	}
	u, err := upgrader.New([]sec.SecureTransport{&vfC04Sec{SecureTransport: stpt, st: st}}, muxers, psk, rm, g, opts...)
	if err != nil {
		t.Fatal(err)
	}
	return u
}

func vfC04Scenario(t *testing.T, cfg vfC04Cfg, plan vfC04Plan, tr *vfh.Trace, out *vfC04Outcome) {
	led := &vfc04.Ledger{T: tr}
	n := plan.N
	if n == 0 {
		n = 1
	}
	st := &vfC04Stages{}
	gD, gL := &vfC04Gater{st: st}, &vfC04Gater{st: st, inbound: true}
	modD := func(c *rcmgr.PartialLimitConfig) {}
	modL := func(c *rcmgr.PartialLimitConfig) {}
	nilPeer, setPeerByHarness := false, true
	switch plan.Kind {
	case "gater-accept":
		gL.rejectAccept = true
	case "gater-secured-d":
		gD.rejectSecured = true
	case "gater-secured-l":
		gL.rejectSecured = true
	case "rm-open-l": // limit = current usage (0 inbound connections)
		modL = func(c *rcmgr.PartialLimitConfig) { c.System.ConnsInbound = rcmgr.BlockAllLimit }
	case "rm-setpeer-d":
		setPeerByHarness = false
		modD = func(c *rcmgr.PartialLimitConfig) { c.PeerDefault.ConnsOutbound = rcmgr.BlockAllLimit }
	case "rm-setpeer-l":
		modL = func(c *rcmgr.PartialLimitConfig) { c.PeerDefault.ConnsInbound = rcmgr.BlockAllLimit }
	case "rm-mem-d": // the muxer's span: yamux reserves the initial stream window (256 KiB) from the peer scope
		modD = func(c *rcmgr.PartialLimitConfig) { c.PeerDefault.Memory = 100 << 10 }
	case "rm-mem-l":
		modL = func(c *rcmgr.PartialLimitConfig) { c.PeerDefault.Memory = 100 << 10 }
	case "nilpeer":
		nilPeer = true
	case "unknownpeer": // the dialer does not SetPeer before Upgrade (peer not known in advance)
		setPeerByHarness = false
	case "forcepnet":
		ipnet.ForcePrivateNetwork = true
		defer func() { ipnet.ForcePrivateNetwork = false }()
	}
	if plan.QueueLen > 0 {
		old := upgrader.AcceptQueueLength
		upgrader.AcceptQueueLength = plan.QueueLen
		defer func() { upgrader.AcceptQueueLength = old }()
	}
	rmD, err := vfc04.NewRM(modD)
	if err != nil {
		t.Fatal(err)
	}
	rmL, err := vfc04.NewRM(modL)
	if err != nil {
		t.Fatal(err)
	}
	uD := vfC04Upgrader(t, cfg, "d", rmD, gD, st, 0)
	uL := vfC04Upgrader(t, cfg, "l", rmL, gL, st, plan.AcceptTimeout)

	const lport = 5000
	fl := vfc04.NewListener(lport)
	fl.OnAccept = func(c manet.Conn) { led.RawOpen(c.(*vfc04.End).Name) }
	ln := uL.UpgradeListener(vfC04Tpt{}, fl)
	var lnCloseOnce sync.Once
	closeListener := func(why string) {
		lnCloseOnce.Do(func() { tr.Emit("lclose_call", "why", why) })
		ln.Close()
		tr.Emit("lclose_ret")
	}

	type att struct {
		i      int
		d, l   *vfc04.End
		cancel context.CancelFunc
		connD  atomic.Pointer[transport.CapableConn]
		connL  atomic.Pointer[transport.CapableConn]
	}
	atts := make([]*att, n)
	byLPort := map[int]*att{}
	var hitMu sync.Mutex
	markHit := func(e *vfc04.End, k int, op string) {
		hitMu.Lock()
		out.Hit, out.Op = true, op
		out.Stage = st.get(vfC04Port(e.LocalAddr()))
		hitMu.Unlock()
		tr.Emit("fault", "o", e.Name, "k", k, "op", op, "kind", plan.Kind, "stage", out.Stage)
	}
	var pingFailed atomic.Int32
	var finish = make(chan struct{})
	var wg sync.WaitGroup
	scriptDone := make(chan struct{}, 2*n+2)

	for i := 0; i < n; i++ {
		a := &att{i: i + 1}
		a.d, a.l = vfc04.NewPipe(fmt.Sprintf("d%d", a.i), fmt.Sprintf("l%d", a.i), 4000+a.i, lport+a.i)
		atts[i] = a
		byLPort[4000+a.i] = a // the listener side sees the dialer's port as the remote port
		for _, e := range []*vfc04.End{a.d, a.l} {
			e.OnClose = func(e *vfc04.End, first bool) {
				if first {
					led.RawClose(e.Name)
				}
			}
			e.OnFire = markHit
		}
	}
	// Close() / cancel issued at a point of the upgrade where no I/O happens; the upgrade resumes only when
	// the closing goroutine has gone as far as it can (it is then blocked draining the accept queue)
	if strings.HasPrefix(plan.Kind, "lclose-at-") || strings.HasPrefix(plan.Kind, "cancel-at-") {
		point := plan.Kind[len(plan.Kind)-4:]
		point = strings.TrimPrefix(point, "-")
		var once sync.Once
		st.onPoint = func(pt string, inbound bool) {
			if pt != point || inbound != strings.HasPrefix(plan.Kind, "lclose") {
				return
			}
			once.Do(func() {
				hitMu.Lock()
				out.Hit, out.Stage = true, plan.Kind
				hitMu.Unlock()
				tr.Emit("fault", "o", map[bool]string{true: "l1", false: "d1"}[inbound], "k", 0, "op", "-", "kind", plan.Kind, "stage", pt)
				if inbound {
					wg.Add(1)
					go func() { defer wg.Done(); closeListener("race") }()
				} else {
					atts[0].cancel()
				}
				synctest.Wait()
			})
		}
	}
	// the fault
	if plan.Side != "" && plan.K > 0 {
		a := atts[0]
		e := a.d
		if plan.Side == "l" {
			e = a.l
		}
		switch plan.Kind {
		case "err", "eof", "stall":
			e.SetFault(&vfc04.Fault{Kind: plan.Kind, K: plan.K})
		case "cancel":
			e.SetFault(&vfc04.Fault{Kind: "trig", K: plan.K, Trig: func() { a.cancel() }})
		case "lclose":
			e.SetFault(&vfc04.Fault{Kind: "trig", K: plan.K, Trig: func() {
				wg.Add(1)
				go func() { defer wg.Done(); closeListener("race") }()
			}})
		}
		if plan.K2 > 0 {
			other := a.l
			if plan.Side == "l" {
				other = a.d
			}
			other.SetFault(&vfc04.Fault{Kind: plan.Kind2, K: plan.K2})
		}
	}
	armConnClose := func(a *att, side string, c transport.CapableConn) {
		if plan.Kind != "cclose" || plan.Side != side || a.i != 1 {
			return
		}
		e := a.d
		if side == "l" {
			e = a.l
		}
		e.SetFault(&vfc04.Fault{Kind: "trig", K: e.NOps() + plan.K, Trig: func() {
			wg.Add(1)
			go func() {
				defer wg.Done()
				tr.Emit("conn_close_race", "o", e.Name)
				c.Close()
			}()
		}})
	}

	pingPong := func(c transport.CapableConn, opener bool) error {
		if opener {
			ctx, cancel := context.WithTimeout(context.Background(), 20*time.Second)
			defer cancel()
			s, err := c.OpenStream(ctx)
			if err != nil {
				return err
			}
			defer s.Reset()
			s.SetDeadline(time.Now().Add(20 * time.Second))
			if _, err := s.Write([]byte("ping")); err != nil {
				return err
			}
			b := make([]byte, 4)
			if _, err := io.ReadFull(s, b); err != nil {
				return err
			}
			return s.Close()
		}
		s, err := c.AcceptStream()
		if err != nil {
			return err
		}
		defer s.Reset()
		s.SetDeadline(time.Now().Add(20 * time.Second))
		b := make([]byte, 4)
		if _, err := io.ReadFull(s, b); err != nil {
			return err
		}
		if _, err := s.Write([]byte("pong")); err != nil {
			return err
		}
		return s.Close()
	}

	// dialers
	for _, a := range atts {
		a := a
		ctx, cancel := context.WithTimeout(context.Background(), vfC04DialTimeout)
		a.cancel = cancel
		wg.Add(1)
		go func() {
			defer wg.Done()
			defer cancel()
			o := a.d.Name
			if plan.Stagger > 0 {
				time.Sleep(time.Duration(a.i-1) * plan.Stagger)
				led.Begin(a.l.Name, "conn", "in", "l", true)
				st.set(vfC04Port(a.l.LocalAddr()), "accept")
				fl.Ch <- a.l
			}
			led.Begin(o, "conn", "out", "d", true)
			scope, err := rmD.OpenConnection(network.DirOutbound, true, a.d.RemoteMultiaddr())
			if err != nil {
				led.End(o, "rm-open", "raw")
				a.d.Close()
				scriptDone <- struct{}{}
				return
			}
			if setPeerByHarness && !nilPeer {
				if err := scope.SetPeer(vfC04Keys.idL); err != nil {
					scope.Done()
					led.End(o, "rm-setpeer", "raw")
					scriptDone <- struct{}{}
					return
				}
			}
			p := vfC04Keys.idL
			if nilPeer {
				p = ""
			}
			led.RawOpen(o)
			st.set(vfC04Port(a.d.LocalAddr()), "secneg")
			c, err := uD.Upgrade(ctx, vfC04Tpt{}, a.d, network.DirOutbound, p, scope)
			if (c == nil) == (err == nil) {
				tr.Emit("bad_return", "o", o)
			}
			if err != nil {
				hitMu.Lock()
				out.DialErr = append(out.DialErr, err.Error())
				hitMu.Unlock()
				led.End(o, "upgrade-error", st.get(vfC04Port(a.d.LocalAddr())))
				scriptDone <- struct{}{}
				return
			}
			st.set(vfC04Port(a.d.LocalAddr()), "up")
			a.connD.Store(&c)
			led.Live(o)
			armConnClose(a, "d", c)
			if plan.DialerHangsUp {
				c.Close()
				led.End(o, "closed", "up")
				scriptDone <- struct{}{}
				return
			}
			perr := pingPong(c, true)
			if perr != nil {
				pingFailed.Add(1)
			}
			tr.Emit("pingpong", "o", o, "ok", perr == nil)
			scriptDone <- struct{}{}
			<-finish
			c.Close()
			led.End(o, "closed", "up")
		}()
	}
	// acceptor
	accepted := map[*att]bool{}
	var accMu sync.Mutex
	if !plan.NoAccept {
		wg.Add(1)
		go func() {
			defer wg.Done()
			if plan.AcceptDelay > 0 {
				time.Sleep(plan.AcceptDelay)
			}
			for {
				c, err := ln.Accept()
				if err != nil {
					return
				}
				a := byLPort[vfC04MaPort(c.RemoteMultiaddr())]
				if a == nil {
					tr.Emit("bad_accept", "addr", c.RemoteMultiaddr().String())
					c.Close()
					continue
				}
				o := a.l.Name
				accMu.Lock()
				accepted[a] = true
				out.Accepted++
				accMu.Unlock()
				st.set(vfC04Port(a.l.LocalAddr()), "up")
				a.connL.Store(&c)
				led.Live(o)
				armConnClose(a, "l", c)
				wg.Add(1)
				go func() {
					defer wg.Done()
					perr := pingPong(c, false)
					tr.Emit("pingpong", "o", o, "ok", perr == nil)
					scriptDone <- struct{}{}
					<-finish
					c.Close()
					led.End(o, "closed", "up")
				}()
			}
		}()
	}
	// hand the raw connections to the listener
	for _, a := range atts {
		if plan.Stagger > 0 {
			break
		}
		led.Begin(a.l.Name, "conn", "in", "l", true)
		st.set(vfC04Port(a.l.LocalAddr()), "accept")
		fl.Ch <- a.l
	}
	// wait: both scripts of every attempt done, or patience exhausted
	want := n
	if !plan.NoAccept {
		want = 2 * n
	}
	deadline := time.After(vfC04Patience)
	var closeAt <-chan time.Time
	if plan.CloseAt > 0 {
		closeAt = time.After(plan.CloseAt)
	}
	got := 0
wait:
	for got < want {
		select {
		case <-scriptDone:
			got++
		case <-closeAt:
			closeAt = nil
			closeListener("timed")
		case <-deadline:
			break wait
		}
	}
	if plan.Kind == "none" && plan.N <= 1 && !plan.NoAccept {
		// dry run: operation counts at the moment both scripts are done
		synctest.Wait()
		out.OpsD, out.OpsL = atts[0].d.NOps(), atts[0].l.NOps()
	}
	close(finish)
	closeListener("end")
	wg.Wait()
	synctest.Wait()
	// inbound attempts that were never delivered can no longer complete: the listener is closed
	for _, a := range atts {
		accMu.Lock()
		acc := accepted[a]
		accMu.Unlock()
		if !acc {
			led.End(a.l.Name, "listener-closed", st.get(vfC04Port(a.l.LocalAddr())))
		}
	}
	// raw connections never taken from the fake listener still belong to the harness
	for _, c := range fl.Pending() {
		e := c.(*vfc04.End)
		tr.Emit("raw_returned", "o", e.Name)
		e.OnClose = nil
		e.Close()
	}
	// the ledger is complete; release what a defective path left open so that the peer side can finish
	for _, a := range atts {
		for _, e := range []*vfc04.End{a.d, a.l} {
			if !e.ClosedByCode() {
				e.OnClose = nil
				e.Close()
			}
		}
	}
	synctest.Wait()
	uD, uL = nil, nil
	rmD.Close()
	rmL.Close()
	synctest.Wait()
	out.Leaked = vfc04.Census()
	switch plan.Kind {
	case "none", "err", "eof", "stall", "cancel", "lclose", "cclose",
		"lclose-at-gate", "lclose-at-mux", "cancel-at-gate", "cancel-at-mux":
	case "gater-accept", "gater-secured-l":
		out.Hit, out.Stage = gL.rejected.Load() > 0, plan.Kind
	case "gater-secured-d":
		out.Hit, out.Stage = gD.rejected.Load() > 0, plan.Kind
	case "rm-open-l", "rm-setpeer-d", "rm-setpeer-l", "nilpeer", "forcepnet", "badpsk":
		out.Hit, out.Stage = len(out.DialErr) > 0 || out.Accepted < n, plan.Kind
	case "rm-mem-d", "rm-mem-l":
		out.Hit, out.Stage = pingFailed.Load() > 0, plan.Kind
	default:
		out.Hit, out.Stage = true, plan.Kind
	}
	led.Audit("d", true, vfc04.ReadUsage(rmD), len(out.Leaked))
	led.Audit("l", true, vfc04.ReadUsage(rmL), 0)
}

// vfC04Run executes one scenario in its own bubble. A bubble that cannot finish (a goroutine of the
// attempt is blocked for ever) makes synctest panic in this goroutine: recorded, not fatal.
func vfC04Run(t *testing.T, cfg vfC04Cfg, plan vfC04Plan, tr *vfh.Trace) vfC04Outcome {
	out := &vfC04Outcome{}
	defQueue := upgrader.AcceptQueueLength
	dl, hung := vfc04.RunBubble(t, vfC04RealLimit, func(t *testing.T) { vfC04Scenario(t, cfg, plan, tr, out) })
	if dl != "" {
		out.Deadlock = dl
		tr.Emit("deadlock", "msg", dl)
	}
	if hung != "" {
		// the abandoned scenario cannot run its deferred restores
		ipnet.ForcePrivateNetwork = false
		upgrader.AcceptQueueLength = defQueue
		o := *out
		o.Hung = hung
		return o
	}
	return *out
}

const vfC04RealLimit = 25 * time.Second

// ----------------------------------------------------------------------------------------------
// the enumeration

func vfC04Configs() []vfC04Cfg {
	quick := []vfC04Cfg{{Sec: "noise", Early: true}, {Sec: "noise", Early: false, PSK: "ok"}, {Sec: "tls", Early: true, PSK: "ok"}, {Sec: "tls", Early: false}}
	if !vfh.Thorough() {
		return quick
	}
	var all []vfC04Cfg
	for _, s := range []string{"noise", "tls"} {
		for _, e := range []bool{true, false} {
			for _, p := range []string{"", "ok"} {
				all = append(all, vfC04Cfg{Sec: s, Early: e, PSK: p})
			}
		}
	}
	return all
}

func vfC04Specials(cfg vfC04Cfg, base bool) []vfC04Plan {
	ps := []vfC04Plan{
		{Kind: "gater-accept"}, {Kind: "gater-secured-d"}, {Kind: "gater-secured-l"},
		{Kind: "rm-open-l"}, {Kind: "rm-setpeer-d"}, {Kind: "rm-setpeer-l"}, {Kind: "rm-mem-d"}, {Kind: "rm-mem-l"},
		{Kind: "unknownpeer"},
		{Kind: "noaccept", NoAccept: true},
		{Kind: "noaccept", NoAccept: true, AcceptTimeout: 2 * time.Second},
		{Kind: "noaccept", NoAccept: true, CloseAt: 5 * time.Second},
		{Kind: "lclose-at-gate"}, {Kind: "lclose-at-gate"}, {Kind: "lclose-at-gate"},
		{Kind: "lclose-at-mux"}, {Kind: "lclose-at-mux"}, {Kind: "lclose-at-mux"}, {Kind: "lclose-at-mux"},
		{Kind: "lclose-at-mux", NoAccept: true}, {Kind: "lclose-at-mux", NoAccept: true}, {Kind: "lclose-at-mux", NoAccept: true},
		{Kind: "lclose-at-mux", NoAccept: true}, {Kind: "lclose-at-gate", NoAccept: true},
		{Kind: "cancel-at-gate"}, {Kind: "cancel-at-mux"},
		{Kind: "hangup", DialerHangsUp: true},
		{Kind: "hangup-queued", DialerHangsUp: true, AcceptDelay: time.Second},
		{Kind: "hangup-queued", DialerHangsUp: true, AcceptDelay: 20 * time.Second},
	}
	if base {
		ps = append(ps,
			vfC04Plan{Kind: "threshold", N: 3, QueueLen: 1, NoAccept: true},
			vfC04Plan{Kind: "threshold", N: 3, QueueLen: 1, NoAccept: true, CloseAt: time.Second},
			vfC04Plan{Kind: "threshold", N: 3, QueueLen: 1, NoAccept: true, CloseAt: 20 * time.Second},
			vfC04Plan{Kind: "threshold", N: 4, QueueLen: 2, NoAccept: true, CloseAt: 15 * time.Second},
			vfC04Plan{Kind: "threshold", N: 3, QueueLen: 1, NoAccept: true, Stagger: time.Second},
			vfC04Plan{Kind: "threshold", N: 3, QueueLen: 1, NoAccept: true, Stagger: time.Second, CloseAt: 5 * time.Second},
			vfC04Plan{Kind: "threshold", N: 3, QueueLen: 1, NoAccept: true, Stagger: time.Second, CloseAt: 17 * time.Second},
			vfC04Plan{Kind: "threshold", N: 4, QueueLen: 2, NoAccept: true, Stagger: 2 * time.Second, AcceptTimeout: 3 * time.Second},
			vfC04Plan{Kind: "threshold", N: 3, QueueLen: 1, Stagger: time.Second, AcceptDelay: 4 * time.Second},
			vfC04Plan{Kind: "multi", N: 3},
			vfC04Plan{Kind: "multi", N: 3, QueueLen: 1},
			vfC04Plan{Kind: "multi", N: 3, CloseAt: time.Millisecond},
		)
	}
	return ps
}

func TestVerifC04Upgrader(t *testing.T) {
	vfC04Ids(t)
	res := vfh.NewResult()
	defer func() {
		if err := res.Write(); err != nil {
			t.Fatal(err)
		}
	}()
	res.Rule = "one evaluation = one connection attempt (real upgrader on both ends of an in-memory raw connection, real resource managers) with one injected fault: I/O operation index k (from a fault-free dry run) x {err, eof(path cut), stall-until-deadline, ctx cancel / listener Close, conn Close} x end, or one gater/resource-manager/config special; non-trivial = the fault actually fired; distinct = distinct (config, stage, kind, end, read|write) tuples that fired"
	path := ""
	if vfh.Out() != "" {
		path = filepath.Join(vfh.Out(), "c04_upgrader.ndjson")
		os.Remove(path)
	}
	only := os.Getenv("VERIF_C04_ONLY") // e.g. "noise/early/nopsk|err@d3" for replaying one case
	evals, hits, idx := 0, 0, 0
	stages := map[string]int{}
	stuck := 0 // scenarios that could not finish: after a few of them the point is made (each costs the watchdog's limit)
	run := func(cfg vfC04Cfg, plan vfC04Plan) vfC04Outcome {
		if stuck >= 4 && plan.Kind != "none" {
			res.Inc("skipped_after_stuck", 1)
			return vfC04Outcome{}
		}
		name := fmt.Sprintf("u%d", idx)
		idx++
		tr := vfh.NewTrace(name)
		out := vfC04Run(t, cfg, plan, tr)
		evals++
		res.Count(1, tr.Len())
		if out.Hit {
			hits++
			key := fmt.Sprintf("%s|%s|%s|%s|%s", cfg, out.Stage, plan.Kind, plan.Side, out.Op)
			res.Case(key)
			stages[fmt.Sprintf("%s|%s|%s", plan.Side, out.Stage, plan.Kind)]++
		}
		if path != "" {
			if err := tr.AppendTo(path, map[string]any{"family": "upgrader", "cfg": cfg.String(), "plan": plan.String(), "kind": plan.Kind,
				"side": plan.Side, "k": plan.K, "hit": out.Hit, "stage": out.Stage, "p": plan, "hang": out.Hung}); err != nil {
				t.Fatal(err)
			}
		}
		if out.Deadlock != "" || len(out.Leaked) > 0 || out.Hung != "" {
			res.Sample(map[string]any{"cfg": cfg.String(), "plan": plan.String(), "deadlock": out.Deadlock, "leaked": out.Leaked, "hung": out.Hung})
		}
		if out.Hung != "" {
			res.Inc("hangs", 1)
		}
		if out.Hung != "" || out.Deadlock != "" {
			stuck++
		}
		return out
	}
	if only != "" {
		// replay of one case (used by the driver to reproduce a rejected ledger before it reports it)
		parts := strings.SplitN(only, "|", 2)
		all := append(vfC04Configs(), vfC04Cfg{Sec: "noise", Early: true, PSK: "bad"}, vfC04Cfg{Sec: "tls", Early: true, PSK: "bad"})
		for _, s := range []string{"noise", "tls"} {
			for _, e := range []bool{true, false} {
				for _, p := range []string{"", "ok"} {
					all = append(all, vfC04Cfg{Sec: s, Early: e, PSK: p})
				}
			}
		}
		for _, cfg := range all {
			if cfg.String() != parts[0] {
				continue
			}
			var plan vfC04Plan
			if err := json.Unmarshal([]byte(parts[1]), &plan); err != nil {
				t.Fatal(err)
			}
			for r := 0; r < vfh.EnvInt("VERIF_C04_REPEAT", 1); r++ {
				out := run(cfg, plan)
				t.Logf("%s %s -> %+v", cfg, plan, out)
			}
			break
		}
		res.Set("evaluations", evals)
		res.Traces = []string{path}
		return
	}
	for ci, cfg := range vfC04Configs() {
		// fault-free dry runs: operation counts on both ends
		nd, nl := 0, 0
		for r := 0; r < 2; r++ {
			out := run(cfg, vfC04Plan{Kind: "none"})
			if out.Deadlock != "" && len(out.DialErr) == 0 && out.Accepted == 1 {
				// even the fault-free attempt cannot finish: its ledger (with the deadlock line) is the evidence
				res.Inc("skipped_after_stuck", 1)
				res.Set("evaluations", evals)
				res.Traces = []string{path}
				return
			}
			if len(out.DialErr) > 0 || out.Accepted != 1 || out.Hung != "" {
				t.Fatalf("dry run failed for %s: %+v", cfg, out)
			}
			nd, nl = max(nd, out.OpsD), max(nl, out.OpsL)
		}
		res.Set("ops/"+cfg.String(), []int{nd, nl})
		if ci == 0 {
			tr := vfh.NewTrace("sample")
			vfC04Run(t, cfg, vfC04Plan{Kind: "eof", Side: "l", K: 5}, tr)
			res.Sample(map[string]any{"cfg": cfg.String(), "plan": "eof@l5", "events": tr.Events()})
		}
		for _, side := range []string{"d", "l"} {
			nops := nd
			if side == "l" {
				nops = nl
			}
			for k := 1; k <= nops+1; k++ {
				for _, kind := range []string{"err", "eof", "stall"} {
					run(cfg, vfC04Plan{Kind: kind, Side: side, K: k})
				}
				if side == "d" {
					run(cfg, vfC04Plan{Kind: "cancel", Side: side, K: k})
				} else {
					run(cfg, vfC04Plan{Kind: "lclose", Side: side, K: k})
				}
			}
			for k := 1; k <= 8; k++ {
				run(cfg, vfC04Plan{Kind: "cclose", Side: side, K: k})
			}
		}
		for _, p := range vfC04Specials(cfg, ci == 0) {
			run(cfg, p)
		}
		if ci == 0 || vfh.Thorough() {
			// two faults, one on each end (seeded sample)
			rnd := mrand.New(mrand.NewSource(vfh.Seed()*7919 + int64(ci)))
			pairs := 40
			if vfh.Thorough() {
				pairs = 150
			}
			kinds := []string{"err", "eof", "stall"}
			for i := 0; i < pairs; i++ {
				run(cfg, vfC04Plan{Kind: kinds[rnd.Intn(3)], Side: "d", K: 1 + rnd.Intn(nd), Kind2: kinds[rnd.Intn(3)], K2: 1 + rnd.Intn(nl)})
			}
		}
		if ci == 0 && vfh.Thorough() {
			// a second, healthy attempt runs next to the faulted one
			for _, side := range []string{"d", "l"} {
				nops := nd
				if side == "l" {
					nops = nl
				}
				for k := 1; k <= nops; k++ {
					for _, kind := range []string{"err", "eof", "stall"} {
						run(cfg, vfC04Plan{Kind: kind, Side: side, K: k, N: 2})
					}
				}
			}
		}
		if ci == 0 {
			run(cfg, vfC04Plan{Kind: "nilpeer"})
			run(cfg, vfC04Plan{Kind: "forcepnet"})
			run(vfC04Cfg{Sec: cfg.Sec, Early: cfg.Early, PSK: "bad"}, vfC04Plan{Kind: "badpsk"})
		}
	}
	res.Set("evaluations", evals)
	res.Set("fired", hits)
	keys := make([]string, 0, len(stages))
	for k := range stages {
		keys = append(keys, k)
	}
	sort.Strings(keys)
	res.Set("exits", keys)
	if path != "" {
		res.Traces = []string{path}
	}
}
