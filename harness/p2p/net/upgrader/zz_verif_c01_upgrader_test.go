//go:build verif

package upgrader_test

// Conformance harness for C01, upgrader part: the expected-peer rule crossed with ROLE above the
// security transports.  Replays the behaviours of spec/C01_Handshake.tla (part U) on the REAL upgrader
// (p2p/net/upgrader) with real Noise / TLS transports over loopback TCP:
//   via "upgrade": Upgrade(ctx, t, conn, DirOutbound | DirInbound, named, scope) called directly, with the
//                  host holding P's key or another honest host M answering in the complementary role;
//   via "tcp":     the real TCP transport's Dial(ctx, addr, P), plain and with network.WithSimultaneousConnect
//                  (isClient = true | false: the dialer takes the SERVER role of the security handshake and
//                  still names the peer it dialled), against a raw listener whose owner upgrades in the
//                  complementary role.
// Both muxer negotiations: early (inside the security handshake) and multistream afterwards.
// L1 (ledger: the harness knows which host holds which key and computes IDs from the key objects):
// whenever a peer was named, in ANY role, the call returns a connection only if RemotePeer() is that
// peer; RemotePeer()/RemotePublicKey() are always those of the host that answered.

import (
	"context"
	"crypto/rand"
	"encoding/json"
	"errors"
	"fmt"
	"path/filepath"
	"testing"
	"time"

	"github.com/libp2p/go-libp2p/core/crypto"
	"github.com/libp2p/go-libp2p/core/network"
	"github.com/libp2p/go-libp2p/core/peer"
	"github.com/libp2p/go-libp2p/core/sec"
	"github.com/libp2p/go-libp2p/core/transport"
	"github.com/libp2p/go-libp2p/internal/vfh"
	"github.com/libp2p/go-libp2p/p2p/muxer/yamux"
	"github.com/libp2p/go-libp2p/p2p/net/upgrader"
	"github.com/libp2p/go-libp2p/p2p/security/noise"
	libp2ptls "github.com/libp2p/go-libp2p/p2p/security/tls"
	"github.com/libp2p/go-libp2p/p2p/transport/tcp"
	ma "github.com/multiformats/go-multiaddr"
	manet "github.com/multiformats/go-multiaddr/net"
)

const vfC01UWatchdog = 20 * time.Second

type vfC01UHost struct {
	name string
	pub  crypto.PubKey
	id   peer.ID
	up   transport.Upgrader
}

func vfC01UNewHost(name, keyType, security, mux string) (*vfC01UHost, error) {
	var priv crypto.PrivKey
	var pub crypto.PubKey
	var err error
	switch keyType {
	case "ECDSA":
		priv, pub, err = crypto.GenerateECDSAKeyPair(rand.Reader)
	case "Secp256k1":
		priv, pub, err = crypto.GenerateSecp256k1Key(rand.Reader)
	case "RSA":
		priv, pub, err = crypto.GenerateRSAKeyPair(2048, rand.Reader)
	default:
		priv, pub, err = crypto.GenerateEd25519Key(rand.Reader)
	}
	if err != nil {
		return nil, err
	}
	h := &vfC01UHost{name: name, pub: pub}
	if h.id, err = peer.IDFromPublicKey(pub); err != nil {
		return nil, err
	}
	muxers := []upgrader.StreamMuxer{{ID: yamux.ID, Muxer: yamux.DefaultTransport}}
	// early muxer negotiation happens iff the security transport knows the muxers
	secMuxers := muxers
	if mux == "mss" {
		secMuxers = nil
	}
	var st sec.SecureTransport
	if security == "tls" {
		st, err = libp2ptls.New(libp2ptls.ID, priv, secMuxers)
	} else {
		st, err = noise.New(noise.ID, priv, secMuxers)
	}
	if err != nil {
		return nil, err
	}
	h.up, err = upgrader.New([]sec.SecureTransport{st}, muxers, nil, &network.NullResourceManager{}, nil)
	return h, err
}

type vfC01URes struct {
	conn transport.CapableConn
	err  error
}

func vfC01UWalk(res *vfh.Result, w *vfh.Walk, types [3]string) error {
	var c struct {
		Via, Sec, Mux, Role, Named, Ans string
	}
	if err := json.Unmarshal(w.Init, &c); err != nil {
		return err
	}
	L, err := vfC01UNewHost("L", types[0], c.Sec, c.Mux)
	if err != nil {
		return err
	}
	P, err := vfC01UNewHost("P", types[1], c.Sec, c.Mux)
	if err != nil {
		return err
	}
	M, err := vfC01UNewHost("M", types[2], c.Sec, c.Mux)
	if err != nil {
		return err
	}
	answering := P
	if c.Ans == "M" {
		answering = M
	}
	var named peer.ID
	if c.Named == "P" {
		named = P.id
	}
	var pre []vfh.Op
	cfg := map[string]any{"via": c.Via, "security": c.Sec, "muxer": c.Mux, "role": c.Role, "named": c.Named, "answering": c.Ans, "keys": fmt.Sprint(types), "seed": vfh.Seed()}
	mm := func(class, what string, exp, got any) {
		res.AddMismatch(vfh.Mismatch{Class: class, What: what, Walk: w.Walk, Expected: exp, Got: got, Prefix: pre, Cfg: cfg})
	}
	for _, st := range w.Steps {
		pre = append(pre, st.Op)
		if st.Op.Name() != "upgrade" {
			continue
		}
		ln, err := manet.Listen(ma.StringCast("/ip4/127.0.0.1/tcp/0"))
		if err != nil {
			return err
		}
		release := make(chan struct{})
		remote := make(chan vfC01URes, 1)
		// the answering host owns the raw listener and upgrades what it accepts in the complementary role
		go func() {
			raw, err := ln.Accept()
			if err != nil {
				remote <- vfC01URes{nil, err}
				return
			}
			ctx, cancel := context.WithTimeout(context.Background(), vfC01UWatchdog)
			defer cancel()
			var rc transport.CapableConn
			if c.Role == "client" {
				rc, err = answering.up.Upgrade(ctx, nil, raw, network.DirInbound, "", &network.NullScope{}) // as a listener does
			} else {
				rc, err = answering.up.Upgrade(ctx, nil, raw, network.DirOutbound, L.id, &network.NullScope{})
			}
			remote <- vfC01URes{rc, err}
			<-release
			if err == nil {
				rc.Close()
			}
		}()
		var lr vfC01URes
		ctx, cancel := context.WithTimeout(context.Background(), vfC01UWatchdog)
		if c.Via == "tcp" {
			tp, err := tcp.NewTCPTransport(L.up, nil, nil, tcp.DisableReuseport())
			if err != nil {
				cancel()
				return err
			}
			dctx := ctx
			if c.Role == "server" {
				dctx = network.WithSimultaneousConnect(ctx, false, "verif")
			} else if w.Walk%2 == 0 {
				dctx = network.WithSimultaneousConnect(ctx, true, "verif")
			}
			lr.conn, lr.err = tp.Dial(dctx, ln.Multiaddr(), named)
		} else {
			raw, err := manet.Dial(ln.Multiaddr())
			if err != nil {
				cancel()
				return err
			}
			dir := network.DirOutbound
			if c.Role == "server" {
				dir = network.DirInbound
			}
			lr.conn, lr.err = L.up.Upgrade(ctx, nil, raw, dir, named, &network.NullScope{})
		}
		cancel()
		if errors.Is(lr.err, context.DeadlineExceeded) {
			return fmt.Errorf("the local upgrade hung: %v", lr.err)
		}
		// ---- L1
		got := map[string]any{"ok": lr.err == nil, "err": fmt.Sprint(lr.err)}
		if lr.err == nil {
			rp := lr.conn.RemotePeer()
			got["remote"] = rp.String()
			if named != "" && rp != named {
				mm("expected-peer-violated", fmt.Sprintf("%s in the %s role named %s and returned a connection authenticated as %s (%s/%s)", c.Via, c.Role, named, rp, c.Sec, c.Mux), named.String(), got)
			}
			if rp != answering.id {
				mm("wrong-remote-peer", fmt.Sprintf("%s (%s role): the connection reports remote peer %s but the host that answered holds the key of %s", c.Via, c.Role, rp, answering.id), answering.id.String(), got)
			}
			if k := lr.conn.RemotePublicKey(); k == nil || !k.Equals(answering.pub) {
				mm("wrong-remote-public-key", c.Via+": RemotePublicKey() is not the key the answering host holds", answering.id.String(), got)
			} else if id, err := peer.IDFromPublicKey(k); err != nil || id != rp {
				mm("remote-peer-not-derived-from-remote-key", c.Via+": RemotePeer() is not the ID of RemotePublicKey()", id.String(), got)
			}
		}
		// ---- L2: the model
		if (lr.err == nil) != st.Op.B("ok") {
			cls := "L2:model-accepts-code-rejects"
			if lr.err == nil {
				cls = "L2:model-rejects-code-accepts"
			}
			mm(cls, fmt.Sprintf("%s/%s/%s %s role, named %q, %s answering: result differs from the model", c.Via, c.Sec, c.Mux, c.Role, c.Named, c.Ans), st.Op.B("ok"), got)
		} else if lr.err != nil {
			var pm sec.ErrPeerIDMismatch
			why := "other"
			switch {
			case errors.Is(lr.err, upgrader.ErrNilPeer):
				why = "nilpeer"
			case errors.As(lr.err, &pm):
				why = "mismatch"
			}
			if why != st.Op.S("why") {
				mm("L2:why", "refused for another reason than the model: "+lr.err.Error(), st.Op.S("why"), why)
			}
			res.Inc("U.refused."+c.Role+"."+why, 1)
		} else {
			res.Inc("U.returned."+c.Via+"."+c.Role+"."+c.Sec+"."+c.Mux, 1)
		}
		if lr.err == nil {
			lr.conn.Close()
		}
		ln.Close()
		// the answering host, whatever it concluded, saw L
		select {
		case rr := <-remote:
			if rr.err == nil && rr.conn.RemotePeer() != L.id {
				mm("wrong-remote-peer", "the answering host reports another remote peer than the local host", L.id.String(), rr.conn.RemotePeer().String())
			}
		case <-time.After(vfC01UWatchdog + 5*time.Second):
			close(release)
			return errors.New("the answering host's upgrade hung")
		}
		close(release)
	}
	res.Count(1, len(w.Steps))
	return nil
}

func TestVerifC01UpgraderReplay(t *testing.T) {
	res := vfh.NewResult()
	res.Rule = "distinct = (behaviour, key types) combinations executed"
	defer func() {
		if err := res.Write(); err != nil {
			t.Error(err)
		}
	}()
	_, walks, err := vfh.LoadWalks(filepath.Join(vfh.In(), "U.jsonl"))
	if err != nil {
		t.Fatal(err)
	}
	T := []string{"Ed25519", "ECDSA", "Secp256k1", "RSA"}
	seed := int(vfh.Seed())
	rounds := 1
	if vfh.Thorough() {
		rounds = 4
	}
	for r := 0; r < rounds; r++ {
		for i := range walks {
			types := [3]string{T[(i+seed+r)%4], T[(i/2+seed+2*r)%4], T[(i/3+seed+3*r+1)%4]}
			if r == 0 && i%2 == 0 {
				types = [3]string{"Ed25519", "Ed25519", "Ed25519"}
			}
			if err := vfC01UWalk(res, &walks[i], types); err != nil {
				t.Fatalf("walk %d: %v", i, err)
			}
			res.Case(fmt.Sprint(i, types))
		}
	}
	res.Set("U.walks", len(walks))
}
