//go:build verif

package connmgr

// Conformance harness for C14 (connection manager trims only eligible peers, lowest value first).
//
// TestVerifC14Replay executes covering walks of the TLC state graphs of spec/C14_ConnMgr.tla on a
// real BasicConnMgr driven by the benbjohnson mock clock inside a testing/synctest bubble (so the
// background ticker's trim has finished when the clock advance returns).  After every step the
// public view (GetInfo, GetTagInfo, IsProtected) is compared with the model state; for trims the
// closed set recorded by the stub connections is checked against the statement's clauses (L1,
// computed from the harness's own ledger of delivered notifications/calls) and for membership in
// the model's allowed results (L2 when only that fails).
//
// TestVerifC14Stress races notifications, tag operations, protection changes and trims from several
// goroutines and audits the manager at quiescence against the harness ledger.

import (
	"bufio"
	"context"
	"crypto/sha1"
	"encoding/json"
	"fmt"
	"log/slog"
	"math"
	"math/rand"
	"os"
	"path/filepath"
	"runtime"
	"sort"
	"strconv"
	"strings"
	"sync"
	"sync/atomic"
	"testing"
	"testing/synctest"
	"time"

	"github.com/benbjohnson/clock"
	"github.com/libp2p/go-libp2p/core/connmgr"
	"github.com/libp2p/go-libp2p/core/network"
	"github.com/libp2p/go-libp2p/core/peer"
	"github.com/libp2p/go-libp2p/internal/vfh"
	ma "github.com/multiformats/go-multiaddr"
)

const vfC14Unit = 10 * time.Second // one model clock unit
const vfC14NoTag = -99             // the spec's NoTag

var vfC14OwnSegments = false // set by TestVerifC14Gates only (each harness test runs in its own process)

// ---------------------------------------------------------------------------------------------
// stub connections

type vfC14Sink struct {
	gate   *vfC14Gate // interference point control (nil: none)
	mu     sync.Mutex
	closed []string // connection names, one entry per Close/CloseWithError call
	codes  []network.ConnErrorCode
}

func (k *vfC14Sink) add(name string, code network.ConnErrorCode) {
	k.mu.Lock()
	k.closed = append(k.closed, name)
	k.codes = append(k.codes, code)
	k.mu.Unlock()
}

// take returns the distinct connections closed since the last call (sorted) and the number of calls.
func (k *vfC14Sink) take() ([]string, int) {
	k.mu.Lock()
	defer k.mu.Unlock()
	set := map[string]bool{}
	for _, c := range k.closed {
		set[c] = true
	}
	n := len(k.closed)
	k.closed, k.codes = nil, nil
	out := make([]string, 0, len(set))
	for c := range set {
		out = append(out, c)
	}
	sort.Strings(out)
	return out, n
}

type vfC14Conn struct {
	network.Conn // nil: every method the manager does not use panics
	name         string
	pname        string
	pid          peer.ID
	addr         ma.Multiaddr
	dir          network.Direction
	nstr         int
	sink         *vfC14Sink
}

func (c *vfC14Conn) RemotePeer() peer.ID {
	c.sink.gate.callback(false) // trim() reads the peer of every connection it is about to close
	return c.pid
}
func (c *vfC14Conn) RemoteMultiaddr() ma.Multiaddr { return c.addr }
func (c *vfC14Conn) ID() string                    { return c.name }
func (c *vfC14Conn) IsClosed() bool                { return false }
func (c *vfC14Conn) Stat() network.ConnStats {
	c.sink.gate.callback(true) // the comparison function looks at the connections of two tied peers
	return network.ConnStats{Stats: network.Stats{Direction: c.dir}, NumStreams: c.nstr}
}
func (c *vfC14Conn) Close() error { c.sink.add(c.name, network.ConnNoError); return nil }
func (c *vfC14Conn) CloseWithError(code network.ConnErrorCode) error {
	c.sink.gate.callback(false)
	c.sink.add(c.name, code)
	return nil
}

// vfC14Gate turns the callbacks the manager makes on the stub connections during a trim into
// interference points: Stat() is called by the comparison function, i.e. after the candidates were
// collected and before the selection loop (two segment locks are held meanwhile); RemotePeer() and
// CloseWithError() are called while the selected connections are being closed (no lock held).  At the
// chosen callback another goroutine delivers a scripted burst of calls while the trim waits.
type vfC14Gate struct {
	armed           bool
	nStat, nClose   int         // callbacks seen while armed
	statAt, closeAt int         // 1-based callback at which the burst is delivered (0: never)
	fire            func() bool // delivers the burst; false if a lock the burst needs is held by the trim
	delivered       bool
	blocked         bool
}

func (g *vfC14Gate) callback(stat bool) {
	if g == nil || !g.armed {
		return
	}
	hit := false
	if stat {
		g.nStat++
		hit = g.nStat == g.statAt
	} else {
		g.nClose++
		hit = g.nClose == g.closeAt
	}
	if !hit || g.delivered {
		return
	}
	g.armed = false // callbacks made on behalf of the burst itself are not interference points
	if g.fire() {
		g.delivered = true
	} else {
		g.blocked = true
	}
	g.armed = true
}

// peer ids: the manager shards by the LAST byte of the id; p1, p2 and p4 share a segment, p3 has its
// own, so both locking branches of the comparison function are taken.
func vfC14PeerID(name string) peer.ID {
	last := byte(0x07)
	if name == "p3" {
		last = 0x09
	}
	if vfC14OwnSegments {
		last = name[len(name)-1] // the gate scenarios need every peer in its own segment
	}
	return peer.ID("vfC14-" + name + "-" + string([]byte{last}))
}

// ---------------------------------------------------------------------------------------------
// configuration and model state

type vfC14ConnCfg struct {
	P   string `json:"p"`
	Inb bool   `json:"inb"`
	St  int    `json:"st"`
}

type vfC14Cfg struct {
	Low     int                     `json:"low"`
	High    int                     `json:"high"`
	Grace   int                     `json:"grace"`
	MaxAge  int                     `json:"maxage"`
	Silence int                     `json:"silence"`
	DecMax  int                     `json:"decaymax"`   // bound of the decaying tag "d" (0: none)
	DecEvry int                     `json:"decayevery"` // its decay interval in units
	Peers   []string                `json:"peers"`
	Tags    []string                `json:"tags"`
	Conns   map[string]vfC14ConnCfg `json:"conns"`
	Name    string                  `json:"name"`
	Scale   string                  `json:"scale"`  // "" identity; "extreme": model value class -> extreme ints
	MaxVal  int                     `json:"maxval"` // largest model tag value: the upsert function is x -> min(x+1, MaxVal)
}

type vfC14MPeer struct {
	K string         // "n" untracked, "t" temporary entry, "c" connected
	C []string       // tracked connections
	T map[string]int // tags (-1 = absent, dropped here)
	V int            // value
	A int            // age in units, saturating at MaxAge
	X []string       // protection tags
}

type vfC14MState struct {
	Peers map[string]vfC14MPeer
	N     int
	Ph    int
	DK    string // decay function of the decaying tag d
	BK    string // its bump function
}

// layout printed by C14_MC!St: [ {peer: [kind, conns, tags, value, age, prot, decaying]}, connCount, phase, dph, trim in progress ]
func vfC14ParseState(raw json.RawMessage) (vfC14MState, error) {
	var st vfC14MState
	var top []json.RawMessage
	if err := json.Unmarshal(raw, &top); err != nil || len(top) != 6 {
		return st, fmt.Errorf("state layout: %v %s", err, string(raw))
	}
	var pm map[string][]json.RawMessage
	if err := json.Unmarshal(top[0], &pm); err != nil {
		return st, err
	}
	if err := json.Unmarshal(top[1], &st.N); err != nil {
		return st, err
	}
	if err := json.Unmarshal(top[2], &st.Ph); err != nil {
		return st, err
	}
	var dcfg []any
	if err := json.Unmarshal(top[5], &dcfg); err != nil || len(dcfg) != 3 {
		return st, fmt.Errorf("decaying tag layout: %s", string(top[5]))
	}
	st.DK, _ = dcfg[0].(string)
	st.BK, _ = dcfg[1].(string)
	st.Peers = map[string]vfC14MPeer{}
	for p, f := range pm {
		if len(f) != 7 {
			return st, fmt.Errorf("peer layout: %s", string(top[0]))
		}
		var mp vfC14MPeer
		var tags map[string]int
		var dec int
		for i, dst := range []any{&mp.K, &mp.C, &tags, &mp.V, &mp.A, &mp.X, &dec} {
			if err := json.Unmarshal(f[i], dst); err != nil {
				return st, fmt.Errorf("peer field %d: %v in %s", i, err, string(f[i]))
			}
		}
		mp.T = map[string]int{}
		for t, v := range tags {
			if v != vfC14NoTag {
				mp.T[t] = v
			}
		}
		if dec != vfC14NoTag {
			mp.T["d"] = dec // GetTagInfo lists decaying tags next to the plain ones
		}
		sort.Strings(mp.C)
		sort.Strings(mp.X)
		st.Peers[p] = mp
	}
	return st, nil
}

// ---------------------------------------------------------------------------------------------
// the system under test plus the harness ledger

type vfC14Sys struct {
	cfg    vfC14Cfg
	clk    *clock.Mock
	cm     *BasicConnMgr
	pid    map[string]peer.ID
	conns  map[string]*vfC14Conn
	byAddr map[string]string
	sink   *vfC14Sink
	dtag   connmgr.DecayingTag
	// ledger: what the delivered notifications and calls imply, kept without looking at the manager
	lconns map[string]map[string]bool // peer -> tracked connection names
	lfirst map[string]time.Time       // Connected that opened the peer's current tracking epoch
	lprot  map[string]map[string]bool // peer -> protection tags in force
	protU  []string                   // protection tags ever used (for IsProtected(p, tag) probes)
	skip   map[string]bool            // peers compare() leaves out (temporary entries a racing trim may or may not reach)
	// tag ledger: what the tag operations delivered so far imply for each peer, WHATEVER its connection
	// state was at the time of the operation (real values, i.e. after the scale map)
	ltags   map[string]map[string]int // plain tags
	ldec    map[string]*int           // value of the decaying tag d
	lentry  map[string]bool           // an entry exists for the unconnected peer (early tags)
	ltfirst map[string]time.Time      // when that early-tag entry was started
	lmaybe  map[string]bool           // ... and a trim may have pruned it (expired, unprotected): either is fine
	dfn     connmgr.DecayFn
	bfn     connmgr.BumpFn
	ldnext  time.Time
	dclosed bool
	// user callbacks as interference points: a burst another goroutine would deliver while the manager is
	// inside the caller's upsert function - possible only if the segment lock is NOT held there (TryLock)
	cbBurst []vfh.Op
	cbRan   bool
}

// tryWindow is called from inside a user callback of the manager.  If the locks the burst needs are free,
// an operation of another goroutine could be scheduled exactly here: deliver the burst synchronously.
func (s *vfC14Sys) tryWindow() bool {
	burst := s.cbBurst
	if len(burst) == 0 || s.cbRan {
		return false
	}
	for _, op := range burst {
		p := op.S("p")
		if c, ok := s.conns[op.S("c")]; ok {
			p = c.pname
		}
		if p == "" || op.Name() == "protect" || op.Name() == "unprotect" {
			continue
		}
		seg := s.cm.segments.get(s.pid[p])
		if !seg.TryLock() {
			return false // the manager holds the lock around the callback: the window does not exist
		}
		seg.Unlock()
	}
	s.cbBurst = nil
	done := make(chan struct{})
	go func() {
		defer close(done)
		for _, op := range burst {
			s.step(op)
		}
	}()
	<-done
	s.cbRan = true
	return true
}

// scale map of the VALUE dimension.  The model's tag values are small classes; the order-preserving map
// "extreme" sends them to the ends of the int range, so that sums/differences of two peers' values leave it.
var vfC14Extreme = map[int]int{-2: math.MinInt, -1: -100, 0: 0, 1: 100, 2: math.MaxInt}

func (s *vfC14Sys) scale(v int) int {
	if s.cfg.Scale == "extreme" {
		// classes beyond the ends saturate (only reachable once a walk has left the model: degraded mode)
		return vfC14Extreme[max(-2, min(2, v))]
	}
	return v
}

func (s *vfC14Sys) unscale(r int) int {
	if s.cfg.Scale == "extreme" {
		for k, v := range vfC14Extreme {
			if v == r {
				return k
			}
		}
		return 0
	}
	return r
}

// touch: a tag operation on a peer without connections starts (or continues) an early-tag entry
func (s *vfC14Sys) touch(p string) {
	if len(s.lconns[p]) == 0 && !s.lentry[p] {
		s.lentry[p], s.ltfirst[p] = true, s.clk.Now()
	}
}

// noteTrim: a trim running at `at` may prune the early-tag entries that are expired and unprotected
func (s *vfC14Sys) noteTrim(at time.Time) {
	graceStart := at.Add(-time.Duration(s.cfg.Grace) * vfC14Unit)
	for _, p := range s.cfg.Peers {
		if len(s.lconns[p]) == 0 && s.lentry[p] && len(s.lprot[p]) == 0 && !s.ltfirst[p].After(graceStart) {
			s.lmaybe[p] = true
		}
	}
}

func (s *vfC14Sys) ledgerDrop(p string) {
	s.ltags[p], s.lentry[p], s.lmaybe[p] = map[string]int{}, false, false
	delete(s.ldec, p)
}

// ledgerDecayRound: the decayer's tick at time now (contract: erased if rm, else the value becomes after)
func (s *vfC14Sys) ledgerDecayRound(now time.Time) {
	if s.cfg.DecMax == 0 || s.dclosed || s.ldnext.After(now) {
		return
	}
	for p, v := range s.ldec {
		if after, rm := s.dfn(connmgr.DecayingValue{Value: *v}); rm {
			delete(s.ldec, p)
		} else {
			*v = after
		}
	}
	s.ldnext = s.ldnext.Add(time.Duration(s.cfg.DecEvry) * vfC14Unit)
}

// ledgerValue: a peer's value is DEFINED as the Go int sum of its tags (TagInfo.Value is an int), so the
// ledger adds with the same two's-complement wrap-around; totals are then COMPARED with <, never subtracted.
func (s *vfC14Sys) ledgerValue(p string) int {
	sum := 0
	for _, v := range s.ltags[p] {
		sum += v
	}
	if v := s.ldec[p]; v != nil {
		sum += *v
	}
	return sum
}

// checkTagLedger: GetTagInfo(p).Value == sum of the plain tags + the current decaying value implied by the
// operations on p (Go int arithmetic), and the same tags are listed (a zero-valued tag may be left out).
func (s *vfC14Sys) checkTagLedger() (string, string, any, any) {
	for _, p := range s.cfg.Peers {
		if s.skip[p] {
			continue
		}
		ti := s.cm.GetTagInfo(s.pid[p])
		if s.lmaybe[p] {
			s.lmaybe[p] = false
			if ti == nil {
				s.ledgerDrop(p)
				continue
			}
		}
		want := map[string]int{}
		for t, v := range s.ltags[p] {
			if v != 0 {
				want[t] = v
			}
		}
		if v := s.ldec[p]; v != nil && *v != 0 {
			want["d"] = *v
		}
		sum := s.ledgerValue(p)
		got := map[string]int{}
		gotV := 0
		if ti != nil {
			gotV = ti.Value
			for t, v := range ti.Tags {
				if v != 0 {
					got[t] = v
				}
			}
		}
		if gotV == sum && fmt.Sprint(got) == fmt.Sprint(want) {
			continue
		}
		return "tag-total", fmt.Sprintf("GetTagInfo(%s) differs from what the tag operations delivered for %s imply (plain tags + current decaying value, whatever the connection state at the time)", p, p),
			map[string]any{"value": sum, "tags": want}, map[string]any{"value": gotV, "tags": got, "entry": ti != nil}
	}
	return "", "", nil, nil
}

// the decay and bump functions the spec's DecayRes / BumpRes stand for
func vfC14DecayFn(kind string) (connmgr.DecayFn, error) {
	switch kind {
	case "fixed1":
		return connmgr.DecayFixed(1), nil
	case "fixed2":
		return connmgr.DecayFixed(2), nil
	case "half":
		return connmgr.DecayLinear(0.5), nil
	case "none":
		return connmgr.DecayNone(), nil
	case "residual": // removal announced together with a non-zero `after`
		return func(v connmgr.DecayingValue) (int, bool) {
			if v.Value <= 1 {
				return 1, true
			}
			return v.Value - 1, false
		}, nil
	case "zerokeep": // value 0 but the tag stays
		return func(connmgr.DecayingValue) (int, bool) { return 0, false }, nil
	}
	return nil, fmt.Errorf("unknown decay kind %q", kind)
}

func vfC14BumpFn(kind string, max int) (connmgr.BumpFn, error) {
	switch kind {
	case "bounded":
		return connmgr.BumpSumBounded(0, max), nil
	case "unbounded":
		return connmgr.BumpSumUnbounded(), nil
	case "overwrite":
		return connmgr.BumpOverwrite(), nil
	}
	return nil, fmt.Errorf("unknown bump kind %q", kind)
}

func vfC14New(cfg vfC14Cfg) (*vfC14Sys, error) { return vfC14NewKinds(cfg, "fixed1", "bounded") }

func vfC14NewKinds(cfg vfC14Cfg, dk, bk string) (*vfC14Sys, error) {
	s := &vfC14Sys{cfg: cfg, clk: clock.NewMock(), pid: map[string]peer.ID{}, conns: map[string]*vfC14Conn{},
		byAddr: map[string]string{}, sink: &vfC14Sink{}, lconns: map[string]map[string]bool{},
		lfirst: map[string]time.Time{}, lprot: map[string]map[string]bool{}, protU: []string{"x", "y"},
		ltags: map[string]map[string]int{}, ldec: map[string]*int{}, lentry: map[string]bool{}, ltfirst: map[string]time.Time{}, lmaybe: map[string]bool{}}
	s.clk.Set(time.Unix(1_700_000_000, 0))
	sort.Strings(s.cfg.Peers)
	for i, p := range s.cfg.Peers {
		s.pid[p] = vfC14PeerID(p)
		s.lconns[p] = map[string]bool{}
		s.lprot[p] = map[string]bool{}
		s.ltags[p] = map[string]int{}
		_ = i
	}
	names := make([]string, 0, len(cfg.Conns))
	for c := range cfg.Conns {
		names = append(names, c)
	}
	sort.Strings(names)
	for i, c := range names {
		cc := cfg.Conns[c]
		a, err := ma.NewMultiaddr(fmt.Sprintf("/ip4/10.14.%d.%d/tcp/%d", i/200, 1+i%200, 4001+i))
		if err != nil {
			return nil, err
		}
		dir := network.DirOutbound
		if cc.Inb {
			dir = network.DirInbound
		}
		s.conns[c] = &vfC14Conn{name: c, pname: cc.P, pid: s.pid[cc.P], addr: a, dir: dir, nstr: cc.St, sink: s.sink}
		s.byAddr[a.String()] = c
	}
	silence := 1_000_000 * time.Hour // the background ticker never fires within a walk
	if cfg.Silence > 0 {
		silence = time.Duration(cfg.Silence) * vfC14Unit
	}
	resolution := 1_000_000 * time.Hour
	if cfg.DecMax > 0 {
		resolution = vfC14Unit
	}
	cm, err := NewConnManager(cfg.Low, cfg.High, WithClock(s.clk), WithGracePeriod(time.Duration(cfg.Grace)*vfC14Unit),
		WithSilencePeriod(silence), DecayerConfig(&DecayerCfg{Resolution: resolution, Clock: s.clk}))
	if err != nil {
		return nil, err
	}
	s.cm = cm
	if cfg.DecMax > 0 {
		dfn, err1 := vfC14DecayFn(dk)
		bfn, err2 := vfC14BumpFn(bk, cfg.DecMax)
		if err1 != nil || err2 != nil {
			cm.Close()
			return nil, fmt.Errorf("%v %v", err1, err2)
		}
		s.dfn, s.bfn = dfn, bfn
		s.ldnext = s.clk.Now().Add(time.Duration(cfg.DecEvry) * vfC14Unit)
		s.dtag, err = cm.RegisterDecayingTag("d", time.Duration(cfg.DecEvry)*vfC14Unit, dfn, bfn)
		if err != nil {
			cm.Close()
			return nil, err
		}
	}
	return s, nil
}

func (s *vfC14Sys) close() { s.cm.Close() }

func (s *vfC14Sys) lcount() int {
	n := 0
	for _, m := range s.lconns {
		n += len(m)
	}
	return n
}

// vfC14Pre is what the statement's trim clauses need to know about the moment a trim runs.
type vfC14Pre struct {
	count int             // connection count the delivered notifications imply
	prot  map[string]bool // protected by at least one tag
	grace map[string]bool // tracked and still inside the grace period at the time of the trim
	value map[string]int  // the peer's tag total per the tag ledger (Go int sum) just before the trim
	conns map[string][]string
}

func (s *vfC14Sys) pre(at time.Time) vfC14Pre {
	p := vfC14Pre{count: s.lcount(), prot: map[string]bool{}, grace: map[string]bool{}, value: map[string]int{}, conns: map[string][]string{}}
	graceStart := at.Add(-time.Duration(s.cfg.Grace) * vfC14Unit)
	for _, name := range s.cfg.Peers {
		p.prot[name] = len(s.lprot[name]) > 0
		if len(s.lconns[name]) > 0 {
			p.grace[name] = s.lfirst[name].After(graceStart)
			for c := range s.lconns[name] {
				p.conns[name] = append(p.conns[name], c)
			}
			sort.Strings(p.conns[name])
		}
		p.value[name] = s.ledgerValue(name)
	}
	return p
}

// l1Trim checks the clauses of the statement on the real result of one trim.  closed = distinct
// connections on which Close/CloseWithError was called during the trim.
func (s *vfC14Sys) l1Trim(force bool, pre vfC14Pre, closed []string) (string, string) {
	closedOf := map[string]int{} // peer -> number of its connections closed
	for _, c := range closed {
		cc, ok := s.conns[c]
		if !ok || !s.lconns[cc.pname][c] {
			return "L2:closed-untracked", fmt.Sprintf("closed %s which no delivered notification makes a tracked connection", c)
		}
		closedOf[cc.pname]++
	}
	if pre.count <= s.cfg.Low && len(closed) > 0 {
		return "trim-at-or-below-low", fmt.Sprintf("closed %v with %d connections and low watermark %d", closed, pre.count, s.cfg.Low)
	}
	eligible := func(p string) bool { return len(pre.conns[p]) > 0 && !pre.prot[p] && !pre.grace[p] }
	if !force {
		for p := range closedOf {
			if pre.prot[p] {
				return "trim-closed-protected", fmt.Sprintf("closed %v: peer %s is protected by %v", closed, p, vfC14Keys(s.lprot[p]))
			}
			if pre.grace[p] {
				return "trim-closed-in-grace", fmt.Sprintf("closed %v: peer %s is inside its grace period", closed, p)
			}
		}
		for q := range closedOf {
			for _, r := range s.cfg.Peers {
				if closedOf[r] == 0 && eligible(r) && pre.value[r] < pre.value[q] {
					return "trim-not-lowest-first", fmt.Sprintf("closed %s (value %d) while eligible %s (value %d) was kept", q, pre.value[q], r, pre.value[r])
				}
			}
		}
		if pre.count > s.cfg.Low {
			left := 0
			for _, p := range s.cfg.Peers {
				if eligible(p) {
					left += len(pre.conns[p]) - closedOf[p]
				}
			}
			if left > s.cfg.Low {
				return "trim-leaves-above-low", fmt.Sprintf("closed %v: %d eligible connections left, low watermark %d", closed, left, s.cfg.Low)
			}
		}
		return "", ""
	}
	// forced trim: protected peers only after ALL unprotected ones; lowest value first inside a class
	anyProt := false
	for p := range closedOf {
		anyProt = anyProt || pre.prot[p]
	}
	for _, r := range s.cfg.Peers {
		if anyProt && !pre.prot[r] && len(pre.conns[r]) > closedOf[r] {
			return "forcetrim-protected-before-unprotected", fmt.Sprintf("closed %v: a protected peer was closed while unprotected %s kept a connection", closed, r)
		}
	}
	for q := range closedOf {
		for _, r := range s.cfg.Peers {
			if closedOf[r] == 0 && len(pre.conns[r]) > 0 && pre.prot[r] == pre.prot[q] && pre.value[r] < pre.value[q] {
				return "forcetrim-not-lowest-first", fmt.Sprintf("closed %s (value %d) while %s (value %d) of the same class was kept", q, pre.value[q], r, pre.value[r])
			}
		}
	}
	return "", ""
}

func vfC14Keys(m map[string]bool) []string {
	out := make([]string, 0, len(m))
	for k := range m {
		out = append(out, k)
	}
	sort.Strings(out)
	return out
}

// closedPeers maps closed connections to the sorted set of their peers.
func (s *vfC14Sys) closedPeers(closed []string) []string {
	set := map[string]bool{}
	for _, c := range closed {
		if cc, ok := s.conns[c]; ok {
			set[cc.pname] = true
		}
	}
	return vfC14Keys(set)
}

func vfC14Allowed(op vfh.Op) []string {
	var out []string
	for _, e := range op.L("allowed") {
		l, _ := e.([]any)
		var names []string
		for _, n := range l {
			names = append(names, fmt.Sprint(n))
		}
		sort.Strings(names)
		out = append(out, fmt.Sprint(names))
	}
	sort.Strings(out)
	return out
}

// checkTrim: L1 clauses first, then whole-peer closing and membership in the model's results.
func (s *vfC14Sys) checkTrim(op vfh.Op, force bool, pre vfC14Pre, closed []string) (string, string, any, any) {
	allowed := vfC14Allowed(op)
	if cls, msg := s.l1Trim(force, pre, closed); cls != "" {
		return cls, msg, allowed, closed
	}
	peers := s.closedPeers(closed)
	for _, p := range peers {
		n := 0
		for _, c := range closed {
			if s.conns[c].pname == p {
				n++
			}
		}
		if n != len(pre.conns[p]) {
			return "L2:trim-partial-peer", fmt.Sprintf("closed %d of the %d connections of %s", n, len(pre.conns[p]), p), allowed, closed
		}
	}
	got := fmt.Sprint(append([]string{}, peers...))
	for _, a := range allowed {
		if a == got {
			return "", "", nil, nil
		}
	}
	return "L2:trim-result", "closed set is not one of the results the model allows (every clause of the statement holds)", allowed, peers
}

// step executes one model action on the real manager.
func (s *vfC14Sys) step(op vfh.Op) (string, string, any, any) {
	nf := s.cm.Notifee()
	switch op.Name() {
	case "connected":
		c := s.conns[op.S("c")]
		nf.Connected(nil, c)
		if len(s.lconns[c.pname]) == 0 {
			s.lfirst[c.pname] = s.clk.Now()
			s.lentry[c.pname] = false // the early-tag entry becomes the peer's entry: its tags are carried over
		}
		s.lconns[c.pname][c.name] = true
	case "disconnected":
		c := s.conns[op.S("c")]
		nf.Disconnected(nil, c)
		if s.lconns[c.pname][c.name] {
			delete(s.lconns[c.pname], c.name)
			if len(s.lconns[c.pname]) == 0 {
				s.ledgerDrop(c.pname) // the entry, and every tag with it, goes with the last connection
			}
		}
	case "tag":
		p, t, v := op.S("p"), op.S("t"), s.scale(op.I("v"))
		s.cm.TagPeer(s.pid[p], t, v)
		s.touch(p)
		s.ltags[p][t] = v
	case "untag":
		s.cm.UntagPeer(s.pid[op.S("p")], op.S("t"))
		delete(s.ltags[op.S("p")], op.S("t"))
	case "upsert":
		p, t := op.S("p"), op.S("t")
		f := func(x int) int {
			c := s.unscale(x) + 1
			if s.cfg.MaxVal != 0 {
				c = min(c, s.cfg.MaxVal)
			}
			return s.scale(c)
		}
		if op.Has("set") { // ledger-driven histories: the upsert function returns a fixed value
			set := op.I("set")
			f = func(int) int { return set }
		}
		// what the ledger holds if the upsert is ordered BEFORE a burst landing inside its callback
		before := map[string]int{}
		for k, v := range s.ltags[p] {
			before[k] = v
		}
		s.cbRan = false
		s.cm.UpsertTag(s.pid[p], t, func(x int) int { s.tryWindow(); return f(x) })
		s.cbBurst = nil
		s.touch(p)
		if !s.cbRan {
			s.ltags[p][t] = f(s.ltags[p][t])
			break
		}
		// a burst ran inside the callback (the ledger already reflects it): the outcome must be that of one of
		// the two sequential orders.  burst;upsert -> f(current); upsert;burst -> the burst's effect on f(old)
		orderA := f(s.ltags[p][t])
		before[t] = f(before[t])
		orderB, hasB := before[t], true
		for _, b := range vfC14BurstOf(op) {
			switch {
			case b.Name() == "tag" && b.S("p") == p && b.S("t") == t:
				orderB = s.scale(b.I("v"))
			case b.Name() == "untag" && b.S("p") == p && b.S("t") == t:
				hasB = false
			case b.Name() == "disconnected" && s.conns[b.S("c")].pname == p && len(s.lconns[p]) == 0 && !b.B("dup"):
				hasB = false
			}
		}
		got, has := 0, false
		if ti := s.cm.GetTagInfo(s.pid[p]); ti != nil {
			got, has = ti.Tags[t]
		}
		switch {
		case has && got == orderA:
			s.ltags[p][t] = orderA
		case has == hasB && (!has || got == orderB):
			if has {
				s.ltags[p][t] = orderB
			} else {
				delete(s.ltags[p], t)
			}
		default:
			return "tag-total", fmt.Sprintf("UpsertTag(%s,%s) with %v delivered inside its callback: the tag is the outcome of neither sequential order", p, t, vfC14BurstOf(op)),
				map[string]any{"burst_then_upsert": orderA, "upsert_then_burst": map[string]any{"value": orderB, "present": hasB}}, map[string]any{"value": got, "present": has}
		}
	case "bump":
		p := op.S("p")
		err := s.dtag.Bump(s.pid[p], op.I("dl"))
		synctest.Wait() // the decayer's loop has applied the command
		if err == nil {
			s.touch(p)
			cur := 0
			if v := s.ldec[p]; v != nil {
				cur = *v
			}
			nv := s.bfn(connmgr.DecayingValue{Value: cur}, op.I("dl"))
			s.ldec[p] = &nv
		}
		if (err != nil) != s.dclosed {
			return "L2:decay-api", fmt.Sprintf("Bump error %v", err), s.dclosed, err != nil
		}
	case "dremove":
		p := op.S("p")
		err := s.dtag.Remove(s.pid[p])
		synctest.Wait()
		if err == nil {
			s.touch(p)
			delete(s.ldec, p)
		}
		if (err != nil) != s.dclosed {
			return "L2:decay-api", fmt.Sprintf("Remove error %v", err), s.dclosed, err != nil
		}
	case "dclose":
		if err := s.dtag.Close(); err != nil {
			return "MACHINERY", "Close: " + err.Error(), nil, nil
		}
		synctest.Wait()
		s.dclosed = true
		s.ldec = map[string]*int{}
	case "protect":
		s.cm.Protect(s.pid[op.S("p")], op.S("x"))
		s.lprot[op.S("p")][op.S("x")] = true
	case "unprotect":
		res := s.cm.Unprotect(s.pid[op.S("p")], op.S("x"))
		delete(s.lprot[op.S("p")], op.S("x"))
		if res != op.B("res") || res != (len(s.lprot[op.S("p")]) > 0) {
			return "L2:protect-api", fmt.Sprintf("Unprotect(%s,%s) result", op.S("p"), op.S("x")), op.B("res"), res
		}
	case "trim":
		pre := s.pre(s.clk.Now())
		s.noteTrim(s.clk.Now())
		s.sink.take()
		s.cm.TrimOpenConns(context.Background())
		synctest.Wait()
		closed, _ := s.sink.take()
		return s.checkTrim(op, false, pre, closed)
	case "forcetrim":
		pre := s.pre(s.clk.Now())
		s.sink.take()
		s.cm.ForceTrim()
		synctest.Wait()
		closed, _ := s.sink.take()
		return s.checkTrim(op, true, pre, closed)
	case "tick":
		// whatever the background ticker does, it does at the new time
		pre := s.pre(s.clk.Now().Add(vfC14Unit))
		s.sink.take()
		s.clk.Add(vfC14Unit)
		synctest.Wait()
		s.ledgerDecayRound(s.clk.Now())
		if s.cfg.Silence > 0 {
			s.noteTrim(s.clk.Now()) // the ticker may have trimmed
		}
		closed, _ := s.sink.take()
		if !op.B("bg") && len(closed) == 0 {
			return "", "", nil, nil
		}
		return s.checkTrim(op, false, pre, closed)
	default:
		return "L2:unknown-op", "unknown op " + op.Name(), nil, nil
	}
	return "", "", nil, nil
}

// compare the public view of the manager with the model state (and the ledger).
func (s *vfC14Sys) compare(m vfC14MState) (string, string, any, any) {
	// the ledger is the harness's own bookkeeping: it must agree with the model or the harness is broken
	for _, p := range s.cfg.Peers {
		if fmt.Sprint(vfC14Keys(s.lconns[p])) != fmt.Sprint(append([]string{}, m.Peers[p].C...)) {
			return "MACHINERY", "ledger and model disagree on the tracked connections of " + p, m.Peers[p].C, vfC14Keys(s.lconns[p])
		}
		if fmt.Sprint(vfC14Keys(s.lprot[p])) != fmt.Sprint(append([]string{}, m.Peers[p].X...)) {
			return "MACHINERY", "ledger and model disagree on the protection of " + p, m.Peers[p].X, vfC14Keys(s.lprot[p])
		}
	}
	if got := s.cm.GetInfo().ConnCount; got != s.lcount() {
		return "conn-count", "GetInfo().ConnCount differs from the number of connections the delivered notifications imply", s.lcount(), got
	}
	now := s.clk.Now()
	for _, p := range s.cfg.Peers {
		if s.skip[p] {
			continue
		}
		mp := m.Peers[p]
		if s.cfg.Scale != "" { // the model's value classes -> real values
			t2, v2 := map[string]int{}, 0
			for t, v := range mp.T {
				if t != "d" {
					v = s.scale(v)
				}
				t2[t] = v
				v2 += v
			}
			mp.T, mp.V = t2, v2
		}
		ti := s.cm.GetTagInfo(s.pid[p])
		tracked := len(s.lconns[p]) > 0
		if ti != nil {
			sum := 0
			for _, v := range ti.Tags {
				sum += v
			}
			if sum != ti.Value {
				return "tag-total", fmt.Sprintf("GetTagInfo(%s): Value is not the sum of Tags %v", p, ti.Tags), sum, ti.Value
			}
		}
		if tracked {
			if ti == nil {
				return "peer-untracked", fmt.Sprintf("GetTagInfo(%s) is nil although Connected was delivered for %v and no Disconnected since", p, vfC14Keys(s.lconns[p])), mp.T, nil
			}
			if ti.Value != mp.V || fmt.Sprint(ti.Tags) != fmt.Sprint(mp.T) {
				return "tag-total", fmt.Sprintf("tags of connected peer %s differ from what the tag operations imply", p),
					map[string]any{"value": mp.V, "tags": mp.T}, map[string]any{"value": ti.Value, "tags": ti.Tags}
			}
			var got []string
			for a := range ti.Conns {
				got = append(got, s.byAddr[a])
			}
			sort.Strings(got)
			if fmt.Sprint(got) != fmt.Sprint(append([]string{}, mp.C...)) {
				return "L2:peer-conns", fmt.Sprintf("GetTagInfo(%s).Conns", p), mp.C, got
			}
		} else {
			if (ti != nil) != (mp.K == "t") {
				return "L2:temp-entry", fmt.Sprintf("entry of unconnected peer %s (model kind %q)", p, mp.K), mp.K == "t", ti != nil
			}
			if ti != nil && (len(ti.Conns) != 0 || ti.Value != mp.V || fmt.Sprint(ti.Tags) != fmt.Sprint(mp.T)) {
				return "L2:temp-entry", fmt.Sprintf("temporary entry of %s", p), map[string]any{"value": mp.V, "tags": mp.T},
					map[string]any{"value": ti.Value, "tags": ti.Tags, "conns": len(ti.Conns)}
			}
		}
		if ti != nil {
			age := int(now.Sub(ti.FirstSeen) / vfC14Unit)
			if now.Sub(ti.FirstSeen)%vfC14Unit != 0 || age < 0 {
				return "L2:first-seen", fmt.Sprintf("FirstSeen of %s is not on the unit grid", p), mp.A, now.Sub(ti.FirstSeen).String()
			}
			if age > s.cfg.MaxAge {
				age = s.cfg.MaxAge
			}
			if age != mp.A {
				return "L2:first-seen", fmt.Sprintf("age of %s in units (saturating at %d)", p, s.cfg.MaxAge), mp.A, age
			}
		}
		if got := s.cm.IsProtected(s.pid[p], ""); got != (len(s.lprot[p]) > 0) {
			return "L2:protect-api", fmt.Sprintf("IsProtected(%s, \"\")", p), len(s.lprot[p]) > 0, got
		}
		for _, x := range s.protU {
			if got := s.cm.IsProtected(s.pid[p], x); got != s.lprot[p][x] {
				return "L2:protect-api", fmt.Sprintf("IsProtected(%s, %q)", p, x), s.lprot[p][x], got
			}
		}
	}
	if m.N != s.lcount() {
		return "MACHINERY", "ledger and model disagree on the connection count", m.N, s.lcount()
	}
	return "", "", nil, nil
}

// vfC14CaseKey identifies a transition (instance, source state, action with arguments) by a digest.
func vfC14CaseKey(inst, src string, op vfh.Op) string {
	b, _ := json.Marshal(op) // map keys are emitted sorted: canonical
	h := sha1.New()
	h.Write([]byte(inst))
	h.Write([]byte{0})
	h.Write([]byte(src))
	h.Write([]byte{0})
	h.Write(b)
	return string(h.Sum(nil))
}

// burst returns the operations scheduled for delivery inside the callback of this upsert step
func vfC14BurstOf(op vfh.Op) []vfh.Op {
	l, _ := op["_burst"].([]vfh.Op)
	return l
}

// compareLedger runs the checks that need no model state: the connection count against the ledger of
// delivered notifications and the self-consistency of every peer's public tag view.
func (s *vfC14Sys) compareLedger() (string, string, any, any) {
	if got := s.cm.GetInfo().ConnCount; got != s.lcount() {
		return "conn-count", "GetInfo().ConnCount differs from the number of connections the delivered notifications imply", s.lcount(), got
	}
	for _, p := range s.cfg.Peers {
		if ti := s.cm.GetTagInfo(s.pid[p]); ti != nil {
			sum := 0
			for _, v := range ti.Tags {
				sum += v
			}
			if sum != ti.Value {
				return "tag-total", fmt.Sprintf("GetTagInfo(%s): Value is not the sum of Tags %v", p, ti.Tags), sum, ti.Value
			}
		}
	}
	return s.checkTagLedger()
}

func vfC14Silence() { log = slog.New(slog.DiscardHandler) }

func vfC14LoadCfg(hdr map[string]any) (vfC14Cfg, error) {
	var cfg vfC14Cfg
	b, _ := json.Marshal(hdr["conf"])
	if err := json.Unmarshal(b, &cfg); err != nil {
		return cfg, err
	}
	cfg.Name, _ = hdr["name"].(string)
	if cfg.Low <= 0 || len(cfg.Peers) == 0 || len(cfg.Conns) == 0 {
		return cfg, fmt.Errorf("bad conf in header: %s", string(b))
	}
	return cfg, nil
}

func TestVerifC14Replay(t *testing.T) {
	vfC14Silence()
	res := vfh.NewResult()
	defer func() {
		if err := res.Write(); err != nil {
			t.Fatal(err)
		}
	}()
	files, _ := filepath.Glob(filepath.Join(vfh.In(), "*.jsonl"))
	if len(files) == 0 {
		t.Fatalf("no behaviour files in %q", vfh.In())
	}
	sort.Strings(files)
	res.Rule = "one case = one (model instance, source state, action+arguments) transition executed on the real BasicConnMgr; distinct = distinct such transitions; every one compares ConnCount, every peer's GetTagInfo and IsProtected with the model, trims additionally check the statement's clauses on the closed set"
	var mu sync.Mutex
	machinery := ""
	var l1, l2 []vfh.Mismatch // violations first when the result file is written (it keeps at most 50 entries)
	t.Run("walks", func(t *testing.T) {
		for _, f := range files {
			hdr, walks, err := vfh.LoadWalks(f)
			if err != nil {
				t.Fatalf("%s: %v", f, err)
			}
			cfg, err := vfC14LoadCfg(hdr)
			if err != nil {
				t.Fatalf("%s: %v", f, err)
			}
			t.Run(cfg.Name, func(t *testing.T) {
				t.Parallel()
				stats := map[string]int{}
				for _, w := range walks {
					synctest.Test(t, func(t *testing.T) {
						ini, err := vfC14ParseState(w.Init)
						if err != nil {
							t.Fatal(err)
						}
						sys, err := vfC14NewKinds(cfg, ini.DK, ini.BK)
						if err != nil {
							t.Fatal(err)
						}
						defer sys.close()
						synctest.Wait() // the background goroutine has created its ticker at time zero
						var prefix []vfh.Op
						prevKey := string(w.Init)
						// After an internal (L2) disagreement the model state no longer describes the manager, but
						// the ledger still does: the walk goes on with the ledger-based monitors only, so that an
						// observable consequence of the disagreement (a violation) is not masked by it.
						degraded := false
						for i, st := range w.Steps {
							prefix = append(prefix, st.Op)
							cls, what, exp, got := sys.step(st.Op)
							if !degraded {
								res.Case(vfC14CaseKey(cfg.Name, prevKey, st.Op))
							}
							prevKey = string(st.State)
							switch st.Op.Name() {
							case "trim", "forcetrim", "tick":
								if al := st.Op.L("allowed"); len(al) > 1 {
									stats["trims_with_ties"]++
								} else if len(al) == 1 && len(al[0].([]any)) > 0 {
									stats["trims_closing"]++
								}
							}
							if cls == "" && !degraded {
								m, err := vfC14ParseState(st.State)
								if err != nil {
									cls, what = "MACHINERY", err.Error()
								} else {
									cls, what, exp, got = sys.compare(m)
								}
							}
							if cls == "" || strings.HasPrefix(cls, "L2:") {
								if c2, w2, e2, g2 := sys.compareLedger(); c2 != "" {
									cls, what, exp, got = c2, w2, e2, g2
								}
							}
							res.Count(0, 1)
							if cls == "MACHINERY" {
								mu.Lock()
								machinery = fmt.Sprintf("%s walk %d step %d: %s (expected %v, got %v)", cfg.Name, w.Walk, i, what, exp, got)
								mu.Unlock()
								return
							}
							if cls == "" {
								continue
							}
							mm := vfh.Mismatch{Class: cls, What: what, Walk: w.Walk, Step: i, Expected: exp, Got: got,
								Prefix: append([]vfh.Op{}, prefix...), Cfg: map[string]any{"instance": cfg.Name, "conf": cfg, "file": filepath.Base(f), "unit": vfC14Unit.String(), "decay_fn": ini.DK, "bump_fn": ini.BK}}
							if strings.HasPrefix(cls, "L2:") {
								if !degraded {
									degraded = true
									stats["walks_degraded"]++
									mu.Lock()
									if len(l2) < 200 {
										l2 = append(l2, mm)
									}
									mu.Unlock()
								}
								continue
							}
							mu.Lock()
							if len(l1) < 200 {
								l1 = append(l1, mm)
							}
							mu.Unlock()
							break
						}
						res.Count(1, 0)
					})
					if w.Walk == 0 && len(w.Steps) > 0 {
						k := min(6, len(w.Steps))
						res.Sample(map[string]any{"instance": cfg.Name, "first_steps": w.Steps[:k]})
					}
				}
				for k, v := range stats {
					res.Inc(k, v)
				}
			})
		}
	}) // returns when every parallel instance has finished
	if machinery != "" {
		t.Errorf("harness machinery: %s", machinery)
	}
	// deterministic order (the instances ran in parallel); shortest failing walk first inside a class
	for _, l := range [][]vfh.Mismatch{l1, l2} {
		sort.SliceStable(l, func(i, j int) bool {
			a, b := l[i], l[j]
			if a.Class != b.Class {
				return a.Class < b.Class
			}
			if a.Step != b.Step {
				return a.Step < b.Step
			}
			ai, bi := a.Cfg.(map[string]any)["instance"].(string), b.Cfg.(map[string]any)["instance"].(string)
			if ai != bi {
				return ai < bi
			}
			return a.Walk < b.Walk
		})
	}
	for _, l := range [][]vfh.Mismatch{vfC14PerClass(l1, 8), vfC14PerClass(l2, 3)} {
		for _, m := range l {
			res.AddMismatch(m)
		}
	}
}

// vfC14PerClass keeps the first n mismatches of every class.
func vfC14PerClass(l []vfh.Mismatch, n int) []vfh.Mismatch {
	seen := map[string]int{}
	var out []vfh.Mismatch
	for _, m := range l {
		if seen[m.Class] < n {
			seen[m.Class]++
			out = append(out, m)
		}
	}
	return out
}

// ---------------------------------------------------------------------------------------------
// concurrent stress with an audit at quiescence

type vfC14StressPeer struct {
	name   string
	id     peer.ID
	class  string // "anchor", "prot", "fresh", "churn"
	conns  []*vfC14Conn
	anchor *vfC14Conn
}

func TestVerifC14Stress(t *testing.T) {
	vfC14Silence()
	res := vfh.NewResult()
	defer func() {
		if err := res.Write(); err != nil {
			t.Fatal(err)
		}
	}()
	res.Rule = "one case = one seeded round: notifications (with duplicates), tag operations, decaying-tag bumps, protection changes racing with TrimOpenConns (phase 2: plus clock advances firing the background trim; phase 3: plus ForceTrim) from several goroutines; at quiescence ConnCount, every anchored peer's tags/value/connections and the protection status must equal the harness ledger; no connection of a peer protected (or inside its grace period) throughout the phase may have been closed"
	rounds := 24
	if vfh.Thorough() {
		rounds = 240
	}
	for r := 0; r < rounds; r++ {
		for phase := 1; phase <= 3; phase++ {
			cls, what, exp, got, ops := vfC14StressRound(t, vfh.Seed()*1_000_003+int64(r), phase)
			res.Count(1, ops)
			res.Case(fmt.Sprintf("stress-%d-%d", r, phase))
			if cls != "" {
				res.AddMismatch(vfh.Mismatch{Class: cls, What: what, Walk: -1, Step: r, Expected: exp, Got: got,
					Cfg: map[string]any{"round": r, "phase": phase, "seed": vfh.Seed()}})
				return
			}
		}
	}
}

func vfC14StressRound(t *testing.T, seed int64, phase int) (string, string, any, any, int) {
	rnd := rand.New(rand.NewSource(seed))
	clk := clock.NewMock()
	clk.Set(time.Unix(1_700_000_000, 0))
	low, high := 3, 6
	grace := 2 * vfC14Unit
	cm, err := NewConnManager(low, high, WithClock(clk), WithGracePeriod(grace), WithSilencePeriod(vfC14Unit),
		DecayerConfig(&DecayerCfg{Resolution: vfC14Unit, Clock: clk}))
	if err != nil {
		t.Fatal(err)
	}
	defer cm.Close()
	// a decaying tag whose visits (phases 2, 3: every clock unit) keep the value: the total of the accepted
	// bumps is then independent of the interleaving; "dsync" only serves as a barrier on the command queue
	dtag, err := cm.RegisterDecayingTag("ds", vfC14Unit, connmgr.DecayNone(), connmgr.BumpSumUnbounded())
	if err != nil {
		t.Fatal(err)
	}
	dsync, err := cm.RegisterDecayingTag("dsync", vfC14Unit, connmgr.DecayNone(), connmgr.BumpSumUnbounded())
	if err != nil {
		t.Fatal(err)
	}
	sink := &vfC14Sink{}
	nf := cm.Notifee()
	nconn := 0
	mk := func(p *vfC14StressPeer) *vfC14Conn {
		nconn++
		a, _ := ma.NewMultiaddr(fmt.Sprintf("/ip4/10.15.%d.%d/tcp/%d", nconn/200, 1+nconn%200, 5000+nconn))
		dir := network.DirOutbound
		if rnd.Intn(2) == 0 {
			dir = network.DirInbound
		}
		c := &vfC14Conn{name: fmt.Sprintf("%s#%d", p.name, nconn), pname: p.name, pid: p.id, addr: a, dir: dir, nstr: rnd.Intn(3), sink: sink}
		p.conns = append(p.conns, c)
		return c
	}
	var peers []*vfC14StressPeer
	add := func(class string, n, extra int) {
		for i := 0; i < n; i++ {
			name := fmt.Sprintf("%s%d", class, i)
			// few distinct last bytes: several peers share a segment
			p := &vfC14StressPeer{name: name, class: class, id: peer.ID("vfC14s-" + name + string([]byte{byte(rnd.Intn(3))}))}
			for j := 0; j < extra; j++ {
				mk(p)
			}
			peers = append(peers, p)
		}
	}
	add("anchor", 6, 3)
	add("prot", 3, 2)
	add("fresh", 3, 2)
	add("churn", 4, 2)
	// before the race: anchors and protected peers connected and past their grace period
	for _, p := range peers {
		switch p.class {
		case "anchor":
			p.anchor = p.conns[0]
			nf.Connected(nil, p.anchor)
		case "prot":
			for _, c := range p.conns {
				nf.Connected(nil, c)
			}
			cm.Protect(p.id, "x")
			cm.Protect(p.id, "y")
		}
	}
	for i := 0; i < 3; i++ {
		clk.Add(vfC14Unit)
	}
	sink.take()

	// ledgers, one per owner goroutine (disjoint keys), merged after the race
	type tagKey struct{ p, t string }
	var wg sync.WaitGroup
	var lmu sync.Mutex
	open := map[string]bool{} // connection name -> tracked
	tags := map[tagKey]int{}  // final tag values on anchored peers
	hasTag := map[tagKey]bool{}
	protFinal := map[string]map[string]bool{}
	totalOps := 0
	for _, p := range peers {
		if p.class == "anchor" {
			open[p.anchor.name] = true
		}
		if p.class == "prot" {
			for _, c := range p.conns {
				open[c.name] = true
			}
			protFinal[p.name] = map[string]bool{"x": true, "y": true}
		}
	}
	nOps := 150
	// notification goroutines: each owns the non-anchor connections of a share of the peers
	owners := 4
	for g := 0; g < owners; g++ {
		var mine []*vfC14Conn
		for i, p := range peers {
			if i%owners != g || p.class == "prot" {
				continue
			}
			for _, c := range p.conns {
				if c != p.anchor {
					mine = append(mine, c)
				}
			}
		}
		grnd := rand.New(rand.NewSource(seed*31 + int64(g)))
		wg.Add(1)
		go func() {
			defer wg.Done()
			local := map[string]bool{}
			for i := 0; i < nOps && len(mine) > 0; i++ {
				c := mine[grnd.Intn(len(mine))]
				if grnd.Intn(5) < 3 {
					nf.Connected(nil, c)
					if grnd.Intn(4) == 0 {
						nf.Connected(nil, c) // duplicate
					}
					local[c.name] = true
				} else {
					nf.Disconnected(nil, c)
					if grnd.Intn(4) == 0 {
						nf.Disconnected(nil, c) // duplicate
					}
					delete(local, c.name)
				}
			}
			lmu.Lock()
			for k := range local {
				open[k] = true
			}
			totalOps += nOps
			lmu.Unlock()
		}()
	}
	// tag goroutines: goroutine g owns tag name "tg<g>" on every peer; audited on anchored peers
	for g := 0; g < 3; g++ {
		tname := fmt.Sprintf("tg%d", g)
		grnd := rand.New(rand.NewSource(seed*37 + int64(g)))
		wg.Add(1)
		go func() {
			defer wg.Done()
			lv := map[string]int{}
			lh := map[string]bool{}
			for i := 0; i < nOps; i++ {
				p := peers[grnd.Intn(len(peers))]
				switch grnd.Intn(3) {
				case 0:
					v := grnd.Intn(7) - 2
					cm.TagPeer(p.id, tname, v)
					lv[p.name], lh[p.name] = v, true
				case 1:
					cm.UntagPeer(p.id, tname)
					delete(lv, p.name)
					delete(lh, p.name)
				default:
					d := grnd.Intn(3) + 1
					cm.UpsertTag(p.id, tname, func(x int) int { return x + d })
					lv[p.name], lh[p.name] = lv[p.name]+d, true
				}
			}
			lmu.Lock()
			for _, p := range peers {
				if p.class == "anchor" && lh[p.name] {
					tags[tagKey{p.name, tname}] = lv[p.name]
					hasTag[tagKey{p.name, tname}] = true
				}
			}
			totalOps += nOps
			lmu.Unlock()
		}()
	}
	// decaying-tag bumps on anchored peers; a bump refused because the command queue is full does not count
	{
		grnd := rand.New(rand.NewSource(seed * 43))
		wg.Add(1)
		go func() {
			defer wg.Done()
			local := map[string]int{}
			for i := 0; i < nOps; i++ {
				p := peers[grnd.Intn(len(peers))]
				d := grnd.Intn(3) + 1
				if dtag.Bump(p.id, d) == nil && p.class == "anchor" {
					local[p.name] += d
				}
			}
			lmu.Lock()
			for k, v := range local {
				tags[tagKey{k, "ds"}] = v
				hasTag[tagKey{k, "ds"}] = true
			}
			totalOps += nOps
			lmu.Unlock()
		}()
	}
	// protection goroutine: toggles "x" on protected peers ("y" stays: protected throughout) and "z" on anchors
	{
		grnd := rand.New(rand.NewSource(seed * 41))
		wg.Add(1)
		go func() {
			defer wg.Done()
			local := map[string]map[string]bool{}
			for i := 0; i < nOps; i++ {
				p := peers[grnd.Intn(len(peers))]
				tag := "z"
				if p.class == "prot" {
					tag = "x"
				} else if p.class != "anchor" {
					continue
				}
				if local[p.name] == nil {
					local[p.name] = map[string]bool{}
					if p.class == "prot" {
						local[p.name]["x"], local[p.name]["y"] = true, true
					}
				}
				if grnd.Intn(2) == 0 {
					cm.Protect(p.id, tag)
					local[p.name][tag] = true
				} else {
					cm.Unprotect(p.id, tag)
					delete(local[p.name], tag)
				}
			}
			lmu.Lock()
			for k, v := range local {
				protFinal[k] = v
			}
			totalOps += nOps
			lmu.Unlock()
		}()
	}
	// trimmers
	for g := 0; g < 2; g++ {
		wg.Add(1)
		go func() {
			defer wg.Done()
			for i := 0; i < 40; i++ {
				cm.TrimOpenConns(context.Background())
			}
		}()
	}
	if phase >= 2 {
		wg.Add(1)
		go func() {
			defer wg.Done()
			for i := 0; i < 4; i++ {
				clk.Add(vfC14Unit) // fires the background ticker: trim when count >= high
			}
		}()
	}
	if phase >= 3 {
		wg.Add(1)
		go func() {
			defer wg.Done()
			for i := 0; i < 20; i++ {
				cm.ForceTrim()
			}
		}()
	}
	wg.Wait()
	// the background goroutine may still be inside a trim started by the last tick: a trim holds no
	// state we audit, but the closed set must be complete, so run one more tick-free barrier
	cm.TrimOpenConns(context.Background())
	closed, _ := sink.take()
	// barrier on the decayer's command queue (FIFO): once the last command is visible all bumps are applied
	for dsync.Bump(peers[0].id, 1) != nil {
		time.Sleep(time.Millisecond)
	}
	tags[tagKey{peers[0].name, "dsync"}], hasTag[tagKey{peers[0].name, "dsync"}] = 1, true
	for i := 0; ; i++ {
		if ti := cm.GetTagInfo(peers[0].id); ti != nil && ti.Tags["dsync"] == 1 {
			break
		}
		if i > 20000 {
			t.Fatalf("the decayer did not apply the barrier command within 20 s")
		}
		time.Sleep(time.Millisecond)
	}

	// audit at quiescence (an internal disagreement is reported only if no clause of the statement fails)
	var l2cls, l2what string
	var l2exp, l2got any
	nOpen := 0
	for range open {
		nOpen++
	}
	if got := cm.GetInfo().ConnCount; got != nOpen {
		return "conn-count", fmt.Sprintf("phase %d: ConnCount at quiescence differs from what the delivered notifications imply", phase), nOpen, got, totalOps
	}
	for _, p := range peers {
		ti := cm.GetTagInfo(p.id)
		if ti != nil {
			sum := 0
			for _, v := range ti.Tags {
				sum += v
			}
			if sum != ti.Value {
				return "tag-total", fmt.Sprintf("phase %d: GetTagInfo(%s).Value is not the sum of Tags %v", phase, p.name, ti.Tags), sum, ti.Value, totalOps
			}
		}
		wantConns := 0
		for _, c := range p.conns {
			if open[c.name] {
				wantConns++
			}
		}
		if wantConns > 0 && (ti == nil || len(ti.Conns) != wantConns) {
			n := -1
			if ti != nil {
				n = len(ti.Conns)
			}
			return "conn-count", fmt.Sprintf("phase %d: connections tracked for %s", phase, p.name), wantConns, n, totalOps
		}
		if p.class == "anchor" {
			want := map[string]int{}
			sum := 0
			for k, v := range tags {
				if k.p == p.name && hasTag[k] {
					want[k.t] = v
					sum += v
				}
			}
			if ti == nil || ti.Value != sum || fmt.Sprint(ti.Tags) != fmt.Sprint(want) {
				var g any
				if ti != nil {
					g = map[string]any{"value": ti.Value, "tags": ti.Tags}
				}
				return "tag-total", fmt.Sprintf("phase %d: tags of anchored peer %s at quiescence", phase, p.name), map[string]any{"value": sum, "tags": want}, g, totalOps
			}
		}
		if pf, ok := protFinal[p.name]; ok && l2cls == "" {
			if got := cm.IsProtected(p.id, ""); got != (len(pf) > 0) {
				l2cls, l2what, l2exp, l2got = "L2:protect-api", fmt.Sprintf("phase %d: IsProtected(%s) at quiescence", phase, p.name), len(pf) > 0, got
			}
		}
	}
	if phase <= 2 {
		byName := map[string]*vfC14StressPeer{}
		for _, p := range peers {
			byName[p.name] = p
		}
		for _, c := range closed {
			pn := c
			for i := range c {
				if c[i] == '#' {
					pn = c[:i]
				}
			}
			p := byName[pn]
			if p == nil {
				continue
			}
			if p.class == "prot" {
				return "trim-closed-protected", fmt.Sprintf("phase %d: %s was closed although its peer kept protection tag y throughout", phase, c), nil, closed, totalOps
			}
			if phase == 1 && p.class == "fresh" {
				return "trim-closed-in-grace", fmt.Sprintf("phase %d: %s was closed although its peer connected after the last clock advance (inside grace)", phase, c), nil, closed, totalOps
			}
		}
	}
	return l2cls, l2what, l2exp, l2got, totalOps
}

// ---------------------------------------------------------------------------------------------
// gate-driven interference inside a trim

// vfC14Script is one interference scenario generated from the graph of the concurrent variant of the
// spec (Collect ... foreign steps ... Select): after `prefix` a trim is started; `window` is delivered
// at a Stat() callback (between the collection of the candidates and the selection), `post` at a
// RemotePeer()/CloseWithError() callback (while the selected connections are closed).  `final` is the
// model state after everything; peers in `mayprune` are temporary entries the racing trim may or may
// not have reached.
type vfC14Script struct {
	ID       int             `json:"id"`
	Entry    string          `json:"entry"`  // "trim" (TrimOpenConns / the ticker's trim), "force" or "upsert"
	Upsert   vfh.Op          `json:"upsert"` // entry "upsert": the UpsertTag call inside whose callback `window` is delivered
	Prefix   []vfh.Op        `json:"prefix"`
	Window   []vfh.Op        `json:"window"`
	Post     []vfh.Op        `json:"post"`
	Final    json.RawMessage `json:"final"`
	MayPrune []string        `json:"mayprune"`
}

func vfC14LoadScripts(path string) (map[string]any, []vfC14Script, error) {
	f, err := os.Open(path)
	if err != nil {
		return nil, nil, err
	}
	defer f.Close()
	sc := bufio.NewScanner(f)
	sc.Buffer(make([]byte, 1<<20), 1<<28)
	var hdr vfh.Header
	var out []vfC14Script
	first := true
	for sc.Scan() {
		if len(sc.Bytes()) == 0 {
			continue
		}
		if first {
			first = false
			if err := json.Unmarshal(sc.Bytes(), &hdr); err != nil {
				return nil, nil, err
			}
			continue
		}
		var s vfC14Script
		if err := json.Unmarshal(sc.Bytes(), &s); err != nil {
			return nil, nil, err
		}
		out = append(out, s)
	}
	return hdr.Header, out, sc.Err()
}

// gateApply performs one step of a burst (on the delivering goroutine) and keeps the ledger.
func (s *vfC14Sys) gateApply(op vfh.Op) {
	if op.Name() == "trim" {
		s.noteTrim(s.clk.Now())
		s.cm.trim() // the ticker's path: not serialised with TrimOpenConns by trimMutex
		return
	}
	s.step(op) // notifications, tag and protection calls: none of them looks at the sink
}

// vfC14RunScript executes one script with the burst delivered at the k-th callback of the chosen kind
// (k = 0: never, a dry run that only counts the callbacks).  Must run inside a synctest bubble.
func vfC14RunScript(cfg vfC14Cfg, sc vfC14Script, k int, useTicker bool) (status string, nStat, nClose int, mm *vfh.Mismatch) {
	if sc.Entry == "upsert" && k == 0 {
		return "dry", 1, 0, nil // the callback runs exactly once
	}
	sys, err := vfC14New(cfg)
	if err != nil {
		return "MACHINERY: " + err.Error(), 0, 0, nil
	}
	defer sys.close()
	synctest.Wait()
	for _, op := range sc.Prefix {
		if cls, _, _, _ := sys.step(op); cls != "" {
			return "prefix-diverged", 0, 0, nil // sequential disagreements are the replay test's business
		}
	}
	if sc.Entry == "upsert" {
		op := vfh.Op{}
		for k, v := range sc.Upsert {
			op[k] = v
		}
		op["_burst"] = sc.Window
		sys.cbBurst = sc.Window
		cls, what, exp, got := sys.step(op)
		if !sys.cbRan {
			return "window-closed", 1, 0, nil // the lock is held around the callback: atomic, nothing to interleave
		}
		if cls == "" || strings.HasPrefix(cls, "L2:") {
			cls, what, exp, got = sys.compareLedger()
		}
		if cls == "" {
			for _, p := range sys.cfg.Peers {
				for _, c := range vfC14Keys(sys.lconns[p]) {
					sys.step(vfh.Op{"name": "disconnected", "c": c})
				}
			}
			if n := sys.cm.GetInfo().ConnCount; n != 0 {
				cls, what, exp, got = "conn-count", "ConnCount after the Disconnected of every connection announced so far", 0, n
			}
		}
		if cls != "" && !strings.HasPrefix(cls, "L2:") {
			all := append(append(append([]vfh.Op{}, sc.Prefix...), vfh.Op{"name": "BEGIN UpsertTag callback", "p": sc.Upsert.S("p"), "t": sc.Upsert.S("t")}), sc.Window...)
			return "mismatch", 1, 0, &vfh.Mismatch{Class: cls, What: "after a call delivered inside UpsertTag's callback (segment lock free there): " + what, Walk: sc.ID, Step: 1, Expected: exp, Got: got, Prefix: all,
				Cfg: map[string]any{"instance": cfg.Name, "conf": cfg, "script": sc.ID, "entry": sc.Entry, "window": sc.Window}}
		}
		return "ok", 1, 0, nil
	}
	burst, atStat := sc.Window, true
	if len(burst) == 0 {
		burst, atStat = sc.Post, false
	}
	touched := map[string]bool{}
	for _, op := range burst {
		if p := op.S("p"); p != "" {
			touched[p] = true
		}
	}
	pre := sys.pre(sys.clk.Now())
	if sc.Entry != "force" {
		sys.noteTrim(sys.clk.Now())
	}
	sys.sink.take()
	g := &vfC14Gate{}
	if atStat {
		g.statAt = k
	} else {
		g.closeAt = k
	}
	g.fire = func() bool {
		// the trim waits inside a callback; a burst step on a peer whose segment the trim holds right now
		// could not run before the trim goes on: such a point is not usable for this burst
		for _, op := range burst {
			if op.Name() == "trim" {
				for _, seg := range sys.cm.segments.buckets {
					if !seg.TryLock() {
						return false
					}
					seg.Unlock()
				}
			} else if p := op.S("p"); p != "" && op.Name() != "protect" && op.Name() != "unprotect" {
				seg := sys.cm.segments.get(sys.pid[p])
				if !seg.TryLock() {
					return false
				}
				seg.Unlock()
			}
		}
		done := make(chan struct{})
		go func() { // "the network": another goroutine delivers the burst while the trim is parked
			defer close(done)
			for _, op := range burst {
				sys.gateApply(op)
			}
		}()
		<-done
		return true
	}
	sys.sink.gate = g
	g.armed = true
	switch {
	case sc.Entry == "force":
		sys.cm.ForceTrim()
	case useTicker:
		sys.cm.trim()
	default:
		sys.cm.TrimOpenConns(context.Background())
	}
	g.armed = false
	sys.sink.gate = nil
	synctest.Wait()
	nStat, nClose = g.nStat, g.nClose
	if k == 0 {
		return "dry", nStat, nClose, nil
	}
	if !g.delivered {
		if g.blocked {
			return "blocked", nStat, nClose, nil
		}
		return "not-reached", nStat, nClose, nil
	}
	fail := func(cls, what string, exp, got any) (string, int, int, *vfh.Mismatch) {
		all := append(append(append([]vfh.Op{}, sc.Prefix...), vfh.Op{"name": "BEGIN " + sc.Entry, "burst_at_callback": k, "stat_callback": atStat, "ticker_path": useTicker}), burst...)
		return "mismatch", nStat, nClose, &vfh.Mismatch{Class: cls, What: what, Walk: sc.ID, Step: k, Expected: exp, Got: got, Prefix: all,
			Cfg: map[string]any{"instance": cfg.Name, "conf": cfg, "script": sc.ID, "entry": sc.Entry, "window": sc.Window, "post": sc.Post}}
	}
	// (1) peers protected / inside grace during the whole trim and not touched by the burst are never closed
	closed, _ := sys.sink.take()
	if sc.Entry != "force" {
		for _, c := range closed {
			p := sys.conns[c].pname
			if touched[p] {
				continue
			}
			if pre.prot[p] {
				return fail("trim-closed-protected", fmt.Sprintf("%s closed although %s was protected throughout the trim", c, p), nil, closed)
			}
			if pre.grace[p] {
				return fail("trim-closed-in-grace", fmt.Sprintf("%s closed although %s was inside its grace period throughout the trim", c, p), nil, closed)
			}
		}
	}
	// (2) the public view equals what the delivered calls imply (the model state after the whole script)
	m, err := vfC14ParseState(sc.Final)
	if err != nil {
		return "MACHINERY: " + err.Error(), nStat, nClose, nil
	}
	sys.skip = map[string]bool{}
	for _, p := range sc.MayPrune {
		sys.skip[p] = true
	}
	cls, what, exp, got := sys.compare(m)
	if cls == "MACHINERY" {
		return "MACHINERY: " + what, nStat, nClose, nil
	}
	if cls == "" || strings.HasPrefix(cls, "L2:") {
		if c2, w2, e2, g2 := sys.compareLedger(); c2 != "" {
			cls, what, exp, got = c2, w2, e2, g2
		}
	}
	if cls != "" && !strings.HasPrefix(cls, "L2:") {
		return fail(cls, "after a burst delivered inside a trim: "+what, exp, got)
	}
	l2 := cls
	// (3) every later Disconnected is honoured: the manager ends up empty
	for _, p := range sys.cfg.Peers {
		for _, c := range vfC14Keys(sys.lconns[p]) {
			sys.step(vfh.Op{"name": "disconnected", "c": c})
		}
	}
	if n := sys.cm.GetInfo().ConnCount; n != 0 {
		return fail("conn-count", "ConnCount after a burst inside a trim and the Disconnected of every connection announced so far", 0, n)
	}
	for _, p := range sys.cfg.Peers {
		if ti := sys.cm.GetTagInfo(sys.pid[p]); ti != nil && len(ti.Conns) != 0 {
			return fail("conn-count", fmt.Sprintf("%s still has tracked connections after every Disconnected was delivered", p), 0, len(ti.Conns))
		}
	}
	if l2 != "" {
		return "l2:" + l2, nStat, nClose, nil
	}
	return "ok", nStat, nClose, nil
}

func TestVerifC14Gates(t *testing.T) {
	vfC14Silence()
	vfC14OwnSegments = true
	res := vfh.NewResult()
	defer func() {
		if err := res.Write(); err != nil {
			t.Fatal(err)
		}
	}()
	res.Rule = "one case = one (interference script, callback index) pair: the script's burst (1-2 notifications / tag / protection calls or a second trim, generated from the concurrent variant of the spec) is delivered by another goroutine at that Stat() (between candidate collection and selection) or RemotePeer()/CloseWithError() (while closing) callback of a TrimOpenConns / ticker trim / ForceTrim; every callback index seen in a dry run is used; afterwards ConnCount, every peer's GetTagInfo and IsProtected must equal the model state, peers protected or in grace throughout must not have been closed, and after the Disconnected of every announced connection the manager must be empty"
	files, _ := filepath.Glob(filepath.Join(vfh.In(), "*.jsonl"))
	if len(files) == 0 {
		t.Fatalf("no script files in %q", vfh.In())
	}
	sort.Strings(files)
	var mu sync.Mutex
	var l1 []vfh.Mismatch
	machinery := ""
	const shards = 8
	t.Run("scripts", func(t *testing.T) {
		for _, f := range files {
			hdr, scripts, err := vfC14LoadScripts(f)
			if err != nil {
				t.Fatalf("%s: %v", f, err)
			}
			cfg, err := vfC14LoadCfg(hdr)
			if err != nil {
				t.Fatalf("%s: %v", f, err)
			}
			for sh := 0; sh < shards; sh++ {
				t.Run(fmt.Sprintf("%s-%d", cfg.Name, sh), func(t *testing.T) {
					t.Parallel()
					stats := map[string]int{}
					for i := sh; i < len(scripts); i += shards {
						sc := scripts[i]
						useTicker := sc.ID%2 == 1
						var nStat, nClose int
						synctest.Test(t, func(t *testing.T) {
							_, nStat, nClose, _ = vfC14RunScript(cfg, sc, 0, useTicker)
						})
						n := nStat
						if len(sc.Window) == 0 {
							n = nClose
						}
						stats["scripts"]++
						realised := false
						for k := 1; k <= n; k++ {
							var status string
							var mm *vfh.Mismatch
							synctest.Test(t, func(t *testing.T) {
								status, _, _, mm = vfC14RunScript(cfg, sc, k, useTicker)
							})
							res.Count(1, len(sc.Prefix)+len(sc.Window)+len(sc.Post)+1)
							switch {
							case strings.HasPrefix(status, "MACHINERY"):
								mu.Lock()
								machinery = fmt.Sprintf("script %d k=%d: %s", sc.ID, k, status)
								mu.Unlock()
							case status == "mismatch":
								mu.Lock()
								if len(l1) < 400 {
									l1 = append(l1, *mm)
								}
								mu.Unlock()
								realised = true
							case status == "ok" || strings.HasPrefix(status, "l2:"):
								realised = true
								res.Case(fmt.Sprintf("%s|%d|%d", cfg.Name, sc.ID, k))
								if status != "ok" {
									stats["runs_with_L2_divergence"]++
								}
								stats["runs_delivered_"+sc.Entry]++
							default:
								stats["runs_"+status]++
							}
						}
						if realised {
							stats["scripts_realised"]++
							if len(sc.Window) == 2 && sc.Window[0].Name() == "disconnected" && sc.Window[1].Name() == "connected" && sc.Window[0].S("p") == sc.Window[1].S("p") {
								stats["went_and_came_back_realised"]++
							}
						}
					}
					for k, v := range stats {
						res.Inc(k, v)
					}
				})
			}
		}
	})
	if machinery != "" {
		t.Errorf("harness machinery: %s", machinery)
	}
	sort.SliceStable(l1, func(i, j int) bool {
		a, b := l1[i], l1[j]
		if a.Class != b.Class {
			return a.Class < b.Class
		}
		if a.Walk != b.Walk {
			return a.Walk < b.Walk
		}
		return a.Step < b.Step
	})
	for _, m := range vfC14PerClass(l1, 6) {
		res.AddMismatch(m)
	}
}

// ---------------------------------------------------------------------------------------------
// two overlapping trims and a peer whose early-tag entry expires

// TrimOpenConns is serialised by trimMutex, the background ticker's trim is not: the two can overlap.
// The scenario steers that overlap with the Stat() callbacks only (bounded yields, no clock): trim A
// (TrimOpenConns) has collected its candidates when trim B (the ticker's path) starts; A waits a bounded
// number of yields per callback until B has collected too; B then lags behind (bounded yields per
// callback) until A is done and "the network" has delivered Connected for every peer whose expired
// early-tag entry A pruned.  Audit: every peer for which Connected was delivered is tracked, and after
// its Disconnected the count is zero again.
type vfC14OvCtl struct {
	role       sync.Map // goroutine id -> "a" | "b"
	started    atomic.Bool
	aDone      atomic.Bool
	bCollected atomic.Bool
	netDone    atomic.Bool
	startB     func()
}

func vfC14Goid() string {
	var b [64]byte
	n := runtime.Stack(b[:], false)
	var id string
	fmt.Sscanf(string(b[:n]), "goroutine %s ", &id)
	return id
}

type vfC14OvConn struct {
	vfC14Conn
	ctl *vfC14OvCtl
}

func (c *vfC14OvConn) Stat() network.ConnStats {
	if c.ctl != nil {
		r, _ := c.ctl.role.Load(vfC14Goid())
		switch r {
		case "a":
			if c.ctl.started.CompareAndSwap(false, true) {
				c.ctl.startB()
			} else {
				for i := 0; i < 300 && !c.ctl.bCollected.Load(); i++ {
					runtime.Gosched()
				}
			}
		case "b":
			c.ctl.bCollected.Store(true)
			for i := 0; i < 2000 && !(c.ctl.aDone.Load() && c.ctl.netDone.Load()); i++ {
				runtime.Gosched()
			}
		}
	}
	return network.ConnStats{Stats: network.Stats{Direction: network.DirOutbound}}
}

func TestVerifC14Overlap(t *testing.T) {
	vfC14Silence()
	res := vfh.NewResult()
	defer func() {
		if err := res.Write(); err != nil {
			t.Fatal(err)
		}
	}()
	res.Rule = "one case = one round: 8 peers with an expired early-tag (temporary) entry and 12 connected peers of equal value; TrimOpenConns and the ticker's trim overlap (steered through Stat() callbacks with bounded yields), every peer whose temporary entry is pruned connects; audit: each of them is tracked, and after its Disconnected ConnCount is back to the 12 others"
	rounds := 30
	if vfh.Thorough() {
		rounds = 200
	}
	for round := 0; round < rounds; round++ {
		clk := clock.NewMock()
		clk.Set(time.Unix(1_700_000_000, 0))
		cm, err := NewConnManager(1, 1000, WithClock(clk), WithGracePeriod(vfC14Unit), WithSilencePeriod(1_000_000*time.Hour),
			DecayerConfig(&DecayerCfg{Resolution: 1_000_000 * time.Hour, Clock: clk}))
		if err != nil {
			t.Fatal(err)
		}
		nf := cm.Notifee()
		ctl := &vfC14OvCtl{}
		sink := &vfC14Sink{}
		mk := func(name string, last byte, withCtl bool, i int) *vfC14OvConn {
			a, _ := ma.NewMultiaddr(fmt.Sprintf("/ip4/10.16.%d.%d/tcp/4001", last/100, 1+i))
			c := &vfC14OvConn{vfC14Conn: vfC14Conn{name: name, pname: name, pid: peer.ID("vfC14o-" + name + string([]byte{last})), addr: a, sink: sink}}
			if withCtl {
				c.ctl = ctl
			}
			return c
		}
		var xs []*vfC14OvConn
		for i := 0; i < 8; i++ {
			c := mk(fmt.Sprintf("x%d", i), byte(i), false, i)
			cm.TagPeer(c.pid, "early", 1) // temporary entry
			xs = append(xs, c)
		}
		for i := 0; i < 12; i++ {
			nf.Connected(nil, mk(fmt.Sprintf("a%d", i), byte(100+i), true, 100+i))
		}
		clk.Add(2 * vfC14Unit) // everything is past its grace period
		var wg sync.WaitGroup
		ctl.startB = func() {
			wg.Add(2)
			go func() {
				defer wg.Done()
				ctl.role.Store(vfC14Goid(), "b")
				cm.trim()
			}()
			go func() {
				defer wg.Done()
				defer ctl.netDone.Store(true)
				for _, c := range xs {
					for i := 0; i < 200000 && cm.GetTagInfo(c.pid) != nil; i++ {
						runtime.Gosched()
					}
					nf.Connected(nil, c)
				}
			}()
		}
		wg.Add(1)
		go func() {
			defer wg.Done()
			ctl.role.Store(vfC14Goid(), "a")
			cm.TrimOpenConns(context.Background())
			ctl.aDone.Store(true)
		}()
		wg.Wait()
		res.Count(1, 8+12+2+8)
		res.Case(fmt.Sprintf("overlap-%d", round))
		if !ctl.started.Load() {
			cm.Close()
			t.Fatalf("the trim never compared two tied peers: the overlap was not steered")
		}
		lost := []string{}
		for _, c := range xs {
			if ti := cm.GetTagInfo(c.pid); ti == nil || len(ti.Conns) != 1 {
				lost = append(lost, c.name)
			}
		}
		for _, c := range xs {
			nf.Disconnected(nil, c)
		}
		count := cm.GetInfo().ConnCount
		cm.Close()
		if len(lost) > 0 || count != 12 {
			res.Inc("rounds_reproducing", 1)
			if res.NMismatch() == 0 {
				res.AddMismatch(vfh.Mismatch{Class: "overlapping-trims-drop-reconnected-peer", Walk: -1, Step: round,
					What:     fmt.Sprintf("TrimOpenConns overlapping the ticker's trim: peers %v connected after their expired early-tag entry had been pruned by one trim; the other trim, still holding the stale temporary peerInfo, deleted their NEW entry: Connected delivered, no entry; after their Disconnected ConnCount is %d instead of 12", lost, count),
					Expected: map[string]any{"untracked": []string{}, "conn_count_after_disconnects": 12},
					Got:      map[string]any{"untracked": lost, "conn_count_after_disconnects": count},
					Cfg:      map[string]any{"round": round, "low": 1, "grace_units": 1}})
			}
		}
	}
}

// ---------------------------------------------------------------------------------------------
// several decaying tags per peer, every preset decay/bump function: ledger-based histories

// vfC14DTag is one registered decaying tag together with the ledger's copy of its schedule.  The decay
// and bump functions are INPUTS of the manager, so the ledger calls the very same functions and applies
// the documented contract itself: bump -> the value becomes bumpFn(value, delta); decay round -> (after,
// rm) = decayFn(value): the tag is erased if rm (whatever `after` is), otherwise its value is `after`.
type vfC14DTag struct {
	name     string
	tag      connmgr.DecayingTag
	decay    connmgr.DecayFn
	bump     connmgr.BumpFn
	interval time.Duration
	next     time.Time
	closed   bool
	dkind    string
}

type vfC14DPeer struct {
	id    peer.ID
	name  string
	conn  *vfC14Conn
	conn2 *vfC14Conn
	open  map[string]bool
	exist bool // the manager has an entry (connected or temporary)
	plain map[string]int
	dec   map[string]*connmgr.DecayingValue
}

func TestVerifC14Decay(t *testing.T) {
	vfC14Silence()
	res := vfh.NewResult()
	defer func() {
		if err := res.Write(); err != nil {
			t.Fatal(err)
		}
	}()
	res.Rule = "one case = one seeded history on 3 peers with 4 decaying tags (decay fn drawn from DecayFixed(k) incl. overshoot, DecayLinear, DecayNone, DecayExpireWhenInactive, custom (after#0, rm), custom (0, keep); bump fn from BumpSumUnbounded, BumpSumBounded, BumpOverwrite; intervals 1-3 units) and 2 plain tags: Bump/Remove/Close, TagPeer/UntagPeer/UpsertTag, Connected/Disconnected and clock units; after every step GetTagInfo(p).Value and .Tags must equal the ledger (plain tags + current decaying values; an erased tag absent); steps where a command is left racing a decay tick only require Value == sum of Tags and every listed decaying value to be one the two orders can produce"
	histories := 150
	if vfh.Thorough() {
		histories = 1500
	}
	for h := 0; h < histories && res.NMismatch() == 0; h++ {
		synctest.Test(t, func(t *testing.T) {
			vfC14DecayHistory(t, res, vfh.Seed()*7_000_003+int64(h), h)
		})
	}
}

func vfC14DecayHistory(t *testing.T, res *vfh.Result, seed int64, h int) {
	rnd := rand.New(rand.NewSource(seed))
	clk := clock.NewMock()
	clk.Set(time.Unix(1_700_000_000, 0))
	cm, err := NewConnManager(100, 200, WithClock(clk), WithGracePeriod(vfC14Unit), WithSilencePeriod(1_000_000*time.Hour),
		DecayerConfig(&DecayerCfg{Resolution: vfC14Unit, Clock: clk}))
	if err != nil {
		t.Fatal(err)
	}
	defer cm.Close()
	synctest.Wait()
	start := clk.Now()
	sink := &vfC14Sink{}
	type dk struct {
		name string
		fn   connmgr.DecayFn
	}
	k := 2 + rnd.Intn(4)
	decays := []dk{
		{"fixed(1)", connmgr.DecayFixed(1)},
		{fmt.Sprintf("fixed(%d)", k), connmgr.DecayFixed(k)}, // overshoots below zero unless k divides the value
		{"linear(0.5)", connmgr.DecayLinear(0.5)},
		{"linear(0.3)", connmgr.DecayLinear(0.3)},
		{"none", connmgr.DecayNone()},
		{"expire", connmgr.DecayExpireWhenInactive(2 * vfC14Unit)},
		{"residual", func(v connmgr.DecayingValue) (int, bool) { return v.Value - 2, v.Value < 4 }}, // rm with after in -1..1
		{"zerokeep", func(v connmgr.DecayingValue) (int, bool) { return 0, false }},
	}
	bumps := []connmgr.BumpFn{connmgr.BumpSumUnbounded(), connmgr.BumpSumBounded(-3, 9), connmgr.BumpOverwrite()}
	// DecayFn / BumpFn are user callbacks too: if the peer's segment lock is free inside one, a call of another
	// goroutine could land there - deliver a TagPeer on that peer (the ledger's plain tags do not depend on
	// where it lands).  The manager calls them inside the critical section, so the window is closed.
	var peers []*vfC14DPeer
	ncb := 0
	inside := func(id peer.ID) {
		ncb++
		if ncb%3 != 0 {
			return
		}
		for _, p := range peers {
			if p.id != id {
				continue
			}
			seg := cm.segments.get(id)
			if !seg.TryLock() {
				res.Inc("decay_callback_windows_closed", 1)
				return
			}
			seg.Unlock()
			res.Inc("decay_callback_windows_open", 1)
			v := ncb%7 - 2
			cm.TagPeer(id, "u", v)
			p.exist, p.plain["u"] = true, v
		}
	}
	var tags []*vfC14DTag
	for i := 0; i < 4; i++ {
		d := decays[rnd.Intn(len(decays))]
		if i == 0 {
			d = decays[[]int{1, 6}[h%2]] // every history has a function that erases with a non-zero `after`
		}
		dt := &vfC14DTag{name: fmt.Sprintf("d%d", i), decay: d.fn, dkind: d.name, bump: bumps[rnd.Intn(len(bumps))], interval: time.Duration(1+rnd.Intn(3)) * vfC14Unit}
		// the functions handed to the manager probe the callback window (the ledger calls the raw ones)
		rawDecay, rawBump := dt.decay, dt.bump
		dt.tag, err = cm.RegisterDecayingTag(dt.name, dt.interval,
			func(v connmgr.DecayingValue) (int, bool) { inside(v.Peer); return rawDecay(v) },
			func(v connmgr.DecayingValue, d int) int { inside(v.Peer); return rawBump(v, d) })
		if err != nil {
			t.Fatal(err)
		}
		dt.next = start.Add(dt.interval)
		tags = append(tags, dt)
	}
	for i := 0; i < 3; i++ {
		name := fmt.Sprintf("q%d", i)
		p := &vfC14DPeer{id: peer.ID("vfC14d-" + name + string([]byte{byte(i % 2)})), name: name, open: map[string]bool{}, plain: map[string]int{}, dec: map[string]*connmgr.DecayingValue{}}
		a1, _ := ma.NewMultiaddr(fmt.Sprintf("/ip4/10.17.0.%d/tcp/1", 2*i+1))
		a2, _ := ma.NewMultiaddr(fmt.Sprintf("/ip4/10.17.0.%d/tcp/1", 2*i+2))
		p.conn = &vfC14Conn{name: name + "a", pname: name, pid: p.id, addr: a1, sink: sink}
		p.conn2 = &vfC14Conn{name: name + "b", pname: name, pid: p.id, addr: a2, sink: sink}
		peers = append(peers, p)
	}
	nf := cm.Notifee()
	var hist []string
	say := func(f string, a ...any) { hist = append(hist, fmt.Sprintf(f, a...)) }
	drop := func(p *vfC14DPeer) {
		p.exist, p.plain, p.dec = false, map[string]int{}, map[string]*connmgr.DecayingValue{}
	}
	// the ledger's decay round at time now
	round := func(now time.Time) {
		for _, dt := range tags {
			if dt.closed || dt.next.After(now) {
				continue
			}
			for _, p := range peers {
				v, ok := p.dec[dt.name]
				if !ok {
					continue
				}
				after, rm := dt.decay(*v)
				if rm {
					if after != 0 {
						res.Inc("removals_with_residual", 1)
					}
					delete(p.dec, dt.name)
				} else {
					v.Value, v.LastVisit = after, now
				}
			}
			dt.next = dt.next.Add(dt.interval)
		}
	}
	applyBump := func(p *vfC14DPeer, dt *vfC14DTag, delta int, now time.Time) {
		p.exist = true
		v, ok := p.dec[dt.name]
		if !ok {
			v = &connmgr.DecayingValue{Tag: dt.tag, Peer: p.id, LastVisit: now, Added: now}
			p.dec[dt.name] = v
		}
		v.Value, v.LastVisit = dt.bump(*v, delta), now
	}
	fail := func(cls, what string, exp, got any, step int) {
		res.AddMismatch(vfh.Mismatch{Class: cls, What: what, Walk: h, Step: step, Expected: exp, Got: got, Prefix: hist,
			Cfg: map[string]any{"seed": seed, "tags": func() (o []string) {
				for _, dt := range tags {
					o = append(o, fmt.Sprintf("%s: decay %s every %s", dt.name, dt.dkind, dt.interval))
				}
				return
			}()}})
	}
	// audit; racing != nil: the decaying values of these (peer, tag) pairs may be either of two outcomes
	audit := func(step int, alt map[string][]int) bool {
		for _, p := range peers {
			ti := cm.GetTagInfo(p.id)
			if ti == nil {
				if p.exist {
					fail("L2:temp-entry", "no entry for "+p.name, true, false, step)
					return false
				}
				continue
			}
			sum := 0
			for _, v := range ti.Tags {
				sum += v
			}
			if sum != ti.Value {
				fail("tag-total", fmt.Sprintf("GetTagInfo(%s).Value is not the sum of its plain and decaying tags %v (an erased decaying tag must contribute nothing)", p.name, ti.Tags), sum, ti.Value, step)
				return false
			}
			want := map[string]int{}
			for k, v := range p.plain {
				want[k] = v
			}
			for k, v := range p.dec {
				want[k] = v.Value
			}
			for name, outs := range alt { // resynchronise the ledger on a raced pair with what happened
				if !strings.HasPrefix(name, p.name+"/") {
					continue
				}
				tn := strings.TrimPrefix(name, p.name+"/")
				got, has := ti.Tags[tn]
				okAlt := false
				for _, o := range outs {
					if (o == vfC14Absent && !has) || (has && o == got) {
						okAlt = true
					}
				}
				if !okAlt {
					fail("tag-total", fmt.Sprintf("decaying tag %s of %s after a command racing a decay round: neither order explains it", tn, p.name), outs, ti.Tags, step)
					return false
				}
				if has {
					want[tn] = got
					if v, ok := p.dec[tn]; ok {
						v.Value = got
					} else {
						p.dec[tn] = &connmgr.DecayingValue{Peer: p.id, Value: got, LastVisit: clk.Now(), Added: clk.Now()}
					}
				} else {
					delete(want, tn)
					delete(p.dec, tn)
				}
			}
			if fmt.Sprint(ti.Tags) != fmt.Sprint(want) {
				fail("tag-total", fmt.Sprintf("tags of %s differ from what the tag operations, bumps and decay rounds delivered so far imply", p.name), want, ti.Tags, step)
				return false
			}
		}
		return true
	}
	steps := 60
	for i := 0; i < steps; i++ {
		p := peers[rnd.Intn(len(peers))]
		dt := tags[rnd.Intn(len(tags))]
		now := clk.Now()
		var alt map[string][]int
		switch c := rnd.Intn(20); {
		case c < 6:
			delta := rnd.Intn(9) - 1
			say("%s.Bump(%s, %d)", dt.name, p.name, delta)
			if err := dt.tag.Bump(p.id, delta); (err != nil) != dt.closed {
				fail("L2:decay-api", "Bump error", dt.closed, err != nil, i)
				return
			}
			if !dt.closed {
				applyBump(p, dt, delta, now)
			}
		case c < 8:
			say("%s.Remove(%s)", dt.name, p.name)
			if err := dt.tag.Remove(p.id); (err != nil) != dt.closed {
				fail("L2:decay-api", "Remove error", dt.closed, err != nil, i)
				return
			}
			if !dt.closed {
				p.exist = true // the loop creates a temporary entry before looking for the value
				delete(p.dec, dt.name)
			}
		case c < 9 && i > steps/2:
			say("%s.Close()", dt.name)
			dt.tag.Close()
			res.Inc("closes", 1)
			dt.closed = true
			for _, q := range peers {
				delete(q.dec, dt.name)
			}
		case c < 11:
			tn, v := []string{"t", "u"}[rnd.Intn(2)], rnd.Intn(7)-2
			say("TagPeer(%s, %s, %d)", p.name, tn, v)
			cm.TagPeer(p.id, tn, v)
			p.exist, p.plain[tn] = true, v
		case c < 12:
			tn := []string{"t", "u"}[rnd.Intn(2)]
			say("UntagPeer(%s, %s)", p.name, tn)
			cm.UntagPeer(p.id, tn)
			delete(p.plain, tn)
		case c < 13:
			say("UpsertTag(%s, t, +2)", p.name)
			cm.UpsertTag(p.id, "t", func(x int) int { return x + 2 })
			p.exist, p.plain["t"] = true, p.plain["t"]+2
		case c < 15:
			cn := []*vfC14Conn{p.conn, p.conn2}[rnd.Intn(2)]
			say("Connected(%s)", cn.name)
			nf.Connected(nil, cn)
			p.exist, p.open[cn.name] = true, true
		case c < 16:
			cn := []*vfC14Conn{p.conn, p.conn2}[rnd.Intn(2)]
			say("Disconnected(%s)", cn.name)
			nf.Disconnected(nil, cn)
			if p.open[cn.name] {
				delete(p.open, cn.name)
				if len(p.open) == 0 {
					drop(p) // the entry goes with the last connection, and every tag with it
				}
			}
		case c < 17 && rnd.Intn(2) == 0:
			if rnd.Intn(2) == 0 {
				say("Protect(%s, x)", p.name)
				cm.Protect(p.id, "x")
			} else {
				say("Unprotect(%s, x)", p.name)
				cm.Unprotect(p.id, "x")
			}
		case c < 18:
			say("clock +1 unit")
			clk.Add(vfC14Unit)
			round(clk.Now())
		default:
			// a command left in the decayer's queue while the clock moves: the loop may take the tick or the
			// command first.  Only a pair that exists keeps the ledger simple (no entry creation to guess).
			if dt.closed || !p.exist {
				continue
			}
			delta := rnd.Intn(5) + 1
			say("%s.Bump(%s, %d) racing clock +1 unit", dt.name, p.name, delta)
			res.Inc("racing_steps", 1)
			// order A: bump, then the round; order B: the round, then the bump
			outcome := func(bumpFirst bool) int {
				var v *connmgr.DecayingValue
				if cur, ok := p.dec[dt.name]; ok {
					c := *cur
					v = &c
				}
				nowB, nowT := now, now.Add(vfC14Unit)
				bump := func(at time.Time) {
					if v == nil {
						v = &connmgr.DecayingValue{Tag: dt.tag, Peer: p.id, LastVisit: at, Added: at}
					}
					v.Value, v.LastVisit = dt.bump(*v, delta), at
				}
				decay := func() {
					if v == nil || dt.next.After(nowT) {
						return
					}
					if after, rm := dt.decay(*v); rm {
						v = nil
					} else {
						v.Value, v.LastVisit = after, nowT
					}
				}
				if bumpFirst {
					bump(nowB)
					decay()
				} else {
					decay()
					bump(nowT)
				}
				if v == nil {
					return vfC14Absent
				}
				return v.Value
			}
			alt = map[string][]int{p.name + "/" + dt.name: {outcome(true), outcome(false)}}
			if err := dt.tag.Bump(p.id, delta); err != nil {
				fail("L2:decay-api", "Bump error", false, true, i)
				return
			}
			saved := p.dec[dt.name]
			delete(p.dec, dt.name) // the raced pair is taken from the observation; every other pair decays as usual
			clk.Add(vfC14Unit)
			round(clk.Now())
			if saved != nil {
				p.dec[dt.name] = saved
			}
		}
		synctest.Wait()
		res.Count(0, 1)
		if !audit(i, alt) {
			return
		}
	}
	res.Count(1, 0)
	res.Case(fmt.Sprintf("decay-%d", h))
}

const vfC14Absent = -1 << 30

// ---------------------------------------------------------------------------------------------
// the VALUE dimension at its ends: ledger-driven histories with exact (big-int) arithmetic

var vfC14ExtremeSet = []int{math.MinInt, -(1 << 62), -100, -1, 0, 1, 100, 1 << 62, math.MaxInt}

func vfC14Num(v int) json.Number { return json.Number(strconv.Itoa(v)) }

func TestVerifC14Extremes(t *testing.T) {
	vfC14Silence()
	res := vfh.NewResult()
	defer func() {
		if err := res.Write(); err != nil {
			t.Fatal(err)
		}
	}()
	res.Rule = "one case = one seeded history on 4 peers (one or two connections each) with tag values drawn from {MinInt, -2^62, -100, -1, 0, 1, 100, 2^62, MaxInt}: TagPeer/UntagPeer/UpsertTag before and after Connected, Disconnected and re-Connected, Protect/Unprotect, clock units, TrimOpenConns and ForceTrim; even histories use ONE tag name odd histories three (sums wrap around like Go int addition, which is the manager's definition of a peer's value); totals are int sums compared with <, never by subtraction"
	histories := 300
	if vfh.Thorough() {
		histories = 3000
	}
	seen := map[string]bool{}
	for h := 0; h < histories; h++ {
		synctest.Test(t, func(t *testing.T) {
			if m := vfC14ExtremeHistory(t, res, vfh.Seed()*9_000_011+int64(h), h); m != nil && !seen[m.Class] {
				seen[m.Class] = true
				res.AddMismatch(*m)
			}
		})
	}
}

func vfC14ExtremeHistory(t *testing.T, res *vfh.Result, seed int64, h int) *vfh.Mismatch {
	rnd := rand.New(rand.NewSource(seed))
	cfg := vfC14Cfg{Low: 1 + rnd.Intn(2), High: 3, Grace: 1, MaxAge: 2, Peers: []string{"p1", "p2", "p3", "p4"}, Name: "extremes",
		Conns: map[string]vfC14ConnCfg{"p1a": {P: "p1"}, "p1b": {P: "p1", Inb: true, St: 1}, "p2a": {P: "p2"}, "p3a": {P: "p3", Inb: true}, "p4a": {P: "p4", St: 2}}}
	sys, err := vfC14New(cfg)
	if err != nil {
		t.Fatal(err)
	}
	defer sys.close()
	synctest.Wait()
	tagNames := []string{"a"}
	if h%2 == 1 {
		tagNames = []string{"a", "b", "c"}
	}
	conns := []string{"p1a", "p1b", "p2a", "p3a", "p4a"}
	var hist []vfh.Op
	for i := 0; i < 50; i++ {
		p := cfg.Peers[rnd.Intn(4)]
		tn := tagNames[rnd.Intn(len(tagNames))]
		v := vfC14ExtremeSet[rnd.Intn(len(vfC14ExtremeSet))]
		var op vfh.Op
		switch c := rnd.Intn(20); {
		case c < 6:
			op = vfh.Op{"name": "tag", "p": p, "t": tn, "v": vfC14Num(v)}
		case c < 7:
			op = vfh.Op{"name": "untag", "p": p, "t": tn}
		case c < 9:
			op = vfh.Op{"name": "upsert", "p": p, "t": tn, "set": vfC14Num(v)}
			// a TagPeer of another goroutine inside the upsert callback, if the window exists
			sys.cbBurst = []vfh.Op{{"name": "tag", "p": p, "t": tn, "v": vfC14Num(vfC14ExtremeSet[rnd.Intn(len(vfC14ExtremeSet))])}}
			op["_burst"] = sys.cbBurst
		case c < 13:
			op = vfh.Op{"name": "connected", "c": conns[rnd.Intn(len(conns))]}
		case c < 14:
			op = vfh.Op{"name": "disconnected", "c": conns[rnd.Intn(len(conns))]}
		case c < 15:
			op = vfh.Op{"name": []string{"protect", "unprotect"}[rnd.Intn(2)], "p": p, "x": "x"}
		case c < 17:
			op = vfh.Op{"name": "tick"}
		case c < 19:
			op = vfh.Op{"name": "trim"}
		default:
			op = vfh.Op{"name": "forcetrim"}
		}
		hist = append(hist, op)
		var cls, what string
		var exp, got any
		switch op.Name() {
		case "trim", "forcetrim":
			force := op.Name() == "forcetrim"
			pre := sys.pre(sys.clk.Now())
			if !force {
				sys.noteTrim(sys.clk.Now())
			}
			sys.sink.take()
			if force {
				sys.cm.ForceTrim()
			} else {
				sys.cm.TrimOpenConns(context.Background())
			}
			synctest.Wait()
			closed, _ := sys.sink.take()
			if cls, what = sys.l1Trim(force, pre, closed); cls != "" {
				exp, got = nil, closed
			}
			if len(closed) > 0 {
				res.Inc("trims_closing", 1)
			}
		case "tick":
			sys.clk.Add(vfC14Unit)
			synctest.Wait()
		default:
			sys.step(op) // notifications, tags, protection: keeps the ledger
		}
		if cls == "" {
			cls, what, exp, got = sys.compareLedger()
		}
		res.Count(0, 1)
		if cls != "" && !strings.HasPrefix(cls, "L2:") {
			return &vfh.Mismatch{Class: cls, What: what, Walk: h, Step: i, Expected: exp, Got: got, Prefix: hist,
				Cfg: map[string]any{"seed": seed, "low": cfg.Low, "grace_units": 1, "tag_names": tagNames}}
		}
	}
	res.Count(1, 0)
	res.Case(fmt.Sprintf("extremes-%d", h))
	return nil
}
