//go:build verif && go1.25

package yamux

// Conformance harness for C02, stream multiplexer with TIME as a dimension: the behaviours of
// spec/C02_Mux.tla including its Wait(c) steps on real yamux sessions (plain and over a real Noise pair) over
// the in-memory wire of internal/vfc02, inside a testing/synctest bubble.  A Wait step sleeps VIRTUAL time
// (around the keep-alive interval and the connection write timeout, a minute, an hour): keep-alives and
// round-trip measurements come and go; the L1 ledger demands what it demands without time.

import (
	"path/filepath"
	"sort"
	"testing"
	"testing/synctest"
	"time"

	"github.com/libp2p/go-libp2p/internal/vfh"
)

func TestVerifC02MuxTime(t *testing.T) {
	res := vfh.NewResult()
	res.Rule = "distinct = (operation, direction, size class, eof, after own CloseWrite, delay class) combinations executed on real yamux sessions under virtual time"
	defer func() {
		if err := res.Write(); err != nil {
			t.Fatal(err)
		}
	}()
	files, _ := filepath.Glob(filepath.Join(vfh.In(), "muxt_*.jsonl"))
	sort.Strings(files)
	if len(files) == 0 {
		t.Fatal("no muxt behaviour files")
	}
	delays := map[string]time.Duration{"1s": time.Second, "10s": 10*time.Second + time.Millisecond, "30s": 30*time.Second + time.Millisecond,
		"1min": time.Minute, "1h": time.Hour}
	synctest.Test(t, func(t *testing.T) {
		// (inside the bubble: the TLS identities carry certificates dated by the bubble's clock)
		a, err := vfC02NewSecPeer()
		if err != nil {
			t.Fatal(err)
		}
		b, err := vfC02NewSecPeer()
		if err != nil {
			t.Fatal(err)
		}
		sleep := func(class string) time.Duration {
			d := delays[class]
			time.Sleep(d)
			return d
		}
		if err := vfC02MuxReplay(res, files, a, b, vfh.EnvInt("VERIF_C02_TIME_SHARE", 4), 4, sleep); err != nil {
			t.Fatal(err)
		}
	})
}
