//go:build verif

package yamux

// Conformance harness for C02, stream-multiplexer layer: the behaviours of spec/C02_Mux.tla (streams opened
// from both ends, interleaved writes on several streams and both directions, half-close followed by further
// reads and writes of the other direction, reads with small and large buffers) on real yamux sessions built by
// this package's Transport over the in-memory wire of internal/vfc02 (short reads of the underlying
// connection by seed) - plain, over a real Noise session pair and over a real libp2p-TLS pair.
// go-yamux is a trusted dependency and its receive loop runs on its own schedule, so byte counts of single
// reads are not compared; the L1 ledger of every (stream, direction) channel decides: bytes returned by Read
// are a prefix of the bytes handed to Write on that channel (per-stream FIFO, no cross-talk: every channel
// carries a different payload), EOF only after everything written before CloseWrite, everything delivered at
// the end.  Writes run on one goroutine per channel (flow control may hold them until the reader consumes).

import (
	"context"
	"crypto/rand"
	"fmt"
	"io"
	"net"
	"path/filepath"
	"runtime/debug"
	"sort"
	"strings"
	"sync"
	"sync/atomic"
	"testing"
	"time"

	"github.com/libp2p/go-libp2p/core/crypto"
	"github.com/libp2p/go-libp2p/core/network"
	"github.com/libp2p/go-libp2p/core/peer"
	"github.com/libp2p/go-libp2p/core/sec"
	"github.com/libp2p/go-libp2p/internal/vfc02"
	"github.com/libp2p/go-libp2p/internal/vfh"
	"github.com/libp2p/go-libp2p/p2p/security/noise"
	libp2ptls "github.com/libp2p/go-libp2p/p2p/security/tls"
)

type vfC02SecPeer struct {
	id  peer.ID
	sec map[string]sec.SecureTransport
}

func vfC02NewSecPeer() (*vfC02SecPeer, error) {
	priv, _, err := crypto.GenerateEd25519Key(rand.Reader)
	if err != nil {
		return nil, err
	}
	id, err := peer.IDFromPrivateKey(priv)
	if err != nil {
		return nil, err
	}
	n, err := noise.New(noise.ID, priv, nil)
	if err != nil {
		return nil, err
	}
	tl, err := libp2ptls.New(libp2ptls.ID, priv, nil)
	if err != nil {
		return nil, err
	}
	return &vfC02SecPeer{id: id, sec: map[string]sec.SecureTransport{"noise": n, "tls": tl}}, nil
}

func vfC02Secure(stack string, a, b *vfC02SecPeer, ca, cb net.Conn) (net.Conn, net.Conn, error) {
	if stack == "plain" {
		return ca, cb, nil
	}
	type out struct {
		c   sec.SecureConn
		err error
	}
	ch := make(chan out, 1)
	go func() {
		c, err := b.sec[stack].SecureInbound(context.Background(), cb, "")
		ch <- out{c, err}
	}()
	c, err := a.sec[stack].SecureOutbound(context.Background(), ca, b.id)
	if err != nil {
		ca.Close()
		<-ch
		return nil, nil, err
	}
	o := <-ch
	if o.err != nil {
		return nil, nil, o.err
	}
	return c, o.c, nil
}

var (
	vfC02MuxWrite = map[int][]int{
		1: {1, 11, 12, 13, 1024, 65535, 65536, 65537},
		2: {2, 262143, 262144, 262145, 524289, 1 << 20},
	}
	vfC02MuxBuf = map[int][]int{
		1: {1, 2, 11, 12, 13, 4096},
		2: {65535, 65536, 65537, 262144, 1 << 20},
	}
	vfC02MuxShort = []int{0, 0, 1, 11, 12, 13, 4096, 65547, 65548}
)

type vfC02Job struct {
	data  []byte
	close bool
}

type vfC02Chan struct {
	name     string
	w, r     network.MuxedStream
	led      *vfc02.Ledger
	unitEnd  []int // cumulative real offset at the end of every model unit written
	unitsDel int
	jobs     chan vfC02Job
	mu       sync.Mutex
	werr     []string
	closed   bool // CloseWrite issued
	eof      bool
	done     bool // terminal outcome reached (clean EOF or error)
}

type vfC02MuxRun struct {
	res   *vfh.Result
	pick  vfc02.Picker
	file  string
	w     vfh.Walk
	stack string
	a, b  *vfC02SecPeer
	mu    sync.Mutex

	abandoned atomic.Bool
	// a glitch of the underlying connection was armed: the session may end (every error of the connection is
	// fatal for the muxer) or go on untouched; errors are allowed from here on, garbling never
	loose atomic.Bool
	cut   func(now bool) // armed cut of the connection (now: fire it at once)
	sleep func(class string) time.Duration
	log   []any
}

func (r *vfC02MuxRun) note(m map[string]any) { r.mu.Lock(); r.log = append(r.log, m); r.mu.Unlock() }

func (r *vfC02MuxRun) mismatch(step int, class, what string, exp, got any) {
	if r.abandoned.Load() && class != "mux-stall" {
		return // the watchdog tore the sessions down: what the walk sees from then on is the harness's doing
	}
	if r.loose.Load() && class != "mux-bytes" && class != "mux-panic" && class != "MACHINERY" && class != "mux-stall" && class != "mux-truncated-eof" && class != "mux-truncated-eof-with-data" {
		return // after a glitch of the connection only garbling counts (errors, resets, early EOF are allowed)
	}
	r.mu.Lock()
	pre := append([]any(nil), r.log...)
	r.mu.Unlock()
	r.res.AddMismatch(vfh.Mismatch{Class: class, What: fmt.Sprintf("[mux/%s %s walk %d] %s", r.stack, filepath.Base(r.file), r.w.Walk, what),
		Walk: r.w.Walk, Step: step, Expected: exp, Got: got, Prefix: pre,
		Cfg: map[string]any{"layer": "mux", "stack": r.stack, "round": r.pick.Round}})
}

func vfC02ChanID(s int, d string) int {
	id := (s - 1) * 2
	if d == "ba" {
		id++
	}
	return id
}

// run executes the walk; it returns false if it had to be abandoned (stall watchdog).
func (r *vfC02MuxRun) run(watchdog time.Duration) (stalled bool) {
	done := make(chan struct{})
	var closers []func()
	var cmu sync.Mutex
	addCloser := func(f func()) { cmu.Lock(); closers = append(closers, f); cmu.Unlock() }
	go func() {
		defer close(done)
		defer func() {
			if p := recover(); p != nil {
				// calls into the code under test run on this goroutine too; the stack tells them apart
				st := string(debug.Stack())
				if i := strings.Index(st, "panic("); i >= 0 {
					st = st[i:]
				}
				first := ""
				for _, ln := range strings.Split(st, "\n") {
					if strings.HasPrefix(ln, "\t") && !strings.Contains(ln, "/runtime/") {
						first = ln
						break
					}
				}
				if strings.Contains(first, "zz_verif_") || strings.Contains(first, "internal/vf") {
					r.mismatch(len(r.log), "MACHINERY", fmt.Sprintf("panic in the harness: %v at %s", p, first), nil, nil)
				} else {
					r.mismatch(len(r.log), "mux-panic", fmt.Sprintf("panic in the channel code: %v at %s", p, strings.TrimSpace(first)), "no panic", fmt.Sprint(p))
				}
			}
		}()
		r.body(addCloser)
	}()
	select {
	case <-done:
	case <-time.After(watchdog):
		stalled = true
		r.abandoned.Store(true)
	}
	cmu.Lock()
	for _, f := range closers {
		f()
	}
	cmu.Unlock()
	<-done
	return stalled
}

func (r *vfC02MuxRun) body(addCloser func(func())) {
	ca, cb := vfc02.NewPair(nil)
	addCloser(func() { ca.Close(); cb.Close() })
	for i, w := range []*vfc02.Wire{ca.In, cb.In} {
		w.SetCap(r.pick.Pick(vfC02MuxShort, r.w.Walk, 500+i))
		w.SetCross(r.pick.Index(2, r.w.Walk, 600+i) == 0)
	}
	na, nb, err := vfC02Secure(r.stack, r.a, r.b, ca, cb)
	if err != nil {
		r.mismatch(0, "MACHINERY", "secure: "+err.Error(), nil, nil)
		return
	}
	ma, err := DefaultTransport.NewConn(na, false, nil)
	if err != nil {
		r.mismatch(0, "MACHINERY", err.Error(), nil, nil)
		return
	}
	mb, err := DefaultTransport.NewConn(nb, true, nil)
	if err != nil {
		r.mismatch(0, "MACHINERY", err.Error(), nil, nil)
		return
	}
	addCloser(func() { ma.Close(); mb.Close() })
	chans := map[int]*vfC02Chan{}
	var wg sync.WaitGroup
	l1 := func(si int, c *vfC02Chan, p *vfc02.Problem) bool {
		if p == nil {
			return false
		}
		r.mismatch(si, p.Class, c.name+": "+p.What, p.Expected, p.Got)
		return true
	}
	writer := func(c *vfC02Chan) {
		defer wg.Done()
		for j := range c.jobs {
			if j.close {
				if err := c.w.CloseWrite(); err != nil {
					c.mu.Lock()
					c.werr = append(c.werr, "CloseWrite: "+err.Error())
					c.mu.Unlock()
				}
				continue
			}
			n, err := c.w.Write(j.data)
			if n != len(j.data) || err != nil {
				c.mu.Lock()
				c.werr = append(c.werr, fmt.Sprintf("Write(%d) = (%d, %v)", len(j.data), n, err))
				c.mu.Unlock()
			}
		}
	}
	var buf []byte
	// readTo reads channel c up to real offset target with buffers of class bufClass
	readTo := func(si int, c *vfC02Chan, target int, bufClass int) bool {
		for it := 0; c.led.Delivered < target; it++ {
			b := r.pick.Pick(vfC02MuxBuf[bufClass], r.w.Walk, si, it)
			if b > target-c.led.Delivered {
				b = target - c.led.Delivered
			}
			if cap(buf) < b {
				buf = make([]byte, b+4096)
			}
			n, err := c.r.Read(buf[:b:b])
			r.note(map[string]any{"op": "read", "ch": c.name, "real": b, "n": n, "err": fmt.Sprint(err)})
			// END OF STREAM: a clean end is io.EOF itself (what io.ReadAll / io.Copy take for "complete"); an error
			// that merely wraps io.EOF is an error
			if err == io.EOF && c.closed && c.led.Delivered+n == c.led.Written {
				c.eof, c.done = true, true // (possibly the last bytes and the end of the stream in one call)
				return !l1(si, c, c.led.OnRead(buf[:b], n, nil, true))
			}
			if err == io.EOF {
				if n > 0 {
					l1(si, c, c.led.OnRead(buf[:b], n, nil, true))
				}
				c.done = true
				cls := "mux-truncated-eof"
				if n > 0 {
					// bytes and a clean end in one call on a stream that is not complete (the wrapper must deliver the
					// bytes and leave the stream's terminal state to the next Read; fixed in /repo 1de879a)
					cls = "mux-truncated-eof-with-data"
				}
				r.mismatch(si, cls, fmt.Sprintf("%s: the stream ended CLEANLY (io.EOF) after %d bytes although %d were written (CloseWrite issued: %v): the reader cannot tell it from a complete one", c.name, c.led.Delivered, c.led.Written, c.closed), "error, or EOF after everything", "io.EOF")
				return false
			}
			if l1(si, c, c.led.OnRead(buf[:b], n, err, false)) {
				c.done = true
				return false
			}
			if err != nil {
				c.done = true // terminal outcome: error
				return false
			}
		}
		return true
	}
	expectEOF := func(si int, c *vfC02Chan) bool {
		if cap(buf) < 4096 {
			buf = make([]byte, 8192)
		}
		n, err := c.r.Read(buf[:4096])
		r.note(map[string]any{"op": "read-eof", "ch": c.name, "n": n, "err": fmt.Sprint(err)})
		if n > 0 {
			l1(si, c, c.led.OnRead(buf[:4096], n, nil, true))
			r.mismatch(si, "mux-bytes", fmt.Sprintf("%s: %d bytes delivered after everything written had been read", c.name, n), 0, n)
			return false
		}
		c.done = true
		if err != io.EOF {
			r.mismatch(si, "mux-eof-missing", fmt.Sprintf("%s: read after the writer's CloseWrite and all data: %v", c.name, err), "EOF", fmt.Sprint(err))
			return false
		}
		c.eof = true
		return true
	}
	steps := 0
	ok := true
	for si, st := range r.w.Steps {
		if !ok {
			break
		}
		op := st.Op
		steps++
		switch op.Name() {
		case "pump":
		case "wait":
			// (virtual) time passes between two operations: keep-alives, round-trip measurements and write timeouts
			// of the muxer come and go, the streams stay what they were
			if r.sleep != nil {
				d := r.sleep(op.S("c"))
				r.note(map[string]any{"op": "wait", "class": op.S("c"), "slept": d.String()})
				r.res.Case("wait/" + op.S("c"))
			}
		case "glitch":
			// the connection that carries direction d glitches at its next read / write
			w := cb.In // a -> b
			if op.S("d") == "ba" {
				w = ca.In
			}
			r.loose.Store(true)
			for _, c := range chans {
				c.led.MarkFault(1 << 61)
			}
			if op.S("kind") == "shortwrite" {
				w.InjectShortWrite()
			} else if op.S("kind") == "refusewrite" {
				w.InjectRefuseWrite() // (the muxer treats every error of the connection as fatal: the session ends)
			} else {
				w.InjectRead(op.S("kind"))
			}
			r.note(map[string]any{"op": "glitch", "d": op.S("d"), "kind": op.S("kind")})
			r.res.Case("glitch/" + op.S("kind"))
		case "cut":
			// the connection is cut: the reader of direction d gets some more bytes, then the connection ends for
			// both directions with a plain EOF or with an error, whatever streams are open and whatever is in flight
			fw, bw := cb.In, ca.In // a -> b
			if op.S("d") == "ba" {
				fw, bw = ca.In, cb.In
			}
			endErr := error(io.EOF)
			if op.S("kind") == "cutrst" {
				endErr = vfc02.ErrConnReset
			}
			left := 0
			switch op.I("n") {
			case 1:
				left = r.pick.Pick([]int{1, 11, 12, 13, 30, 100}, r.w.Walk, si)
			case 2:
				left = r.pick.Pick([]int{4096, 65548, 70000, 200000}, r.w.Walk, si)
			}
			r.loose.Store(true)
			r.cut = func(now bool) {
				if now {
					left = 0
				}
				fw.CutAfter(left, endErr, func() { bw.Kill(endErr) })
			}
			r.cut(false)
			for _, c := range chans {
				c.led.MarkFault(1 << 61)
			}
			r.note(map[string]any{"op": "cut", "d": op.S("d"), "kind": op.S("kind"), "after_bytes": left, "streams_open": len(chans) / 2})
			r.res.Case(fmt.Sprintf("cut/%s/%d/%d", op.S("kind"), op.I("n"), len(chans)/2))
			r.res.Inc("mux_cuts", 1)
		case "open":
			if r.cut != nil {
				break // (a cut connection opens no more streams)
			}
			s := op.I("s")
			opener, accepter := ma, mb
			if op.S("by") == "b" {
				opener, accepter = mb, ma
			}
			// the connection is healthy: a session that cannot open or accept a stream carries no bytes
			so, err := opener.OpenStream(context.Background())
			if err != nil {
				r.mismatch(si, "mux-session-failed", "OpenStream on a healthy connection: "+err.Error(), "stream", err.Error())
				ok = false
				break
			}
			sa, err := accepter.AcceptStream()
			if err != nil {
				r.mismatch(si, "mux-session-failed", "AcceptStream on a healthy connection: "+err.Error(), "stream", err.Error())
				ok = false
				break
			}
			ea, eb := so, sa
			if op.S("by") == "b" {
				ea, eb = sa, so
			}
			for _, d := range []string{"ab", "ba"} {
				id := vfC02ChanID(s, d)
				c := &vfC02Chan{name: fmt.Sprintf("stream %d %s", s, d), led: vfc02.NewLedger("mux", vfc02.Content(id), false),
					jobs: make(chan vfC02Job, 16), unitEnd: []int{0}}
				if d == "ab" {
					c.w, c.r = ea, eb
				} else {
					c.w, c.r = eb, ea
				}
				if r.loose.Load() {
					c.led.MarkFault(1 << 61)
				}
				chans[id] = c
				wg.Add(1)
				go writer(c)
			}
			r.note(map[string]any{"op": "open", "s": s, "by": op.S("by")})
			r.res.Case("open/" + op.S("by"))
		case "write":
			c := chans[vfC02ChanID(op.I("s"), op.S("d"))]
			if c == nil {
				break
			}
			k := op.I("k")
			K := r.pick.Pick(vfC02MuxWrite[k], r.w.Walk, si)
			if c.led.Written+K > len(c.led.Data) {
				K = k
			}
			data := c.led.Next(K)
			base := c.led.Written
			for u := 1; u <= k; u++ {
				c.unitEnd = append(c.unitEnd, base+K*u/k)
			}
			c.led.OnWrite(K, K, nil) // handed to Write; completion is checked at the end
			c.jobs <- vfC02Job{data: data}
			r.note(map[string]any{"op": "write", "ch": c.name, "k": k, "real": K})
			r.res.Case(fmt.Sprintf("write/%s/%d", op.S("d"), k))
		case "closewrite":
			c := chans[vfC02ChanID(op.I("s"), op.S("d"))]
			if c == nil {
				break
			}
			c.closed = true
			c.jobs <- vfC02Job{close: true}
			r.note(map[string]any{"op": "closewrite", "ch": c.name})
			r.res.Case("closewrite/" + op.S("d"))
		case "read":
			c := chans[vfC02ChanID(op.I("s"), op.S("d"))]
			if c == nil || c.done {
				break // (after a cut the real stream may have reached its terminal outcome before the model's)
			}
			r.res.Case(fmt.Sprintf("read/%s/%d/%v/%v/%s", op.S("d"), op.I("b"), op.B("eof"), op.B("halfclosed"), op.S("term")))
			if r.cut != nil {
				// the connection is (being) cut: data, an error or - only for a complete half-closed stream - a clean
				// end may come; one read, whatever the model expects
				if op.S("term") == "err" {
					r.cut(true)
				}
				if c.led.Delivered < c.led.Written || c.closed || op.S("term") == "err" {
					readTo(si, c, c.led.Delivered+1, op.I("b"))
				}
				break
			}
			if op.B("eof") {
				ok = expectEOF(si, c)
				break
			}
			c.unitsDel += op.I("n")
			ok = readTo(si, c, c.unitEnd[c.unitsDel], op.I("b"))
		default:
			r.mismatch(si, "MACHINERY", "unknown op "+op.Name(), nil, nil)
			return
		}
	}
	// the end: everything handed to Write arrives, then EOF where the writer closed
	ids := make([]int, 0, len(chans))
	for id := range chans {
		ids = append(ids, id)
	}
	sort.Ints(ids)
	if r.cut != nil {
		// the connection ends now at the latest; every reader then comes to its terminal outcome: a clean EOF only
		// where the writer half-closed and everything arrived, an error otherwise (>= 2 streams may be open)
		r.cut(true)
		for _, id := range ids {
			c := chans[id]
			for it := 0; it < 1<<16 && !c.done; it++ {
				readTo(len(r.w.Steps), c, c.led.Delivered+(1<<20), 2)
			}
			if c.eof {
				r.res.Inc("mux_cut_clean_eof_complete", 1)
			} else {
				r.res.Inc("mux_cut_terminal_error", 1)
			}
			close(c.jobs)
		}
		r.res.Count(1, steps)
		return
	}
	for _, id := range ids {
		c := chans[id]
		if ok {
			ok = readTo(len(r.w.Steps), c, c.led.Written, 2)
		}
		if ok && c.closed && !c.eof {
			ok = expectEOF(len(r.w.Steps), c)
		}
		close(c.jobs)
	}
	if ok {
		wg.Wait()
		for _, id := range ids {
			c := chans[id]
			if len(c.werr) > 0 {
				r.mismatch(len(r.w.Steps), "mux-write-failed", fmt.Sprintf("%s: %v on a healthy connection", c.name, c.werr), "nil", c.werr)
			}
			l1(len(r.w.Steps), c, c.led.AtEnd())
		}
	}
	r.res.Count(1, steps)
}

var (
	vfC02Stalled atomic.Bool
	vfC02Stalls  atomic.Int64
)

func TestVerifC02Mux(t *testing.T) {
	res := vfh.NewResult()
	res.Rule = "distinct = (operation, direction, size class, eof, after own CloseWrite) combinations executed on real yamux sessions"
	defer func() {
		if err := res.Write(); err != nil {
			t.Fatal(err)
		}
	}()
	files, _ := filepath.Glob(filepath.Join(vfh.In(), "mux_*.jsonl"))
	sort.Strings(files)
	if len(files) == 0 {
		t.Fatal("no mux behaviour files")
	}
	a, err := vfC02NewSecPeer()
	if err != nil {
		t.Fatal(err)
	}
	b, err := vfC02NewSecPeer()
	if err != nil {
		t.Fatal(err)
	}
	rounds := vfh.EnvInt("VERIF_C02_ROUNDS", 1)
	if err := vfC02MuxReplay(res, files, a, b, vfh.EnvInt("VERIF_C02_MUX_SHARE", 3), vfh.EnvInt("VERIF_C02_MUX_PAR", 12), nil); err != nil {
		t.Fatal(err)
	}
	for i, stack := range []string{"plain", "noise", "tls"} {
		for rep := 0; rep < rounds; rep++ {
			vfC02MuxStress(res, stack, a, b, uint64(vfh.Seed())*1000+uint64(i*100+rep))
		}
	}
}

// vfC02MuxReplay runs the walks of the files (one in `share`); sleep != nil: the harness runs in a synctest bubble
// and the walks' wait steps sleep virtual time.
func vfC02MuxReplay(res *vfh.Result, files []string, a, b *vfC02SecPeer, share, par int, sleep func(string) time.Duration) error {
	rounds := vfh.EnvInt("VERIF_C02_ROUNDS", 1)
	w1, w2 := 20*time.Second, 40*time.Second
	if sleep != nil {
		w1, w2 = 10000*time.Hour, 10000*time.Hour // (virtual: they fire only when every goroutine is blocked for good)
	}
	type job struct {
		f     string
		w     vfh.Walk
		rd    int
		stack string
	}
	ch := make(chan job)
	var wg sync.WaitGroup
	for i := 0; i < par; i++ {
		wg.Add(1)
		go func() {
			defer wg.Done()
			for j := range ch {
				mk := func() *vfC02MuxRun {
					return &vfC02MuxRun{res: res, file: j.f, w: j.w, stack: j.stack, a: a, b: b, sleep: sleep,
						pick: vfc02.Picker{Seed: uint64(vfh.Seed()), Round: j.rd}}
				}
				if vfC02Stalled.Load() {
					continue // a reproduced stall has been reported: the rest would only wait for watchdogs
				}
				if mk().run(w1) {
					// bytes handed to Write never arrived within the watchdog: a violation only if it reproduces
					res.Inc("mux_stalls", 1)
					if vfC02Stalls.Add(1) > 3 && !vfC02Stalled.Swap(true) {
						// stalls that do not reproduce are no verdict; more of them would only burn watchdog time
						res.AddMismatch(vfh.Mismatch{Class: "MACHINERY", What: "mux: more than 3 walks stalled once without stalling again when repeated", Walk: j.w.Walk})
						continue
					}
					r2 := mk()
					if r2.run(w2) && !vfC02Stalled.Swap(true) {
						r2.mismatch(len(j.w.Steps), "mux-stall", "bytes handed to Write did not reach the reader (the walk stalled twice)", "delivery", "stall")
					}
				}
				res.Inc("mux_"+j.stack, 1)
			}
		}()
	}
	stacks := []string{"plain", "plain", "noise", "plain", "plain", "tls"}
	for _, f := range files {
		_, walks, err := vfh.LoadWalks(f)
		if err != nil {
			return err
		}
		for rd := 0; rd < rounds; rd++ {
			for _, w := range walks {
				if share > 1 && (uint64(w.Walk)+uint64(vfh.Seed())+uint64(rd))%uint64(share) != 0 {
					continue
				}
				ch <- job{f, w, rd, stacks[(w.Walk/share+rd)%len(stacks)]}
			}
		}
	}
	close(ch)
	wg.Wait()
	return nil
}

// vfC02MuxStress: several streams, every direction of every stream with its own writer and reader goroutine
// running at the same time (seeded chunk and buffer sizes, the schedule is the runtime's), half-close at the
// end.  The verdict is schedule-independent: the L1 ledger of every channel.
func vfC02MuxStress(res *vfh.Result, stack string, a, b *vfC02SecPeer, seed uint64) {
	const nStreams = 6
	pick := vfc02.Picker{Seed: seed}
	report := func(class, what string, exp, got any) {
		res.AddMismatch(vfh.Mismatch{Class: class, What: fmt.Sprintf("[mux-stress/%s seed %d] %s", stack, seed, what), Walk: -1,
			Expected: exp, Got: got, Cfg: map[string]any{"layer": "mux-stress", "stack": stack, "seed": seed}})
	}
	ca, cb := vfc02.NewPair(nil)
	defer ca.Close()
	defer cb.Close()
	ca.In.SetCap(pick.Pick(vfC02MuxShort, 1))
	cb.In.SetCap(pick.Pick(vfC02MuxShort, 2))
	na, nb, err := vfC02Secure(stack, a, b, ca, cb)
	if err != nil {
		report("MACHINERY", "secure: "+err.Error(), nil, nil)
		return
	}
	ma, err := DefaultTransport.NewConn(na, false, nil)
	if err != nil {
		report("MACHINERY", err.Error(), nil, nil)
		return
	}
	defer ma.Close()
	mb, err := DefaultTransport.NewConn(nb, true, nil)
	if err != nil {
		report("MACHINERY", err.Error(), nil, nil)
		return
	}
	defer mb.Close()
	sizes := []int{1, 2, 11, 12, 13, 100, 1024, 4096, 65535, 65536, 65537, 70000, 262144}
	var wg sync.WaitGroup
	done := make(chan struct{})
	for s := 0; s < nStreams; s++ {
		opener, accepter := ma, mb
		if s%2 == 1 {
			opener, accepter = mb, ma
		}
		so, err := opener.OpenStream(context.Background())
		if err != nil {
			report("mux-session-failed", "OpenStream on a healthy connection: "+err.Error(), "stream", err.Error())
			return
		}
		sa, err := accepter.AcceptStream()
		if err != nil {
			report("mux-session-failed", "AcceptStream on a healthy connection: "+err.Error(), "stream", err.Error())
			return
		}
		for d, ends := range [][2]network.MuxedStream{{so, sa}, {sa, so}} {
			id := s*2 + d
			total := 300000 + pick.Pick([]int{0, 1, 65536, 262144, 400000}, id, 1)
			data := vfc02.Content(id)[id*1000 : id*1000+total]
			wg.Add(2)
			go func(w network.MuxedStream) { // writer
				defer wg.Done()
				off := 0
				for it := 0; off < total; it++ {
					n := pick.Pick(sizes, id, 2, it)
					if n > total-off {
						n = total - off
					}
					m, err := w.Write(data[off : off+n])
					if m != n || err != nil {
						report("mux-write-failed", fmt.Sprintf("stream %d dir %d: Write(%d) = (%d, %v) on a healthy connection", s, d, n, m, err), n, m)
						return
					}
					off += n
				}
				if err := w.CloseWrite(); err != nil {
					report("mux-write-failed", fmt.Sprintf("stream %d dir %d: CloseWrite: %v", s, d, err), nil, err.Error())
				}
			}(ends[0])
			go func(rd network.MuxedStream) { // reader
				defer wg.Done()
				led := vfc02.NewLedger("mux", data, false)
				led.Written = total
				buf := make([]byte, 300000)
				for it := 0; ; it++ {
					b := pick.Pick(sizes, id, 3, it)
					n, err := rd.Read(buf[:b:b])
					eof := err == io.EOF
					if eof && led.Delivered+n != total {
						report("mux-early-eof", fmt.Sprintf("stream %d dir %d: EOF after %d of %d bytes", s, d, led.Delivered+n, total), total, led.Delivered+n)
						return
					}
					if eof {
						err = nil
					}
					if p := led.OnRead(buf[:b], n, err, false); p != nil {
						report(p.Class, fmt.Sprintf("stream %d dir %d: %s", s, d, p.What), p.Expected, p.Got)
						return
					}
					if eof || err != nil {
						return
					}
				}
			}(ends[1])
		}
	}
	go func() { wg.Wait(); close(done) }()
	select {
	case <-done:
		res.Inc("mux_stress_"+stack, 1)
		res.Count(1, nStreams*2)
	case <-time.After(120 * time.Second):
		// no verdict from a watchdog alone
		report("MACHINERY", "concurrent stress did not finish within 120 s", nil, nil)
	}
}
