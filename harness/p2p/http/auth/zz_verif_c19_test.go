//go:build verif

package httppeeridauth

// C19 conformance harness at the level of the public API: the behaviours of spec/C19_HttpAuth.tla are
// replayed through the real http.Handler (ServerPeerIDAuth.ServeHTTP with httptest recorders; what the
// application sees is the argument of Next) and the real ClientPeerIDAuth.AuthenticateWithRoundTripper
// (against an in-memory RoundTripper scripted by the attacker of the model).  Time is the virtual clock
// of a synctest bubble.  Second part: the hostname rules of the handler (TLS ServerName, NoTLS,
// ValidHostnameFn) for otherwise valid credentials.

import (
	"bytes"
	"crypto/tls"
	"errors"
	"fmt"
	"io"
	"net/http"
	"net/http/httptest"
	"net/url"
	"os"
	"testing"
	"testing/synctest"
	"time"

	"github.com/libp2p/go-libp2p/core/peer"
	"github.com/libp2p/go-libp2p/internal/vfh"
	"github.com/libp2p/go-libp2p/p2p/http/auth/internal/handshake"
	"github.com/libp2p/go-libp2p/p2p/http/auth/internal/vfc19"
)

type vfC19Sys struct {
	w       *vfc19.World
	srv     map[string]*ServerPeerIDAuth
	clients []*vfC19Cli
	shared  *ClientPeerIDAuth // the one client (token cache) whose exchanges the behaviour's sessions are
}

func vfC19NewSys(w *vfc19.World) *vfC19Sys {
	s := &vfC19Sys{w: w, srv: map[string]*ServerPeerIDAuth{}}
	for _, n := range []string{"S", "S2"} {
		s.srv[n] = &ServerPeerIDAuth{PrivKey: w.SrvPriv(n), TokenTTL: w.TokenTTL, HmacKey: w.HmacKey[n]}
	}
	return s
}

func (s *vfC19Sys) Name() string                  { return "handler" }
func (s *vfC19Sys) Now() time.Time                { return time.Now() }
func (s *vfC19Sys) Advance(d time.Duration)       { time.Sleep(d) }
func (s *vfC19Sys) At(t time.Time, f func()) bool { return false } // the bubble's clock cannot go back

func vfC19Request(host, authz string, tlsName *string) *http.Request {
	r := &http.Request{Method: "POST", URL: &url.URL{Scheme: "https", Host: host, Path: "/"}, Host: host, Header: http.Header{},
		Proto: "HTTP/1.1", ProtoMajor: 1, ProtoMinor: 1, Body: http.NoBody}
	if tlsName != nil {
		r.TLS = &tls.ConnectionState{Version: tls.VersionTLS13, HandshakeComplete: true, ServerName: *tlsName}
	}
	if authz != "" {
		r.Header.Set("Authorization", authz)
	}
	return r
}

func vfC19Serve(a *ServerPeerIDAuth, r *http.Request) vfc19.ServerObs {
	var o vfc19.ServerObs
	rec := httptest.NewRecorder()
	a.ServeHTTPWithNextHandler(rec, r, func(p peer.ID, w http.ResponseWriter, _ *http.Request) {
		o.Accepted, o.Peer = true, p
		w.WriteHeader(http.StatusOK)
	})
	o.WWW, o.Info = rec.Header().Get("WWW-Authenticate"), rec.Header().Get("Authentication-Info")
	if !o.Accepted {
		o.Reason = fmt.Sprint(rec.Code)
		o.Detail = "status " + o.Reason
	}
	return o
}

func (s *vfC19Sys) Server(srv, host, authz string) vfc19.ServerObs {
	return vfC19Serve(s.srv[srv], vfC19Request(host, authz, &host))
}

// ---- the real client against a scripted round tripper

type vfC19Result struct {
	peer peer.ID
	err  error
}

type vfC19Cli struct {
	s      *vfC19Sys
	auth   *ClientPeerIDAuth
	host   string
	reqCh  chan string
	respCh chan *http.Response
	doneCh chan vfC19Result
	over   bool
	closed bool
}

var errVfC19Aborted = errors.New("verif: exchange aborted")

func (c *vfC19Cli) RoundTrip(r *http.Request) (*http.Response, error) {
	if r.Body != nil {
		io.Copy(io.Discard, r.Body)
		r.Body.Close()
	}
	c.reqCh <- r.Header.Get("Authorization")
	resp, ok := <-c.respCh
	if !ok {
		return nil, errVfC19Aborted
	}
	resp.Request = r
	return resp, nil
}

// NewSession: an exchange of the behaviour's shared client.
func (s *vfC19Sys) NewSession(host string) vfc19.Client {
	if s.shared == nil {
		s.shared = &ClientPeerIDAuth{PrivKey: s.w.Keys.Priv["kC"], TokenTTL: s.w.TokenTTL}
	}
	c := s.NewClient(host).(*vfC19Cli)
	c.auth = s.shared
	return c
}

// NewClient: an exchange of a client of its own (honest signatures on demand, simulated stale token).
func (s *vfC19Sys) NewClient(host string) vfc19.Client {
	c := &vfC19Cli{s: s, host: host, auth: &ClientPeerIDAuth{PrivKey: s.w.Keys.Priv["kC"], TokenTTL: s.w.TokenTTL}, reqCh: make(chan string), respCh: make(chan *http.Response), doneCh: make(chan vfC19Result, 1)}
	s.clients = append(s.clients, c)
	return c
}

func (c *vfC19Cli) Coarse() bool        { return true }
func (c *vfC19Cli) Clone() vfc19.Client { return nil }
func (c *vfC19Cli) State() string       { return "" }

func (c *vfC19Cli) Start(mode string) (string, error) {
	a := c.auth
	if mode == "si" {
		// the client holds a token for this hostname; the server will refuse it (401) and challenge
		a.tm.set(c.host, tokenInfo{token: handshake.PeerIDAuthScheme + ` bearer="c3RhbGUtdG9rZW4="`, insertedAt: time.Now(), peerID: c.s.w.Keys.ID["kS"]})
	}
	req, err := http.NewRequest("POST", "https://placeholder.invalid/", bytes.NewReader([]byte("body")))
	if err != nil {
		return "", err
	}
	req.Host = c.host
	go func() {
		p, resp, err := a.AuthenticateWithRoundTripper(c, req)
		if resp != nil && resp.Body != nil {
			resp.Body.Close()
		}
		c.doneCh <- vfC19Result{p, err}
	}()
	select {
	case az := <-c.reqCh:
		if mode == "si" {
			return "", nil // the stale token went out; the next delivery is the server's 401
		}
		return az, nil // a client-initiated request, or the cached token
	case r := <-c.doneCh:
		c.over = true
		return "", fmt.Errorf("client finished before sending anything: %v", r.err)
	}
}

func (c *vfC19Cli) Deliver(kind, val string) vfc19.ClientObs {
	var o vfc19.ClientObs
	if c.over {
		o.Err = errVfC19Aborted
		return o
	}
	resp := &http.Response{StatusCode: 401, Header: http.Header{}, Body: http.NoBody, Proto: "HTTP/1.1", ProtoMajor: 1, ProtoMinor: 1}
	switch {
	case kind == "www":
		resp.Header.Set("WWW-Authenticate", val)
	case kind == "info":
		resp.StatusCode = 200
		resp.Header.Set("Authentication-Info", val)
	default: // "status:NNN": an answer without authentication
		fmt.Sscanf(kind, "status:%d", &resp.StatusCode)
	}
	c.respCh <- resp
	for {
		select {
		case az := <-c.reqCh:
			if p := vfc19.ParseParams(az); p["bearer"] != "" && p["sig"] == "" && p["opaque"] == "" {
				// the handshake is over for the client; this is the application request with the token
				o.Bearers = append(o.Bearers, p["bearer"])
				c.respCh <- &http.Response{StatusCode: 200, Header: http.Header{}, Body: http.NoBody}
				continue
			}
			o.Authz = az
			return o
		case r := <-c.doneCh:
			c.over = true
			o.Err = r.err
			if r.err == nil {
				o.Reported, o.Peer, o.Done = true, r.peer, true
			}
			return o
		}
	}
}

func (c *vfC19Cli) close() {
	if c.closed {
		return
	}
	c.closed = true
	close(c.respCh)
	if !c.over {
		// the goroutine is blocked in RoundTrip (or about to send a request): let it finish
		for {
			select {
			case <-c.reqCh:
			case <-c.doneCh:
				c.over = true
				return
			}
		}
	}
}

func (s *vfC19Sys) Close() {
	for _, c := range s.clients {
		c.close()
	}
	s.clients = nil
}

func TestVerifC19Handler(t *testing.T) {
	res := vfh.NewResult()
	defer func() {
		if err := res.Write(); err != nil {
			t.Fatal(err)
		}
	}()
	res.Rule = "one step = one model transition executed through ServerPeerIDAuth.ServeHTTP (observable: the Next callback's peer argument) or the real ClientPeerIDAuth.AuthenticateWithRoundTripper (observable: its result); plus the hostname-rule matrix; every report is judged by the ledger oracle"
	synctest.Test(t, func(t *testing.T) {
		mk := func(w *vfc19.World) vfc19.System { return vfC19NewSys(w) }
		if err := vfc19.Replay(mk, res, vfc19.Options{Lite: true, Profile: os.Getenv("VERIF_C19_KEYS"), MaxWalks: vfh.EnvInt("VERIF_C19_MAXWALKS", 0)}); err != nil {
			t.Fatal(err)
		}
		for _, m := range []func(func(*vfc19.World) vfc19.System, *vfh.Result, string) error{vfc19.SecretMatrix, vfc19.TimeMatrix, vfc19.ServerHostMatrix} {
			if err := m(mk, res, os.Getenv("VERIF_C19_KEYS")); err != nil {
				t.Fatal(err)
			}
		}
		vfC19HostnameRules(t, res)
		vfC19ClientHostMatrix(t, res)
		vfC19DefaultSecrets(t, res)
	})
}

// vfC19HostnameRules: for credentials that are valid for the hostname in the Host header, Next may be
// called only if the handler's hostname rules hold: with TLS the Host must equal the TLS ServerName
// (and pass ValidHostnameFn if set); without TLS (NoTLS) a ValidHostnameFn is required and must accept.
func vfC19HostnameRules(t *testing.T, res *vfh.Result) {
	keys, err := vfc19.LoadKeys("ed25519", vfh.Seed())
	if err != nil {
		t.Fatal(err)
	}
	hosts := []string{"alpha.example.com", "beta.example.com:8443"}
	hmacKey := []byte("hostname-rules-hmac-secret-0123456789")
	open := &ServerPeerIDAuth{PrivKey: keys.Priv["kS"], TokenTTL: time.Hour, HmacKey: hmacKey, NoTLS: true, ValidHostnameFn: func(string) bool { return true }}
	// valid credentials per hostname, obtained from a permissive server with the same key and secret
	type cred struct{ name, authz string }
	creds := map[string][]cred{}
	for _, h := range hosts {
		c := handshake.PeerIDAuthHandshakeClient{Hostname: h, PrivKey: keys.Priv["kC"]}
		c.SetInitiateChallenge()
		if err := c.Run(); err != nil {
			t.Fatal(err)
		}
		hd := http.Header{}
		c.AddHeader(hd)
		o := vfC19Serve(open, vfC19Request(h, hd.Get("Authorization"), nil))
		rh := http.Header{}
		rh.Set("WWW-Authenticate", o.WWW)
		if err := c.ParseHeader(rh); err != nil {
			t.Fatal(err)
		}
		if err := c.Run(); err != nil {
			t.Fatal(err)
		}
		hd = http.Header{}
		c.AddHeader(hd)
		verify := hd.Get("Authorization")
		o = vfC19Serve(open, vfC19Request(h, verify, nil))
		if !o.Accepted || o.Peer != keys.ID["kC"] {
			t.Fatalf("setup: handshake not accepted: %+v", o)
		}
		p := vfc19.ParseParams(o.Info)
		creds[h] = []cred{{"signature", verify}, {"bearer", handshake.PeerIDAuthScheme + ` bearer="` + p["bearer"] + `"`}}
	}
	type fnCase struct {
		name string
		fn   func(string) bool
	}
	fns := []fnCase{{"nil", nil}, {"all", func(string) bool { return true }}, {"none", func(string) bool { return false }},
		{"only-alpha", func(h string) bool { return h == hosts[0] }}}
	n := 0
	for _, noTLS := range []bool{false, true} {
		for _, fc := range fns {
			a := &ServerPeerIDAuth{PrivKey: keys.Priv["kS"], TokenTTL: time.Hour, HmacKey: hmacKey, NoTLS: noTLS, ValidHostnameFn: fc.fn}
			for _, h := range hosts {
				other := hosts[0]
				if h == other {
					other = hosts[1]
				}
				empty := ""
				for _, tc := range []struct {
					name string
					sni  *string
				}{{"none", nil}, {"match", &h}, {"mismatch", &other}, {"empty", &empty}} {
					for _, cr := range creds[h] {
						o := vfC19Serve(a, vfC19Request(h, cr.authz, tc.sni))
						n++
						var allowed bool
						if noTLS {
							allowed = fc.fn != nil && fc.fn(h)
						} else {
							allowed = tc.sni != nil && *tc.sni == h && (fc.fn == nil || fc.fn(h))
						}
						desc := fmt.Sprintf("NoTLS=%v ValidHostnameFn=%s Host=%s TLS.ServerName=%s credential=%s", noTLS, fc.name, h, tc.name, cr.name)
						res.Case("hostname|" + desc)
						switch {
						case o.Accepted && !allowed:
							res.AddMismatch(vfh.Mismatch{Class: "handler-accepts-unvalidated-hostname", Walk: -1,
								What: "Next was called with " + keys.ID["kC"].String() + " although the request's hostname is not validated: " + desc, Expected: "no call", Got: "Next(" + o.Peer.String() + ")"})
						case o.Accepted && o.Peer != keys.ID["kC"]:
							res.AddMismatch(vfh.Mismatch{Class: "srv-reports-wrong-peer", Walk: -1, What: "wrong peer: " + desc, Expected: keys.ID["kC"].String(), Got: o.Peer.String()})
						case !o.Accepted && allowed:
							res.AddMismatch(vfh.Mismatch{Class: "L2:handler-rejects-validated-hostname", Walk: -1, What: "valid credentials for a validated hostname refused: " + desc, Expected: "Next", Got: o.Reason})
						}
					}
				}
			}
		}
	}
	res.Inc("hostname_rule_cases", n)
}

// ---- one client, two hostnames that a careless normalisation would merge

type vfC19RT func(*http.Request) (*http.Response, error)

func (f vfC19RT) RoundTrip(r *http.Request) (*http.Response, error) { return f(r) }

type vfC19Exchange struct {
	host, authz string
	status      int
	www, info   string
}

// vfC19ClientHostMatrix: one ClientPeerIDAuth completes a handshake with honest server A at hA and then
// makes a request to hB, where another party answers.  L1: the client reports X for hB only if X's key
// signed this exchange's challenge, the client's key and hB; it never sends the token it got for hA to hB.
func vfC19ClientHostMatrix(t *testing.T, res *vfh.Result) {
	keys, err := vfc19.LoadKeys("ed25519", vfh.Seed())
	if err != nil {
		t.Fatal(err)
	}
	all := func(string) bool { return true }
	serve := func(a *ServerPeerIDAuth, host string, r *http.Request, log *[]vfC19Exchange) *http.Response {
		if r.Body != nil {
			io.Copy(io.Discard, r.Body)
			r.Body.Close()
		}
		rec := httptest.NewRecorder()
		a.ServeHTTPWithNextHandler(rec, vfC19Request(host, r.Header.Get("Authorization"), nil), func(_ peer.ID, w http.ResponseWriter, _ *http.Request) {
			w.WriteHeader(http.StatusOK)
		})
		resp := rec.Result()
		resp.Request = r
		*log = append(*log, vfC19Exchange{r.Host, r.Header.Get("Authorization"), resp.StatusCode, resp.Header.Get("WWW-Authenticate"), resp.Header.Get("Authentication-Info")})
		return resp
	}
	plain := func(r *http.Request, status int, log *[]vfC19Exchange) *http.Response {
		if r.Body != nil {
			io.Copy(io.Discard, r.Body)
			r.Body.Close()
		}
		*log = append(*log, vfC19Exchange{host: r.Host, authz: r.Header.Get("Authorization"), status: status})
		return &http.Response{StatusCode: status, Header: http.Header{}, Body: http.NoBody, Request: r, Proto: "HTTP/1.1", ProtoMajor: 1, ProtoMinor: 1}
	}
	newReq := func(host string) *http.Request {
		req, _ := http.NewRequest("POST", "https://placeholder.invalid/", bytes.NewReader([]byte("body")))
		req.Host = host
		return req
	}
	kinds := []string{"honest-B", "status-200", "status-204", "status-403", "status-500", "status-401-bare", "replay-A", "replay-A-200", "relay-to-A-as-hA", "relay-to-A-as-hB"}
	n := 0
	for _, hp := range vfc19.HostFamily() {
		for dir := 0; dir < 2; dir++ {
			hA, hB := hp.A, hp.B
			if dir == 1 {
				hA, hB = hB, hA
			}
			for _, kind := range kinds {
				srvA := &ServerPeerIDAuth{PrivKey: keys.Priv["kS"], TokenTTL: time.Hour, HmacKey: []byte("client-host-matrix-A"), NoTLS: true, ValidHostnameFn: all}
				srvB := &ServerPeerIDAuth{PrivKey: keys.Priv["kS2"], TokenTTL: time.Hour, HmacKey: []byte("client-host-matrix-B"), NoTLS: true, ValidHostnameFn: all}
				cl := &ClientPeerIDAuth{PrivKey: keys.Priv["kC"], TokenTTL: time.Hour}
				var logA, logB []vfC19Exchange
				idA, resp, err := cl.AuthenticateWithRoundTripper(vfC19RT(func(r *http.Request) (*http.Response, error) { return serve(srvA, r.Host, r, &logA), nil }), newReq(hA))
				if resp != nil {
					resp.Body.Close()
				}
				desc := fmt.Sprintf("pair %s: handshake with A at %q, then request to %q answered by %s", hp.Name, hA, hB, kind)
				if err != nil || idA != keys.ID["kS"] {
					res.AddMismatch(vfh.Mismatch{Class: "L2:client-host-matrix-setup", Walk: -1, What: fmt.Sprintf("%s: the honest handshake failed: %v", desc, err)})
					continue
				}
				tokenA := ""
				for _, e := range logA {
					if b := vfc19.ParseParams(e.info)["bearer"]; b != "" {
						tokenA = b
					}
				}
				if cl.HasToken(hB) {
					res.AddMismatch(vfh.Mismatch{Class: "L2:client-claims-token-for-other-hostname", Walk: -1, What: desc + ": HasToken(hB) is true before any exchange with hB"})
				}
				replay := 0
				rt := vfC19RT(func(r *http.Request) (*http.Response, error) {
					switch kind {
					case "honest-B":
						return serve(srvB, r.Host, r, &logB), nil
					case "relay-to-A-as-hA":
						return serve(srvA, hA, r, &logB), nil
					case "relay-to-A-as-hB":
						return serve(srvA, hB, r, &logB), nil
					case "replay-A", "replay-A-200":
						resp := plain(r, 200, &logB)
						if replay < len(logA) {
							e := logA[replay]
							replay++
							if kind == "replay-A" {
								resp.StatusCode = e.status
							}
							if e.www != "" {
								resp.Header.Set("WWW-Authenticate", e.www)
							}
							if e.info != "" {
								resp.Header.Set("Authentication-Info", e.info)
							}
						}
						return resp, nil
					case "status-401-bare":
						return plain(r, 401, &logB), nil
					}
					var st int
					fmt.Sscanf(kind, "status-%d", &st)
					return plain(r, st, &logB), nil
				})
				idB, resp2, err2 := cl.AuthenticateWithRoundTripper(rt, newReq(hB))
				if resp2 != nil && resp2.Body != nil {
					resp2.Body.Close()
				}
				n++
				res.Case("clienthost|" + hp.Name + "|" + kind)
				for _, e := range logB {
					if tokenA != "" && vfc19.ParseParams(e.authz)["bearer"] == tokenA {
						res.AddMismatch(vfh.Mismatch{Class: "client-sends-token-to-other-hostname", Walk: -1, What: desc + ": the bearer token obtained for hA is sent in the request to hB",
							Expected: "no token", Got: e.authz})
						break
					}
				}
				if err2 != nil {
					if kind == "honest-B" || kind == "relay-to-A-as-hB" {
						res.AddMismatch(vfh.Mismatch{Class: "L2:client-host-matrix-honest-refused", Walk: -1, What: desc + ": " + err2.Error()})
					}
					continue
				}
				want := peer.ID("")
				switch kind {
				case "honest-B":
					want = keys.ID["kS2"]
				case "relay-to-A-as-hB":
					want = keys.ID["kS"] // A really answers for hB and signs for it
				}
				if idB != want {
					cls := "client-reports-unproven-server"
					if idB == keys.ID["kS"] {
						cls = "client-reports-server-cached-for-other-hostname"
					}
					res.AddMismatch(vfh.Mismatch{Class: cls, Walk: -1, What: fmt.Sprintf("%s: the client reports %s for hB although no signature under that key over this exchange's challenge, the client key and %q was verified",
						desc, idB, hB), Expected: want.String(), Got: idB.String()})
				}
			}
		}
	}
	res.Inc("client_host_matrix_cases", n)
	res.Set("client_host_matrix_responders", kinds)
}

// vfC19DefaultSecrets: the DEFAULT configuration of the server secret.  Several ServerPeerIDAuth values in
// one process with HmacKey nil (same identity key, same hostname), one with an explicit secret, a copy
// of an unused value and a copy of a used one.  Every blob one instance mints (server-initiated and
// client-initiated final legs, bearer token) is presented to every other.  L1: accepted only by the
// instance that minted it (a copy taken AFTER first use carries the generated secret in its HmacKey
// field and is the same server).  Vacuity guard: the minting instance accepts its own.
func vfC19DefaultSecrets(t *testing.T, res *vfh.Result) {
	keys, err := vfc19.LoadKeys("ed25519", vfh.Seed())
	if err != nil {
		t.Fatal(err)
	}
	host := "alpha.example.com"
	mk := func(key []byte) *ServerPeerIDAuth {
		return &ServerPeerIDAuth{PrivKey: keys.Priv["kS"], TokenTTL: time.Hour, HmacKey: key, NoTLS: true, ValidHostnameFn: func(string) bool { return true }}
	}
	type inst struct {
		name string
		a    *ServerPeerIDAuth
	}
	d1, d2, d3, d4 := mk(nil), mk(nil), mk(nil), mk(nil)
	pre := *d4 // copy of a value that was never used
	vfC19Serve(d1, vfC19Request(host, "", nil))
	post := *d1 // copy of a used value: same generated secret
	insts := []inst{{"default-1", d1}, {"default-2", d2}, {"default-3", d3}, {"explicit", mk([]byte("an-explicit-secret-0123456789abcdef"))},
		{"copy-before-use", &pre}, {"copy-after-use-of-default-1", &post}, {"default-4", d4}}
	same := func(i, j string) bool {
		return (i == "default-1" && j == "copy-after-use-of-default-1") || (j == "default-1" && i == "copy-after-use-of-default-1")
	}
	n := 0
	for _, m := range insts {
		type blob struct{ what, hdr string }
		var blobs []blob
		for _, flow := range []string{"server-initiated", "client-initiated"} {
			leg1 := ""
			if flow == "client-initiated" {
				leg1 = handshake.PeerIDAuthScheme + ` challenge-server="QXR0YWNrZXJDaG9zZW5DaGFsbGVuZ2VfMDEyMzQ1Njc4OV8=", public-key="` + vfc19.B64(keys.PubB["kA"]) + `"`
			}
			p := vfc19.ParseParams(vfC19Serve(m.a, vfC19Request(host, leg1, nil)).WWW)
			sg, err := keys.Priv["kA"].Sign(vfc19.Payload("cli", []byte(p["challenge-client"]), keys.PubB["kS"], host))
			if err != nil || p["opaque"] == "" {
				t.Fatalf("default secrets: no challenge from %s: %v", m.name, err)
			}
			hdr := handshake.PeerIDAuthScheme + ` opaque="` + p["opaque"] + `", sig="` + vfc19.B64(sg) + `"`
			if flow == "server-initiated" {
				hdr += `, public-key="` + vfc19.B64(keys.PubB["kA"]) + `", challenge-server="QXR0YWNrZXJDaG9zZW5DaGFsbGVuZ2VfMDEyMzQ1Njc4OV8="`
			}
			blobs = append(blobs, blob{flow + " final leg", hdr})
		}
		own := vfC19Serve(m.a, vfC19Request(host, blobs[0].hdr, nil))
		tok := vfc19.ParseParams(own.Info)["bearer"]
		if !own.Accepted || tok == "" {
			t.Fatalf("default secrets: vacuous: %s refuses its own final leg: %s", m.name, own.Detail)
		}
		blobs = append(blobs, blob{"bearer token", handshake.PeerIDAuthScheme + ` bearer="` + tok + `"`})
		for _, b := range blobs[1:] {
			if o := vfC19Serve(m.a, vfC19Request(host, b.hdr, nil)); !o.Accepted {
				t.Fatalf("default secrets: vacuous: %s refuses its own %s: %s", m.name, b.what, o.Detail)
			}
		}
		for _, other := range insts {
			if other.name == m.name {
				continue
			}
			for _, b := range blobs {
				o := vfC19Serve(other.a, vfC19Request(host, b.hdr, nil))
				n++
				res.Case("defaultsecret|" + m.name + "|" + other.name + "|" + b.what)
				if same(m.name, other.name) {
					if o.Accepted {
						res.Inc("same_secret_copies_accept", 1)
					}
					continue
				}
				if o.Accepted || vfc19.ParseParams(o.Info)["bearer"] != "" {
					cls := "srv-accepts-foreign-opaque"
					if b.what == "bearer token" {
						cls = "srv-accepts-foreign-token"
					}
					res.AddMismatch(vfh.Mismatch{Class: cls, Walk: -1, What: fmt.Sprintf("server instance %q reports %s on a %s that only instance %q minted (same process, same identity key and hostname)",
						other.name, o.Peer, b.what, m.name), Expected: "rejected", Got: map[string]any{"header": b.hdr}})
				}
			}
		}
	}
	res.Inc("default_secret_cases", n)
}
