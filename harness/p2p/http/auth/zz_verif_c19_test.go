//go:build verif

package httppeeridauth

// C19 conformance harness at the level of the public API: the behaviours of spec/C19_HttpAuth.tla are
// replayed through the real http.Handler (ServerPeerIDAuth.ServeHTTP with httptest recorders; what the
// application sees is the argument of Next) and the real ClientPeerIDAuth.AuthenticateWithRoundTripper
// (against an in-memory RoundTripper scripted by the attacker of the model).  Time is the virtual clock
// of a synctest bubble.  Second part: the hostname rules of the handler (TLS ServerName, NoTLS,
// ValidHostnameFn) for otherwise valid credentials.

import (
	"bytes"
	"crypto/tls"
	"errors"
	"fmt"
	"io"
	"net/http"
	"net/http/httptest"
	"net/url"
	"os"
	"testing"
	"testing/synctest"
	"time"

	"github.com/libp2p/go-libp2p/core/peer"
	"github.com/libp2p/go-libp2p/internal/vfh"
	"github.com/libp2p/go-libp2p/p2p/http/auth/internal/handshake"
	"github.com/libp2p/go-libp2p/p2p/http/auth/internal/vfc19"
)

type vfC19Sys struct {
	w       *vfc19.World
	srv     map[string]*ServerPeerIDAuth
	clients []*vfC19Cli
}

func vfC19NewSys(w *vfc19.World) *vfC19Sys {
	s := &vfC19Sys{w: w, srv: map[string]*ServerPeerIDAuth{}}
	for _, n := range []string{"S", "S2"} {
		s.srv[n] = &ServerPeerIDAuth{PrivKey: w.SrvPriv(n), TokenTTL: w.TokenTTL, HmacKey: w.HmacKey[n]}
	}
	return s
}

func (s *vfC19Sys) Name() string                  { return "handler" }
func (s *vfC19Sys) Now() time.Time                { return time.Now() }
func (s *vfC19Sys) Advance(d time.Duration)       { time.Sleep(d) }
func (s *vfC19Sys) At(t time.Time, f func()) bool { return false } // the bubble's clock cannot go back

func vfC19Request(host, authz string, tlsName *string) *http.Request {
	r := &http.Request{Method: "POST", URL: &url.URL{Scheme: "https", Host: host, Path: "/"}, Host: host, Header: http.Header{},
		Proto: "HTTP/1.1", ProtoMajor: 1, ProtoMinor: 1, Body: http.NoBody}
	if tlsName != nil {
		r.TLS = &tls.ConnectionState{Version: tls.VersionTLS13, HandshakeComplete: true, ServerName: *tlsName}
	}
	if authz != "" {
		r.Header.Set("Authorization", authz)
	}
	return r
}

func vfC19Serve(a *ServerPeerIDAuth, r *http.Request) vfc19.ServerObs {
	var o vfc19.ServerObs
	rec := httptest.NewRecorder()
	a.ServeHTTPWithNextHandler(rec, r, func(p peer.ID, w http.ResponseWriter, _ *http.Request) {
		o.Accepted, o.Peer = true, p
		w.WriteHeader(http.StatusOK)
	})
	o.WWW, o.Info = rec.Header().Get("WWW-Authenticate"), rec.Header().Get("Authentication-Info")
	if !o.Accepted {
		o.Reason = fmt.Sprint(rec.Code)
		o.Detail = "status " + o.Reason
	}
	return o
}

func (s *vfC19Sys) Server(srv, host, authz string) vfc19.ServerObs {
	return vfC19Serve(s.srv[srv], vfC19Request(host, authz, &host))
}

// ---- the real client against a scripted round tripper

type vfC19Result struct {
	peer peer.ID
	err  error
}

type vfC19Cli struct {
	s      *vfC19Sys
	host   string
	reqCh  chan string
	respCh chan *http.Response
	doneCh chan vfC19Result
	over   bool
	closed bool
}

var errVfC19Aborted = errors.New("verif: exchange aborted")

func (c *vfC19Cli) RoundTrip(r *http.Request) (*http.Response, error) {
	if r.Body != nil {
		io.Copy(io.Discard, r.Body)
		r.Body.Close()
	}
	c.reqCh <- r.Header.Get("Authorization")
	resp, ok := <-c.respCh
	if !ok {
		return nil, errVfC19Aborted
	}
	resp.Request = r
	return resp, nil
}

func (s *vfC19Sys) NewClient(host string) vfc19.Client {
	c := &vfC19Cli{s: s, host: host, reqCh: make(chan string), respCh: make(chan *http.Response), doneCh: make(chan vfC19Result, 1)}
	s.clients = append(s.clients, c)
	return c
}

func (c *vfC19Cli) Coarse() bool        { return true }
func (c *vfC19Cli) Clone() vfc19.Client { return nil }
func (c *vfC19Cli) State() string       { return "" }

func (c *vfC19Cli) Start(initiate bool) (string, error) {
	a := &ClientPeerIDAuth{PrivKey: c.s.w.Keys.Priv["kC"], TokenTTL: c.s.w.TokenTTL}
	if !initiate {
		// the client holds a token for this hostname; the server will refuse it (401) and challenge
		a.tm.set(c.host, tokenInfo{token: handshake.PeerIDAuthScheme + ` bearer="c3RhbGUtdG9rZW4="`, insertedAt: time.Now(), peerID: c.s.w.Keys.ID["kS"]})
	}
	req, err := http.NewRequest("POST", "https://"+c.host+"/", bytes.NewReader([]byte("body")))
	if err != nil {
		return "", err
	}
	go func() {
		p, resp, err := a.AuthenticateWithRoundTripper(c, req)
		if resp != nil && resp.Body != nil {
			resp.Body.Close()
		}
		c.doneCh <- vfC19Result{p, err}
	}()
	select {
	case az := <-c.reqCh:
		if !initiate {
			return "", nil // the stale token went out; the next delivery is the server's 401
		}
		return az, nil
	case r := <-c.doneCh:
		c.over = true
		return "", fmt.Errorf("client finished before sending anything: %v", r.err)
	}
}

func (c *vfC19Cli) Deliver(kind, val string) vfc19.ClientObs {
	var o vfc19.ClientObs
	if c.over {
		o.Err = errVfC19Aborted
		return o
	}
	resp := &http.Response{StatusCode: 401, Header: http.Header{}, Body: http.NoBody, Proto: "HTTP/1.1", ProtoMajor: 1, ProtoMinor: 1}
	if kind == "www" {
		resp.Header.Set("WWW-Authenticate", val)
	} else {
		resp.StatusCode = 200
		resp.Header.Set("Authentication-Info", val)
	}
	c.respCh <- resp
	for {
		select {
		case az := <-c.reqCh:
			if p := vfc19.ParseParams(az); p["bearer"] != "" && p["sig"] == "" && p["opaque"] == "" {
				// the handshake is over for the client; this is the application request with the token
				c.respCh <- &http.Response{StatusCode: 200, Header: http.Header{}, Body: http.NoBody}
				continue
			}
			o.Authz = az
			return o
		case r := <-c.doneCh:
			c.over = true
			o.Err = r.err
			if r.err == nil {
				o.Reported, o.Peer, o.Done = true, r.peer, true
			}
			return o
		}
	}
}

func (c *vfC19Cli) close() {
	if c.closed {
		return
	}
	c.closed = true
	close(c.respCh)
	if !c.over {
		// the goroutine is blocked in RoundTrip (or about to send a request): let it finish
		for {
			select {
			case <-c.reqCh:
			case <-c.doneCh:
				c.over = true
				return
			}
		}
	}
}

func (s *vfC19Sys) Close() {
	for _, c := range s.clients {
		c.close()
	}
	s.clients = nil
}

func TestVerifC19Handler(t *testing.T) {
	res := vfh.NewResult()
	defer func() {
		if err := res.Write(); err != nil {
			t.Fatal(err)
		}
	}()
	res.Rule = "one step = one model transition executed through ServerPeerIDAuth.ServeHTTP (observable: the Next callback's peer argument) or the real ClientPeerIDAuth.AuthenticateWithRoundTripper (observable: its result); plus the hostname-rule matrix; every report is judged by the ledger oracle"
	synctest.Test(t, func(t *testing.T) {
		mk := func(w *vfc19.World) vfc19.System { return vfC19NewSys(w) }
		if err := vfc19.Replay(mk, res, vfc19.Options{Lite: true, Profile: os.Getenv("VERIF_C19_KEYS"), MaxWalks: vfh.EnvInt("VERIF_C19_MAXWALKS", 0)}); err != nil {
			t.Fatal(err)
		}
		if err := vfc19.SecretMatrix(mk, res, os.Getenv("VERIF_C19_KEYS")); err != nil {
			t.Fatal(err)
		}
		vfC19HostnameRules(t, res)
	})
}

// vfC19HostnameRules: for credentials that are valid for the hostname in the Host header, Next may be
// called only if the handler's hostname rules hold: with TLS the Host must equal the TLS ServerName
// (and pass ValidHostnameFn if set); without TLS (NoTLS) a ValidHostnameFn is required and must accept.
func vfC19HostnameRules(t *testing.T, res *vfh.Result) {
	keys, err := vfc19.LoadKeys("ed25519", vfh.Seed())
	if err != nil {
		t.Fatal(err)
	}
	hosts := []string{"alpha.example.com", "beta.example.com:8443"}
	hmacKey := []byte("hostname-rules-hmac-secret-0123456789")
	open := &ServerPeerIDAuth{PrivKey: keys.Priv["kS"], TokenTTL: time.Hour, HmacKey: hmacKey, NoTLS: true, ValidHostnameFn: func(string) bool { return true }}
	// valid credentials per hostname, obtained from a permissive server with the same key and secret
	type cred struct{ name, authz string }
	creds := map[string][]cred{}
	for _, h := range hosts {
		c := handshake.PeerIDAuthHandshakeClient{Hostname: h, PrivKey: keys.Priv["kC"]}
		c.SetInitiateChallenge()
		if err := c.Run(); err != nil {
			t.Fatal(err)
		}
		hd := http.Header{}
		c.AddHeader(hd)
		o := vfC19Serve(open, vfC19Request(h, hd.Get("Authorization"), nil))
		rh := http.Header{}
		rh.Set("WWW-Authenticate", o.WWW)
		if err := c.ParseHeader(rh); err != nil {
			t.Fatal(err)
		}
		if err := c.Run(); err != nil {
			t.Fatal(err)
		}
		hd = http.Header{}
		c.AddHeader(hd)
		verify := hd.Get("Authorization")
		o = vfC19Serve(open, vfC19Request(h, verify, nil))
		if !o.Accepted || o.Peer != keys.ID["kC"] {
			t.Fatalf("setup: handshake not accepted: %+v", o)
		}
		p := vfc19.ParseParams(o.Info)
		creds[h] = []cred{{"signature", verify}, {"bearer", handshake.PeerIDAuthScheme + ` bearer="` + p["bearer"] + `"`}}
	}
	type fnCase struct {
		name string
		fn   func(string) bool
	}
	fns := []fnCase{{"nil", nil}, {"all", func(string) bool { return true }}, {"none", func(string) bool { return false }},
		{"only-alpha", func(h string) bool { return h == hosts[0] }}}
	n := 0
	for _, noTLS := range []bool{false, true} {
		for _, fc := range fns {
			a := &ServerPeerIDAuth{PrivKey: keys.Priv["kS"], TokenTTL: time.Hour, HmacKey: hmacKey, NoTLS: noTLS, ValidHostnameFn: fc.fn}
			for _, h := range hosts {
				other := hosts[0]
				if h == other {
					other = hosts[1]
				}
				empty := ""
				for _, tc := range []struct {
					name string
					sni  *string
				}{{"none", nil}, {"match", &h}, {"mismatch", &other}, {"empty", &empty}} {
					for _, cr := range creds[h] {
						o := vfC19Serve(a, vfC19Request(h, cr.authz, tc.sni))
						n++
						var allowed bool
						if noTLS {
							allowed = fc.fn != nil && fc.fn(h)
						} else {
							allowed = tc.sni != nil && *tc.sni == h && (fc.fn == nil || fc.fn(h))
						}
						desc := fmt.Sprintf("NoTLS=%v ValidHostnameFn=%s Host=%s TLS.ServerName=%s credential=%s", noTLS, fc.name, h, tc.name, cr.name)
						res.Case("hostname|" + desc)
						switch {
						case o.Accepted && !allowed:
							res.AddMismatch(vfh.Mismatch{Class: "handler-accepts-unvalidated-hostname", Walk: -1,
								What: "Next was called with " + keys.ID["kC"].String() + " although the request's hostname is not validated: " + desc, Expected: "no call", Got: "Next(" + o.Peer.String() + ")"})
						case o.Accepted && o.Peer != keys.ID["kC"]:
							res.AddMismatch(vfh.Mismatch{Class: "srv-reports-wrong-peer", Walk: -1, What: "wrong peer: " + desc, Expected: keys.ID["kC"].String(), Got: o.Peer.String()})
						case !o.Accepted && allowed:
							res.AddMismatch(vfh.Mismatch{Class: "L2:handler-rejects-validated-hostname", Walk: -1, What: "valid credentials for a validated hostname refused: " + desc, Expected: "Next", Got: o.Reason})
						}
					}
				}
			}
		}
	}
	res.Inc("hostname_rule_cases", n)
}
