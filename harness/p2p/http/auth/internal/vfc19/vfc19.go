//go:build verif

// Package vfc19 is the shared driver of the C19 conformance harnesses (HTTP Peer-ID auth reports only
// proven identities). It exists only in /verif/harness and is injected with `go test -overlay`.
//
// It replays behaviours of spec/C19_HttpAuth.tla (TLC state graphs) against a System under test - the
// handshake objects (PeerIDAuthHandshakeServer/Client) or the http.Handler (ServerPeerIDAuth) - by
// concretising every abstract term into real header strings built from real handshakes, and judges
// every outcome twice:
//
//	L1  with an oracle that knows nothing about the model: the harness's own ledger of which private
//	    key signed what (for which server key, hostname and challenge), which challenges and tokens
//	    each real server issued, for whom and when. A peer ID may be reported only if the ledger
//	    justifies it; anything altered / expired / foreign must be rejected.
//	L2  against the model's expected result (accept/reject reason, reported peer).
//
// Every abstract "alter field f" edge is run over every byte of the decoded opaque / token /
// signature / public key (bit flips), truncations and extensions; every request is also sent in
// re-encoded forms (parameter order, separators, duplicates, base64 variants, dropped parameters).
package vfc19

import (
	"bufio"
	"bytes"
	"crypto/hmac"
	"crypto/sha256"
	"encoding/base64"
	"encoding/binary"
	"encoding/json"
	"fmt"
	"math/rand"
	"os"
	"path/filepath"
	"runtime/debug"
	"sort"
	"strings"
	"sync"
	"time"

	"github.com/libp2p/go-libp2p/core/crypto"
	"github.com/libp2p/go-libp2p/core/peer"
	"github.com/libp2p/go-libp2p/internal/vfh"
)

const Scheme = "libp2p-PeerID"
const ChallengeTTL = 5 * time.Minute // the code's challengeTTL (unexported constant); part of the scale map

// ---------------------------------------------------------------------------------------------
// keys

type Keys struct {
	Profile string
	Priv    map[string]crypto.PrivKey
	Pub     map[string]crypto.PubKey
	PubB    map[string][]byte
	ID      map[string]peer.ID
	Type    map[string]string
}

var keyCache sync.Map

type seededReader struct{ r *rand.Rand }

func (s seededReader) Read(p []byte) (int, error) { return s.r.Read(p) }

func keyType(name string) (int, int) {
	switch name {
	case "rsa":
		return crypto.RSA, 2048
	case "ecdsa":
		return crypto.ECDSA, 0
	case "secp256k1":
		return crypto.Secp256k1, 0
	}
	return crypto.Ed25519, 0
}

// LoadKeys returns the four agents' keys for a key profile: "ed25519", "ecdsa", "secp256k1", "rsa"
// (all agents that type) or "mixed" (kS rsa, kS2 ed25519, kC ecdsa, kA secp256k1).
func LoadKeys(profile string, seed int64) (*Keys, error) {
	ck := fmt.Sprintf("%s/%d", profile, seed)
	if v, ok := keyCache.Load(ck); ok {
		return v.(*Keys), nil
	}
	k := &Keys{Profile: profile, Priv: map[string]crypto.PrivKey{}, Pub: map[string]crypto.PubKey{}, PubB: map[string][]byte{},
		ID: map[string]peer.ID{}, Type: map[string]string{}}
	mixed := map[string]string{"kS": "rsa", "kS2": "ed25519", "kC": "ecdsa", "kA": "secp256k1"}
	for i, a := range []string{"kS", "kS2", "kC", "kA"} {
		tn := profile
		if profile == "mixed" {
			tn = mixed[a]
		}
		typ, bits := keyType(tn)
		priv, pub, err := crypto.GenerateKeyPairWithReader(typ, bits, seededReader{rand.New(rand.NewSource(seed*1000 + int64(i)))})
		if err != nil {
			return nil, err
		}
		pb, err := crypto.MarshalPublicKey(pub)
		if err != nil {
			return nil, err
		}
		id, err := peer.IDFromPublicKey(pub)
		if err != nil {
			return nil, err
		}
		k.Priv[a], k.Pub[a], k.PubB[a], k.ID[a], k.Type[a] = priv, pub, pb, id, tn
	}
	keyCache.Store(ck, k)
	return k, nil
}

func (k *Keys) owner(pub crypto.PubKey) string {
	for _, a := range []string{"kS", "kS2", "kC", "kA"} {
		if k.Pub[a].Equals(pub) {
			return a
		}
	}
	return ""
}

func (k *Keys) nameOfID(id peer.ID) string {
	for a, i := range k.ID {
		if i == id {
			return a
		}
	}
	return "unknown:" + id.String()
}

// Payload is the harness's own encoding of the signed data (libp2p HTTP Peer-ID auth spec): the
// scheme, then for each parameter in lexicographic key order uvarint(len("k=v")) "k=v". It is
// deliberately independent of handshake.genDataToSign.
func Payload(kind string, chal, pub []byte, host string) []byte {
	type kv struct {
		k string
		v []byte
	}
	var ps []kv
	if kind == "cli" {
		ps = []kv{{"challenge-client", chal}, {"hostname", []byte(host)}, {"server-public-key", pub}}
	} else {
		ps = []kv{{"challenge-server", chal}, {"client-public-key", pub}, {"hostname", []byte(host)}}
	}
	sort.Slice(ps, func(i, j int) bool { return ps[i].k < ps[j].k })
	b := []byte(Scheme)
	for _, p := range ps {
		b = binary.AppendUvarint(b, uint64(len(p.k)+1+len(p.v)))
		b = append(b, p.k...)
		b = append(b, '=')
		b = append(b, p.v...)
	}
	return b
}

// ParseParams is the harness's own (lenient) reader of the headers the real code emits.
func ParseParams(h string) map[string]string {
	out := map[string]string{}
	i := strings.Index(h, Scheme)
	if i < 0 {
		return out
	}
	for _, f := range strings.FieldsFunc(h[i+len(Scheme):], func(r rune) bool { return r == ' ' || r == ',' }) {
		k, v, ok := strings.Cut(f, "=")
		if !ok || len(v) < 2 {
			continue
		}
		out[k] = strings.Trim(v, `"`)
	}
	return out
}

func B64(b []byte) string { return base64.URLEncoding.EncodeToString(b) }
func unB64(s string) []byte {
	b, err := base64.URLEncoding.DecodeString(s)
	if err != nil {
		return nil
	}
	return b
}

// ---------------------------------------------------------------------------------------------
// the system under test

// World is what a System is built from.
type World struct {
	Keys     *Keys
	HmacKey  map[string][]byte // server name -> secret
	SrvKey   map[string]string // server name -> key name
	Host     map[string]string // model hostname -> concrete
	TokenTTL time.Duration
}

func (w *World) SrvPriv(srv string) crypto.PrivKey { return w.Keys.Priv[w.SrvKey[srv]] }
func (w *World) SrvPubB(srv string) []byte         { return w.Keys.PubB[w.SrvKey[srv]] }

// ServerObs is what one request to a server produced, as the application sees it.
type ServerObs struct {
	Accepted bool    // a peer ID was reported to the application (Run()==nil && PeerID() / Next called)
	Peer     peer.ID // the reported ID
	Reason   string  // normalised reject reason: hmac expired kind host nokey sig nochs parse other
	Detail   string
	WWW      string // WWW-Authenticate value of the answer
	Info     string // Authentication-Info value of the answer
}

type ClientObs struct {
	Err      error
	Authz    string  // Authorization value the client sends next ("" if none)
	Reported bool    // the client reports a server ID now
	Peer     peer.ID // that ID
	Done     bool
	Bearers  []string // bearer values the client sent in requests during this delivery
}

type Client interface {
	// Coarse: only the final outcome of the whole exchange is observable (AuthenticatedDo); the
	// per-step results and the state are then not compared with the model (L1 still applies).
	Coarse() bool
	// Start: mode "ci" (client-initiated, no token for the hostname), "si" (a stale token is refused:
	// the next delivery is the server's 401 with its challenge), "tok" (whatever the client's own
	// token cache makes it do; only meaningful for sessions of a shared client)
	Start(mode string) (authz string, err error)
	// Deliver: kind "www" (WWW-Authenticate, 401), "info" (Authentication-Info, 200) or "status:NNN"
	// (an answer without authentication headers)
	Deliver(kind string, val string) ClientObs
	Clone() Client // an independent copy in the same state (nil if unsupported)
	State() string // sc vas vc wfb done, "" if unknown
}

type System interface {
	Name() string
	Server(srv, host, authz string) ServerObs
	Now() time.Time
	Advance(d time.Duration)
	At(t time.Time, f func()) bool // run f with the clock at t, then restore; false if unsupported
	NewClient(host string) Client
}

// ---------------------------------------------------------------------------------------------
// the family of secret pairs for "a second server with another secret"

type SecretPair struct {
	Name       string
	A, B       []byte // B == nil: the second server uses its auto-generated default secret
	Equivalent bool   // HMAC itself cannot tell the two apart (RFC 2104 zero-pads keys up to the block size)
}

func hmacNormal(k []byte) []byte {
	if len(k) > 64 {
		h := sha256.Sum256(k)
		k = h[:]
	}
	return append(append([]byte{}, k...), make([]byte, 64-len(k))...)
}

var SecretLens = []int{1, 16, 31, 32, 33, 45, 48, 64, 65, 128}
var SecretDiffs = []string{"first", "last", "byte31", "byte32", "byte33", "length-only", "trailing-zeros", "auto-default"}

// SecretFamily: every length x every place where the second secret differs from the first.
func SecretFamily(seed int64) []SecretPair {
	rnd := rand.New(rand.NewSource(seed*7907 + 13))
	var out []SecretPair
	for _, n := range SecretLens {
		a := make([]byte, n)
		for i := range a {
			a[i] = byte(1 + rnd.Intn(255)) // no zero bytes, so zero-padding never hides a difference by accident
		}
		for _, d := range SecretDiffs {
			b := append([]byte{}, a...)
			idx := -1
			switch d {
			case "first":
				idx = 0
			case "last":
				idx = n - 1
			case "byte31":
				idx = 31
			case "byte32":
				idx = 32
			case "byte33":
				idx = 33
			case "length-only":
				b = append(b, byte(1+rnd.Intn(255)))
			case "trailing-zeros":
				b = append(b, make([]byte, 1+rnd.Intn(4))...)
			case "auto-default":
				b = nil
			}
			if idx >= n {
				continue
			}
			if idx >= 0 {
				b[idx] ^= byte(1 << rnd.Intn(8))
			}
			p := SecretPair{Name: fmt.Sprintf("len%d/%s", n, d), A: a, B: b}
			p.Equivalent = b != nil && bytes.Equal(hmacNormal(a), hmacNormal(b))
			out = append(out, p)
		}
	}
	// the default configuration: neither server is given a secret (each draws its own)
	out = append(out, SecretPair{Name: "both-default"}, SecretPair{Name: "both-default-again"})
	return out
}

// SecretMatrix: for every pair of the family and both directions, state minted by one server
// (challenge blob with a valid signature, bearer token, the same state re-MAC'd under the other
// secret) is presented to the other server, which has the same identity key and hostname: it must
// never report a peer.
func SecretMatrix(mk func(*World) System, res *vfh.Result, profile string) error {
	if profile == "" {
		profile = "ed25519"
	}
	keys, err := LoadKeys(profile, vfh.Seed())
	if err != nil {
		return err
	}
	host := "alpha.example.com"
	var names []string
	neq := 0
	for _, p := range SecretFamily(vfh.Seed()) {
		names = append(names, p.Name)
		if p.Equivalent {
			neq++
		}
		for dir := 0; dir < 2; dir++ {
			w := &World{Keys: keys, HmacKey: map[string][]byte{"S": p.A, "S2": p.B}, SrvKey: map[string]string{"S": "kS", "S2": "kS"},
				Host: map[string]string{"h1": host, "h2": "beta.example.com:8443"}, TokenTTL: time.Hour}
			sys := mk(w)
			from, to := "S", "S2"
			if dir == 1 {
				from, to = "S2", "S"
			}
			bad := func(cls, what string, o ServerObs, hdr string) {
				if p.Equivalent {
					res.Inc("hmac_equivalent_secret_accepts", 1)
					return
				}
				res.AddMismatch(vfh.Mismatch{Class: cls, Walk: -1, What: fmt.Sprintf("secrets %s (%d and %d bytes): server %s reports %s for %s minted by server %s under the other secret",
					p.Name, len(p.A), len(p.B), to, keys.nameOfID(o.Peer), what, from), Expected: "rejected", Got: map[string]any{"header": hdr, "secretA": B64(p.A), "secretB": B64(p.B)}})
			}
			m := sys.Server(from, host, "")
			mp := ParseParams(m.WWW)
			if mp["opaque"] == "" || mp["challenge-client"] == "" {
				return fmt.Errorf("secret matrix %s: no challenge from %s: %+v", p.Name, from, m)
			}
			sig, err := keys.Priv["kA"].Sign(Payload("cli", []byte(mp["challenge-client"]), keys.PubB["kS"], host))
			if err != nil {
				return err
			}
			vhdr := func(opaque string) string {
				return compose([]param{{k: "public-key", raw: keys.PubB["kA"]}, {k: "opaque", txt: opaque}, {k: "sig", raw: sig}, {k: "challenge-server", txt: aNonceStr}})
			}
			res.Inc("secret_matrix_requests", 1)
			if o := sys.Server(to, host, vhdr(mp["opaque"])); o.Accepted {
				bad("srv-accepts-foreign-opaque", "a challenge state", o, vhdr(mp["opaque"]))
			}
			own := sys.Server(from, host, vhdr(mp["opaque"]))
			tok := ParseParams(own.Info)["bearer"]
			if !own.Accepted || tok == "" {
				res.AddMismatch(vfh.Mismatch{Class: "L2:secret-matrix-own-state-refused", Walk: -1, What: "server " + from + " refuses its own challenge state with secrets " + p.Name + ": " + own.Detail})
				continue
			}
			bhdr := func(t string) string { return compose([]param{{k: "bearer", txt: t}}) }
			res.Inc("secret_matrix_requests", 3)
			if o := sys.Server(to, host, bhdr(tok)); o.Accepted {
				bad("srv-accepts-foreign-token", "a bearer token", o, bhdr(tok))
			}
			if o := sys.Server(from, host, bhdr(tok)); !o.Accepted {
				res.AddMismatch(vfh.Mismatch{Class: "L2:secret-matrix-own-state-refused", Walk: -1, What: "server " + from + " refuses its own token with secrets " + p.Name + ": " + o.Detail})
			}
			// the same states re-MAC'd under the other server's secret (and under prefixes of the verifier's
			// own secret that an implementation might wrongly key with), presented to the minting server
			remac := map[string][]byte{"other-secret": w.HmacKey[to]}
			if own := w.HmacKey[from]; len(own) > 1 {
				remac["own-secret-minus-last-byte"] = own[:len(own)-1]
				if len(own) > 32 {
					remac["own-secret-first-32"] = own[:32]
				}
				if len(own) > 64 {
					remac["own-secret-first-64"] = own[:64]
				}
			}
			for tag, k := range remac {
				if k == nil || bytes.Equal(hmacNormal(k), hmacNormal(w.HmacKey[from])) {
					continue
				}
				for kind, b64 := range map[string]string{"opaque": mp["opaque"], "bearer": tok} {
					raw := unB64(b64)
					if len(raw) < 32 {
						continue
					}
					h := hmac.New(sha256.New, k)
					h.Write(raw[32:])
					forged := B64(append(h.Sum(nil), raw[32:]...))
					hdr := bhdr(forged)
					cls := "srv-accepts-altered-token"
					if kind == "opaque" {
						hdr, cls = vhdr(forged), "srv-accepts-altered-opaque"
					}
					res.Inc("secret_matrix_requests", 1)
					if o := sys.Server(from, host, hdr); o.Accepted {
						res.AddMismatch(vfh.Mismatch{Class: cls, Walk: -1, What: fmt.Sprintf("secrets %s: server %s accepts its own %s state re-MAC'd under %s", p.Name, from, kind, tag),
							Expected: "rejected", Got: map[string]any{"header": hdr}})
					}
				}
			}
			if c, ok := sys.(interface{ Close() }); ok {
				c.Close()
			}
		}
	}
	res.Set("secret_pair_family", names)
	res.Set("secret_pairs", len(names))
	res.Set("secret_pairs_hmac_equivalent", neq)
	res.Set("secret_lengths", SecretLens)
	res.Set("secret_differences", SecretDiffs)
	return nil
}

// ---------------------------------------------------------------------------------------------
// the family of hostname pairs that a careless normalisation would merge

type HostPair struct{ Name, A, B string }

func HostFamily() []HostPair {
	return []HostPair{
		{"other-port", "alpha.example.com:4001", "alpha.example.com:4002"},
		{"default-port-vs-none", "alpha.example.com", "alpha.example.com:443"},
		{"port-80-vs-none", "alpha.example.com", "alpha.example.com:80"},
		{"letter-case", "alpha.example.com", "Alpha.Example.COM"},
		{"letter-case-with-port", "alpha.example.com:8443", "ALPHA.example.com:8443"},
		{"trailing-dot", "alpha.example.com", "alpha.example.com."},
		{"ipv6-port", "[2001:db8::1]:443", "[2001:db8::1]:8443"},
		{"ipv6-brackets-port-vs-none", "[2001:db8::1]", "[2001:db8::1]:443"},
		{"ipv6-zero-compression", "[2001:db8::1]:443", "[2001:db8:0:0:0:0:0:1]:443"},
		{"ipv4-port", "192.0.2.7:443", "192.0.2.7:8443"},
		{"userinfo", "alpha.example.com", "user@alpha.example.com"},
		{"prefix", "alpha.example.com", "alpha.example.com.evil.example"},
		{"suffix", "example.com", "alpha.example.com"},
		{"prefix-no-dot", "alpha.example.com", "alpha.example.community"},
		{"leading-space-trim", "alpha.example.com", "alpha.example.com "},
		{"punycode-case", "xn--bcher-kva.example", "XN--BCHER-KVA.example"},
	}
}

// ---------------------------------------------------------------------------------------------
// lifetimes: every artefact aged across every boundary, for several configurations of TokenTTL

var TokenTTLs = []time.Duration{0, time.Second, time.Minute, ChallengeTTL - time.Nanosecond, ChallengeTTL, ChallengeTTL + time.Nanosecond,
	2 * ChallengeTTL, time.Hour, 24 * time.Hour}

// TimeMatrix: for each TokenTTL (smaller than, equal to, larger than the challenge lifetime; tiny and
// large) a server-initiated challenge state, a client-initiated challenge state (each with a valid
// signature) and a bearer token are minted, the clock is advanced by an age just below / at / just
// above each of the two lifetimes, and each artefact is presented.  L1 (the statement): a challenge
// state older than the challenge lifetime is never accepted and mints no token, a token older than
// TokenTTL is never accepted - whatever the other lifetime is.  L2: younger ones are accepted.
func TimeMatrix(mk func(*World) System, res *vfh.Result, profile string) error {
	if profile == "" {
		profile = "ed25519"
	}
	keys, err := LoadKeys(profile, vfh.Seed())
	if err != nil {
		return err
	}
	host := "alpha.example.com"
	for _, ttl := range TokenTTLs {
		w := &World{Keys: keys, HmacKey: map[string][]byte{"S": []byte("time-matrix-secret-S"), "S2": []byte("time-matrix-secret-S2")},
			SrvKey: map[string]string{"S": "kS", "S2": "kS"}, Host: map[string]string{"h1": host}, TokenTTL: ttl}
		sys := mk(w)
		ageSet := map[time.Duration]bool{0: true, time.Nanosecond: true, 2*max(ttl, ChallengeTTL) + time.Second: true, 400 * 24 * time.Hour: true}
		for _, b := range []time.Duration{ttl, ChallengeTTL} {
			for _, e := range []time.Duration{-time.Second, -time.Nanosecond, 0, time.Nanosecond, time.Second} {
				if b+e >= 0 {
					ageSet[b+e] = true
				}
			}
		}
		var ages []time.Duration
		for a := range ageSet {
			ages = append(ages, a)
		}
		sort.Slice(ages, func(i, j int) bool { return ages[i] < ages[j] })
		for _, age := range ages {
			// mint at t0
			si := ParseParams(sys.Server("S", host, "").WWW)
			ci := ParseParams(sys.Server("S", host, compose([]param{{k: "challenge-server", txt: aNonceStr}, {k: "public-key", raw: keys.PubB["kA"]}})).WWW)
			tk := ParseParams(sys.Server("S", host, "").WWW)
			if si["opaque"] == "" || ci["opaque"] == "" || tk["opaque"] == "" {
				return fmt.Errorf("time matrix: no challenge issued")
			}
			sign := func(ch string) []byte {
				sg, err := keys.Priv["kA"].Sign(Payload("cli", []byte(ch), keys.PubB["kS"], host))
				if err != nil {
					panic(err)
				}
				return sg
			}
			vh := func(p map[string]string, withPk bool) string {
				ps := []param{{k: "opaque", txt: p["opaque"]}, {k: "sig", raw: sign(p["challenge-client"])}, {k: "challenge-server", txt: aNonceStr}}
				if withPk {
					ps = append(ps, param{k: "public-key", raw: keys.PubB["kA"]})
				}
				return compose(ps)
			}
			own := sys.Server("S", host, vh(tk, true))
			token := ParseParams(own.Info)["bearer"]
			if !own.Accepted || token == "" {
				res.AddMismatch(vfh.Mismatch{Class: "L2:time-matrix-fresh-refused", Walk: -1, What: fmt.Sprintf("TokenTTL=%v: a fresh handshake is refused: %s", ttl, own.Detail)})
				continue
			}
			sys.Advance(age)
			type probe struct {
				what string
				hdr  string
				life time.Duration
				cls  string
			}
			never := -time.Nanosecond // lifetime of something that is never acceptable in that slot
			emptySig := func() []byte {
				sg, _ := keys.Priv["kA"].Sign(Payload("cli", nil, keys.PubB["kS"], host))
				return sg
			}
			csPk := []param{{k: "challenge-server", txt: aNonceStr}, {k: "public-key", raw: keys.PubB["kA"]}}
			for _, pr := range []probe{
				{"server-initiated challenge state", vh(si, true), ChallengeTTL, "srv-accepts-expired-challenge"},
				{"client-initiated challenge state", vh(ci, false), ChallengeTTL, "srv-accepts-expired-challenge"},
				{"bearer token", compose([]param{{k: "bearer", txt: token}}), ttl, "srv-accepts-expired-token"},
				// mixed-state headers: the same token next to the parameters of the other states
				{"bearer token + challenge-server + public-key", compose(append([]param{{k: "bearer", txt: token}}, csPk...)), ttl, "srv-accepts-expired-token"},
				{"bearer token + challenge-server + public-key + opaque", compose(append([]param{{k: "bearer", txt: token}, {k: "opaque", txt: si["opaque"]}}, csPk...)), ttl, "srv-accepts-expired-token"},
				{"bearer token + sig", compose([]param{{k: "bearer", txt: token}, {k: "sig", raw: emptySig()}}), ttl, "srv-accepts-expired-token"},
				{"challenge state + sig + bearer token", vh(si, true) + `, bearer="` + token + `"`, ChallengeTTL, "srv-accepts-expired-challenge"},
				// cross-field reuse: every blob in the slot it was not made for
				{"server-initiated challenge state as bearer", compose([]param{{k: "bearer", txt: si["opaque"]}}), never, "srv-accepts-challenge-as-token"},
				{"client-initiated challenge state as bearer", compose([]param{{k: "bearer", txt: ci["opaque"]}}), never, "srv-accepts-challenge-as-token"},
				{"challenge state as bearer + challenge-server + public-key", compose(append([]param{{k: "bearer", txt: si["opaque"]}}, csPk...)), never, "srv-accepts-challenge-as-token"},
				{"bearer token as opaque", compose(append([]param{{k: "opaque", txt: token}, {k: "sig", raw: emptySig()}}, csPk...)), never, "srv-accepts-token-as-challenge"},
			} {
				o := sys.Server("S", host, pr.hdr)
				// whatever this answer carries must not be a token unless a signature was just verified
				if !o.Accepted {
					for _, blob := range []string{ParseParams(o.WWW)["opaque"], ParseParams(o.Info)["bearer"]} {
						if blob == "" {
							continue
						}
						res.Inc("time_matrix_requests", 1)
						if o2 := sys.Server("S", host, compose([]param{{k: "bearer", txt: blob}})); o2.Accepted {
							res.AddMismatch(vfh.Mismatch{Class: "srv-accepts-challenge-as-token", Walk: -1, What: fmt.Sprintf("the blob the server emitted in answer to a %s of age %v (TokenTTL %v), without verifying any signature, is accepted as a bearer token for %s",
								pr.what, age, ttl, keys.nameOfID(o2.Peer)), Expected: "rejected", Got: map[string]any{"first": pr.hdr, "blob": blob}})
						}
					}
				}
				res.Inc("time_matrix_requests", 1)
				res.Case(fmt.Sprintf("time|%s|ttl=%v|age-life=%v|%v", pr.what, ttl, age-pr.life, o.Accepted))
				minted := ParseParams(o.Info)["bearer"] != ""
				switch {
				case age > pr.life && (o.Accepted || minted):
					res.AddMismatch(vfh.Mismatch{Class: pr.cls, Walk: -1, What: fmt.Sprintf("a %s of age %v (lifetime %v, TokenTTL %v, challenge lifetime %v) is accepted (peer reported: %v, token minted: %v)",
						pr.what, age, pr.life, ttl, ChallengeTTL, o.Accepted, minted), Expected: "rejected", Got: map[string]any{"reported": keys.nameOfID(o.Peer), "age": age.String(), "TokenTTL": ttl.String()}})
				case age <= pr.life && !o.Accepted && pr.life != never:
					res.AddMismatch(vfh.Mismatch{Class: "L2:rejects-unexpired", Walk: -1, What: fmt.Sprintf("a %s of age %v (lifetime %v, TokenTTL %v) is refused: %s", pr.what, age, pr.life, ttl, o.Detail)})
				}
			}
		}
		if c, ok := sys.(interface{ Close() }); ok {
			c.Close()
		}
	}
	var ts []string
	for _, t := range TokenTTLs {
		ts = append(ts, t.String())
	}
	res.Set("token_ttls", ts)
	return nil
}

// ServerHostMatrix: one server with two valid hostnames of a confusable pair.  For both flows
// (server-initiated, client-initiated), every leg's header produced for hA (as produced, i.e. signed
// for hA, and re-signed by the attacker for hB) is replayed under hB, in both directions of the pair.
// L1: no peer reported, no token minted.  Vacuity guard per cell: the same header is accepted under hA.
// A bearer token under the other name: the code does not compare the token's hostname on the bearer
// path and the statement does not name the hostname for tokens; recorded (L2), not judged.
func ServerHostMatrix(mk func(*World) System, res *vfh.Result, profile string) error {
	if profile == "" {
		profile = "ed25519"
	}
	keys, err := LoadKeys(profile, vfh.Seed())
	if err != nil {
		return err
	}
	var names []string
	cells := map[string]int{}
	for _, hp := range HostFamily() {
		names = append(names, hp.Name)
		for dir := 0; dir < 2; dir++ {
			a, b := hp.A, hp.B
			if dir == 1 {
				a, b = b, a
			}
			w := &World{Keys: keys, HmacKey: map[string][]byte{"S": []byte("host-matrix-secret-S"), "S2": []byte("host-matrix-secret-S2")},
				SrvKey: map[string]string{"S": "kS", "S2": "kS"}, Host: map[string]string{"h1": a, "h1a": b}, TokenTTL: time.Hour}
			sys := mk(w)
			sign := func(ch, host string) []byte {
				sg, err := keys.Priv["kA"].Sign(Payload("cli", []byte(ch), keys.PubB["kS"], host))
				if err != nil {
					panic(err)
				}
				return sg
			}
			for _, flow := range []string{"server-initiated", "client-initiated"} {
				// leg 1 under hA
				leg1 := ""
				if flow == "client-initiated" {
					leg1 = compose([]param{{k: "challenge-server", txt: aNonceStr}, {k: "public-key", raw: keys.PubB["kA"]}})
				}
				m := ParseParams(sys.Server("S", a, leg1).WWW)
				if m["opaque"] == "" || m["challenge-client"] == "" {
					return fmt.Errorf("host matrix: no challenge for %q (%s)", a, flow)
				}
				for _, signedFor := range []string{"hA", "hB"} {
					sh := a
					if signedFor == "hB" {
						sh = b
					}
					ps := []param{{k: "opaque", txt: m["opaque"]}, {k: "sig", raw: sign(m["challenge-client"], sh)}}
					if flow == "server-initiated" {
						ps = append(ps, param{k: "public-key", raw: keys.PubB["kA"]}, param{k: "challenge-server", txt: aNonceStr})
					}
					hdr := compose(ps)
					cell := fmt.Sprintf("%s/final-leg/signed-for-%s/dir%d", flow, signedFor, dir)
					res.Inc("host_matrix_requests", 1)
					o := sys.Server("S", b, hdr)
					if o.Accepted || ParseParams(o.Info)["bearer"] != "" {
						res.AddMismatch(vfh.Mismatch{Class: "srv-accepts-wrong-hostname", Walk: -1,
							What: fmt.Sprintf("%s flow, pair %s: the final leg (opaque + sig) produced for %q, signature over %q, is accepted in a request to %q (peer reported: %v, token minted: %v)",
								flow, hp.Name, a, sh, b, o.Accepted, ParseParams(o.Info)["bearer"] != ""), Expected: "rejected", Got: map[string]any{"header": hdr, "reported": keys.nameOfID(o.Peer)}})
					}
					if signedFor == "hA" {
						// vacuity guard: the very same header is a valid final leg under hA
						own := sys.Server("S", a, hdr)
						if !own.Accepted || own.Peer != keys.ID["kA"] {
							return fmt.Errorf("host matrix: vacuous cell %s for pair %s: the header is not accepted under its own hostname %q: %s", cell, hp.Name, a, own.Detail)
						}
						cells[cell]++
						tok := ParseParams(own.Info)["bearer"]
						if tok != "" && flow == "server-initiated" {
							res.Inc("host_matrix_requests", 1)
							if o := sys.Server("S", b, compose([]param{{k: "bearer", txt: tok}})); o.Accepted {
								res.Inc("tokens_accepted_under_other_host", 1)
								res.AddMismatch(vfh.Mismatch{Class: "L2:token-accepted-under-other-host", Walk: -1,
									What: fmt.Sprintf("the server accepts the bearer token it minted for Host %q in a request with Host %q (the bearer path does not compare the token's hostname)", a, b)})
							}
						}
					} else {
						cells[cell]++
					}
				}
				// leg 1 itself under hB reports nobody (it only mints)
				res.Inc("host_matrix_requests", 1)
				if o := sys.Server("S", b, leg1); o.Accepted {
					res.AddMismatch(vfh.Mismatch{Class: "srv-reports-peer-without-credentials", Walk: -1, What: flow + ": first leg reports a peer"})
				}
				cells[flow+"/first-leg/dir"+fmt.Sprint(dir)]++
			}
			if c, ok := sys.(interface{ Close() }); ok {
				c.Close()
			}
		}
	}
	for _, flow := range []string{"server-initiated", "client-initiated"} {
		for dir := 0; dir < 2; dir++ {
			for _, c := range []string{fmt.Sprintf("%s/final-leg/signed-for-hA/dir%d", flow, dir), fmt.Sprintf("%s/final-leg/signed-for-hB/dir%d", flow, dir), fmt.Sprintf("%s/first-leg/dir%d", flow, dir)} {
				if cells[c] != len(HostFamily()) {
					return fmt.Errorf("host matrix: cell %s ran %d times for %d pairs", c, cells[c], len(HostFamily()))
				}
			}
		}
	}
	res.Set("hostname_pair_family", names)
	res.Set("server_host_matrix_cells", len(cells))
	return nil
}

// ---------------------------------------------------------------------------------------------
// ledger

type chalEntry struct {
	srv, host string
	created   time.Time
	chal      string
	cpk       []byte
	blob      []byte
}
type tokEntry struct {
	srv    string
	peer   peer.ID
	issued time.Time
	blob   []byte
}
type sigEntry struct {
	signer, kind string
	chal, pub    []byte
	host         string
	sig          []byte
}

type blob struct {
	b64  string
	raw  []byte
	kind string // si ci tok
}

type Conf struct {
	MaxT, ChalTTL, TokTTL int
	S2SameKey, Explicit   bool
	Name                  string
}

type run struct {
	w    *World
	sys  System
	res  *vfh.Result
	rnd  *rand.Rand
	conf Conf
	unit time.Duration
	file string
	lite bool // no byte sweeps / variants (handler level keeps them small)

	nonce    map[int]string
	blobs    map[string]*blob
	sigByAbs map[string][]byte
	chals    []chalEntry
	toks     []tokEntry
	sigs     []sigEntry
	lastChal string // b64 of the last minted challenge blob (what the attacker hands C as opaque)
	lastTok  string

	cli        Client
	cliHost    string
	cliSent    []string // challenge-server values C has sent in this session
	cliFed     [][]byte // server public keys fed to C in this session
	cliChalFed []string // challenge-client values fed to C in this session
	cliRep     bool
	cliProved  map[string]map[peer.ID]bool // hostname -> server IDs the (shared) client verified for it in this behaviour
	tokHost    map[string]string           // bearer value handed to the client -> hostname of the exchange it was handed in
	cliTok     string                      // the bearer value of the current exchange
	nsess      int

	walk, step    int
	prefix        []vfh.Op
	budget        map[string]int
	demand        int
	skipped       bool    // set when the current step could not be concretised
	extras        []param // parameters the attacker may add although the server must not read them in this state
	inFollowUp    bool
	extraNotEquiv bool // the extra challenge-server parameter changes the expected outcome
}

const aNonceStr = "QXR0YWNrZXJDaG9zZW5DaGFsbGVuZ2VfMDEyMzQ1Njc4OV8="

func (r *run) mismatch(cls, what string, exp, got any) {
	pre := r.prefix
	if len(pre) > 40 {
		pre = pre[len(pre)-40:]
	}
	r.res.AddMismatch(vfh.Mismatch{Class: cls, What: what, Walk: r.walk, Step: r.step, Expected: exp, Got: got,
		Prefix: append([]vfh.Op{}, pre...), Cfg: map[string]any{"file": r.file, "system": r.sys.Name(), "keys": r.w.Keys.Profile, "conf": r.conf}})
}

func (r *run) host(h string) string { return r.w.Host[h] }

func (r *run) nonceOf(n int) (string, bool) {
	switch n {
	case 0:
		return "", true
	case 99:
		return aNonceStr, true
	}
	s, ok := r.nonce[n]
	return s, ok
}

func (r *run) addSig(signer, kind string, chal, pub []byte, host string, sig []byte) {
	r.sigs = append(r.sigs, sigEntry{signer, kind, append([]byte{}, chal...), append([]byte{}, pub...), host, append([]byte{}, sig...)})
}

func (r *run) ledgerSigned(signer, kind string, chal, pub []byte, host string) (made bool, exact func([]byte) bool) {
	var all [][]byte
	for _, e := range r.sigs {
		if e.signer == signer && e.kind == kind && bytes.Equal(e.chal, chal) && bytes.Equal(e.pub, pub) && e.host == host {
			all = append(all, e.sig)
		}
	}
	return len(all) > 0, func(s []byte) bool {
		for _, x := range all {
			if bytes.Equal(x, s) {
				return true
			}
		}
		return false
	}
}

// unobtainable: a term of the behaviour cannot be concretised because the code no longer follows the
// model (an earlier step diverged); the step is skipped and the divergence recorded (L2).
type unobtainable string

func (r *run) skip(why string) {
	r.skipped = true
	r.res.Inc("steps_skipped", 1)
	r.mismatch("L2:step-skipped", "a step of the behaviour cannot be executed after an earlier divergence: "+why, nil, nil)
}

// sigFor returns concrete bytes for the abstract signature [key, kind, ch, pub, host]; honest agents'
// signatures that do not exist yet are produced by really running the honest agent (on demand).
func (r *run) sigFor(t []any) (sig []byte, has bool) {
	defer func() {
		if e := recover(); e != nil {
			if u, ok := e.(unobtainable); ok {
				r.skip(string(u))
				sig, has = nil, false
				return
			}
			panic(e)
		}
	}()
	key, kind := t[0].(string), t[1].(string)
	if key == "none" {
		return nil, false
	}
	if key == "bad" {
		b := make([]byte, 64)
		r.rnd.Read(b)
		return b, true
	}
	abs := fmt.Sprint(t)
	if s, ok := r.sigByAbs[abs]; ok {
		return s, true
	}
	ch, _ := r.nonceOf(int(t[2].(float64)))
	pubName, hostM := t[3].(string), t[4].(string)
	pub := r.w.Keys.PubB[pubName]
	host := r.host(hostM)
	switch {
	case key == "kA":
		var err error
		sig, err = r.w.Keys.Priv["kA"].Sign(Payload(kind, []byte(ch), pub, host))
		if err != nil {
			panic(err)
		}
		r.addSig("kA", kind, []byte(ch), pub, host, sig)
	case key == "kC" && kind == "cli":
		// the honest client answers a server-initiated challenge for `host` with server key `pub`
		r.demand++
		c := r.sys.NewClient(host)
		if _, err := c.Start("si"); err != nil {
			panic(unobtainable("honest client cannot start: " + err.Error()))
		}
		o := c.Deliver("www", fmt.Sprintf(`%s challenge-client="%s", public-key="%s", opaque="%s"`, Scheme, ch, B64(pub), "b3BhcXVl"))
		p := ParseParams(o.Authz)
		sig = unB64(p["sig"])
		if o.Err != nil || sig == nil {
			panic(unobtainable(fmt.Sprintf("the honest client did not sign %s on demand: %v %q", abs, o.Err, o.Authz)))
		}
		r.addSig("kC", "cli", []byte(ch), pub, host, sig)
	case kind == "srv" && (key == "kS" || key == "kS2"):
		// the honest server answers a client-initiated request (it signs any challenge and key)
		r.demand++
		srv := "S"
		if r.w.SrvKey["S"] != key {
			srv = "S2"
		}
		o := r.sys.Server(srv, host, fmt.Sprintf(`%s challenge-server="%s", public-key="%s"`, Scheme, ch, B64(pub)))
		p := ParseParams(o.WWW)
		sig = unB64(p["sig"])
		if sig == nil {
			panic(unobtainable(fmt.Sprintf("the honest server did not sign %s on demand: %+v", abs, o)))
		}
		r.noteMint(srv, host, p, pub)
		r.addSig(key, "srv", []byte(ch), pub, host, sig)
	default:
		panic(unobtainable("no way to obtain signature " + abs))
	}
	r.sigByAbs[abs] = sig
	return sig, true
}

// noteMint enters a challenge a real server just issued into the ledger.
func (r *run) noteMint(srv, host string, p map[string]string, cpk []byte) *blob {
	raw := unB64(p["opaque"])
	if raw == nil || p["challenge-client"] == "" {
		return nil
	}
	var c []byte
	kind := "si"
	if cpk != nil {
		c = append([]byte{}, cpk...)
		kind = "ci"
	}
	r.chals = append(r.chals, chalEntry{srv: srv, host: host, created: r.sys.Now(), chal: p["challenge-client"], cpk: c, blob: raw})
	return &blob{b64: p["opaque"], raw: raw, kind: kind}
}

func (r *run) noteToken(srv string, id peer.ID, b64 string) *blob {
	raw := unB64(b64)
	if raw == nil {
		return nil
	}
	r.toks = append(r.toks, tokEntry{srv: srv, peer: id, issued: r.sys.Now(), blob: raw})
	return &blob{b64: b64, raw: raw, kind: "tok"}
}

// ---------------------------------------------------------------------------------------------
// L1 oracle (ledger only)

type cands struct{ opaques, sigs, pks, bearers [][]byte }

// justify decides from the ledger alone whether `reported` may be reported by server srv for a
// request to `host` at time now carrying (any combination of) the given decoded parameters.
// malleable: justified, but the accepted signature / key bytes are not the ones the ledger knows
// (an encoding the trusted primitive also accepts).
func (r *run) justify(srv, host string, now time.Time, c cands, reported peer.ID) (ok bool, class string, malleable bool) {
	why := map[string]bool{}
	for _, b := range c.bearers {
		found := false
		for _, t := range r.toks {
			if !bytes.Equal(t.blob, b) {
				continue
			}
			found = true
			switch {
			case t.srv != srv:
				why["accepts-foreign-token"] = true
			case t.peer != reported:
				why["reports-wrong-peer"] = true
			case now.After(t.issued.Add(r.w.TokenTTL)):
				why["accepts-expired-token"] = true
			default:
				return true, "", false
			}
		}
		if !found {
			isChal := false
			for _, e := range r.chals {
				if bytes.Equal(e.blob, b) {
					isChal = true
				}
			}
			if isChal {
				why["accepts-challenge-as-token"] = true
			} else {
				why["accepts-altered-token"] = true
			}
		}
	}
	for _, ob := range c.opaques {
		found := false
		for _, e := range r.chals {
			if !bytes.Equal(e.blob, ob) {
				continue
			}
			found = true
			if e.srv != srv {
				why["accepts-foreign-opaque"] = true
				continue
			}
			if now.After(e.created.Add(ChallengeTTL)) {
				why["accepts-expired-challenge"] = true
				continue
			}
			if e.host != host {
				why["accepts-wrong-hostname"] = true
				continue
			}
			keys := c.pks
			if e.cpk != nil {
				keys = [][]byte{e.cpk}
			}
			payload := Payload("cli", []byte(e.chal), r.w.SrvPubB(srv), host)
			for _, kb := range keys {
				K, err := crypto.UnmarshalPublicKey(kb)
				if err != nil {
					why["accepts-bad-public-key"] = true
					continue
				}
				id, err := peer.IDFromPublicKey(K)
				if err != nil || id != reported {
					why["reports-wrong-peer"] = true
					continue
				}
				owner := r.w.Keys.owner(K)
				for _, sg := range c.sigs {
					if v, err := K.Verify(payload, sg); err != nil || !v {
						why["accepts-bad-signature"] = true
						continue
					}
					made, exact := r.ledgerSigned(owner, "cli", []byte(e.chal), r.w.SrvPubB(srv), host)
					if owner == "" || !made {
						why["accepts-forged-signature"] = true
						continue
					}
					mal := !exact(sg) || (e.cpk == nil && !bytes.Equal(kb, r.w.Keys.PubB[owner]))
					return true, "", mal
				}
				if len(c.sigs) == 0 {
					why["accepts-without-signature"] = true
				}
			}
			if len(keys) == 0 {
				why["accepts-without-public-key"] = true
			}
		}
		if !found {
			isTok := false
			for _, t := range r.toks {
				if bytes.Equal(t.blob, ob) {
					isTok = true
				}
			}
			if isTok {
				why["accepts-token-as-challenge"] = true
			} else {
				why["accepts-altered-opaque"] = true
			}
		}
	}
	if len(why) == 0 {
		return false, "srv-reports-peer-without-credentials", false
	}
	var ks []string
	for k := range why {
		ks = append(ks, k)
	}
	sort.Strings(ks)
	return false, "srv-" + ks[0], false
}

// ---------------------------------------------------------------------------------------------
// header composition and re-encodings

type param struct {
	k   string
	raw []byte // decoded bytes for base64 parameters (nil for text parameters)
	txt string // text for challenge parameters
}

func (p param) enc() string {
	if p.raw != nil {
		return B64(p.raw)
	}
	return p.txt
}

func compose(ps []param) string {
	var sb strings.Builder
	sb.WriteString(Scheme + " ")
	for i, p := range ps {
		if i > 0 {
			sb.WriteString(", ")
		}
		sb.WriteString(p.k + `="` + p.enc() + `"`)
	}
	return sb.String()
}

type variant struct {
	name  string
	hdr   string
	equiv bool // semantically the same request (same decoded parameters): same outcome expected (L2)
}

func nonCanonicalB64(raw []byte) (string, bool) {
	s := B64(raw)
	const alpha = "ABCDEFGHIJKLMNOPQRSTUVWXYZabcdefghijklmnopqrstuvwxyz0123456789-_"
	n := strings.Count(s, "=")
	if n == 0 {
		return s, false
	}
	i := len(s) - n - 1
	idx := strings.IndexByte(alpha, s[i])
	if idx < 0 || idx&1 != 0 {
		return s, false
	}
	return s[:i] + string(alpha[idx|1]) + s[i+1:], true // set an unused trailing bit
}

// variants returns re-encodings of the request: reordered, re-separated, duplicated, re-based,
// dropped parameters.
func (r *run) variants(ps []param, withNewline bool) []func() variant {
	var out []func() variant
	add := func(name string, equiv bool, hdr func() string) {
		out = append(out, func() variant { return variant{name, hdr(), equiv} })
	}
	add("reversed", true, func() string {
		rev := make([]param, len(ps))
		for i := range ps {
			rev[len(ps)-1-i] = ps[i]
		}
		return compose(rev)
	})
	seps := func() string {
		sh := append([]param{}, ps...)
		r.rnd.Shuffle(len(sh), func(i, j int) { sh[i], sh[j] = sh[j], sh[i] })
		var sb strings.Builder
		sb.WriteString(Scheme)
		for _, p := range sh {
			sb.WriteString([]string{" ", "  ", " , ", ",", ",,  "}[r.rnd.Intn(5)])
			sb.WriteString(p.k + `="` + p.enc() + `"`)
		}
		return sb.String()
	}
	add("separators", true, seps)
	// the code's parser refuses trailing separators (errInvalid): not equivalent, but must stay safe
	add("trailing-separator", false, func() string { return seps() + []string{" ", ",", " , "}[r.rnd.Intn(3)] })
	add("other-scheme-first", true, func() string { return "Basic Zm9vOmJhcg==, " + compose(ps) })
	add("unknown-param", true, func() string {
		return compose(append([]param{{k: "realm", txt: "x"}}, append(append([]param{}, ps...), param{k: "nonce", txt: "1"})...))
	})
	for i, p := range ps {
		junk := param{k: p.k, txt: "AAAA"}
		add("dup-junk-first:"+p.k, true, func() string { // the last occurrence wins
			return compose(append(append(append([]param{}, ps[:i]...), junk), ps[i:]...))
		})
		add("dup-junk-last:"+p.k, false, func() string { return compose(append(append([]param{}, ps...), junk)) })
		add("drop:"+p.k, false, func() string { return compose(append(append([]param{}, ps[:i]...), ps[i+1:]...)) })
		if p.raw != nil {
			re := func(s string) string {
				q := append([]param{}, ps...)
				q[i] = param{k: p.k, txt: s}
				return compose(q)
			}
			if s, ok := nonCanonicalB64(p.raw); ok {
				add("b64-trailing-bits:"+p.k, true, func() string { return re(s) })
			}
			raws := base64.RawURLEncoding.EncodeToString(p.raw)
			add("b64-nopad:"+p.k, raws == B64(p.raw), func() string { return re(raws) })
			std := base64.StdEncoding.EncodeToString(p.raw)
			add("b64-std:"+p.k, std == B64(p.raw), func() string { return re(std) })
			if withNewline {
				add("b64-newline:"+p.k, true, func() string { s := B64(p.raw); return re(s[:len(s)/2] + "\r\n" + s[len(s)/2:]) })
			}
			add("b64-doubled:"+p.k, false, func() string { return re(B64([]byte(B64(p.raw)))) })
		}
		add("unquoted:"+p.k, false, func() string {
			return strings.Replace(compose(ps), p.k+`="`+p.enc()+`"`, p.k+"="+p.enc(), 1)
		})
		add("upper-key:"+p.k, false, func() string { return strings.Replace(compose(ps), p.k+`="`, strings.ToUpper(p.k)+`="`, 1) })
	}
	for _, x := range r.extras {
		eq := x.k != "bearer" && x.k != "sig" && x.k != "opaque" && !(x.k == "challenge-server" && r.extraNotEquiv)
		add("extra:"+x.k, eq, func() string { return compose(append(append([]param{}, ps...), x)) })
		add("extra-first:"+x.k, eq, func() string { return compose(append([]param{x}, ps...)) })
	}
	add("scheme-lower", false, func() string { return strings.Replace(compose(ps), Scheme, strings.ToLower(Scheme), 1) })
	add("twice", true, func() string { return compose(ps) + ", " + compose(ps) })
	return out
}

func candsOf(ps []param, extra ...param) cands {
	var c cands
	for _, p := range append(append([]param{}, ps...), extra...) {
		if p.raw == nil {
			continue
		}
		switch p.k {
		case "opaque":
			c.opaques = append(c.opaques, p.raw)
		case "sig":
			c.sigs = append(c.sigs, p.raw)
		case "public-key":
			c.pks = append(c.pks, p.raw)
		case "bearer":
			c.bearers = append(c.bearers, p.raw)
		}
	}
	return c
}

// ---------------------------------------------------------------------------------------------
// byte-level alteration families

type altered struct {
	name string
	b    []byte
}

// family is a lazily materialised, indexable list of alterations.
type family struct {
	n  int
	at func(i int) altered
}

func cat(fs ...family) family {
	n := 0
	for _, f := range fs {
		n += f.n
	}
	return family{n, func(i int) altered {
		for _, f := range fs {
			if i < f.n {
				return f.at(i)
			}
			i -= f.n
		}
		panic("family index")
	}}
}

func thunks(l []func() altered) family { return family{len(l), func(i int) altered { return l[i]() }} }

// every bit of every byte in [from, to)
func flips(b []byte, from, to int) family {
	if to > len(b) {
		to = len(b)
	}
	if from > to {
		from = to
	}
	return family{(to - from) * 8, func(i int) altered {
		c := append([]byte{}, b...)
		c[from+i/8] ^= 1 << (i % 8)
		return altered{fmt.Sprintf("flip[%d].%d", from+i/8, i%8), c}
	}}
}

func truncs(b []byte) family {
	nb := len(b) - 1
	if nb > 40 {
		nb = 40
	}
	if nb < 0 {
		nb = 0
	}
	return family{len(b) + nb, func(i int) altered {
		if i < len(b) {
			return altered{fmt.Sprintf("trunc[%d]", i), append([]byte{}, b[:i]...)}
		}
		n := i - len(b) + 1
		return altered{fmt.Sprintf("behead[%d]", n), append([]byte{}, b[n:]...)}
	}}
}

func exts(b []byte, rnd *rand.Rand) family {
	sufs := [][]byte{{0}, {0x20}, {'}'}, []byte(`{"is-token":true}`), []byte(`,"is-token":true}`), {0xff, 0xfe}, b}
	j := make([]byte, 1+rnd.Intn(16))
	rnd.Read(j)
	sufs = append(sufs, j)
	return family{len(sufs) + 1, func(i int) altered {
		if i == len(sufs) {
			return altered{"prepend[0]", append([]byte{0}, b...)}
		}
		return altered{fmt.Sprintf("ext[%d:+%d]", i, len(sufs[i])), append(append([]byte{}, b...), sufs[i]...)}
	}}
}

var fieldOrder = []string{"is-token", "client-public-key", "peer-id", "challenge-client", "hostname", "created-time"}

func remarshal(m map[string]json.RawMessage) []byte {
	var sb bytes.Buffer
	sb.WriteByte('{')
	first := true
	for _, k := range fieldOrder {
		v, ok := m[k]
		if !ok {
			continue
		}
		if !first {
			sb.WriteByte(',')
		}
		first = false
		kb, _ := json.Marshal(k)
		sb.Write(kb)
		sb.WriteByte(':')
		sb.Write(v)
	}
	sb.WriteByte('}')
	return sb.Bytes()
}

func jstr(s string) json.RawMessage { b, _ := json.Marshal(s); return b }

// semantic returns well-formed blobs in which one field of the MAC'd state is changed; the MAC is
// kept, recomputed under the attacker's own secret, zeroed, or dropped.
func (r *run) semantic(raw []byte, field string) family {
	if len(raw) < 32 {
		return family{}
	}
	mac, js := raw[:32], raw[32:]
	var m map[string]json.RawMessage
	if err := json.Unmarshal(js, &m); err != nil {
		return family{}
	}
	if !bytes.Equal(remarshal(m), js) {
		r.mismatch("L2:opaque-layout", "the harness cannot reproduce the blob's JSON layout", string(js), string(remarshal(m)))
		return family{}
	}
	set := func(k string, v json.RawMessage) map[string]json.RawMessage {
		c := map[string]json.RawMessage{}
		for a, b := range m {
			c[a] = b
		}
		if v == nil {
			delete(c, k)
		} else {
			c[k] = v
		}
		return c
	}
	var ms []map[string]json.RawMessage
	switch field {
	case "o.tok":
		if _, ok := m["is-token"]; ok {
			ms = append(ms, set("is-token", nil), set("is-token", json.RawMessage("false")))
		} else {
			ms = append(ms, set("is-token", json.RawMessage("true")))
			c := set("is-token", json.RawMessage("true"))
			c["peer-id"] = jstr(r.w.Keys.ID["kC"].String())
			ms = append(ms, c)
		}
	case "o.cpk":
		for _, a := range []string{"kA", "kC"} {
			ms = append(ms, set("client-public-key", jstr(base64.StdEncoding.EncodeToString(r.w.Keys.PubB[a]))))
		}
		ms = append(ms, set("client-public-key", nil))
	case "o.pid":
		for _, a := range []string{"kA", "kC", "kS"} {
			ms = append(ms, set("peer-id", jstr(r.w.Keys.ID[a].String())))
		}
		ms = append(ms, set("peer-id", nil))
	case "o.ch":
		ms = append(ms, set("challenge-client", jstr(aNonceStr)), set("challenge-client", nil))
		if len(r.nonce) > 0 { // another challenge of this behaviour (the lowest numbered, for determinism)
			lo := -1
			for k := range r.nonce {
				if lo < 0 || k < lo {
					lo = k
				}
			}
			ms = append(ms, set("challenge-client", jstr(r.nonce[lo])))
		}
	case "o.host":
		for _, h := range []string{"h1", "h2"} {
			ms = append(ms, set("hostname", jstr(r.host(h))))
		}
		ms = append(ms, set("hostname", jstr("")), set("hostname", jstr(strings.ToUpper(r.host("h1")))))
	case "o.t":
		for _, d := range []time.Duration{0, time.Nanosecond, -time.Hour, 24 * time.Hour, 100 * 365 * 24 * time.Hour} {
			tb, _ := json.Marshal(r.sys.Now().Add(d))
			ms = append(ms, set("created-time", tb))
		}
	}
	akey := []byte("attacker-hmac-secret-0123456789abcdef")
	var njs [][]byte
	for _, c := range ms {
		if nj := remarshal(c); !bytes.Equal(nj, js) {
			njs = append(njs, nj)
		}
	}
	const nmac = 6
	return family{len(njs) * nmac, func(i int) altered {
		nj := njs[i/nmac]
		tag := fmt.Sprintf("%s#%d", field, i/nmac)
		switch i % nmac {
		case 0:
			return altered{tag + "/mac-kept", append(append([]byte{}, mac...), nj...)}
		case 1:
			h := hmac.New(sha256.New, akey)
			h.Write(nj)
			return altered{tag + "/mac-attacker", append(h.Sum(nil), nj...)}
		case 2:
			return altered{tag + "/mac-zero", append(make([]byte, 32), nj...)}
		case 3:
			return altered{tag + "/mac-none", nj}
		case 4: // a MAC keyed with public data an implementation might wrongly use
			h := hmac.New(sha256.New, nil)
			h.Write(nj)
			return altered{tag + "/mac-emptykey", append(h.Sum(nil), nj...)}
		}
		return altered{tag + "/sha256", append(sha256Sum(nj), nj...)}
	}}
}

func sha256Sum(b []byte) []byte { s := sha256.Sum256(b); return s[:] }

// full reports whether a full sweep is still within budget for this class of edge.
func (r *run) full(class string, n int) bool {
	if r.budget[class] >= n {
		return false
	}
	r.budget[class]++
	return true
}

// remacs: the unchanged state under a MAC keyed with another server's secret or a prefix of a secret.
func (r *run) remacs(raw []byte) family {
	if len(raw) < 32 {
		return family{}
	}
	var ks [][]byte
	for _, n := range []string{"S", "S2"} {
		k := r.w.HmacKey[n]
		if k == nil {
			continue
		}
		ks = append(ks, k)
		if len(k) > 32 {
			ks = append(ks, k[:32])
		}
		if len(k) > 1 {
			ks = append(ks, k[:len(k)-1])
		}
	}
	return family{len(ks), func(i int) altered {
		h := hmac.New(sha256.New, ks[i])
		h.Write(raw[32:])
		return altered{fmt.Sprintf("remac[%d]", i), append(h.Sum(nil), raw[32:]...)}
	}}
}

// alterations of one decoded field for abstract alteration f: the whole family while the budget of
// full sweeps for this class of edge lasts, a few random members afterwards.
func (r *run) alterations(raw []byte, f string, bkind string) []altered {
	nfull := 2
	if vfh.Thorough() {
		nfull = 8
	}
	var fam family
	switch {
	case f == "o.mac":
		fam = cat(flips(raw, 0, 32), r.remacs(raw))
	case strings.HasPrefix(f, "o.") && f != "o.trunc" && f != "o.ext":
		fam = cat(r.semantic(raw, f), flips(raw, 32, len(raw)))
	case f == "o.trunc" || f == "sig.trunc":
		fam = truncs(raw)
	case f == "o.ext" || f == "sig.ext":
		fam = exts(raw, r.rnd)
	case f == "sig" || f == "pk":
		fam = flips(raw, 0, len(raw))
	}
	k := 4
	if r.lite {
		k = 3
	} else if r.full(f+"/"+bkind, nfull) {
		k = fam.n
	}
	var out []altered
	if k >= fam.n {
		for i := 0; i < fam.n; i++ {
			out = append(out, fam.at(i))
		}
		return out
	}
	for j := 0; j < k; j++ {
		out = append(out, fam.at(r.rnd.Intn(fam.n)))
	}
	return out
}

// ---------------------------------------------------------------------------------------------
// replay

func reasonMatches(model, real string) bool {
	if model == real {
		return true
	}
	// at the handler level only the status class is visible
	switch real {
	case "401":
		return model == "hmac" || model == "expired"
	case "400":
		return model != "ok" && model != "hmac" && model != "expired"
	}
	return false
}

// serverRequest runs one concrete request, applies the L1 oracle and returns the observation.
func (r *run) serverRequest(srv, host, hdr string, c cands, what string) ServerObs {
	o := r.sys.Server(srv, host, hdr)
	r.res.Inc("server_requests", 1)
	if o.Accepted {
		r.res.Inc("server_accepts", 1)
		ok, cls, mal := r.justify(srv, host, r.sys.Now(), c, o.Peer)
		if !ok {
			r.mismatch(cls, fmt.Sprintf("server %s reports peer %s for a request to %q that the ledger does not justify (%s)", srv,
				r.w.Keys.nameOfID(o.Peer), host, what), "rejected", map[string]any{"reported": r.w.Keys.nameOfID(o.Peer), "header": hdr})
		} else if mal {
			r.res.Inc("malleable_encodings_accepted", 1)
			r.mismatch("L2:encoding-malleability:"+r.w.Keys.Type[r.w.Keys.nameOfID(o.Peer)],
				"an altered signature / public key encoding that the trusted primitive also accepts was accepted; the reported identity is still the signer's ("+what+")",
				"rejected", map[string]any{"reported": r.w.Keys.nameOfID(o.Peer), "header": hdr})
		}
		// whatever the server hands out is entered into the ledger: it really issued it
		if p := ParseParams(o.Info); p["bearer"] != "" {
			r.noteToken(srv, o.Peer, p["bearer"])
		}
	} else if ParseParams(o.Info)["bearer"] != "" {
		r.mismatch("srv-mints-token-without-report", "a bearer token is handed out although no peer was reported ("+what+")", "no token", map[string]any{"header": hdr, "info": o.Info})
	}
	// a challenge state emitted in answer to ANY request (mixed-state headers, the handler's 401s) is a
	// challenge of this server from now on - never a token
	if p := ParseParams(o.WWW); p["opaque"] != "" && p["challenge-client"] != "" {
		raw := unB64(p["opaque"])
		known := false
		for i := len(r.chals) - 1; i >= 0 && !known; i-- {
			known = bytes.Equal(r.chals[i].blob, raw)
		}
		if !known && raw != nil {
			var cpk []byte
			if p["sig"] != "" && len(c.pks) > 0 { // the server signed: client-initiated state, bound to the request's key
				cpk = c.pks[len(c.pks)-1]
			}
			r.noteMint(srv, host, p, cpk)
		}
	}
	return o
}

// followUp: cross-field reuse.  Every blob the answer carries (the opaque of WWW-Authenticate, the bearer
// of Authentication-Info) is tried in every slot that takes a blob - as bearer, and as opaque with the
// attacker's signature over the challenge that came with it - now and just past each lifetime.  The
// ledger decides: a blob emitted without a fresh verified signature is never a token.
func (r *run) followUp(srv, host string, o ServerObs, forced bool, class string) {
	if r.inFollowUp {
		return
	}
	type em struct{ b64, chal string }
	var ems []em
	if p := ParseParams(o.WWW); p["opaque"] != "" {
		ems = append(ems, em{p["opaque"], p["challenge-client"]})
	}
	if p := ParseParams(o.Info); p["bearer"] != "" {
		ems = append(ems, em{p["bearer"], ""})
	}
	if len(ems) == 0 {
		return
	}
	if !forced && !r.full("followup/"+class, map[bool]int{false: 25, true: 300}[vfh.Thorough()]) {
		return
	}
	r.inFollowUp = true
	defer func() { r.inFollowUp = false }()
	now := r.sys.Now()
	ages := []time.Duration{0, ChallengeTTL + time.Nanosecond, r.w.TokenTTL + time.Nanosecond, min(ChallengeTTL, r.w.TokenTTL)}
	for _, e := range ems {
		raw := unB64(e.b64)
		if raw == nil {
			continue
		}
		sg, err := r.w.Keys.Priv["kA"].Sign(Payload("cli", []byte(e.chal), r.w.SrvPubB(srv), host))
		if err != nil {
			panic(err)
		}
		r.addSig("kA", "cli", []byte(e.chal), r.w.SrvPubB(srv), host, sg)
		slots := [][]param{
			{{k: "bearer", raw: raw}},
			{{k: "public-key", raw: r.w.Keys.PubB["kA"]}, {k: "opaque", raw: raw}, {k: "sig", raw: sg}, {k: "challenge-server", txt: aNonceStr}},
			{{k: "bearer", raw: raw}, {k: "challenge-server", txt: aNonceStr}, {k: "public-key", raw: r.w.Keys.PubB["kA"]}},
		}
		for i, age := range ages {
			for _, ps := range slots {
				run := func() {
					r.serverRequest(srv, host, compose(ps), candsOf(ps), fmt.Sprintf("cross-field reuse of an emitted blob as %s at age %v", ps[0].k, age))
				}
				if i == 0 {
					run()
				} else if !r.sys.At(now.Add(age), run) {
					break
				}
				r.res.Inc("cross_field_requests", 1)
			}
		}
	}
}

func (r *run) doServerOp(op vfh.Op, post []any) {
	name := op.Name()
	srv, hostM := op.S("srv"), op.S("host")
	host := r.host(hostM)
	switch name {
	case "challenge", "sign":
		hdr := ""
		var cpk []byte
		var chS string
		if name == "sign" {
			chS, _ = r.nonceOf(op.I("c"))
			cpk = r.w.Keys.PubB[op.S("pk")]
			hdr = compose([]param{{k: "challenge-server", txt: chS}, {k: "public-key", raw: cpk}})
		}
		o := r.sys.Server(srv, host, hdr)
		p := ParseParams(o.WWW)
		if o.Accepted {
			r.mismatch("srv-reports-peer-without-credentials", "a peer ID was reported for a request without credentials", "no report", r.w.Keys.nameOfID(o.Peer))
		}
		b := r.noteMint(srv, host, p, cpk)
		if b == nil {
			r.mismatch("L2:mint", "the server did not issue a challenge", "challenge-client + opaque", o)
			return
		}
		ot := op.L("o")
		r.blobs[fmt.Sprint(ot)] = b
		r.nonce[int(ot[4].(float64))] = p["challenge-client"]
		defer r.followUp(srv, host, o, true, name)
		r.lastChal = b.b64
		if !bytes.Equal(unB64(p["public-key"]), r.w.SrvPubB(srv)) {
			r.mismatch("L2:server-public-key", "public-key parameter is not the server's key", B64(r.w.SrvPubB(srv)), p["public-key"])
		}
		if name == "sign" {
			sig := unB64(p["sig"])
			if v, err := r.w.Keys.Pub[r.w.SrvKey[srv]].Verify(Payload("srv", []byte(chS), cpk, host), sig); err != nil || !v {
				r.mismatch("L2:server-signature", "the server's signature does not verify over (challenge-server, client-public-key, hostname)", "valid", fmt.Sprint(err))
			}
			r.addSig(r.w.SrvKey[srv], "srv", []byte(chS), cpk, host, sig)
			r.sigByAbs[fmt.Sprint(op.L("sig"))] = sig
		} else if p["sig"] != "" {
			r.mismatch("L2:server-signature", "signature in a server-initiated challenge", "", p["sig"])
		}
	case "verify", "bearer":
		ot := op.L("o")
		b := r.blobs[fmt.Sprint(ot)]
		if b == nil {
			r.skip("blob " + fmt.Sprint(ot) + " was never issued")
			return
		}
		var ps []param
		var chS string
		if name == "verify" {
			sig, has := r.sigFor(op.L("sig"))
			if !has {
				if !r.skipped {
					r.skip("verify without signature")
				}
				return
			}
			ps = append(ps, param{k: "opaque", raw: b.raw}, param{k: "sig", raw: sig})
			if pk := op.S("pk"); pk != "none" {
				ps = append([]param{{k: "public-key", raw: r.w.Keys.PubB[pk]}}, ps...)
			}
			if c := op.I("c"); c != 0 {
				chS, _ = r.nonceOf(c)
				ps = append(ps, param{k: "challenge-server", txt: chS})
			}
		} else {
			ps = append(ps, param{k: "bearer", raw: b.raw})
		}
		mix := op.S("mix")
		forced := false
		if mix != "" && mix != "none" {
			// mixed-state header: parameters of other protocol states next to the ones that select the state
			forced = true
			if name == "verify" {
				if tb := r.blobs[fmt.Sprint(op.L("b"))]; tb != nil {
					ps = append(ps, param{k: "bearer", raw: tb.raw})
				} else {
					r.skip("token " + fmt.Sprint(op.L("b")) + " was never issued")
					return
				}
			} else {
				ps = append(ps, param{k: "challenge-server", txt: aNonceStr}, param{k: "public-key", raw: r.w.Keys.PubB["kA"]})
				if strings.HasPrefix(mix, "o+") && r.lastChal != "" {
					ps = append(ps, param{k: "opaque", raw: unB64(r.lastChal)})
				}
				if strings.HasPrefix(mix, "sig+") {
					sg, _ := r.w.Keys.Priv["kA"].Sign(Payload("cli", []byte(aNonceStr), r.w.SrvPubB(srv), host))
					ps = append(ps, param{k: "sig", raw: sg})
				}
			}
			r.res.Inc("mixed_state_requests", 1)
		}
		r.extras, r.extraNotEquiv = nil, false
		if name == "verify" {
			// the challenge the presented signature was made over, as a parameter; a token the attacker holds
			if ch, _ := r.nonceOf(int(op.L("sig")[2].(float64))); ch != "" {
				r.extras = append(r.extras, param{k: "challenge-client", txt: ch})
			}
			if r.lastTok != "" {
				r.extras = append(r.extras, param{k: "bearer", txt: r.lastTok})
			}
			if op.I("c") == 0 {
				// a challenge for the server to sign: needed (and changing the outcome) in the server-initiated
				// flow only; with a blob minted for a client key it must make no difference
				r.extras = append(r.extras, param{k: "challenge-server", txt: aNonceStr})
				r.extraNotEquiv = b.kind != "ci"
			}
		} else if r.lastChal != "" {
			r.extras = append(r.extras, param{k: "opaque", txt: r.lastChal}, param{k: "challenge-client", txt: aNonceStr})
		}
		alt := op.S("alt")
		wantRes, wantPeer := op.S("res"), op.S("peer")
		if alt == "none" {
			hdr := compose(ps)
			o := r.serverRequest(srv, host, hdr, candsOf(ps), "as composed")
			got := o.Reason
			if o.Accepted {
				got = "ok"
			}
			r.res.Case(fmt.Sprintf("%s|%s|%s|%s", name, b.kind, wantRes, got))
			if !reasonMatches(wantRes, got) {
				if wantRes == "ok" {
					r.mismatch("L2:model-accepts-real-rejects:"+name, "the model accepts this request, the code rejects it: "+o.Detail, wantRes, got)
				} else if got == "ok" {
					r.mismatch("L2:model-rejects-real-accepts:"+name, "the code accepts a request the model rejects (the ledger justifies it)", wantRes, got)
				} else {
					r.mismatch("L2:reject-reason:"+name, "rejected for another reason: "+o.Detail, wantRes, got)
				}
			}
			if o.Accepted {
				if wantPeer != "none" && o.Peer != r.w.Keys.ID[wantPeer] {
					r.mismatch("L2:peer", "reported peer differs from the model", wantPeer, r.w.Keys.nameOfID(o.Peer))
				}
				if name == "verify" {
					p := ParseParams(o.Info)
					if p["bearer"] == "" {
						r.mismatch("L2:no-token", "accepted without issuing a bearer token", "bearer", o.Info)
					} else {
						// the token term of the model: [srv, TRUE, none, peer, 0, host, now]
						now := int(post[0].(float64))
						tk := []any{srv, true, "none", r.w.Keys.nameOfID(o.Peer), 0, hostM, now}
						key := fmt.Sprint(tk)
						raw := unB64(p["bearer"])
						if old, ok := r.blobs[key]; ok {
							if !bytes.Equal(old.raw, raw) {
								// same peer, host and instant: the code mints identical tokens; not required by the statement
								r.mismatch("L2:token-not-deterministic", "two tokens for the same peer, hostname and instant differ", B64(old.raw), p["bearer"])
							}
						}
						r.blobs[key] = &blob{b64: p["bearer"], raw: raw, kind: "tok"}
						r.lastTok = p["bearer"]
					}
					if ot[2].(string) == "none" { // server-initiated flow: the server proves itself now
						sig := unB64(p["sig"])
						pkb := r.w.Keys.PubB[op.S("pk")]
						if v, err := r.w.Keys.Pub[r.w.SrvKey[srv]].Verify(Payload("srv", []byte(chS), pkb, host), sig); err != nil || !v {
							r.mismatch("L2:server-signature", "the server's signature in Authentication-Info does not verify", "valid", fmt.Sprint(err))
						}
						r.addSig(r.w.SrvKey[srv], "srv", []byte(chS), pkb, host, sig)
						r.sigByAbs[fmt.Sprint([]any{r.w.SrvKey[srv], "srv", op.I("c"), op.S("pk"), hostM})] = sig
					}
				}
				r.timeProbes(srv, host, name, ps, b)
			} else if wantRes == "expired" {
				r.timeProbes(srv, host, name, ps, b)
			}
			r.followUp(srv, host, o, forced, name+"/"+got)
			r.reencodings(srv, host, name, ps, o)
			return
		}
		// an alteration of a request that is accepted unaltered
		target := 0 // index into ps of the altered parameter
		for i, p := range ps {
			if (strings.HasPrefix(alt, "o.") && (p.k == "opaque" || p.k == "bearer")) || (strings.HasPrefix(alt, "sig") && p.k == "sig") || (alt == "pk" && p.k == "public-key") {
				target = i
			}
		}
		base := ps[target].raw
		n := 0
		for _, a := range r.alterations(base, alt, b.kind+"/"+name) {
			if bytes.Equal(a.b, base) {
				continue
			}
			q := append([]param{}, ps...)
			q[target] = param{k: ps[target].k, raw: a.b}
			if len(a.b) == 0 {
				q[target] = param{k: ps[target].k, txt: ""}
			}
			o := r.serverRequest(srv, host, compose(q), candsOf(q), alt+" "+a.name)
			n++
			if !o.Accepted && wantRes != o.Reason && !reasonMatches(wantRes, o.Reason) {
				// e.g. an altered key that no longer parses, a truncated blob that is no base64 at all: all rejections are fine
				r.res.Inc("alt_other_reason", 1)
			}
		}
		r.res.Inc("altered_requests", n)
		r.res.Case(fmt.Sprintf("%s|%s|alt:%s", name, b.kind, alt))
	}
}

// timeProbes re-sends an acceptable request around the expiry instant of its blob.
func (r *run) timeProbes(srv, host, name string, ps []param, b *blob) {
	if r.lite {
		return
	}
	var created time.Time
	ttl := ChallengeTTL
	found := false
	if name == "bearer" {
		ttl = r.w.TokenTTL
		for _, t := range r.toks {
			if bytes.Equal(t.blob, b.raw) && t.srv == srv {
				created, found = t.issued, true
			}
		}
	} else {
		for _, e := range r.chals {
			if bytes.Equal(e.blob, b.raw) && e.srv == srv {
				created, found = e.created, true
			}
		}
	}
	if !found || !r.full("time/"+name+"/"+b.kind, map[bool]int{false: 40, true: 400}[vfh.Thorough()]) {
		return
	}
	hdr := compose(ps)
	offs := []time.Duration{2 * max(ChallengeTTL, r.w.TokenTTL), 1000 * 24 * time.Hour, -time.Nanosecond, -time.Hour}
	for _, b := range []time.Duration{ChallengeTTL, r.w.TokenTTL} { // both lifetimes, whichever governs this artefact
		offs = append(offs, b-time.Nanosecond, b, b+time.Nanosecond, b+time.Second)
	}
	for _, d := range offs {
		at := created.Add(d)
		var o ServerObs
		if !r.sys.At(at, func() { o = r.serverRequest(srv, host, hdr, candsOf(ps), fmt.Sprintf("at created%+v", d)) }) {
			return
		}
		r.res.Inc("time_probes", 1)
		if d <= ttl && !o.Accepted {
			r.mismatch("L2:rejects-unexpired:"+name, fmt.Sprintf("rejected at created%+v (TTL %v): %s", d, ttl, o.Detail), "ok", o.Reason)
		}
	}
}

func (r *run) extrasDecoded() []param {
	var out []param
	for _, x := range r.extras {
		if x.k == "bearer" || x.k == "opaque" {
			out = append(out, param{k: x.k, raw: unB64(x.txt)})
		}
	}
	return out
}

// reencodings sends the same request in other encodings.
func (r *run) reencodings(srv, host, name string, ps []param, base ServerObs) {
	vs := r.variants(ps, !r.lite)
	k := 1
	if r.full("variants/"+name+"/"+base.Reason, map[bool]int{false: 6, true: 40}[vfh.Thorough()]) {
		k = len(vs)
	}
	if r.lite {
		k = 1
	}
	for _, i := range r.rnd.Perm(len(vs))[:min(k, len(vs))] {
		v := vs[i]()
		o := r.serverRequest(srv, host, v.hdr, candsOf(ps, r.extrasDecoded()...), "re-encoded: "+v.name)
		r.res.Inc("reencoded_requests", 1)
		if v.equiv && len(v.hdr) <= 2048 /* the code's maxHeaderSize */ && (o.Accepted != base.Accepted || (o.Accepted && o.Peer != base.Peer)) {
			r.mismatch("L2:reencoding:"+strings.SplitN(v.name, ":", 2)[0], "an equivalent encoding of the request has another outcome: "+o.Detail,
				map[string]any{"accepted": base.Accepted, "reason": base.Reason}, map[string]any{"accepted": o.Accepted, "reason": o.Reason, "header": v.hdr})
		}
	}
}

// ---- client side

func (r *run) clientJustified(q peer.ID, presented []byte) (bool, string) {
	name := r.w.Keys.nameOfID(q)
	pub, ok := r.w.Keys.Pub[name]
	if !ok {
		return false, "client-reports-unknown-key"
	}
	cpub := r.w.Keys.PubB["kC"]
	for _, ch := range r.cliSent {
		made, _ := r.ledgerSigned(name, "srv", []byte(ch), cpub, r.cliHost)
		if !made {
			continue
		}
		if presented == nil {
			return true, ""
		}
		if v, err := pub.Verify(Payload("srv", []byte(ch), cpub, r.cliHost), presented); err == nil && v {
			return true, ""
		}
	}
	// no fresh proof in this exchange: the client may rely on what it verified earlier for exactly this
	// hostname (its token cache), never on what it verified for another one
	if len(r.cliSent) == 0 && r.cliProved[r.cliHost][q] {
		return true, ""
	}
	for h, m := range r.cliProved {
		if h != r.cliHost && m[q] {
			return false, "client-reports-server-cached-for-other-hostname"
		}
	}
	return false, "client-reports-unproven-server"
}

// noteBearers: a bearer token handed to the client in an exchange with hostname h must never be sent
// to another hostname.
func (r *run) noteBearers(vals []string) {
	for _, v := range vals {
		if h, ok := r.tokHost[v]; ok && h != r.cliHost {
			r.mismatch("client-sends-token-to-other-hostname", fmt.Sprintf("the client sends the bearer token it obtained for %q in a request to %q", h, r.cliHost),
				"no token", v)
		}
	}
}

func (r *run) noteClientOut(authz string, fed []byte) {
	p := ParseParams(authz)
	if cs := p["challenge-server"]; cs != "" {
		r.cliSent = append(r.cliSent, cs)
	}
	if s := unB64(p["sig"]); len(s) > 0 {
		// which payload did the honest client sign?  try the keys it has been fed (it keeps the first)
		for _, pk := range r.cliFed {
			for _, ch := range r.cliChalFed {
				if v, err := r.w.Keys.Pub["kC"].Verify(Payload("cli", []byte(ch), pk, r.cliHost), s); err == nil && v {
					r.addSig("kC", "cli", []byte(ch), pk, r.cliHost, s)
					return
				}
			}
		}
		r.mismatch("L2:client-signature", "the client's signature verifies over no (challenge-client, server-public-key, hostname) it was given", "valid", authz)
	}
}

func (r *run) doClientOp(op vfh.Op, post []any) {
	cl := post[3].([]any)
	switch op.Name() {
	case "cstart":
		r.cliHost = r.host(op.S("host"))
		mode := op.S("mode")
		if ss, ok := r.sys.(interface{ NewSession(host string) Client }); ok && mode != "si" {
			r.cli = ss.NewSession(r.cliHost) // one client (token cache) for all exchanges of the behaviour
		} else {
			r.cli = r.sys.NewClient(r.cliHost)
			if mode == "tok" {
				mode = "si" // no token cache at this level: the refused token is simulated
			}
		}
		r.cliSent, r.cliFed, r.cliChalFed, r.cliRep = nil, nil, nil, false
		r.nsess++
		r.cliTok = B64([]byte(fmt.Sprintf("token-%d-for-%s", r.nsess, r.cliHost)))
		authz, err := r.cli.Start(mode)
		if err != nil {
			r.mismatch("L2:client-start", "client start failed", nil, err.Error())
			return
		}
		p := ParseParams(authz)
		if p["bearer"] != "" {
			r.noteBearers([]string{p["bearer"]})
		}
		if len(p["challenge-server"]) >= 32 {
			if mode == "ci" {
				r.nonce[op.I("chS")] = p["challenge-server"]
			}
			r.noteClientOut(authz, nil)
		}
		if mode == "ci" && !r.cli.Coarse() && (len(p["challenge-server"]) < 32 || !bytes.Equal(unB64(p["public-key"]), r.w.Keys.PubB["kC"])) {
			r.mismatch("L2:client-start", "client-initiated request lacks challenge-server / public-key", nil, authz)
		}
	case "ctok":
		// the token went out; the answer is not a 401 and carries no authentication
		if r.cli == nil || !r.cli.Coarse() {
			r.res.Inc("token_steps_not_applicable", 1)
			return
		}
		o := r.cli.Deliver("status:"+op.S("status"), "")
		r.res.Inc("client_deliveries", 1)
		r.noteBearers(o.Bearers)
		if o.Reported {
			if ok, cls := r.clientJustified(o.Peer, nil); !ok {
				r.mismatch(cls, "the client reports server "+r.w.Keys.nameOfID(o.Peer)+" for a request to "+r.cliHost+" answered with status "+op.S("status")+" and no authentication",
					"error", map[string]any{"sent": r.cliSent, "proved": fmt.Sprint(r.cliProved)})
			}
		}
		r.res.Case("ctok|" + op.S("status") + "|" + fmt.Sprint(o.Reported))
	case "cwww", "cinfo":
		if r.cli == nil {
			r.skip("client step without session")
			return
		}
		var ps []param
		kind := "www"
		sigT := op.L("sig")
		sig, hasSig := r.sigFor(sigT)
		if r.skipped {
			return
		}
		var pkb []byte
		if op.Name() == "cwww" {
			ch, _ := r.nonceOf(op.I("c"))
			if op.I("c") != 0 {
				ps = append(ps, param{k: "challenge-client", txt: ch})
			}
			if pk := op.S("pk"); pk != "none" {
				pkb = r.w.Keys.PubB[pk]
				ps = append(ps, param{k: "public-key", raw: pkb})
			}
			if hasSig {
				ps = append(ps, param{k: "sig", raw: sig})
			}
			opq := r.lastChal
			if opq == "" {
				opq = "b3BhcXVl"
			}
			ps = append(ps, param{k: "opaque", txt: opq})
			r.cliChalFed = append(r.cliChalFed, ch)
		} else {
			kind = "info"
			if hasSig {
				ps = append(ps, param{k: "sig", raw: sig})
			}
			// a bearer value unique to this exchange (the client never looks inside)
			ps = append(ps, param{k: "bearer", txt: r.cliTok})
			r.tokHost[r.cliTok] = r.cliHost
		}
		alt := op.S("alt")
		if alt != "none" {
			if r.cli.Clone() == nil {
				return
			}
			target := -1
			for i, p := range ps {
				if (strings.HasPrefix(alt, "sig") && p.k == "sig") || (alt == "pk" && p.k == "public-key") {
					target = i
				}
			}
			if target < 0 {
				return
			}
			n := 0
			for _, a := range r.alterations(ps[target].raw, alt, "client/"+op.Name()) {
				q := append([]param{}, ps...)
				q[target] = param{k: ps[target].k, raw: a.b}
				if len(a.b) == 0 {
					q[target] = param{k: ps[target].k, txt: ""}
				}
				c2 := r.cli.Clone()
				o := c2.Deliver(kind, compose(q))
				n++
				r.res.Inc("client_deliveries", 1)
				if o.Reported && !r.cliRep {
					var presented []byte
					for _, p := range q {
						if p.k == "sig" {
							presented = p.raw
						}
					}
					// which key did the client latch?  the altered one if it parses
					fedSave := r.cliFed
					ok, cls := r.clientJustified(o.Peer, presented)
					r.cliFed = fedSave
					if !ok {
						r.mismatch(cls, "the client reports server "+r.w.Keys.nameOfID(o.Peer)+" after an altered answer ("+alt+" "+a.name+")", "error", compose(q))
					} else {
						r.res.Inc("malleable_encodings_accepted", 1)
						r.mismatch("L2:encoding-malleability:client:"+r.w.Keys.Type[r.w.Keys.nameOfID(o.Peer)], "the client accepts an altered encoding the trusted primitive also accepts ("+alt+" "+a.name+")", "error", compose(q))
					}
				}
			}
			r.res.Inc("altered_requests", n)
			r.res.Case(fmt.Sprintf("%s|alt:%s", op.Name(), alt))
			return
		}
		if pkb != nil {
			r.cliFed = append(r.cliFed, pkb)
		}
		o := r.cli.Deliver(kind, compose(ps))
		r.res.Inc("client_deliveries", 1)
		r.noteBearers(o.Bearers)
		if bp := ParseParams(o.Authz)["bearer"]; bp != "" {
			r.noteBearers([]string{bp})
		}
		got := "err"
		if o.Err == nil {
			switch {
			case o.Done:
				got = "done"
			case o.Reported:
				got = "verified"
			default:
				got = "signed"
			}
		}
		if o.Err == nil {
			r.noteClientOut(o.Authz, pkb)
			if got == "signed" {
				if cs := ParseParams(o.Authz)["challenge-server"]; cs != "" {
					r.nonce[int(cl[2].(float64))] = cs
				}
			}
			if s := ParseParams(o.Authz)["sig"]; s != "" && op.Has("signed") {
				r.sigByAbs[fmt.Sprint(op.L("signed"))] = unB64(s)
			}
		}
		// L1: whenever the client reports a server ID, the ledger must justify it
		if o.Reported {
			var presented []byte
			if hasSig && !r.cliRep && !r.cli.Coarse() {
				presented = sig // the step that makes the client report carries the proving signature
			}
			if ok, cls := r.clientJustified(o.Peer, presented); !ok {
				r.mismatch(cls, "the client reports server "+r.w.Keys.nameOfID(o.Peer)+" although that key never signed the client's challenge, the client's key and hostname "+r.cliHost,
					"error", map[string]any{"header": compose(ps), "sent": r.cliSent})
			} else {
				if r.cliProved[r.cliHost] == nil {
					r.cliProved[r.cliHost] = map[peer.ID]bool{}
				}
				r.cliProved[r.cliHost][o.Peer] = true
			}
			r.cliRep = true
		}
		want := op.S("res")
		r.res.Case(fmt.Sprintf("%s|%s|%s", op.Name(), want, got))
		if r.cli.Coarse() {
			return
		}
		if want != got {
			cls := "L2:client-result"
			r.mismatch(cls, fmt.Sprintf("client step result differs from the model (err=%v)", o.Err), want, got)
		} else if rep := op.S("reports"); o.Reported && rep != "none" && o.Peer != r.w.Keys.ID[rep] {
			r.mismatch("L2:client-peer", "reported server differs from the model", rep, r.w.Keys.nameOfID(o.Peer))
		}
		if st := r.cli.State(); st != "" && st != cl[0].(string) {
			r.mismatch("L2:client-state", "client state machine differs from the model", cl[0], st)
		}
	}
}

func (r *run) reset() {
	r.nonce = map[int]string{}
	r.blobs = map[string]*blob{}
	r.sigByAbs = map[string][]byte{}
	r.chals, r.toks, r.sigs = nil, nil, nil
	r.lastChal, r.lastTok = "", ""
	r.cli, r.cliSent, r.cliFed, r.cliChalFed, r.cliRep = nil, nil, nil, nil, false
	r.cliProved, r.tokHost, r.nsess = map[string]map[peer.ID]bool{}, map[string]string{}, 0
	r.prefix = nil
}

// Options of a replay.
type Options struct {
	Lite     bool // no full byte sweeps, honest signatures on demand allowed everywhere (used at the handler level, where a failed client exchange is over)
	MaxWalks int  // 0 = all
	Profile  string
}

// Replay executes every behaviour file in vfh.In() against systems built by mk.
func Replay(mk func(*World) System, res *vfh.Result, opt Options) error {
	files, _ := filepath.Glob(filepath.Join(vfh.In(), "*.jsonl"))
	if len(files) == 0 {
		return fmt.Errorf("no behaviour files in %q", vfh.In())
	}
	sort.Strings(files)
	profile := opt.Profile
	if profile == "" {
		profile = "ed25519"
	}
	keys, err := LoadKeys(profile, vfh.Seed())
	if err != nil {
		return err
	}
	budget := map[string]int{}
	var rot []SecretPair
	for _, p := range SecretFamily(vfh.Seed()) {
		if !p.Equivalent {
			rot = append(rot, p)
		}
	}
	used := map[string]int{}
	usedHosts := map[string]int{}
	hfam := HostFamily()
	defer func() { res.Set("hostname_pairs_used_in_replay", len(usedHosts)) }()
	nwalk := 0
	defer func() { res.Set("secret_pairs_used_in_replay", len(used)) }()
	defer debug.SetGCPercent(debug.SetGCPercent(400))
	for _, f := range files {
		fh, err := os.Open(f)
		if err != nil {
			return err
		}
		defer fh.Close()
		sc := bufio.NewScanner(fh)
		sc.Buffer(make([]byte, 1<<20), 1<<30)
		if !sc.Scan() {
			return fmt.Errorf("%s: empty", f)
		}
		var hd vfh.Header
		if err := json.Unmarshal(sc.Bytes(), &hd); err != nil {
			return fmt.Errorf("%s: %v", f, err)
		}
		hdr := hd.Header
		cm, _ := hdr["conf"].(map[string]any)
		if cm == nil {
			return fmt.Errorf("%s: no conf in header", f)
		}
		conf := Conf{MaxT: int(cm["maxt"].(float64)), ChalTTL: int(cm["chalttl"].(float64)), TokTTL: int(cm["tokttl"].(float64)),
			S2SameKey: cm["s2samekey"].(bool), Explicit: cm["explicit"].(bool), Name: filepath.Base(f)}
		al, _ := cm["alias"].([]any)
		aliased := len(al) > 0
		unit := ChallengeTTL / time.Duration(conf.ChalTTL)
		w0 := &World{Keys: keys,
			SrvKey: map[string]string{"S": "kS", "S2": "kS2"}, Host: map[string]string{"h1": "alpha.example.com", "h2": "beta.example.com:8443"},
			TokenTTL: unit * time.Duration(conf.TokTTL)}
		if conf.S2SameKey {
			w0.SrvKey["S2"] = "kS"
		}
		for nw := 0; sc.Scan(); nw++ {
			if len(sc.Bytes()) == 0 {
				continue
			}
			if opt.MaxWalks > 0 && nw >= opt.MaxWalks {
				break
			}
			var wk vfh.Walk
			if err := json.Unmarshal(sc.Bytes(), &wk); err != nil {
				return fmt.Errorf("%s: %v", f, err)
			}
			// the two servers' secrets: one pair of the family per walk (seeded rotation; "different" is all
			// the model says about them)
			pair := rot[(int(vfh.Seed())*31+nwalk)%len(rot)]
			nwalk++
			w := *w0
			w.HmacKey = map[string][]byte{"S": pair.A, "S2": pair.B}
			if (wk.Walk/len(rot))%2 == 1 && pair.B != nil && pair.A != nil {
				w.HmacKey = map[string][]byte{"S": pair.B, "S2": pair.A}
			}
			used[pair.Name]++
			if aliased {
				// the alias pair of the model: a pair of names a careless normalisation would merge
				hp := hfam[(int(vfh.Seed())*17+nwalk)%len(hfam)]
				a, b := hp.A, hp.B
				if (nwalk/len(hfam))%2 == 1 {
					a, b = b, a
				}
				w.Host = map[string]string{"h1": a, "h1a": b, "h2": w0.Host["h2"]}
				usedHosts[hp.Name]++
			}
			sys := mk(&w)
			r := &run{w: &w, sys: sys, res: res, rnd: rand.New(rand.NewSource(vfh.Seed()*104729 + int64(wk.Walk))), conf: conf, unit: unit,
				file: filepath.Base(f), lite: opt.Lite, budget: budget, walk: wk.Walk}
			r.reset()
			for i, st := range wk.Steps {
				r.step = i
				r.skipped = false
				r.prefix = append(r.prefix, st.Op)
				var post []any
				if err := json.Unmarshal(st.State, &post); err != nil || len(post) != 7 {
					return fmt.Errorf("state layout: %v %s", err, string(st.State))
				}
				switch st.Op.Name() {
				case "tick":
					sys.Advance(unit)
				case "challenge", "sign", "verify", "bearer":
					r.doServerOp(st.Op, post)
				case "cstart", "cwww", "cinfo", "ctok":
					r.doClientOp(st.Op, post)
				default:
					return fmt.Errorf("unknown op %q", st.Op.Name())
				}
				res.Count(0, 1)
			}
			res.Count(1, 0)
			if c, ok := sys.(interface{ Close() }); ok {
				c.Close()
			}
			res.Inc("on_demand_signatures", r.demand)
			if conf.Explicit && r.demand > 0 && !opt.Lite {
				return fmt.Errorf("%s walk %d: %d honest signatures had to be produced on demand in an explicit instance", f, wk.Walk, r.demand)
			}
			if wk.Walk == 0 && len(wk.Steps) > 0 {
				res.Sample(map[string]any{"instance": conf.Name, "system": sys.Name(), "keys": profile, "first_steps": wk.Steps[:min(6, len(wk.Steps))]})
			}
		}
		if err := sc.Err(); err != nil {
			return err
		}
	}
	return nil
}
