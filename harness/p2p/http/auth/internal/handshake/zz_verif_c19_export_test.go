//go:build verif

package handshake

// In-package accessors for the C19 harness (external test package handshake_test): the package's own
// injectable clock and randomness, and the client's state for the L2 projection.

import (
	"io"
	"time"
)

func VfC19SetClock(now func() time.Time) { nowFn = now }
func VfC19SetRand(r io.Reader)           { randReader = r }

func VfC19ClientState(c *PeerIDAuthHandshakeClient) string {
	switch c.state {
	case peerIDAuthClientStateSignChallenge:
		return "sc"
	case peerIDAuthClientStateVerifyChallenge:
		return "vc"
	case peerIDAuthClientStateDone:
		return "done"
	case peerIDAuthClientInitiateChallenge:
		return "init"
	case peerIDAuthClientStateVerifyAndSignChallenge:
		return "vas"
	case peerIDAuthClientStateWaitingForBearer:
		return "wfb"
	}
	return "?"
}

const VfC19ChallengeTTL = challengeTTL
