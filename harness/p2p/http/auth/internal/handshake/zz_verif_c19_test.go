//go:build verif

package handshake_test

// C19 conformance harness at the level of the handshake objects: behaviours of spec/C19_HttpAuth.tla
// are replayed on real PeerIDAuthHandshakeServer / PeerIDAuthHandshakeClient values (one fresh server
// value per request, as ServerPeerIDAuth does), with the package's injectable clock and randomness.
// The driver, the ledger and the L1 oracle are in internal/vfc19.

import (
	"crypto/hmac"
	"crypto/sha256"
	"errors"
	"math/rand"
	"net/http"
	"os"
	"strings"
	"testing"
	"time"

	"github.com/libp2p/go-libp2p/internal/vfh"
	"github.com/libp2p/go-libp2p/p2p/http/auth/internal/handshake"
	"github.com/libp2p/go-libp2p/p2p/http/auth/internal/vfc19"
)

type vfC19HS struct {
	w    *vfc19.World
	now  time.Time
	res  *vfh.Result
	auto map[string][]byte
}

type vfC19Rand struct{ r *rand.Rand }

func (s vfC19Rand) Read(p []byte) (int, error) { return s.r.Read(p) }

func (s *vfC19HS) Name() string            { return "handshake" }
func (s *vfC19HS) Now() time.Time          { return s.now }
func (s *vfC19HS) Advance(d time.Duration) { s.now = s.now.Add(d) }
func (s *vfC19HS) At(t time.Time, f func()) bool {
	old := s.now
	s.now = t
	f()
	s.now = old
	return true
}

func vfC19Reason(err error) string {
	switch {
	case errors.Is(err, handshake.ErrInvalidHMAC):
		return "hmac"
	case errors.Is(err, handshake.ErrExpiredChallenge), errors.Is(err, handshake.ErrExpiredToken):
		return "expired"
	}
	m := err.Error()
	switch {
	case strings.Contains(m, "expected challenge, got token"), strings.Contains(m, "expected token, got challenge"):
		return "kind"
	case strings.Contains(m, "hostname in opaque mismatch"):
		return "host"
	case strings.Contains(m, "missing public key"):
		return "nokey"
	case strings.Contains(m, "challenge too short"):
		return "nochs"
	case strings.Contains(m, "signature verification failed"), strings.Contains(m, "signature"), strings.Contains(m, "asn1"), strings.Contains(m, "malformed"), strings.Contains(m, "verification"):
		return "sig"
	}
	return "other"
}

func (s *vfC19HS) Server(srv, host, authz string) vfc19.ServerObs {
	key := s.w.HmacKey[srv]
	if key == nil { // "auto-generated default secret": 32 random bytes, as ServerPeerIDAuth makes them
		if s.auto == nil {
			s.auto = map[string][]byte{}
		}
		if s.auto[srv] == nil { // every default-keyed server draws its own
			s.auto[srv] = make([]byte, 32)
			rand.New(rand.NewSource(vfh.Seed() + 77 + int64(len(srv)))).Read(s.auto[srv])
		}
		key = s.auto[srv]
	}
	hs := handshake.PeerIDAuthHandshakeServer{Hostname: host, PrivKey: s.w.SrvPriv(srv), TokenTTL: s.w.TokenTTL,
		Hmac: hmac.New(sha256.New, key)}
	var o vfc19.ServerObs
	if err := hs.ParseHeaderVal([]byte(authz)); err != nil {
		o.Reason, o.Detail = "parse", err.Error()
		return o
	}
	err := hs.Run()
	if err != nil {
		o.Reason, o.Detail = vfC19Reason(err), err.Error()
		// API robustness (not the statement): PeerID() after a failed Run()
		if p, perr := hs.PeerID(); perr == nil {
			s.res.Inc("peerid_after_failed_run", 1)
			s.res.AddMismatch(vfh.Mismatch{Class: "L2:peerid-after-failed-run:" + o.Reason, What: "PeerID() returns " + p.String() + " without error although Run() failed with: " + err.Error() + " (callers must check Run's error; ServerPeerIDAuth does)", Walk: -1})
		}
		return o
	}
	hdr := http.Header{}
	hs.SetHeader(hdr)
	o.WWW, o.Info = hdr.Get("WWW-Authenticate"), hdr.Get("Authentication-Info")
	if p, perr := hs.PeerID(); perr == nil {
		o.Accepted, o.Peer = true, p
	} else {
		o.Reason, o.Detail = "nopeer", perr.Error()
	}
	return o
}

type vfC19Client struct {
	c *handshake.PeerIDAuthHandshakeClient
}

func (s *vfC19HS) NewClient(host string) vfc19.Client {
	return &vfC19Client{&handshake.PeerIDAuthHandshakeClient{Hostname: host, PrivKey: s.w.Keys.Priv["kC"]}}
}

func (c *vfC19Client) Coarse() bool { return false }

func (c *vfC19Client) Start(mode string) (string, error) {
	if mode != "ci" {
		return "", nil
	}
	c.c.SetInitiateChallenge()
	if err := c.c.Run(); err != nil {
		return "", err
	}
	h := http.Header{}
	c.c.AddHeader(h)
	return h.Get("Authorization"), nil
}

func (c *vfC19Client) Deliver(kind, val string) vfc19.ClientObs {
	h := http.Header{}
	switch kind {
	case "www":
		h.Set("WWW-Authenticate", val)
	case "info":
		h.Set("Authentication-Info", val)
	}
	_ = c.c.ParseHeader(h) // auth/client.go ignores this error too; Run decides
	var o vfc19.ClientObs
	o.Err = c.c.Run()
	if o.Err == nil {
		out := http.Header{}
		c.c.AddHeader(out)
		o.Authz = out.Get("Authorization")
	}
	if p, err := c.c.PeerID(); err == nil {
		o.Reported, o.Peer = true, p
	}
	o.Done = c.c.HandshakeDone()
	return o
}

func (c *vfC19Client) Clone() vfc19.Client {
	c2 := *c.c // Run() resets the header builder before writing, so the copied builder is never written through
	return &vfC19Client{&c2}
}

func (c *vfC19Client) State() string { return handshake.VfC19ClientState(c.c) }

func TestVerifC19Replay(t *testing.T) {
	res := vfh.NewResult()
	defer func() {
		if err := res.Write(); err != nil {
			t.Fatal(err)
		}
	}()
	if handshake.VfC19ChallengeTTL != vfc19.ChallengeTTL {
		t.Fatalf("scale map: challengeTTL is %v", handshake.VfC19ChallengeTTL)
	}
	res.Rule = "one step = one model transition executed on real handshake objects (a request to a server / a header delivered to the client); an alteration step stands for a family of byte-level alterations; distinct = distinct (action, blob kind, expected, observed) classes; every accepted request is judged by the ledger oracle"
	var cur *vfC19HS
	handshake.VfC19SetClock(func() time.Time { return cur.now })
	handshake.VfC19SetRand(vfC19Rand{rand.New(rand.NewSource(vfh.Seed()))})
	mk := func(w *vfc19.World) vfc19.System {
		cur = &vfC19HS{w: w, now: time.Date(2026, 3, 1, 12, 0, 0, 0, time.UTC), res: res}
		return cur
	}
	if err := vfc19.Replay(mk, res, vfc19.Options{Profile: os.Getenv("VERIF_C19_KEYS"), MaxWalks: vfh.EnvInt("VERIF_C19_MAXWALKS", 0)}); err != nil {
		t.Fatal(err)
	}
	for _, m := range []func(func(*vfc19.World) vfc19.System, *vfh.Result, string) error{vfc19.SecretMatrix, vfc19.TimeMatrix, vfc19.ServerHostMatrix} {
		if err := m(mk, res, os.Getenv("VERIF_C19_KEYS")); err != nil {
			t.Fatal(err)
		}
	}
}
