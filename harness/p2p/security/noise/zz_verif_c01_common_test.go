//go:build verif

package noise

// Conformance harness for C01 (security handshakes authenticate the remote peer's identity), Noise
// part: shared pieces.  Two REAL transports (plain Transport or SessionTransport, as the configuration
// demands) are joined by an in-memory man-in-the-middle that understands the 2-byte length framing of
// the handshake.  Everything runs inside a testing/synctest bubble: after each attacker action the
// controller waits until every goroutine is durably blocked, so "this side is still waiting", "this
// side returned" and "this side emitted its next message" are facts, not timing guesses.
//
// Verdicts (L1) are computed from a ledger the harness keeps itself - which private keys each endpoint
// holds, which bytes each endpoint produced, which bytes were delivered to whom - and from the return
// values of SecureInbound/SecureOutbound, RemotePeer() and RemotePublicKey().  The model's expectations
// only add precision (L2).

import (
	"bytes"
	"context"
	"crypto/rand"
	"encoding/binary"
	"errors"
	"fmt"
	"io"
	"net"
	"strings"
	"sync"

	"github.com/flynn/noise"

	"github.com/libp2p/go-libp2p/core/crypto"
	"github.com/libp2p/go-libp2p/core/peer"
	"github.com/libp2p/go-libp2p/core/sec"
	"github.com/libp2p/go-libp2p/internal/vfh"
	tptu "github.com/libp2p/go-libp2p/p2p/net/upgrader"
	"github.com/libp2p/go-libp2p/p2p/security/noise/pb"
)

// ---------------------------------------------------------------------------------------------
// keys
// ---------------------------------------------------------------------------------------------

var vfC01Types = []string{"Ed25519", "ECDSA", "Secp256k1", "RSA"}

type vfC01Key struct {
	typ  string
	priv crypto.PrivKey
	pub  crypto.PubKey
	id   peer.ID
	raw  []byte // marshalled public key
}

func vfC01GenKey(typ string) (vfC01Key, error) {
	var priv crypto.PrivKey
	var pub crypto.PubKey
	var err error
	switch typ {
	case "Ed25519":
		priv, pub, err = crypto.GenerateEd25519Key(rand.Reader)
	case "ECDSA":
		priv, pub, err = crypto.GenerateECDSAKeyPair(rand.Reader)
	case "Secp256k1":
		priv, pub, err = crypto.GenerateSecp256k1Key(rand.Reader)
	case "RSA":
		priv, pub, err = crypto.GenerateRSAKeyPair(2048, rand.Reader)
	default:
		err = fmt.Errorf("vfC01: unknown key type %q", typ)
	}
	if err != nil {
		return vfC01Key{}, err
	}
	id, err := peer.IDFromPublicKey(pub)
	if err != nil {
		return vfC01Key{}, err
	}
	raw, err := crypto.MarshalPublicKey(pub)
	if err != nil {
		return vfC01Key{}, err
	}
	return vfC01Key{typ: typ, priv: priv, pub: pub, id: id, raw: raw}, nil
}

// vfC01KeyPool holds one identity per (role, key type); roles: "A" (initiator's host), "B"
// (responder's host), "M" (attacker).
type vfC01KeyPool map[string]map[string]vfC01Key

func vfC01NewKeyPool() (vfC01KeyPool, error) {
	p := vfC01KeyPool{}
	for _, role := range []string{"A", "B", "M"} {
		p[role] = map[string]vfC01Key{}
		for _, typ := range vfC01Types {
			k, err := vfC01GenKey(typ)
			if err != nil {
				return nil, err
			}
			p[role][typ] = k
		}
	}
	return p, nil
}

type vfC01Ids struct{ A, B, M vfC01Key }

func (p vfC01KeyPool) ids(ta, tb, tm string) vfC01Ids {
	return vfC01Ids{A: p["A"][ta], B: p["B"][tb], M: p["M"][tm]}
}
func (i vfC01Ids) String() string { return i.A.typ + "/" + i.B.typ + "/" + i.M.typ }

// ---------------------------------------------------------------------------------------------
// configuration -> real transports
// ---------------------------------------------------------------------------------------------

type vfC01Cfg struct {
	Ei, Er, Pro string
}

func (c vfC01Cfg) String() string { return c.Ei + "," + c.Er + "," + c.Pro }

func vfC01Prologues(pro string) (pi, pr []byte) {
	switch pro {
	case "eq":
		return []byte("vfC01-prologue-p"), []byte("vfC01-prologue-p")
	case "diff":
		return []byte("vfC01-prologue-p"), []byte("vfC01-prologue-q")
	case "one":
		return []byte("vfC01-prologue-p"), nil
	}
	return nil, nil
}

func vfC01NewTransport(k vfC01Key) (*Transport, error) {
	return New(ID, k.priv, []tptu.StreamMuxer{{ID: "/yamux/1.0.0"}})
}

// vfC01Secure builds the security transport one endpoint uses (on top of the Transport object tpt, created
// when nil) and the peer ID it names.
// setting: "match" (the real counterpart), "diff" (another peer: the attacker's ID), "empty" (nobody),
// "off" (another peer named, DisablePeerIDCheck given).  The plain Transport is used whenever no session
// option is needed and session is false; otherwise Transport.WithSessionOptions.
func vfC01Secure(tpt *Transport, k vfC01Key, setting string, prologue []byte, counterpart, attacker peer.ID, session bool) (sec.SecureTransport, peer.ID, error) {
	if tpt == nil {
		var err error
		if tpt, err = vfC01NewTransport(k); err != nil {
			return nil, "", err
		}
	}
	var p peer.ID
	switch setting {
	case "match":
		p = counterpart
	case "empty":
		p = ""
	default:
		p = attacker
	}
	if setting != "off" && prologue == nil && !session {
		return tpt, p, nil
	}
	var opts []SessionOption
	if prologue != nil {
		opts = append(opts, Prologue(prologue))
	}
	if session {
		// the way WebTransport uses the session transport: early data in both directions
		opts = append(opts, EarlyData(vfC01EDH{}, vfC01EDH{}))
	}
	if setting == "off" {
		opts = append(opts, DisablePeerIDCheck())
	}
	st, err := tpt.WithSessionOptions(opts...)
	return st, p, err
}

type vfC01EDH struct{}

func (vfC01EDH) Send(context.Context, net.Conn, peer.ID) *pb.NoiseExtensions {
	return &pb.NoiseExtensions{WebtransportCerthashes: [][]byte{[]byte("vfC01-certhash-1"), []byte("vfC01-certhash-2")}}
}
func (vfC01EDH) Received(context.Context, net.Conn, *pb.NoiseExtensions) error { return nil }

// ---------------------------------------------------------------------------------------------
// endpoints, pipes, taps
// ---------------------------------------------------------------------------------------------

type vfC01Res struct {
	conn sec.SecureConn
	err  error
}

// vfC01Tap reads the length-framed messages an endpoint writes.
type vfC01Tap struct {
	mu     sync.Mutex
	frames [][]byte
	closed bool
}

func (t *vfC01Tap) run(c net.Conn) {
	for {
		var l [2]byte
		if _, err := io.ReadFull(c, l[:]); err != nil {
			break
		}
		n := int(binary.BigEndian.Uint16(l[:]))
		b := make([]byte, 2+n)
		copy(b, l[:])
		if _, err := io.ReadFull(c, b[2:]); err != nil {
			break
		}
		t.mu.Lock()
		t.frames = append(t.frames, b)
		t.mu.Unlock()
	}
	t.mu.Lock()
	t.closed = true
	t.mu.Unlock()
}
func (t *vfC01Tap) count() int {
	t.mu.Lock()
	defer t.mu.Unlock()
	return len(t.frames)
}
func (t *vfC01Tap) frame(i int) []byte {
	t.mu.Lock()
	defer t.mu.Unlock()
	return t.frames[i]
}

type vfC01Side struct {
	name    string // "I", "R", "I2", "R2"
	role    string // "I" or "R"
	key     vfC01Key
	conn    net.Conn // the endpoint's end of the pipe
	mitm    net.Conn // the attacker's end
	tap     *vfC01Tap
	res     chan vfC01Res
	got     *vfC01Res
	wq      chan []byte
	wdone   chan struct{}
	deliv   []byte  // every byte written towards this endpoint, in order
	named   peer.ID // the peer it was told to expect ("" = nobody)
	checked bool    // a peer was named and the check was not disabled: the statement's precondition
	setting string
	audited bool
}

func vfC01StartSide(ctx context.Context, name, role string, k vfC01Key, tpt sec.SecureTransport, p peer.ID, setting string) *vfC01Side {
	a, b := net.Pipe()
	s := &vfC01Side{name: name, role: role, key: k, conn: a, mitm: b, tap: &vfC01Tap{}, res: make(chan vfC01Res, 1),
		wq: make(chan []byte, 32), wdone: make(chan struct{}), named: p, setting: setting,
		checked: setting == "match" || setting == "diff"}
	go s.tap.run(b)
	go func() {
		defer close(s.wdone)
		for w := range s.wq {
			if len(w) > 0 {
				s.mitm.Write(w) // an error means the endpoint is gone: keep draining
			}
		}
	}()
	go func() {
		var c sec.SecureConn
		var err error
		if role == "I" {
			c, err = tpt.SecureOutbound(ctx, a, p)
		} else {
			c, err = tpt.SecureInbound(ctx, a, p)
		}
		s.res <- vfC01Res{c, err}
	}()
	return s
}

func (s *vfC01Side) deliver(b []byte) {
	s.deliv = append(s.deliv, b...)
	s.wq <- append([]byte(nil), b...)
}
func (s *vfC01Side) poll() {
	if s.got == nil {
		select {
		case r := <-s.res:
			s.got = &r
		default:
		}
	}
}
func (s *vfC01Side) status() string {
	s.poll()
	if s.got != nil {
		if s.got.err == nil {
			return "ok"
		}
		return "fail"
	}
	if s.role == "I" {
		return "w2"
	}
	if s.tap.count() > 0 {
		return "w3"
	}
	return "w1"
}
func (s *vfC01Side) done() bool { s.poll(); return s.got != nil && s.got.err == nil }

// shut closes the attacker's end (the endpoint sees EOF / a closed pipe) and collects the result.
func (s *vfC01Side) closeWire() { s.mitm.Close() }
func (s *vfC01Side) finish() {
	s.mitm.Close()
	close(s.wq)
	<-s.wdone
	if s.got == nil {
		r := <-s.res
		s.got = &r
	}
	s.conn.Close()
	if s.got.conn != nil && s.got.err == nil {
		s.got.conn.Close()
	}
}

type vfC01Sess struct {
	I, R *vfC01Side
}

// vfC01Tpts: the Transport objects of the two hosts, kept alive across the sessions of one history
type vfC01Tpts struct{ a, b *Transport }

func vfC01NewTpts(ids vfC01Ids) (*vfC01Tpts, error) {
	a, err := vfC01NewTransport(ids.A)
	if err != nil {
		return nil, err
	}
	b, err := vfC01NewTransport(ids.B)
	return &vfC01Tpts{a, b}, err
}

// vfC01NewSess starts an initiator and a responder configured per cfg.  suffix "" names them I/R,
// "2" names them I2/R2 (the other honest session, which always names its real counterpart).  tp: the
// Transport objects to build on (nil: fresh ones).
func vfC01NewSess(ctx context.Context, cfg vfC01Cfg, ids vfC01Ids, suffix string, session bool, tp *vfC01Tpts) (*vfC01Sess, error) {
	if tp == nil {
		tp = &vfC01Tpts{}
	}
	pi, pr := vfC01Prologues(cfg.Pro)
	ti, ip, err := vfC01Secure(tp.a, ids.A, cfg.Ei, pi, ids.B.id, ids.M.id, session)
	if err != nil {
		return nil, err
	}
	tr, rp, err := vfC01Secure(tp.b, ids.B, cfg.Er, pr, ids.A.id, ids.M.id, session)
	if err != nil {
		return nil, err
	}
	return &vfC01Sess{
		I: vfC01StartSide(ctx, "I"+suffix, "I", ids.A, ti, ip, cfg.Ei),
		R: vfC01StartSide(ctx, "R"+suffix, "R", ids.B, tr, rp, cfg.Er),
	}, nil
}

func (s *vfC01Sess) finish() { s.I.finish(); s.R.finish() }

// ---------------------------------------------------------------------------------------------
// L1: the statement over the harness's own ledger
// ---------------------------------------------------------------------------------------------

// vfC01Producer is somebody who produced handshake bytes: an honest endpoint (its frames come from its
// tap) or the attacker speaking for itself.  live: it takes part in the exchange being judged (frames
// of an earlier, finished session are replays).
type vfC01Producer struct {
	name string
	live bool
	key  vfC01Key // the identity key this producer HOLDS
	toI  [][]byte // what it sent as a responder: [m2]
	toR  [][]byte // what it sent as an initiator: [m1, m3]
}

func vfC01ParseFrames(b []byte, n int) [][]byte {
	var out [][]byte
	for len(out) < n && len(b) >= 2 {
		l := int(binary.BigEndian.Uint16(b))
		if len(b) < 2+l {
			break
		}
		out = append(out, b[:2+l])
		b = b[2+l:]
	}
	return out
}

func vfC01SameFrames(a, b [][]byte) bool {
	if len(a) > len(b) {
		return false
	}
	for i := range a {
		if !bytes.Equal(a[i], b[i]) {
			return false
		}
	}
	return true
}

type vfC01Ctx struct {
	res    *vfh.Result
	walk   int
	step   int
	cfg    vfC01Cfg
	ids    vfC01Ids
	prefix []vfh.Op
	note   string
}

func (c *vfC01Ctx) mismatch(class, what string, exp, got any) {
	c.res.AddMismatch(vfh.Mismatch{Class: class, What: what, Walk: c.walk, Step: c.step, Expected: exp, Got: got,
		Prefix: c.prefix, Cfg: map[string]any{"cfg": c.cfg.String(), "keys": c.ids.String(), "note": c.note, "seed": vfh.Seed()}})
}

// vfC01Audit judges one endpoint that returned success.
func vfC01Audit(c *vfC01Ctx, s *vfC01Side, prods []*vfC01Producer) {
	if s.audited || !s.done() {
		return
	}
	s.audited = true
	conn := s.got.conn
	need := 1
	if s.role == "R" {
		need = 2
	}
	got := map[string]any{"side": s.name, "remote": conn.RemotePeer().String(), "named": s.named.String(), "setting": s.setting}
	frames := vfC01ParseFrames(s.deliv, need)
	if len(frames) < need {
		c.mismatch("completed-without-consuming-the-handshake", fmt.Sprintf("%s returned success after %d of %d handshake messages reached it", s.name, len(frames), need), need, got)
		return
	}
	var who *vfC01Producer
	var stale *vfC01Producer
	for _, p := range prods {
		out := p.toI
		if s.role == "R" {
			out = p.toR
		}
		if len(out) >= need && vfC01SameFrames(frames, out) {
			if p.live {
				who = p
			} else {
				stale = p
			}
		}
	}
	if who == nil {
		if stale != nil {
			c.mismatch("completed-on-replayed-input", fmt.Sprintf("%s completed the handshake on messages replayed from the finished session of %s", s.name, stale.name), "failure", got)
		} else {
			c.mismatch("completed-on-altered-input", fmt.Sprintf("%s completed the handshake although the messages it consumed are not the unaltered output of one participant", s.name), "failure", got)
		}
		return
	}
	got["producer"] = who.name
	if conn.RemotePeer() != who.key.id {
		c.mismatch("wrong-remote-peer", fmt.Sprintf("%s reports remote peer %s but every byte it consumed was produced by %s, who holds the identity key of %s", s.name, conn.RemotePeer(), who.name, who.key.id),
			who.key.id.String(), got)
	}
	if rk := conn.RemotePublicKey(); rk == nil || !rk.Equals(who.key.pub) {
		c.mismatch("wrong-remote-public-key", fmt.Sprintf("%s: RemotePublicKey() is not the identity key held by %s", s.name, who.name), who.key.id.String(), got)
	} else if id, err := peer.IDFromPublicKey(rk); err != nil || id != conn.RemotePeer() {
		c.mismatch("remote-peer-not-derived-from-remote-key", fmt.Sprintf("%s: RemotePeer() is not the ID of RemotePublicKey()", s.name), id.String(), got)
	}
	if s.checked && conn.RemotePeer() != s.named {
		c.mismatch("expected-peer-violated", fmt.Sprintf("%s named %s and completed the handshake with %s", s.name, s.named, conn.RemotePeer()), s.named.String(), got)
	}
	if conn.LocalPeer() != s.key.id {
		c.mismatch("L2:local-peer", fmt.Sprintf("%s: LocalPeer() is not its own ID", s.name), s.key.id.String(), got)
	}
}

// vfC01Why maps an error of SecureInbound/SecureOutbound to the model's failure stage.
func vfC01Why(err error) string {
	if err == nil {
		return "-"
	}
	var mm sec.ErrPeerIDMismatch
	if errors.As(err, &mm) {
		return "mismatch"
	}
	e := err.Error()
	switch {
	case strings.Contains(e, "handshake signature invalid"), strings.Contains(e, "error verifying signature"):
		return "sig"
	case errors.Is(err, noise.ErrShortMessage), strings.Contains(e, "message authentication failed"), strings.Contains(e, "message is too short"):
		return "parse"
	case errors.Is(err, io.EOF), errors.Is(err, io.ErrUnexpectedEOF), errors.Is(err, io.ErrClosedPipe), strings.Contains(e, "closed pipe"):
		return "closed"
	case strings.Contains(e, "error reading handshake message"), strings.Contains(e, "error sending handshake message"):
		return "parse"
	}
	return "unmarshal"
}

func vfC01ModelWhy(w string) string {
	switch w {
	case "aead-s", "aead-p", "short":
		return "parse"
	}
	return w
}
