//go:build verif

package noise

// Conformance harness for C02, session start, Noise: the behaviours of spec/C02_Start.tla on real Noise
// handshakes over internal/vfc02.HeldPair - delivery under test-controlled chunking from the very first byte
// of the connection, the writer writing immediately after its handshake call returned (the initiator right
// after message 3, which the responder may then receive TOGETHER with the first transport frames; the
// responder right after it finished), with and without early data (muxer negotiation inside the handshake).
// L1 ledger: what the reader gets is what was written, nothing lost at the hand-over.

import (
	"context"
	"io"
	"net"
	"testing"

	"github.com/libp2p/go-libp2p/core/protocol"
	"github.com/libp2p/go-libp2p/internal/vfc02"
	"github.com/libp2p/go-libp2p/internal/vfh"
	tptu "github.com/libp2p/go-libp2p/p2p/net/upgrader"
)

func TestVerifC02NoiseStart(t *testing.T) {
	res := vfh.NewResult()
	res.Rule = "distinct = (operation, tail pending, chunk at/over the handshake boundary, carry) combinations executed on real Noise handshakes"
	defer func() {
		if err := res.Write(); err != nil {
			t.Fatal(err)
		}
	}()
	type pair struct{ a, b *vfC02Peer }
	peers := map[string]pair{}
	for _, v := range []string{"plain", "early"} {
		a, err := vfC02NewPeer()
		if err != nil {
			t.Fatal(err)
		}
		b, err := vfC02NewPeer()
		if err != nil {
			t.Fatal(err)
		}
		if v == "early" {
			// muxer negotiation travels as early data inside the handshake payloads
			mux := []tptu.StreamMuxer{{ID: protocol.ID("/yamux/1.0.0")}}
			if a.tpt, err = New(ID, a.tpt.privateKey, mux); err != nil {
				t.Fatal(err)
			}
			if b.tpt, err = New(ID, b.tpt.privateKey, mux); err != nil {
				t.Fatal(err)
			}
		}
		peers[v] = pair{a, b}
	}
	end := func(c io.ReadWriteCloser) *vfc02.StartEnd {
		return &vfc02.StartEnd{
			W:     func() (io.Writer, error) { return c, nil },
			R:     func() (io.Reader, error) { return c, nil },
			Close: func() { c.Close() },
		}
	}
	cfg := vfc02.StartCfg{
		Layer: "noise", Variants: []string{"plain", "early"},
		Sizes:      []int{1, 17, 1000, 3900, 5000, 70000},
		TailWriter: func(string) string { return "init" },
		Dial: func(v string, c net.Conn) (*vfc02.StartEnd, error) {
			s, err := peers[v].a.tpt.SecureOutbound(context.Background(), c, peers[v].b.id)
			if err != nil {
				return nil, err
			}
			return end(s), nil
		},
		Accept: func(v string, c net.Conn) (*vfc02.StartEnd, error) {
			s, err := peers[v].b.tpt.SecureInbound(context.Background(), c, "")
			if err != nil {
				return nil, err
			}
			return end(s), nil
		},
	}
	if err := vfc02.RunStart(res, cfg, "start_*.jsonl", vfh.EnvInt("VERIF_C02_ROUNDS", 1)*3, vfh.EnvInt("VERIF_C02_PAR", 4)); err != nil {
		t.Fatal(err)
	}
}
