//go:build verif

package noise

// C01, Noise part: the attacker.  Frames with their field layout (recomputed from a dry run, not
// hard-coded), the concretisation of every abstract edit of spec/C01_Handshake.tla as operations on
// real bytes, and the forging engine (flynn/noise handshake states driven by the harness with the
// attacker's own keys, the victim's prologue and hand-built payloads).

import (
	"bytes"
	"crypto/rand"
	"encoding/binary"
	"errors"
	"fmt"
	mrand "math/rand"

	"github.com/flynn/noise"
	"google.golang.org/protobuf/proto"

	"github.com/libp2p/go-libp2p/p2p/security/noise/pb"
)

// ---------------------------------------------------------------------------------------------
// layout and frames
// ---------------------------------------------------------------------------------------------

// vfC01Layout: length of a DH public key and of an AEAD tag on the wire, measured on a dry run.
type vfC01Layout struct{ dh, tag int }

// ranges of the model's fields inside the body of message `shape`, clipped to the body
func (l vfC01Layout) fields(shape, n int) [][2]int {
	var cuts []int
	switch shape {
	case 1:
		cuts = []int{0, l.dh}
	case 2:
		cuts = []int{0, l.dh, 2*l.dh + l.tag, n}
	default:
		cuts = []int{0, l.dh + l.tag, n}
	}
	var out [][2]int
	for i := 0; i+1 < len(cuts); i++ {
		a, b := cuts[i], cuts[i+1]
		if a > n {
			a = n
		}
		if b > n {
			b = n
		}
		if b < a {
			b = a
		}
		out = append(out, [2]int{a, b})
	}
	return out
}

type vfC01Frame struct {
	decl   int // value of the 2-byte length prefix
	body   []byte
	fields [][2]int // parse-offset ranges of the model's fields
}

func (f *vfC01Frame) raw() []byte {
	b := make([]byte, 2+len(f.body))
	binary.BigEndian.PutUint16(b, uint16(f.decl))
	copy(b[2:], f.body)
	return b
}
func (f *vfC01Frame) clone() *vfC01Frame {
	return &vfC01Frame{decl: f.decl, body: append([]byte(nil), f.body...), fields: append([][2]int(nil), f.fields...)}
}
func vfC01FrameOf(raw []byte, shape int, l vfC01Layout) *vfC01Frame {
	body := append([]byte(nil), raw[2:]...)
	return &vfC01Frame{decl: int(binary.BigEndian.Uint16(raw)), body: body, fields: l.fields(shape, len(body))}
}
func vfC01Wrap(body []byte) []byte {
	b := make([]byte, 2+len(body))
	binary.BigEndian.PutUint16(b, uint16(len(body)))
	copy(b[2:], body)
	return b
}

// ---------------------------------------------------------------------------------------------
// the forging engine
// ---------------------------------------------------------------------------------------------

const vfC01GarbageForms = 5
const vfC01BadForms = 4
const vfC01KeyEncodings = 7

// vfC01Uvarint reads a protobuf varint
func vfC01Uvarint(b []byte) (v uint64, n int) {
	for i, c := range b {
		v |= uint64(c&0x7f) << (7 * uint(i))
		if c < 0x80 {
			return v, i + 1
		}
	}
	return 0, 0
}

// vfC01ReencodeKey returns the marshalled public key raw (message PublicKey {Type = 1; Data = 2}) in
// another VALID protobuf encoding of the same key: form 0 is the canonical one every implementation
// sends; the others are what a peer is free to send instead.  Whoever parses the key gets the same key
// object, so the peer ID derived from the key must not depend on the form.
func vfC01ReencodeKey(raw []byte, form int) []byte {
	// canonical: 0x08 <type varint> 0x12 <len varint> <data>
	if len(raw) < 4 || raw[0] != 0x08 {
		return raw
	}
	_, tn := vfC01Uvarint(raw[1:])
	typ := raw[:1+tn]
	rest := raw[1+tn:]
	if tn == 0 || len(rest) < 2 || rest[0] != 0x12 {
		return raw
	}
	l, ln := vfC01Uvarint(rest[1:])
	if ln == 0 || int(l) != len(rest)-1-ln {
		return raw
	}
	data := rest[1+ln:]
	cat := func(parts ...[]byte) []byte {
		var out []byte
		for _, p := range parts {
			out = append(out, p...)
		}
		return out
	}
	switch form % vfC01KeyEncodings {
	case 1: // a trailing unknown field (field 3, varint)
		return cat(raw, []byte{0x18, 0x01})
	case 2: // Data before Type
		return cat(rest, typ)
	case 3: // Type repeated (the last occurrence counts)
		return cat([]byte{0x08, (typ[1] + 1) % 4}, typ, rest)
	case 4: // the type as a non-minimal varint
		return cat([]byte{0x08, typ[1] | 0x80, 0x00}, rest)
	case 5: // an unknown length-delimited field in front
		return cat([]byte{0x1a, 0x03, 'v', 'f', '!'}, raw)
	case 6: // the length of Data as a non-minimal varint
		lb := append([]byte(nil), rest[1:1+ln]...)
		lb[len(lb)-1] |= 0x80
		lb = append(lb, 0x00)
		return cat(typ, []byte{0x12}, lb, data)
	}
	return raw
}

type vfC01Forger struct {
	ids        vfC01Ids
	proI, proR []byte
	iM1        []byte      // body of the initiator's genuine first message (the attacker always sees it)
	eSeed      []byte      // private ephemeral behind the forged first message
	sM         noise.DHKey // the attacker's static key
	rM2        []byte      // body of the responder's answer, if the responder consumed the forged first message
	knowB      bool        // the responder's payload of this session was encrypted to the attacker
	bStatic    []byte
	bPayload   []byte
	toI        *noise.HandshakeState // responder state behind the forged second message
	toIown     bool
	knowA      bool
	aStatic    []byte
	aPayload   []byte
	prod       *vfC01Producer
}

func vfC01NewForger(ids vfC01Ids, cfg vfC01Cfg) (*vfC01Forger, error) {
	pi, pr := vfC01Prologues(cfg.Pro)
	kp, err := noise.DH25519.GenerateKeypair(rand.Reader)
	if err != nil {
		return nil, err
	}
	return &vfC01Forger{ids: ids, proI: pi, proR: pr, sM: kp, prod: &vfC01Producer{name: "M", live: true, key: ids.M}}, nil
}

func vfC01HS(initiator bool, static noise.DHKey, prologue, eseed []byte) (*noise.HandshakeState, error) {
	c := noise.Config{CipherSuite: cipherSuite, Pattern: noise.HandshakeXX, Initiator: initiator, StaticKeypair: static, Prologue: prologue}
	if eseed != nil {
		c.Random = bytes.NewReader(eseed)
	}
	return noise.NewHandshakeState(c)
}

// vfC01SignOver: the identity signature the library itself produces for (key, static key) - the attacker
// runs the same software as everybody else, with its own keys
func vfC01SignOver(k vfC01Key, static []byte) ([]byte, error) {
	vs := &secureSession{localKey: k.priv}
	p, err := vs.generateHandshakePayload(noise.DHKey{Public: static}, nil)
	if err != nil {
		return nil, err
	}
	var nhp pb.NoiseHandshakePayload
	if err := proto.Unmarshal(p, &nhp); err != nil {
		return nil, err
	}
	return nhp.IdentitySig, nil
}

func vfC01Marshal(idkey, sig []byte) ([]byte, error) {
	return proto.Marshal(&pb.NoiseHandshakePayload{IdentityKey: idkey, IdentitySig: sig,
		Extensions: &pb.NoiseExtensions{StreamMuxers: []string{"/yamux/1.0.0"}}})
}

func vfC01Rand(n int) []byte {
	b := make([]byte, n)
	rand.Read(b)
	return b
}

// garbage: something that is not a signature by `owner` over prefix++static
func (f *vfC01Forger) garbage(g int, owner vfC01Key, genuine []byte, static []byte) ([]byte, error) {
	switch g % vfC01GarbageForms {
	case 0:
		return vfC01Rand(len(genuine)), nil
	case 1:
		return nil, nil
	case 2:
		return make([]byte, len(genuine)), nil
	case 3:
		b := append([]byte(nil), genuine...)
		if len(b) > 0 {
			b[len(b)/2] ^= 0x10
		}
		return b, nil
	default:
		// a genuine signature by that key, over the prefix alone (the static key is missing)
		return owner.priv.Sign([]byte(payloadSigPrefix))
	}
}

// payload builds the handshake payload of forge variant v (spec: ForgePay); victim is the identity the
// attacker pretends to be, static the static key it presents.  forms = number of concrete forms of v.
func (f *vfC01Forger) payload(v string, g int, victim vfC01Key, static []byte, learned []byte) (pay []byte, err error) {
	m := f.ids.M
	switch v {
	case "own":
		// the attacker speaking for itself, honestly - but free in how it encodes its genuine key
		sig, err := vfC01SignOver(m, static)
		if err != nil {
			return nil, err
		}
		return vfC01Marshal(vfC01ReencodeKey(m.raw, g), sig)
	case "claimM":
		sig, err := vfC01SignOver(m, static)
		if err != nil {
			return nil, err
		}
		return vfC01Marshal(victim.raw, sig)
	case "claimO", "claimG":
		// what the victim signs in ANOTHER session (its static key is fresh per session): produced by the
		// real generateHandshakePayload with the victim's key
		other, err := noise.DH25519.GenerateKeypair(rand.Reader)
		if err != nil {
			return nil, err
		}
		vs := &secureSession{localKey: victim.priv}
		p, err := vs.generateHandshakePayload(other, &pb.NoiseExtensions{StreamMuxers: []string{"/yamux/1.0.0"}})
		if err != nil {
			return nil, err
		}
		if v == "claimO" {
			return p, nil
		}
		var nhp pb.NoiseHandshakePayload
		if err := proto.Unmarshal(p, &nhp); err != nil {
			return nil, err
		}
		sig, err := f.garbage(g, m, nhp.IdentitySig, static)
		if err != nil {
			return nil, err
		}
		if g%vfC01GarbageForms == 4 {
			// (the victim's signature over the bare prefix does not exist; use its signature over the other key, truncated message)
			sig = append([]byte(nil), nhp.IdentitySig...)
			sig = append(sig, 0)
		}
		return vfC01Marshal(victim.raw, sig)
	case "ownG":
		gen, err := vfC01SignOver(m, static)
		if err != nil {
			return nil, err
		}
		sig, err := f.garbage(g, m, gen, static)
		if err != nil {
			return nil, err
		}
		return vfC01Marshal(m.raw, sig)
	case "bad":
		switch g % vfC01BadForms {
		case 0:
			return vfC01Rand(40), nil
		case 1:
			return vfC01Marshal(vfC01Rand(36), vfC01Rand(64))
		case 2:
			return nil, nil
		default:
			// a well-formed key message whose data has the wrong size for its type
			b := append([]byte(nil), m.raw...)
			return vfC01Marshal(b[:len(b)-1], vfC01Rand(64))
		}
	case "relay":
		if learned == nil {
			return nil, errors.New("vfC01: relay variant without a learned payload")
		}
		return learned, nil
	}
	return nil, fmt.Errorf("vfC01: unknown forge variant %q", v)
}

func vfC01Forms(v string) int {
	switch v {
	case "claimG", "ownG":
		return vfC01GarbageForms
	case "bad":
		return vfC01BadForms
	case "own":
		return vfC01KeyEncodings
	}
	return 1
}

// forge1: the attacker's own first message (towards the responder, under the responder's prologue)
func (f *vfC01Forger) forge1() ([]byte, error) {
	f.eSeed = vfC01Rand(32)
	hs, err := vfC01HS(true, f.sM, f.proR, f.eSeed)
	if err != nil {
		return nil, err
	}
	body, _, _, err := hs.WriteMessage(nil, nil)
	if err != nil {
		return nil, err
	}
	fr := vfC01Wrap(body)
	f.prod.toR = append(f.prod.toR, fr)
	return fr, nil
}

// initiator state of the attacker after the responder's second message, with a static key of choice
func (f *vfC01Forger) initiatorAfterM2(static noise.DHKey) (*noise.HandshakeState, []byte, error) {
	if f.eSeed == nil || f.rM2 == nil {
		return nil, nil, errors.New("not in sync")
	}
	hs, err := vfC01HS(true, static, f.proR, f.eSeed)
	if err != nil {
		return nil, nil, err
	}
	if _, _, _, err := hs.WriteMessage(nil, nil); err != nil {
		return nil, nil, err
	}
	pt, _, _, err := hs.ReadMessage(nil, f.rM2)
	if err != nil {
		return nil, nil, err
	}
	return hs, pt, nil
}

// observeM2: the responder emitted its second message; if it answers the forged first message the
// attacker can open it and learns the responder's static key and payload of THIS session
func (f *vfC01Forger) observeM2(body []byte, answersForged bool) {
	if !answersForged {
		return
	}
	f.rM2 = append([]byte(nil), body...)
	if hs, pt, err := f.initiatorAfterM2(f.sM); err == nil {
		f.knowB = true
		f.bStatic = append([]byte(nil), hs.PeerStatic()...)
		f.bPayload = append([]byte(nil), pt...)
	}
}

// forge2: a second message towards the initiator, under the initiator's prologue
func (f *vfC01Forger) forge2(v string, g int) ([]byte, error) {
	static := f.sM
	var learned []byte
	if v == "relay" {
		if !f.knowB {
			return nil, errors.New("vfC01: forge2 relay: the attacker has not learned the responder's payload")
		}
		// the victim's static key, whose private half the attacker does not have
		static = noise.DHKey{Public: f.bStatic, Private: vfC01Rand(32)}
		learned = f.bPayload
	}
	pay, err := f.payload(v, g, f.ids.B, static.Public, learned)
	if err != nil {
		return nil, err
	}
	hs, err := vfC01HS(false, static, f.proI, nil)
	if err != nil {
		return nil, err
	}
	if _, _, _, err := hs.ReadMessage(nil, f.iM1); err != nil {
		return nil, err
	}
	body, _, _, err := hs.WriteMessage(nil, pay)
	if err != nil {
		return nil, err
	}
	f.toI, f.toIown = hs, v != "relay"
	fr := vfC01Wrap(body)
	f.prod.toI = append(f.prod.toI, fr)
	return fr, nil
}

// observeM3: the initiator emitted its third message; if it answers the attacker's own second message
// the attacker learns the initiator's static key and payload of this session
func (f *vfC01Forger) observeM3(body []byte, answersForged bool) {
	if !answersForged || f.toI == nil || !f.toIown {
		return
	}
	hs := f.toI
	f.toI = nil
	pt, _, _, err := hs.ReadMessage(nil, body)
	if err == nil {
		f.knowA = true
		f.aStatic = append([]byte(nil), hs.PeerStatic()...)
		f.aPayload = append([]byte(nil), pt...)
	}
}

// forge3: a third message towards the responder.  In sync (the responder answered the attacker's own
// first message) the attacker derives the real keys as far as its private keys reach; otherwise all it
// can send is a well-formed third message keyed for some other exchange.
func (f *vfC01Forger) forge3(v string, g int) ([]byte, error) {
	static := f.sM
	var learned []byte
	if v == "relay" {
		if !f.knowA {
			return nil, errors.New("vfC01: forge3 relay: the attacker has not learned the initiator's payload")
		}
		static = noise.DHKey{Public: f.aStatic, Private: vfC01Rand(32)}
		learned = f.aPayload
	}
	pay, err := f.payload(v, g, f.ids.A, static.Public, learned)
	if err != nil {
		return nil, err
	}
	hs, _, err := f.initiatorAfterM2(static)
	if err != nil {
		// not in sync: a third message of an unrelated exchange of the attacker with itself
		hs, err = vfC01HS(true, static, f.proR, nil)
		if err != nil {
			return nil, err
		}
		other, err := noise.DH25519.GenerateKeypair(rand.Reader)
		if err != nil {
			return nil, err
		}
		rs, err := vfC01HS(false, other, f.proR, nil)
		if err != nil {
			return nil, err
		}
		m1, _, _, err := hs.WriteMessage(nil, nil)
		if err != nil {
			return nil, err
		}
		if _, _, _, err := rs.ReadMessage(nil, m1); err != nil {
			return nil, err
		}
		m2, _, _, err := rs.WriteMessage(nil, pay)
		if err != nil {
			return nil, err
		}
		if _, _, _, err := hs.ReadMessage(nil, m2); err != nil {
			return nil, err
		}
	}
	body, _, _, err := hs.WriteMessage(nil, pay)
	if err != nil {
		return nil, err
	}
	fr := vfC01Wrap(body)
	f.prod.toR = append(f.prod.toR, fr)
	return fr, nil
}

// ---------------------------------------------------------------------------------------------
// abstract edit -> bytes
// ---------------------------------------------------------------------------------------------

// vfC01Chooser picks the concrete form of an abstract edit: by seed, except at one step of the walk
// where the caller enumerates every form (every byte position of the field, every cut, ...).
type vfC01Chooser struct {
	rnd    *mrand.Rand
	step   int // step to enumerate, -1: none
	form   int
	count  int // number of forms at that step (reported back)
	masks  int
}

func (c *vfC01Chooser) pick(step, n int) int {
	if n <= 0 {
		return 0
	}
	if step == c.step {
		c.count = n
		return c.form % n
	}
	return c.rnd.Intn(n)
}

func vfC01Bits(v int, one bool) []int {
	var out []int
	for b := 0; b < 16; b++ {
		if (v>>b)&1 == 1 == one {
			out = append(out, b)
		}
	}
	return out
}

// vfC01ApplyEdit performs one frame-level edit on fr (the only frame in flight); the list-level edits
// (drop, dup, inject) and the replacing ones (splice, reflect) are done by the executor.
func vfC01ApplyEdit(ch *vfC01Chooser, step int, fr *vfC01Frame, kind string, a int) error {
	switch kind {
	case "starve":
		// the declared length exceeds what is delivered: a 0 bit of the prefix set, or the body cut
		// short with the prefix kept
		zeros := vfC01Bits(fr.decl, false)
		v := ch.pick(step, len(zeros)+len(fr.body))
		if v < len(zeros) {
			fr.decl |= 1 << zeros[v]
		} else {
			fr.body = fr.body[:v-len(zeros)]
		}
	case "lensmall":
		ones := vfC01Bits(fr.decl, true)
		if len(ones) == 0 {
			return errors.New("vfC01: lensmall on a zero length")
		}
		fr.decl &^= 1 << ones[ch.pick(step, len(ones))]
	case "truncfix":
		if a >= len(fr.fields) {
			return fmt.Errorf("vfC01: truncfix(%d) on %d fields", a, len(fr.fields))
		}
		r := fr.fields[a]
		end := r[1]
		if end > len(fr.body) {
			end = len(fr.body)
		}
		n := end - r[0]
		if n <= 0 {
			return fmt.Errorf("vfC01: truncfix(%d): empty field", a)
		}
		cut := r[0] + ch.pick(step, n)
		fr.body = fr.body[:cut]
		fr.decl = cut
		fr.fields = fr.fields[:a]
	case "extfix":
		pos := len(fr.body)
		if a < len(fr.fields) {
			pos = fr.fields[a][0]
		}
		if pos > len(fr.body) {
			pos = len(fr.body)
		}
		ns := []int{1, 2, 16, 33}
		junk := vfC01Rand(ns[ch.pick(step, len(ns))])
		if pos < len(fr.body) && junk[0] == fr.body[pos] {
			junk[0] ^= 0xff
		}
		nb := append([]byte(nil), fr.body[:pos]...)
		nb = append(nb, junk...)
		nb = append(nb, fr.body[pos:]...)
		fr.body = nb
		fr.decl = len(nb)
	case "flip":
		if a < 1 || a > len(fr.fields) {
			return fmt.Errorf("vfC01: flip(%d) on %d fields", a, len(fr.fields))
		}
		r := fr.fields[a-1]
		end := r[1]
		if end > len(fr.body) {
			end = len(fr.body)
		}
		n := end - r[0]
		if n <= 0 {
			return fmt.Errorf("vfC01: flip(%d): empty field", a)
		}
		v := ch.pick(step, n*ch.masks)
		pos := r[0] + v/ch.masks
		mask := byte(1) << uint((pos+int(ch.rnd.Int63()&7))%8)
		if v%ch.masks == 1 {
			mask = 0xff
		}
		fr.body[pos] ^= mask
	default:
		return fmt.Errorf("vfC01: unknown edit %q", kind)
	}
	return nil
}
