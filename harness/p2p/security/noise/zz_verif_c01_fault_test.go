//go:build verif

package noise

// C01, Noise part: faults INSIDE the handshake (spec/C01_Handshake.tla part F).  One side of an otherwise
// honest handshake between two real transports runs over a connection that fails at one of its Reads /
// Writes - EVERY I/O index of that side's handshake, counted on a dry run - or with an EarlyDataHandler
// whose Send / Received fails.  Kinds: error, EOF / closed pipe, deadline error, panic, cancellation of
// the caller's context while the operation blocks.  Runs in a synctest bubble; when everything is
// quiescent the pipes are closed and both results collected.
// L1: a call that returns nil error has authenticated the remote - so after a fault that fired the
// faulted call must return an error (a propagating panic is acceptable: the harness process dies and the
// driver reports it); and on EVERY success, on either side, RemotePublicKey() is non-nil, is the key the
// other endpoint holds, and RemotePeer() is the ID of that key (and the named peer, when one was named).

import (
	"context"
	"encoding/json"
	"errors"
	"fmt"
	"io"
	"net"
	"os"
	"path/filepath"
	"sync"
	"testing"
	"testing/synctest"

	"github.com/libp2p/go-libp2p/core/peer"
	"github.com/libp2p/go-libp2p/core/sec"
	"github.com/libp2p/go-libp2p/internal/vfh"
	"github.com/libp2p/go-libp2p/p2p/security/noise/pb"
)

type vfC01FaultConn struct {
	net.Conn
	mu     sync.Mutex
	ops    int
	at     int // I/O index at which the fault fires; < 0: never
	kind   string
	fired  bool
	cancel context.CancelFunc
	closed chan struct{}
	once   sync.Once
}

func vfC01NewFaultConn(c net.Conn, at int, kind string, cancel context.CancelFunc) *vfC01FaultConn {
	return &vfC01FaultConn{Conn: c, at: at, kind: kind, cancel: cancel, closed: make(chan struct{})}
}

func (f *vfC01FaultConn) Close() error {
	f.once.Do(func() { close(f.closed) })
	return f.Conn.Close()
}

// fault: what operation number f.ops does instead of its work; ok = no fault here
func (f *vfC01FaultConn) fault(read bool) (error, bool) {
	f.mu.Lock()
	i := f.ops
	f.ops++
	hit := i == f.at && !f.fired
	if hit {
		f.fired = true
	}
	f.mu.Unlock()
	if !hit {
		return nil, true
	}
	switch f.kind {
	case "eof":
		if read {
			return io.EOF, false
		}
		return io.ErrClosedPipe, false
	case "deadline":
		return os.ErrDeadlineExceeded, false
	case "panic":
		panic("vfC01: injected panic in the underlying connection")
	case "cancel":
		// the caller gives up while this operation blocks; it ends when somebody closes the connection
		f.cancel()
		<-f.closed
		return net.ErrClosed, false
	}
	return errors.New("vfC01: injected I/O error"), false
}
func (f *vfC01FaultConn) Read(b []byte) (int, error) {
	if err, ok := f.fault(true); !ok {
		return 0, err
	}
	return f.Conn.Read(b)
}
func (f *vfC01FaultConn) Write(b []byte) (int, error) {
	if err, ok := f.fault(false); !ok {
		return 0, err
	}
	return f.Conn.Write(b)
}
func (f *vfC01FaultConn) count() int {
	f.mu.Lock()
	defer f.mu.Unlock()
	return f.ops
}

// vfC01FaultEDH: a user-supplied early data handler that fails in Send or Received
type vfC01FaultEDH struct {
	point, kind string // point: "send" | "received" | ""
	fired       *bool
}

func (h vfC01FaultEDH) Send(context.Context, net.Conn, peer.ID) *pb.NoiseExtensions {
	if h.point == "send" {
		*h.fired = true
		panic("vfC01: injected panic in EarlyDataHandler.Send")
	}
	return &pb.NoiseExtensions{WebtransportCerthashes: [][]byte{[]byte("vfC01-certhash")}}
}
func (h vfC01FaultEDH) Received(context.Context, net.Conn, *pb.NoiseExtensions) error {
	if h.point == "received" {
		*h.fired = true
		if h.kind == "panic" {
			panic("vfC01: injected panic in EarlyDataHandler.Received")
		}
		return errors.New("vfC01: injected error in EarlyDataHandler.Received")
	}
	return nil
}

type vfC01FaultCase struct {
	Proto, Side, Named, Point, Kind string
}

// vfC01FaultRun runs one handshake; faulted side per fc; at = I/O index (point "io"; -1: dry run).
// Returns the number of I/O operations the faulted side's connection saw before its call returned.
func vfC01FaultRun(t *testing.T, res *vfh.Result, pool vfC01KeyPool, fc vfC01FaultCase, types [2]string, at int, session bool, walk int) (ops int, err error) {
	synctest.Test(t, func(t *testing.T) {
		ids := pool.ids(types[0], types[1], "Ed25519")
		ctxF, cancelF := context.WithCancel(context.Background())
		defer cancelF()
		ctxH, cancelH := context.WithCancel(context.Background())
		defer cancelH()
		a, b := net.Pipe()
		// the initiator is host A, the responder host B; the faulted one is fc.Side
		faultI := fc.Side == "client"
		fired := false
		mk := func(k vfC01Key, faulted bool) (sec.SecureTransport, error) {
			tp, e := vfC01NewTransport(k)
			if e != nil {
				return nil, e
			}
			if faulted && fc.Point != "io" {
				h := vfC01FaultEDH{point: fc.Point, kind: fc.Kind, fired: &fired}
				return tp.WithSessionOptions(EarlyData(h, h))
			}
			if session || fc.Point != "io" {
				h := vfC01FaultEDH{fired: &fired}
				return tp.WithSessionOptions(EarlyData(h, h))
			}
			return tp, nil
		}
		ti, e := mk(ids.A, faultI)
		if e != nil {
			err = e
			return
		}
		tr, e := mk(ids.B, !faultI)
		if e != nil {
			err = e
			return
		}
		kindIO := ""
		if fc.Point == "io" {
			kindIO = fc.Kind
		} else {
			at = -1
		}
		var fconn *vfC01FaultConn
		var ci, cr net.Conn = a, b
		if faultI {
			fconn = vfC01NewFaultConn(a, at, kindIO, cancelF)
			ci = fconn
		} else {
			fconn = vfC01NewFaultConn(b, at, kindIO, cancelF)
			cr = fconn
		}
		// who names whom: the faulted side per fc.Named; the honest side names its real counterpart when it dials
		pI, pR := ids.B.id, peer.ID("")
		if faultI && fc.Named == "empty" {
			pI = ""
		}
		if !faultI && fc.Named == "match" {
			pR = ids.A.id
		}
		type result struct {
			c   sec.SecureConn
			err error
			ops int
		}
		ich, rch := make(chan result, 1), make(chan result, 1)
		go func() {
			ctx := ctxH
			if faultI {
				ctx = ctxF
			}
			c, err := ti.SecureOutbound(ctx, ci, pI)
			ich <- result{c, err, fconn.count()}
		}()
		go func() {
			ctx := ctxH
			if !faultI {
				ctx = ctxF
			}
			c, err := tr.SecureInbound(ctx, cr, pR)
			rch <- result{c, err, fconn.count()}
		}()
		synctest.Wait()
		a.Close()
		b.Close()
		fconn.Close()
		ri, rr := <-ich, <-rch
		rf := rr
		if faultI {
			rf = ri
		}
		ops = rf.ops
		ioFired := fconn.fired
		cfg := map[string]any{"protocol": "noise", "faulted side": fc.Side, "named": fc.Named, "point": fc.Point, "kind": fc.Kind, "io index": at, "keys": types, "seed": vfh.Seed()}
		mm := func(class, what string, exp, got any) {
			res.AddMismatch(vfh.Mismatch{Class: class, What: what, Walk: walk, Expected: exp, Got: got, Cfg: cfg})
		}
		// ---- L1: every success has authenticated the other endpoint
		for _, x := range []struct {
			name  string
			r     result
			other vfC01Key
			named peer.ID
		}{{"initiator", ri, ids.B, pI}, {"responder", rr, ids.A, pR}} {
			if x.r.err != nil {
				continue
			}
			got := map[string]any{"side": x.name, "remote": x.r.c.RemotePeer().String(), "remote key known": x.r.c.RemotePublicKey() != nil}
			k := x.r.c.RemotePublicKey()
			switch {
			case k == nil:
				mm("completed-without-remote-key", x.name+" returned success but RemotePublicKey() is nil: nobody was authenticated", x.other.id.String(), got)
			case !k.Equals(x.other.pub):
				mm("wrong-remote-public-key", x.name+": RemotePublicKey() is not the key the other endpoint holds", x.other.id.String(), got)
			default:
				if id, e := peer.IDFromPublicKey(k); e != nil || id != x.r.c.RemotePeer() {
					mm("remote-peer-not-derived-from-remote-key", x.name+": RemotePeer() is not the ID of RemotePublicKey()", id.String(), got)
				}
			}
			if x.r.c.RemotePeer() != x.other.id {
				mm("wrong-remote-peer", x.name+" reports another remote peer than the endpoint at the other end of the pipe", x.other.id.String(), got)
			}
			if x.named != "" && x.r.c.RemotePeer() != x.named {
				mm("expected-peer-violated", x.name+" named a peer and completed with another", x.named.String(), got)
			}
			x.r.c.Close()
		}
		if (ioFired || fired) && rf.err == nil {
			mm("completed-after-fault", fmt.Sprintf("the %s's handshake was hit by a fault (%s at %s %d) and the call still returned success, reporting %s", fc.Side, fc.Kind, fc.Point, at, rf.c.RemotePeer()),
				"error", map[string]any{"remote": rf.c.RemotePeer().String(), "remote key known": rf.c.RemotePublicKey() != nil})
		}
		if ioFired || fired {
			res.Inc("F.noise.fired."+fc.Point+"."+fc.Kind, 1)
			if rf.err != nil {
				res.Inc("F.noise.refused", 1)
			}
		} else if at >= 0 || fc.Point != "io" {
			res.Inc("F.noise.not-reached", 1)
		}
		if at < 0 && fc.Point == "io" && (ri.err != nil || rr.err != nil) && fc.Named == "match" {
			res.Inc("F.noise.dry-run-incomplete", 1)
		}
		res.Count(1, 1)
	})
	return ops, err
}

func TestVerifC01NoiseFaults(t *testing.T) {
	res := vfh.NewResult()
	res.Rule = "distinct = (fault case, I/O index, key types) combinations executed"
	defer func() {
		if err := res.Write(); err != nil {
			t.Error(err)
		}
	}()
	pool, err := vfC01NewKeyPool()
	if err != nil {
		t.Fatal(err)
	}
	_, walks, err := vfh.LoadWalks(filepath.Join(vfh.In(), "F.jsonl"))
	if err != nil {
		t.Fatal(err)
	}
	seed := int(vfh.Seed())
	for i := range walks {
		var fc vfC01FaultCase
		if err := json.Unmarshal(walks[i].Init, &fc); err != nil {
			t.Fatal(err)
		}
		if fc.Proto != "noise" {
			continue
		}
		types := [2]string{vfC01Types[(i+seed)%4], vfC01Types[(i/4+seed)%4]}
		if i%2 == 0 && !vfh.Thorough() {
			types = [2]string{"Ed25519", "Ed25519"}
		}
		session := (i+seed)%2 == 0
		if fc.Point != "io" {
			if _, err := vfC01FaultRun(t, res, pool, fc, types, -1, session, walks[i].Walk); err != nil {
				t.Fatal(err)
			}
			res.Case(fmt.Sprint(fc, types))
			continue
		}
		// the I/O indexes of the faulted side's handshake, counted on a dry run of the same configuration
		dry := fc
		dry.Named = "match"
		n, err := vfC01FaultRun(t, res, pool, dry, types, -1, session, walks[i].Walk)
		if err != nil {
			t.Fatal(err)
		}
		if n < 3 {
			res.Inc("F.noise.dry-run-short", 1)
			continue
		}
		res.Set("F.noise.io-ops."+fc.Side, n)
		for k := 0; k < n; k++ {
			if _, err := vfC01FaultRun(t, res, pool, fc, types, k, session, walks[i].Walk); err != nil {
				t.Fatal(err)
			}
			res.Case(fmt.Sprint(fc, k, types))
		}
	}
}
