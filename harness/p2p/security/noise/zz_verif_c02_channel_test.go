//go:build verif

package noise

// Conformance harness for C02 (secured connections deliver bytes intact, in order, once), Noise layer.
// Replays the behaviours of spec/C02_Channel.tla (write split x read-buffer classes x short reads of the
// underlying connection x one wire fault) on a real pair of secureSessions joined by the frame-aware
// man-in-the-middle pipe of internal/vfc02, at real lengths chosen by the boundary-class scale map.
// L1 (verdict): internal/vfc02.Ledger over the bytes accepted by Write / returned by Read and the
// errors after tampering.  L2: path bookkeeping (qbuf/qseek, nonces, frames in flight).

import (
	"bufio"
	"context"
	"crypto/rand"
	"fmt"
	"sync/atomic"
	"testing"
	"unsafe"

	"github.com/flynn/noise"

	pool "github.com/libp2p/go-buffer-pool"
	"github.com/libp2p/go-libp2p/core/crypto"
	"github.com/libp2p/go-libp2p/core/peer"
	"github.com/libp2p/go-libp2p/internal/vfc02"
	"github.com/libp2p/go-libp2p/internal/vfh"
)

type vfC02Peer struct {
	id  peer.ID
	tpt *Transport
}

func vfC02NewPeer() (*vfC02Peer, error) {
	priv, _, err := crypto.GenerateEd25519Key(rand.Reader)
	if err != nil {
		return nil, err
	}
	id, err := peer.IDFromPrivateKey(priv)
	if err != nil {
		return nil, err
	}
	tpt, err := New(ID, priv, nil)
	if err != nil {
		return nil, err
	}
	return &vfC02Peer{id: id, tpt: tpt}, nil
}

// vfC02Handshake runs a real Noise XX handshake over the pipe and returns (initiator, responder).
func vfC02Handshake(a, b *vfC02Peer) (*secureSession, *secureSession, *vfc02.Conn, *vfc02.Conn, error) {
	ca, cb := vfc02.NewPair(vfc02.NoiseFramer)
	type out struct {
		s   *secureSession
		err error
	}
	ch := make(chan out, 1)
	go func() {
		c, err := b.tpt.SecureInbound(context.Background(), cb, "")
		if err != nil {
			ch <- out{nil, err}
			return
		}
		ch <- out{c.(*secureSession), nil}
	}()
	c, err := a.tpt.SecureOutbound(context.Background(), ca, b.id)
	if err != nil {
		ca.Close()
		<-ch
		return nil, nil, nil, nil, err
	}
	o := <-ch
	if o.err != nil {
		return nil, nil, nil, nil, o.err
	}
	if ca.In.Pending() != 0 || cb.In.Pending() != 0 {
		return nil, nil, nil, nil, fmt.Errorf("handshake left %d/%d bytes in flight", ca.In.Pending(), cb.In.Pending())
	}
	return c.(*secureSession), o.s, ca, cb, nil
}

// vfC02Clone builds a session pair in the state a handshake leaves behind (same keys, nonces 0, nothing
// queued) over a fresh pipe, without repeating the X25519/Ed25519 work: the handshake is C01's subject,
// and one walk in 32 still runs the real one.
func vfC02Clone(ini, rsp *secureSession) (*secureSession, *secureSession, *vfc02.Conn, *vfc02.Conn) {
	ca, cb := vfc02.NewPair(vfc02.NoiseFramer)
	mk := func(t *secureSession, c *vfc02.Conn) *secureSession {
		return &secureSession{
			initiator: t.initiator, checkPeerID: t.checkPeerID, localID: t.localID, localKey: t.localKey,
			remoteID: t.remoteID, remoteKey: t.remoteKey, insecureConn: c, insecureReader: bufio.NewReader(c),
			enc:             noise.UnsafeNewCipherState(cipherSuite, t.enc.UnsafeKey(), 0),
			dec:             noise.UnsafeNewCipherState(cipherSuite, t.dec.UnsafeKey(), 0),
			connectionState: t.connectionState,
		}
	}
	return mk(ini, ca), mk(rsp, cb), ca, cb
}

// vfC02PoolCheck is the harness acting as one more user of the process-wide buffer pool, after every step: for
// the size classes of the frames just handled it takes a batch of buffers, overwrites them and hands them
// back.  A buffer that the session released too early - or twice, so that the pool hands the same array to
// two owners - is thereby overwritten while the session still reads from it, and the altered bytes show up
// at the session's next Read (L1).  What it can see directly is reported as L2: two buffers of one batch
// with the same backing array, or a pooled buffer that is the backing array of a live receive queue.
var vfC02PoisonSlab = func() []byte {
	b := make([]byte, 1<<17)
	for i := range b {
		b[i] = 0xA5
	}
	return b
}()

func vfC02PoolCheck(live func() [][]byte) func(frameLens ...int) string {
	return func(frameLens ...int) string {
		what := ""
		seenClass := map[int]bool{}
		for _, fl := range frameLens {
			if fl <= 0 {
				continue
			}
			for _, sz := range []int{fl, fl + LengthPrefixLength} {
				probe := pool.Get(sz)
				class := cap(probe)
				pool.Put(probe)
				if seenClass[class] {
					continue
				}
				seenClass[class] = true
				const batch = 3
				var bufs [batch][]byte
				for i := range bufs {
					bufs[i] = pool.Get(sz)
				}
				for i := range bufs {
					pi := unsafe.SliceData(bufs[i][:cap(bufs[i])])
					for j := 0; j < i; j++ {
						if pi == unsafe.SliceData(bufs[j][:cap(bufs[j])]) {
							what = fmt.Sprintf("the pool handed out the same %d-byte array twice (double Put)", cap(bufs[i]))
						}
					}
					for _, q := range live() {
						if q != nil && cap(q) > 0 && pi == unsafe.SliceData(q[:cap(q)]) {
							what = fmt.Sprintf("a pooled %d-byte buffer is the backing array of a live receive queue", cap(bufs[i]))
						}
					}
					for b := bufs[i][:cap(bufs[i])]; len(b) > 0; {
						b = b[copy(b, vfC02PoisonSlab):]
					}
				}
				for i := range bufs {
					pool.Put(bufs[i])
				}
			}
		}
		return what
	}
}

var vfC02NoiseScale = vfc02.Scale{
	MaxPT: MaxPlaintextLength, Tag: 16, Prefix: LengthPrefixLength,
	Small:  []int{1, 2, 15, 16, 17, 255, 4095, 4096, 4097},
	Large:  []int{MaxPlaintextLength - 1, MaxPlaintextLength - 2, MaxPlaintextLength - 15, MaxPlaintextLength - 16, MaxPlaintextLength - 17, MaxPlaintextLength - 4096, 32768},
	Shorts: []int{2, 3, 17, 18, 4095, 4096, 4097, 65535, 65537},
}

func TestVerifC02Noise(t *testing.T) {
	res := vfh.NewResult()
	res.Rule = "distinct = (operation, path, buffer relation class, error, short-read class) combinations executed on real Noise sessions"
	defer func() {
		if err := res.Write(); err != nil {
			t.Fatal(err)
		}
	}()
	if MaxPlaintextLength != 65519 || MaxTransportMsgLength != 65535 {
		// the scale map follows the constants; record them
		res.Set("noise_constants_changed", []int{MaxPlaintextLength, MaxTransportMsgLength})
	}
	a, err := vfC02NewPeer()
	if err != nil {
		t.Fatal(err)
	}
	b, err := vfC02NewPeer()
	if err != nil {
		t.Fatal(err)
	}
	// template pair: one real handshake whose keys the cloned sessions reuse
	tini, trsp, tca, tcb, err := vfC02Handshake(a, b)
	if err != nil {
		t.Fatal(err)
	}
	defer tca.Close()
	defer tcb.Close()
	var real atomic.Int64
	defer func() { res.Set("noise_real_handshakes", int(real.Load())) }()
	cfg := vfc02.ChanCfg{
		Layer: "noise", Scale: vfC02NoiseScale, LenOff: []int{0, 1}, Exact: true,
		New: func(walk int) (*vfc02.ChanSession, error) {
			var ini, rsp *secureSession
			var ca, cb *vfc02.Conn
			if walk%32 == 0 {
				var err error
				if ini, rsp, ca, cb, err = vfC02Handshake(a, b); err != nil {
					return nil, err
				}
				real.Add(1)
			} else {
				ini, rsp, ca, cb = vfC02Clone(tini, trsp)
			}
			ws, rs, wire, note := ini, rsp, cb.In, "initiator writes"
			if walk%2 == 1 {
				ws, rs, wire, note = rsp, ini, ca.In, "responder writes"
			}
			revWire := ca.In
			if wire == ca.In {
				revWire = cb.In
			}
			return &vfc02.ChanSession{
				W: ws, R: rs, Wire: wire, Note: note, RevW: rs, RevR: ws, RevWire: revWire,
				After: vfC02PoolCheck(func() [][]byte { return [][]byte{rs.qbuf, ws.qbuf} }),
				Proj: func() *vfc02.ChanProj {
					return &vfc02.ChanProj{QLive: rs.qbuf != nil, QLen: len(rs.qbuf), QSeek: rs.qseek,
						RNonce: rs.dec.Nonce(), WNonce: ws.enc.Nonce(), Buffered: rs.insecureReader.Buffered()}
				},
				Close: func() { ca.Close(); cb.Close() },
			}, nil
		},
	}
	rounds := vfh.EnvInt("VERIF_C02_ROUNDS", 1)
	par := vfh.EnvInt("VERIF_C02_PAR", 4)
	if err := vfc02.RunChannel(res, cfg, "chan_*.jsonl", rounds, par); err != nil {
		t.Fatal(err)
	}
}
