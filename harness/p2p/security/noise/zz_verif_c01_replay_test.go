//go:build verif

package noise

// C01, Noise part: replay of the behaviours of spec/C01_Handshake.tla (part N) on real transports.
// Every model transition is executed: "edit" on the bytes in flight, "deliver"/"forge"/"close" on the
// pipes; after each of the latter the harness waits for quiescence (synctest.Wait) and compares what
// both endpoints did with the model (L2) and judges every endpoint that returned success against the
// ledger (L1, vfC01Audit).  One abstract walk is run many times: with different identity key types on
// either side, and - for walks with a single attacker action - once for EVERY concrete form of that
// action (every byte position of the field, every cut, every bit of the length prefix, ...).

import (
	"bytes"
	"context"
	"encoding/json"
	"fmt"
	mrand "math/rand"
	"os"
	"path/filepath"
	"strings"
	"sync"
	"testing"
	"testing/synctest"

	"github.com/libp2p/go-libp2p/core/peer"
	"github.com/libp2p/go-libp2p/internal/vfh"
)

type vfC01S2 struct {
	frames [][]byte // m1, m2 and (when the prologues agree) m3 of the other honest session
	i2, r2 *vfC01Producer
}

type vfC01Exec struct {
	c            *vfC01Ctx
	lay          vfC01Layout
	cfg          vfC01Cfg
	ids          vfC01Ids
	session      bool
	sess         *vfC01Sess
	f            *vfC01Forger
	ch           *vfC01Chooser
	air          []*vfC01Frame
	k            int
	iSeen, rSeen int
	pI, pR       *vfC01Producer
	prods        []*vfC01Producer
	s2           *vfC01S2
	err          error
}

var vfC01S2Cache sync.Map // "pro|keys" -> *vfC01S2

// vfC01PassThrough runs an honest session to the end with an attacker that only forwards.
func vfC01PassThrough(ctx context.Context, cfg vfC01Cfg, ids vfC01Ids, suffix string, session bool) (*vfC01Sess, [][]byte) {
	s, err := vfC01NewSess(ctx, cfg, ids, suffix, session, nil)
	if err != nil {
		return nil, nil
	}
	return s, vfC01Forward(s)
}

// vfC01Forward: an attacker that only forwards, until nothing moves any more
func vfC01Forward(s *vfC01Sess) [][]byte {
	var frames [][]byte
	synctest.Wait()
	if s.I.tap.count() > 0 {
		frames = append(frames, s.I.tap.frame(0))
		s.R.deliver(frames[0])
		synctest.Wait()
		if s.R.tap.count() > 0 {
			frames = append(frames, s.R.tap.frame(0))
			s.I.deliver(frames[1])
			synctest.Wait()
			if s.I.tap.count() > 1 {
				frames = append(frames, s.I.tap.frame(1))
				s.R.deliver(frames[2])
				synctest.Wait()
			}
		}
	}
	return frames
}

// vfC01HonestPair runs honest sessions between the two hosts on the given Transport objects, in both
// directions (A dials B, B dials A), each side naming its real counterpart, and judges every endpoint
// against the ledger.  Returns the number of endpoints (of 4) that completed.
func vfC01HonestPair(ctx context.Context, c *vfC01Ctx, tp *vfC01Tpts, ids vfC01Ids, tag string) int {
	done := 0
	for dir := 0; dir < 2; dir++ {
		ki, kr, ti, tr := ids.A, ids.B, tp.a, tp.b
		if dir == 1 {
			ki, kr, ti, tr = ids.B, ids.A, tp.b, tp.a
		}
		s := &vfC01Sess{
			I: vfC01StartSide(ctx, "I"+tag, "I", ki, ti, kr.id, "match"),
			R: vfC01StartSide(ctx, "R"+tag, "R", kr, tr, ki.id, "match"),
		}
		frames := vfC01Forward(s)
		pi := &vfC01Producer{name: s.I.name, live: true, key: ki}
		pr := &vfC01Producer{name: s.R.name, live: true, key: kr}
		for i, f := range frames {
			if i == 1 {
				pr.toI = append(pr.toI, f)
			} else {
				pi.toR = append(pi.toR, f)
			}
		}
		for _, side := range []*vfC01Side{s.I, s.R} {
			vfC01Audit(c, side, []*vfC01Producer{pi, pr})
			if side.done() {
				done++
			}
		}
		s.finish()
	}
	return done
}

// the other honest session between the same identities under the same prologues (it names its real
// counterpart), finished before the attacked one starts
func (x *vfC01Exec) session2(ctx context.Context) *vfC01S2 {
	if x.s2 != nil {
		return x.s2
	}
	key := x.cfg.Pro + "|" + x.ids.String()
	if v, ok := vfC01S2Cache.Load(key); ok {
		x.s2 = v.(*vfC01S2)
		return x.s2
	}
	s, frames := vfC01PassThrough(ctx, vfC01Cfg{Ei: "match", Er: "match", Pro: x.cfg.Pro}, x.ids, "2", x.session)
	if s == nil {
		return nil
	}
	s.finish()
	s2 := &vfC01S2{frames: frames,
		i2: &vfC01Producer{name: "I2", key: x.ids.A}, r2: &vfC01Producer{name: "R2", key: x.ids.B}}
	for i, f := range frames {
		if i == 1 {
			s2.r2.toI = append(s2.r2.toI, f)
		} else {
			s2.i2.toR = append(s2.i2.toR, f)
		}
	}
	vfC01S2Cache.Store(key, s2)
	x.s2 = s2
	return s2
}

func (x *vfC01Exec) nameOf(id peer.ID) string {
	switch id {
	case x.ids.A.id:
		return "A"
	case x.ids.B.id:
		return "B"
	case x.ids.M.id:
		return "M"
	case "":
		return ""
	}
	return "?" + id.String()
}

func (x *vfC01Exec) obs() map[string]string {
	rem := func(s *vfC01Side) string {
		if s.done() {
			return x.nameOf(s.got.conn.RemotePeer())
		}
		return ""
	}
	return map[string]string{"iS": x.sess.I.status(), "rS": x.sess.R.status(), "iRem": rem(x.sess.I), "rRem": rem(x.sess.R)}
}

// capture picks up what the endpoints emitted since the last look
func (x *vfC01Exec) capture() bool {
	emitted := false
	if n := x.sess.R.tap.count(); n > x.rSeen {
		raw := x.sess.R.tap.frame(x.rSeen)
		x.rSeen = n
		x.pR.toI = append(x.pR.toI, raw)
		if len(x.air) > 0 {
			x.err = fmt.Errorf("responder emitted while message %d is still in flight", x.k)
		}
		x.air, x.k, emitted = []*vfC01Frame{vfC01FrameOf(raw, 2, x.lay)}, 2, true
		first := vfC01ParseFrames(x.sess.R.deliv, 1)
		x.f.observeM2(raw[2:], len(first) == 1 && len(x.f.prod.toR) > 0 && bytes.Equal(first[0], x.f.prod.toR[0]))
	}
	for n := x.sess.I.tap.count(); x.iSeen < n; x.iSeen++ {
		raw := x.sess.I.tap.frame(x.iSeen)
		x.pI.toR = append(x.pI.toR, raw)
		if x.iSeen == 0 {
			x.f.iM1 = append([]byte(nil), raw[2:]...)
			x.air, x.k, emitted = []*vfC01Frame{vfC01FrameOf(raw, 1, x.lay)}, 1, true
			continue
		}
		if len(x.air) > 0 {
			x.err = fmt.Errorf("initiator emitted while message %d is still in flight", x.k)
		}
		x.air, x.k, emitted = []*vfC01Frame{vfC01FrameOf(raw, 3, x.lay)}, 3, true
		first := vfC01ParseFrames(x.sess.I.deliv, 1)
		x.f.observeM3(raw[2:], len(first) == 1 && len(x.f.prod.toI) > 0 && bytes.Equal(first[0], x.f.prod.toI[len(x.f.prod.toI)-1]))
	}
	return emitted
}

func (x *vfC01Exec) compare(op vfh.Op, emitted bool, target *vfC01Side, before string) {
	got := x.obs()
	for _, s := range []*vfC01Side{x.sess.I, x.sess.R} {
		vfC01Audit(x.c, s, x.prods)
	}
	exp := map[string]string{"iS": op.S("iS"), "rS": op.S("rS"), "iRem": op.S("iRem"), "rRem": op.S("rRem")}
	for _, side := range []string{"i", "r"} {
		m, r := exp[side+"S"], got[side+"S"]
		switch {
		case m == r:
			if m == "ok" && exp[side+"Rem"] != got[side+"Rem"] {
				x.c.mismatch("L2:remote", "completed side reports another remote peer than the model", exp, got)
			}
		case r == "ok":
			x.c.mismatch("L2:model-rejects-code-accepts", side+": the model refuses this handshake, the code completes it (the ledger audit decides whether the statement is violated)", exp, got)
		case m == "ok":
			x.c.mismatch("L2:model-accepts-code-rejects", side+": the model completes this handshake, the code refuses it: "+fmt.Sprint(x.sideErr(side)), exp, got)
		default:
			x.c.mismatch("L2:status", side+": waiting/failed status differs from the model", exp, got)
		}
	}
	if op.Has("emit") && op.B("emit") != emitted {
		x.c.mismatch("L2:emit", "next handshake message emitted / not emitted unlike the model", op.B("emit"), emitted)
	}
	if target != nil && before != "fail" && target.status() == "fail" && op.Has("why") {
		mw, rw := vfC01ModelWhy(op.S("why")), vfC01Why(target.got.err)
		if mw != rw && mw != "-" && mw != "starve" {
			x.c.mismatch("L2:why", fmt.Sprintf("%s fails at another stage than the model: %v", target.name, target.got.err), mw, rw)
		}
		x.c.res.Inc("N.why."+rw, 1)
	}
}

func (x *vfC01Exec) sideErr(side string) error {
	s := x.sess.I
	if side == "r" {
		s = x.sess.R
	}
	if s.got != nil {
		return s.got.err
	}
	return nil
}

// step executes one model action; false: the walk cannot be continued
func (x *vfC01Exec) step(ctx context.Context, i int, op vfh.Op) bool {
	switch op.Name() {
	case "warm":
		return true // done before the attacked session started
	case "edit":
		kind, a := op.S("kind"), op.I("a")
		if len(x.air) != 1 || x.k != op.I("k") {
			x.c.mismatch("L2:desync", fmt.Sprintf("edit of message %d but %d frames of message %d are in flight", op.I("k"), len(x.air), x.k), nil, nil)
			return false
		}
		fr := x.air[0]
		switch kind {
		case "drop":
			x.air, x.k = nil, 0
		case "dup":
			x.air = []*vfC01Frame{fr, fr.clone()}
		case "inject":
			ns := []int{0, 1, 47, 64, 200}
			junk := vfC01Rand(ns[x.ch.pick(i, len(ns))])
			x.air = append(x.air, &vfC01Frame{decl: len(junk), body: junk})
		case "splice":
			s2 := x.session2(ctx)
			if s2 == nil || len(s2.frames) < x.k {
				x.err = fmt.Errorf("no message %d of the other session to splice", x.k)
				return false
			}
			x.air = []*vfC01Frame{vfC01FrameOf(s2.frames[x.k-1], x.k, x.lay)}
			x.addProd(s2.i2)
			x.addProd(s2.r2)
		case "reflect":
			if x.k == 2 {
				x.air = []*vfC01Frame{vfC01FrameOf(x.sess.I.tap.frame(0), 1, x.lay)}
			} else {
				x.air = []*vfC01Frame{vfC01FrameOf(x.sess.R.tap.frame(0), 2, x.lay)}
			}
		default:
			if err := vfC01ApplyEdit(x.ch, i, fr, kind, a); err != nil {
				x.err = err
				return false
			}
		}
		x.c.res.Inc("N.edit."+kind, 1)
		return true
	case "deliver":
		if len(x.air) == 0 || x.k != op.I("k") {
			x.c.mismatch("L2:desync", fmt.Sprintf("deliver of message %d but message %d is in flight", op.I("k"), x.k), nil, nil)
			return false
		}
		target := x.sess.R
		if x.k == 2 {
			target = x.sess.I
		}
		before := target.status()
		var b []byte
		for _, fr := range x.air {
			b = append(b, fr.raw()...)
		}
		x.air, x.k = nil, 0
		target.deliver(b)
		synctest.Wait()
		x.compare(op, x.capture(), target, before)
		return x.err == nil
	case "forge":
		kk, v := op.I("k"), op.S("v")
		g := x.ch.pick(i, vfC01Forms(v))
		var fr []byte
		var err error
		target := x.sess.R
		switch kk {
		case 1:
			fr, err = x.f.forge1()
		case 2:
			fr, err = x.f.forge2(v, g)
			target = x.sess.I
		default:
			fr, err = x.f.forge3(v, g)
		}
		if err != nil {
			x.c.mismatch("L2:desync", "forge not possible: "+err.Error(), nil, nil)
			return false
		}
		if x.k == kk {
			x.air, x.k = nil, 0
		}
		before := target.status()
		target.deliver(fr)
		synctest.Wait()
		x.c.res.Inc(fmt.Sprintf("N.forge%d.%s", kk, v), 1)
		x.compare(op, x.capture(), target, before)
		return x.err == nil
	case "close":
		x.sess.I.closeWire()
		x.sess.R.closeWire()
		synctest.Wait()
		x.compare(op, false, nil, "")
		return true
	}
	x.err = fmt.Errorf("unknown op %q", op.Name())
	return false
}

func (x *vfC01Exec) addProd(p *vfC01Producer) {
	for _, q := range x.prods {
		if q == p {
			return
		}
	}
	x.prods = append(x.prods, p)
}

type vfC01Job struct {
	w       *vfh.Walk
	cfg     vfC01Cfg
	types   [3]string
	session bool
	expand  int // step whose concrete forms are all enumerated; -1: none
	live    bool
	pass    string
}

func vfC01WalkCfg(w *vfh.Walk) (vfC01Cfg, error) {
	var init struct {
		Cfg struct{ Ei, Er, Pro string } `json:"cfg"`
	}
	if err := json.Unmarshal(w.Init, &init); err != nil {
		return vfC01Cfg{}, err
	}
	return vfC01Cfg{Ei: init.Cfg.Ei, Er: init.Cfg.Er, Pro: init.Cfg.Pro}, nil
}

// vfC01RunWalk executes one concretisation of a walk in its own bubble; returns the number of concrete
// forms at the enumerated step.
func vfC01RunWalk(t *testing.T, res *vfh.Result, lay vfC01Layout, pool vfC01KeyPool, j *vfC01Job, form int, masks int) (count int, err error) {
	synctest.Test(t, func(t *testing.T) {
		ctx, cancel := context.WithCancel(context.Background())
		defer cancel()
		ids := pool.ids(j.types[0], j.types[1], j.types[2])
		c := &vfC01Ctx{res: res, walk: j.w.Walk, cfg: j.cfg, ids: ids, note: j.pass}
		ch := &vfC01Chooser{rnd: mrand.New(mrand.NewSource(vfh.Seed()*1000003 + int64(j.w.Walk)*31 + int64(form))), step: j.expand, form: form, masks: masks}
		x := &vfC01Exec{c: c, lay: lay, cfg: j.cfg, ids: ids, session: j.session, ch: ch}
		x.f, err = vfC01NewForger(ids, j.cfg)
		if err != nil {
			return
		}
		// warm history: honest sessions between the same identities complete first, in both directions, on
		// Transport objects that stay alive; the attacked session then runs on those same objects or on fresh
		// ones (a package-level memory is process-wide, an object-level one is not)
		var tp, warmTp *vfC01Tpts
		if len(j.w.Steps) > 0 && j.w.Steps[0].Op.Name() == "warm" {
			if warmTp, err = vfC01NewTpts(ids); err != nil {
				return
			}
			c.note = j.pass + " warm"
			if n := vfC01HonestPair(ctx, c, warmTp, ids, "w"); n != 4 {
				c.mismatch("L2:honest-session-fails", "an honest session of the warm-up did not complete on both sides", 4, n)
			}
			if ch.rnd.Intn(2) == 0 {
				tp = warmTp
				c.note += " (same transport objects)"
			} else {
				c.note += " (fresh transport objects)"
			}
			res.Inc("N.warm", 1)
		}
		x.sess, err = vfC01NewSess(ctx, j.cfg, ids, "", j.session, tp)
		if err != nil {
			return
		}
		defer x.sess.finish()
		x.pI = &vfC01Producer{name: "I", live: true, key: ids.A}
		x.pR = &vfC01Producer{name: "R", live: true, key: ids.B}
		x.prods = []*vfC01Producer{x.pI, x.pR, x.f.prod}
		synctest.Wait()
		if !x.capture() || x.k != 1 {
			err = fmt.Errorf("initiator did not emit its first message")
			return
		}
		steps := 0
		for i, st := range j.w.Steps {
			c.step = i
			c.prefix = append(c.prefix, st.Op)
			steps++
			if !x.step(ctx, i, st.Op) {
				break
			}
		}
		if x.err != nil {
			err = x.err
		}
		// whatever the walk left open: the attacker goes away
		x.sess.I.closeWire()
		x.sess.R.closeWire()
		synctest.Wait()
		for _, s := range []*vfC01Side{x.sess.I, x.sess.R} {
			vfC01Audit(c, s, x.prods)
			if s.done() {
				res.Inc("N.completed."+s.name+"."+s.key.typ, 1)
				if s.got.conn.RemotePeer() == ids.M.id {
					res.Inc("N.completed-with-attacker."+s.name, 1)
				}
			}
		}
		if warmTp != nil && (vfh.Thorough() || ch.rnd.Intn(3) == 0) {
			// whatever the attacker did must not poison later honest sessions on the same objects
			if n := vfC01HonestPair(ctx, c, warmTp, ids, "p"); n != 4 {
				c.mismatch("L2:honest-session-fails", "an honest session after the attack did not complete on both sides", 4, n)
			}
		}
		res.Count(1, steps)
		count = ch.count
		if j.w.Walk%997 == 0 && form == 0 {
			var ops []string
			for _, o := range c.prefix {
				ops = append(ops, fmt.Sprintf("%s %s%s k=%d", o.Name(), o.S("kind"), o.S("v"), o.I("k")))
			}
			res.Sample(map[string]any{"cfg": j.cfg.String(), "keys": ids.String(), "pass": j.pass, "actions": ops, "final": x.obs()})
		}
	})
	return count, err
}

// vfC01RunSwap: the live form of "splice": two sessions run side by side and message k of each is
// delivered to the other; everything else is forwarded.  All four endpoints are judged against the
// ledger; the final state of session 1 is compared with the model's.
func vfC01RunSwap(t *testing.T, res *vfh.Result, pool vfC01KeyPool, j *vfC01Job, k int) (err error) {
	synctest.Test(t, func(t *testing.T) {
		ctx, cancel := context.WithCancel(context.Background())
		defer cancel()
		ids := pool.ids(j.types[0], j.types[1], j.types[2])
		c := &vfC01Ctx{res: res, walk: j.w.Walk, cfg: j.cfg, ids: ids, note: j.pass + " live swap of message " + fmt.Sprint(k)}
		for _, st := range j.w.Steps {
			c.prefix = append(c.prefix, st.Op)
		}
		var s [2]*vfC01Sess
		s[0], err = vfC01NewSess(ctx, j.cfg, ids, "", j.session, nil)
		if err != nil {
			return
		}
		defer s[0].finish()
		s[1], err = vfC01NewSess(ctx, vfC01Cfg{Ei: "match", Er: "match", Pro: j.cfg.Pro}, ids, "2", j.session, nil)
		if err != nil {
			return
		}
		defer s[1].finish()
		var prods []*vfC01Producer
		pI := [2]*vfC01Producer{{name: "I", live: true, key: ids.A}, {name: "I2", live: true, key: ids.A}}
		pR := [2]*vfC01Producer{{name: "R", live: true, key: ids.B}, {name: "R2", live: true, key: ids.B}}
		prods = append(prods, pI[0], pI[1], pR[0], pR[1])
		synctest.Wait()
		iSeen := [2]int{}
		for stage := 1; stage <= 3; stage++ {
			var fr [2][]byte
			for n := 0; n < 2; n++ {
				if stage == 2 {
					if s[n].R.tap.count() > 0 {
						fr[n] = s[n].R.tap.frame(0)
						pR[n].toI = append(pR[n].toI, fr[n])
					}
				} else if s[n].I.tap.count() > iSeen[n] {
					fr[n] = s[n].I.tap.frame(iSeen[n])
					iSeen[n]++
					pI[n].toR = append(pI[n].toR, fr[n])
				}
			}
			if stage == k {
				fr[0], fr[1] = fr[1], fr[0]
			}
			for n := 0; n < 2; n++ {
				if fr[n] == nil {
					continue
				}
				if stage == 2 {
					s[n].I.deliver(fr[n])
				} else {
					s[n].R.deliver(fr[n])
				}
			}
			synctest.Wait()
		}
		for n := 0; n < 2; n++ {
			s[n].I.closeWire()
			s[n].R.closeWire()
		}
		synctest.Wait()
		for n := 0; n < 2; n++ {
			for _, side := range []*vfC01Side{s[n].I, s[n].R} {
				vfC01Audit(c, side, prods)
			}
		}
		// session 1 against the model's final state
		if len(j.w.Steps) > 0 {
			var fin map[string]any
			json.Unmarshal(j.w.Steps[len(j.w.Steps)-1].State, &fin)
			for key, side := range map[string]*vfC01Side{"iS": s[0].I, "rS": s[0].R} {
				if m, _ := fin[key].(string); m != side.status() {
					cls := "L2:status"
					if side.status() == "ok" {
						cls = "L2:model-rejects-code-accepts"
					} else if m == "ok" {
						cls = "L2:model-accepts-code-rejects"
					}
					c.mismatch(cls, "live swap: final status of "+side.name+" differs from the model", m, side.status())
				}
			}
		}
		res.Inc("N.liveswap", 1)
		res.Count(1, len(j.w.Steps))
	})
	return err
}

// vfC01DiscoverLayout measures the length of a DH key and of an AEAD tag on a dry run: the harness plays
// the responder with flynn/noise against a real initiator and so knows the plaintext lengths.
func vfC01DiscoverLayout(t *testing.T, pool vfC01KeyPool) (lay vfC01Layout, err error) {
	synctest.Test(t, func(t *testing.T) {
		ctx, cancel := context.WithCancel(context.Background())
		defer cancel()
		ids := pool.ids("Ed25519", "Ed25519", "Ed25519")
		cfg := vfC01Cfg{Ei: "diff", Er: "match", Pro: "none"} // the initiator names M: the harness answers as M
		s, e := vfC01NewSess(ctx, cfg, ids, "", false, nil)
		if e != nil {
			err = e
			return
		}
		defer s.finish()
		f, e := vfC01NewForger(ids, cfg)
		if e != nil {
			err = e
			return
		}
		synctest.Wait()
		if s.I.tap.count() != 1 {
			err = fmt.Errorf("dry run: no first message")
			return
		}
		m1 := s.I.tap.frame(0)
		f.iM1 = m1[2:]
		m2, e := f.forge2("own", 0)
		if e != nil {
			err = e
			return
		}
		s.I.deliver(m2)
		synctest.Wait()
		if s.I.tap.count() != 2 || !s.I.done() {
			err = fmt.Errorf("dry run: the initiator did not complete against the harness responder: %v", s.I.got)
			return
		}
		m3 := s.I.tap.frame(1)
		f.observeM3(m3[2:], true)
		if !f.knowA {
			err = fmt.Errorf("dry run: cannot open the third message")
			return
		}
		dh := len(m1) - 2
		rest := len(m3) - 2 - dh - len(f.aPayload)
		if dh <= 0 || rest <= 0 || rest%2 != 0 || len(f.aStatic) != dh {
			err = fmt.Errorf("dry run: inconsistent lengths m1=%d m3=%d payload=%d", len(m1), len(m3), len(f.aPayload))
			return
		}
		lay = vfC01Layout{dh: dh, tag: rest / 2}
	})
	return lay, err
}

func vfC01Kinds(w *vfh.Walk) (edits []int, forge, pure bool, spliceOnly int) {
	spliceOnly = -1
	pure = true
	for i, st := range w.Steps {
		switch st.Op.Name() {
		case "edit":
			edits = append(edits, i)
			if st.Op.S("kind") != "drop" {
				pure = false
			}
			if st.Op.S("kind") == "splice" {
				spliceOnly = st.Op.I("k")
			}
		case "forge":
			edits = append(edits, i)
			forge = true
		}
	}
	if len(edits) != 1 {
		spliceOnly = -1
	}
	return
}

func TestVerifC01NoiseReplay(t *testing.T) {
	res := vfh.NewResult()
	res.Rule = "distinct = (configuration, action history, key types, enumerated step) combinations executed"
	defer func() {
		if err := res.Write(); err != nil {
			t.Error(err)
		}
	}()
	pool, err := vfC01NewKeyPool()
	if err != nil {
		t.Fatal(err)
	}
	lay, err := vfC01DiscoverLayout(t, pool)
	if err != nil {
		t.Fatal(err)
	}
	res.Set("N.layout", map[string]int{"dh": lay.dh, "tag": lay.tag})
	_, walks, err := vfh.LoadWalks(filepath.Join(vfh.In(), "N.jsonl"))
	if err != nil {
		t.Fatal(err)
	}
	seed := vfh.Seed()
	thorough := vfh.Thorough()
	T := vfC01Types
	byteCfgs := map[string]bool{"match,match,none": true, "match,empty,eq": true}
	if thorough {
		byteCfgs["off,off,eq"] = true
		byteCfgs["match,off,none"] = true
	}
	var jobs []*vfC01Job
	only := os.Getenv("VERIF_C01_PASSES") // development aid: restrict to some passes
	for i := range walks {
		w := &walks[i]
		cfg, err := vfC01WalkCfg(w)
		if err != nil {
			t.Fatal(err)
		}
		edits, forge, pure, splice := vfC01Kinds(w)
		warm := len(w.Steps) > 0 && w.Steps[0].Op.Name() == "warm"
		add := func(pass string, types [3]string, expand int, live bool) {
			if only != "" && !strings.Contains(only, pass) {
				return
			}
			jobs = append(jobs, &vfC01Job{w: w, cfg: cfg, types: types, session: (w.Walk+int(seed))%2 == 1, expand: expand, live: live, pass: pass})
		}
		rnd := mrand.New(mrand.NewSource(seed*7919 + int64(w.Walk)))
		pick := func() [3]string { return [3]string{T[rnd.Intn(4)], T[rnd.Intn(4)], T[rnd.Intn(4)]} }
		add("base", [3]string{"Ed25519", "Ed25519", "Ed25519"}, -1, false)
		if forge && pure {
			// every attacker action is a forgery: the victim's and the attacker's key types decide which
			// Verify runs on the claimed key, so all 16 combinations are run (quick tier: all of them for
			// single forgeries without prologue, a rotating quarter or eighth otherwise)
			n := 0
			for _, tv := range T {
				for _, tm := range T {
					if thorough || (!warm && len(edits) == 1 && (byteCfgs[cfg.String()] || (cfg.Pro == "none" && (int(seed)+w.Walk+n)%2 == 0))) || (int(seed)+w.Walk+n)%8 == 0 {
						add("forge-types", [3]string{tv, tv, tm}, -1, false)
					}
					n++
				}
			}
		} else if thorough || (len(edits) <= 1 && (w.Walk+int(seed))%2 == 0) || (w.Walk+int(seed))%4 == 0 {
			add("types", pick(), -1, false)
			if thorough && len(edits) <= 1 {
				add("types", pick(), -1, false)
			}
		}
		if len(edits) == 1 && byteCfgs[cfg.String()] {
			add("bytes", [3]string{"Ed25519", "Ed25519", "Ed25519"}, edits[0], false)
			if thorough {
				for _, ta := range T {
					for _, tb := range T {
						if ta != "Ed25519" || tb != "Ed25519" {
							add("bytes", [3]string{ta, tb, T[rnd.Intn(4)]}, edits[0], false)
						}
					}
				}
			} else {
				o := T[1+int(seed)%3]
				add("bytes", [3]string{o, T[rnd.Intn(4)], T[rnd.Intn(4)]}, edits[0], false)
				add("bytes", [3]string{T[rnd.Intn(4)], o, T[rnd.Intn(4)]}, edits[0], false)
			}
		}
		if splice > 0 && !warm {
			add("swap", [3]string{"Ed25519", "Ed25519", "Ed25519"}, -1, true)
			add("swap", pick(), -1, true)
		}
	}
	masks := 1
	if thorough {
		masks = 2
	}
	shards := vfh.EnvInt("VERIF_C01_SHARDS", 8)
	var mu sync.Mutex
	var machinery []string
	// the order of the attacks within the process varies with the seed
	mrand.New(mrand.NewSource(seed)).Shuffle(len(jobs), func(a, b int) { jobs[a], jobs[b] = jobs[b], jobs[a] })
	ch := make(chan *vfC01Job, len(jobs))
	for _, j := range jobs {
		ch <- j
	}
	close(ch)
	t.Run("shards", func(t *testing.T) {
		for s := 0; s < shards; s++ {
			t.Run(fmt.Sprint(s), func(t *testing.T) {
				t.Parallel()
				for j := range ch {
					var err error
					if j.live {
						_, _, _, k := vfC01Kinds(j.w)
						err = vfC01RunSwap(t, res, pool, j, k)
					} else {
						form, count := 0, 1
						for form < count && err == nil {
							var n int
							n, err = vfC01RunWalk(t, res, lay, pool, j, form, masks)
							if j.expand >= 0 && n > count {
								count = n
							}
							form++
						}
						if j.expand >= 0 {
							res.Inc("N.enumerated-forms."+j.w.Steps[j.expand].Op.S("kind")+j.w.Steps[j.expand].Op.S("v"), count)
						}
					}
					res.Case(fmt.Sprintf("%d|%v|%d|%v", j.w.Walk, j.types, j.expand, j.live))
					res.Inc("N.jobs."+j.pass, 1)
					if err != nil {
						mu.Lock()
						machinery = append(machinery, fmt.Sprintf("walk %d (%s, %v): %v", j.w.Walk, j.cfg, j.types, err))
						mu.Unlock()
					}
				}
			})
		}
	})
	res.Set("N.walks", len(walks))
	res.Set("N.jobs", len(jobs))
	if len(machinery) > 0 {
		res.Set("machinery", machinery[:min(len(machinery), 10)])
		t.Fatalf("%d walks could not be executed, first: %s", len(machinery), machinery[0])
	}
}
