//go:build verif

package libp2ptls

// Conformance harness for C02, TLS layer: the behaviours of spec/C02_Channel.tla (write split x read-buffer
// classes x short reads x one wire fault) on a real pair of libp2p-TLS connections joined by the
// record-aware man-in-the-middle pipe of internal/vfc02.  crypto/tls is a trusted dependency: there is no
// path model for it, so only the L1 ledger (bytes, spurious errors, tampering detected) is applied, and a
// model fault on frame i of n is mapped to the first / a middle / the last record in flight.

import (
	"context"
	"crypto/rand"
	"fmt"
	"testing"

	"github.com/libp2p/go-libp2p/core/crypto"
	"github.com/libp2p/go-libp2p/core/peer"
	"github.com/libp2p/go-libp2p/core/sec"
	"github.com/libp2p/go-libp2p/internal/vfc02"
	"github.com/libp2p/go-libp2p/internal/vfh"
)

type vfC02Peer struct {
	id  peer.ID
	tpt *Transport
}

func vfC02NewPeer() (*vfC02Peer, error) {
	priv, _, err := crypto.GenerateEd25519Key(rand.Reader)
	if err != nil {
		return nil, err
	}
	id, err := peer.IDFromPrivateKey(priv)
	if err != nil {
		return nil, err
	}
	tpt, err := New(ID, priv, nil)
	if err != nil {
		return nil, err
	}
	return &vfC02Peer{id: id, tpt: tpt}, nil
}

func vfC02Handshake(a, b *vfC02Peer) (sec.SecureConn, sec.SecureConn, *vfc02.Conn, *vfc02.Conn, error) {
	ca, cb := vfc02.NewPair(vfc02.TLSFramer)
	type out struct {
		s   sec.SecureConn
		err error
	}
	ch := make(chan out, 1)
	go func() {
		c, err := b.tpt.SecureInbound(context.Background(), cb, "")
		ch <- out{c, err}
	}()
	c, err := a.tpt.SecureOutbound(context.Background(), ca, b.id)
	if err != nil {
		ca.Close()
		<-ch
		return nil, nil, nil, nil, err
	}
	o := <-ch
	if o.err != nil {
		return nil, nil, nil, nil, o.err
	}
	if ca.In.Pending() != 0 || cb.In.Pending() != 0 {
		return nil, nil, nil, nil, fmt.Errorf("handshake left %d/%d bytes in flight", ca.In.Pending(), cb.In.Pending())
	}
	return c, o.s, ca, cb, nil
}

// TLS 1.3 record: 5-byte header, plaintext, 1 content-type byte, 16-byte tag
var vfC02TLSScale = vfc02.Scale{
	MaxPT: 16384, Tag: 17, Prefix: 5,
	Small:  []int{1, 2, 16, 17, 255, 1199, 1200, 1201},
	Large:  []int{16383, 16382, 16367, 8192},
	Shorts: []int{2, 4, 5, 6, 22, 4096, 16401, 16407},
}

func TestVerifC02TLS(t *testing.T) {
	res := vfh.NewResult()
	res.Rule = "distinct = (operation, model path, buffer relation class, error, short-read class) combinations executed on real libp2p-TLS connections"
	defer func() {
		if err := res.Write(); err != nil {
			t.Fatal(err)
		}
	}()
	a, err := vfC02NewPeer()
	if err != nil {
		t.Fatal(err)
	}
	b, err := vfC02NewPeer()
	if err != nil {
		t.Fatal(err)
	}
	cfg := vfc02.ChanCfg{
		Layer: "tls", Scale: vfC02TLSScale, LenOff: []int{0, 1, 2, 3, 4}, Exact: false,
		Share: vfh.EnvInt("VERIF_C02_TLS_SHARE", 4),
		New: func(walk int) (*vfc02.ChanSession, error) {
			cli, srv, ca, cb, err := vfC02Handshake(a, b)
			if err != nil {
				return nil, err
			}
			ws, rs, wire, note := cli, srv, cb.In, "client writes"
			if walk%2 == 1 {
				ws, rs, wire, note = srv, cli, ca.In, "server writes"
			}
			revWire := ca.In
			if wire == ca.In {
				revWire = cb.In
			}
			return &vfc02.ChanSession{W: ws, R: rs, Wire: wire, Note: note, RevW: rs, RevR: ws, RevWire: revWire,
				Close: func() { ca.Close(); cb.Close() }}, nil
		},
	}
	rounds := vfh.EnvInt("VERIF_C02_ROUNDS", 1)
	par := vfh.EnvInt("VERIF_C02_PAR", 4)
	// the handshake (certificate generation and verification) dominates: replay a seeded share of the walks
	if err := vfc02.RunChannel(res, cfg, "chan_*.jsonl", rounds, par); err != nil {
		t.Fatal(err)
	}
}
