//go:build verif

package libp2ptls

// Conformance harness for C01 (security handshakes authenticate the remote peer's identity), TLS part.
// Replays the behaviours of spec/C01_Handshake.tla (part T) on two REAL transports over an in-memory
// pipe inside a synctest bubble.  The malicious endpoint is an unmodified Transport whose certificate
// was replaced (in-package access to identity.config) by one crafted from the model's abstract
// certificate: certificate key (its own / the victim's / another), libp2p extension absent, duplicated,
// with the identity key and the signature replaced (the victim's genuine ones, own signature over
// another key, garbage, malformed), chain of 0, 1 or 2 certificates.  It always signs the TLS
// CertificateVerify with the one certificate key it holds.  Verdicts (L1) come from the ledger of who
// holds which key and from SecureInbound/SecureOutbound results, RemotePeer() and RemotePublicKey().
// In addition honest-against-honest handshakes run through a relay that flips one byte of the TLS
// byte stream (a sample of positions in the quick tier, every position in the thorough tier).

import (
	"context"
	"crypto"
	"crypto/ecdsa"
	"crypto/elliptic"
	"crypto/rand"
	"crypto/tls"
	"crypto/x509"
	"crypto/x509/pkix"
	"encoding/asn1"
	"encoding/json"
	"errors"
	"fmt"
	mrand "math/rand"
	"net"
	"path/filepath"
	"strings"
	"sync"
	"testing"
	"testing/synctest"

	ic "github.com/libp2p/go-libp2p/core/crypto"
	"github.com/libp2p/go-libp2p/core/peer"
	"github.com/libp2p/go-libp2p/core/sec"
	"github.com/libp2p/go-libp2p/internal/vfh"
)

var vfC01TTypes = []string{"Ed25519", "ECDSA", "Secp256k1", "RSA"}

type vfC01TKey struct {
	typ  string
	priv ic.PrivKey
	pub  ic.PubKey
	id   peer.ID
	raw  []byte
}

func vfC01TGenKey(typ string) (vfC01TKey, error) {
	var priv ic.PrivKey
	var pub ic.PubKey
	var err error
	switch typ {
	case "Ed25519":
		priv, pub, err = ic.GenerateEd25519Key(rand.Reader)
	case "ECDSA":
		priv, pub, err = ic.GenerateECDSAKeyPair(rand.Reader)
	case "Secp256k1":
		priv, pub, err = ic.GenerateSecp256k1Key(rand.Reader)
	default:
		priv, pub, err = ic.GenerateRSAKeyPair(2048, rand.Reader)
	}
	if err != nil {
		return vfC01TKey{}, err
	}
	id, err := peer.IDFromPublicKey(pub)
	if err != nil {
		return vfC01TKey{}, err
	}
	raw, err := ic.MarshalPublicKey(pub)
	return vfC01TKey{typ: typ, priv: priv, pub: pub, id: id, raw: raw}, err
}

type vfC01TRes struct {
	conn sec.SecureConn
	err  error
	read error // client only: result of the first Read
	did  bool  // the first Read was attempted
}

type vfC01TCtx struct {
	res    *vfh.Result
	walk   int
	prefix []vfh.Op
	cfg    map[string]any
}

func (c *vfC01TCtx) mismatch(class, what string, exp, got any) {
	c.res.AddMismatch(vfh.Mismatch{Class: class, What: what, Walk: c.walk, Expected: exp, Got: got, Prefix: c.prefix, Cfg: c.cfg})
}

// vfC01TRun runs one handshake between a client and a server transport over conns (cc, sc) and returns
// both results once everything is quiescent; whatever still hangs then is cut off.
func vfC01TRun(ctx context.Context, ct, st *Transport, cp, sp peer.ID, cc, sc net.Conn, closers ...net.Conn) (cr, sr vfC01TRes) {
	cch, sch := make(chan vfC01TRes, 1), make(chan vfC01TRes, 1)
	go func() {
		c, err := ct.SecureOutbound(ctx, cc, cp)
		r := vfC01TRes{conn: c, err: err}
		if err == nil {
			var b [1]byte
			_, r.read = c.Read(b[:])
			r.did = true
		}
		cch <- r
	}()
	go func() {
		c, err := st.SecureInbound(ctx, sc, sp)
		if err == nil {
			c.Write([]byte{7})
		}
		sch <- vfC01TRes{conn: c, err: err}
	}()
	synctest.Wait()
	cc.Close()
	sc.Close()
	for _, c := range closers {
		c.Close()
	}
	cr, sr = <-cch, <-sch
	for _, r := range []vfC01TRes{cr, sr} {
		if r.err == nil && r.conn != nil {
			r.conn.Close()
		}
	}
	return cr, sr
}

func vfC01TWhy(err error) string {
	if err == nil {
		return "-"
	}
	e := err.Error()
	var mm sec.ErrPeerIDMismatch
	switch {
	case errors.As(err, &mm), strings.Contains(e, "peer id mismatch"):
		return "mismatch"
	case strings.Contains(e, "expected one certificates in the chain"):
		return "chain"
	case strings.Contains(e, "expected certificate to contain the key extension"):
		return "noext"
	case strings.Contains(e, "signature invalid"), strings.Contains(e, "signature verification failed"):
		return "sig"
	case strings.Contains(e, "unmarshalling public key failed"):
		return "key"
	case strings.Contains(e, "duplicate extensions"), strings.Contains(e, "x509:"), strings.Contains(e, "asn1:"):
		return "parse"
	case strings.Contains(e, "tls: invalid signature by the"):
		return "certverify"
	case strings.Contains(e, "didn't provide a certificate"), strings.Contains(e, "no certificates"), strings.Contains(e, "tls: "):
		return "nocert"
	}
	return "other:" + e
}

// ---------------------------------------------------------------------------------------------
// the crafted certificate
// ---------------------------------------------------------------------------------------------

type vfC01TExt struct{ Pub, Sby, Sover string }
type vfC01TCert struct {
	Key   string
	Chain int
	Exts  []vfC01TExt
}

func (c vfC01TCert) genuine() bool {
	return c.Key == "kM" && c.Chain == 1 && len(c.Exts) == 1 && c.Exts[0] == vfC01TExt{"M", "M", "kM"}
}
func (c vfC01TCert) String() string {
	return fmt.Sprintf("{certificate key %s, chain of %d, extensions (identity key, signed by, signed over) %v}", c.Key, c.Chain, c.Exts)
}

type vfC01TWorld struct {
	m, v, h      vfC01TKey
	kM, kX       *ecdsa.PrivateKey
	victim       *Transport        // the victim's real transport: its certificate is public knowledge
	victimLeaf   *x509.Certificate // parsed
	victimSigned signedKey
}

func vfC01TNewWorld(m, v, h vfC01TKey) (*vfC01TWorld, error) {
	w := &vfC01TWorld{m: m, v: v, h: h}
	var err error
	if w.kM, err = ecdsa.GenerateKey(elliptic.P256(), rand.Reader); err != nil {
		return nil, err
	}
	if w.kX, err = ecdsa.GenerateKey(elliptic.P256(), rand.Reader); err != nil {
		return nil, err
	}
	if w.victim, err = New(ID, v.priv, nil); err != nil {
		return nil, err
	}
	if w.victimLeaf, err = x509.ParseCertificate(w.victim.identity.config.Certificates[0].Certificate[0]); err != nil {
		return nil, err
	}
	for _, e := range w.victimLeaf.Extensions {
		if extensionIDEqual(e.Id, extensionID) {
			if _, err := asn1.Unmarshal(e.Value, &w.victimSigned); err != nil {
				return nil, err
			}
		}
	}
	if w.victimSigned.Signature == nil {
		return nil, errors.New("vfC01: the victim's certificate has no libp2p extension")
	}
	return w, nil
}

// vfC01TSignOver: the signature the library itself puts into the extension for (identity key,
// certificate key) - the attacker runs the same software as everybody else, with its own keys
func vfC01TSignOver(k vfC01TKey, pub crypto.PublicKey) ([]byte, error) {
	ext, err := GenerateSignedExtension(k.priv, pub)
	if err != nil {
		return nil, err
	}
	var sk signedKey
	if _, err := asn1.Unmarshal(ext.Value, &sk); err != nil {
		return nil, err
	}
	return sk.Signature, nil
}

func vfC01TUvarint(b []byte) (v uint64, n int) {
	for i, c := range b {
		v |= uint64(c&0x7f) << (7 * uint(i))
		if c < 0x80 {
			return v, i + 1
		}
	}
	return 0, 0
}

// vfC01TReencodeKey: the marshalled public key (message PublicKey {Type = 1; Data = 2}) in another VALID
// protobuf encoding of the same key (form 0: canonical).  The peer ID must not depend on the form.
func vfC01TReencodeKey(raw []byte, form int) []byte {
	if len(raw) < 4 || raw[0] != 0x08 {
		return raw
	}
	_, tn := vfC01TUvarint(raw[1:])
	typ := raw[:1+tn]
	rest := raw[1+tn:]
	if tn == 0 || len(rest) < 2 || rest[0] != 0x12 {
		return raw
	}
	cat := func(parts ...[]byte) []byte {
		var out []byte
		for _, p := range parts {
			out = append(out, p...)
		}
		return out
	}
	switch form % 5 {
	case 1:
		return cat(raw, []byte{0x18, 0x01})
	case 2:
		return cat(rest, typ)
	case 3:
		return cat([]byte{0x08, (typ[1] + 1) % 4}, typ, rest)
	case 4:
		return cat([]byte{0x08, typ[1] | 0x80, 0x00}, rest)
	}
	return raw
}

// vfC01THonestPair: honest handshakes between two hosts on the given Transport objects, in both
// directions, each side naming its real counterpart; every endpoint is judged against the ledger.
// Returns how many of the 4 endpoints completed.
func vfC01THonestPair(ctx context.Context, c *vfC01TCtx, ta *Transport, ka vfC01TKey, tb *Transport, kb vfC01TKey) int {
	done := 0
	for dir := 0; dir < 2; dir++ {
		ct, ck, st, sk := ta, ka, tb, kb
		if dir == 1 {
			ct, ck, st, sk = tb, kb, ta, ka
		}
		cc, sc := net.Pipe()
		cr, sr := vfC01TRun(ctx, ct, st, sk.id, ck.id, cc, sc)
		vfC01TAuditHonest(c, "client (honest session)", cr, sk.id, sk, nil)
		vfC01TAuditHonest(c, "server (honest session)", sr, ck.id, ck, nil)
		if cr.err == nil {
			done++
		}
		if sr.err == nil {
			done++
		}
	}
	return done
}

// craft builds the tls.Certificate list the malicious endpoint presents
func (w *vfC01TWorld) craft(c vfC01TCert, form int) ([]tls.Certificate, error) {
	if c.Chain == 0 {
		return nil, nil
	}
	var leaf []byte
	if c.Key == "kV" && len(c.Exts) == 1 && c.Exts[0] == (vfC01TExt{"V", "V", "kV"}) {
		// the victim's certificate, byte for byte
		leaf = w.victimLeaf.Raw
	} else {
		var pub any
		switch c.Key {
		case "kM":
			pub = w.kM.Public()
		case "kX":
			pub = w.kX.Public()
		default:
			pub = w.victimLeaf.PublicKey
		}
		tmpl, err := certTemplate()
		if err != nil {
			return nil, err
		}
		for _, e := range c.Exts {
			var sk signedKey
			switch e.Pub {
			case "M":
				// the attacker's genuine key, in the canonical or another valid protobuf encoding
				sk.PubKey = vfC01TReencodeKey(w.m.raw, form/3)
			case "V":
				sk.PubKey = w.v.raw
			default:
				sk.PubKey = []byte("foobar")
			}
			genuine, err := vfC01TSignOver(w.m, w.kM.Public())
			if err != nil {
				return nil, err
			}
			switch e.Sby + "/" + e.Sover {
			case "M/kM":
				sk.Signature = genuine
			case "V/kV":
				sk.Signature = w.victimSigned.Signature
			case "M/kX":
				if sk.Signature, err = vfC01TSignOver(w.m, w.kX.Public()); err != nil {
					return nil, err
				}
			case "-/-":
				// well-formed for the attacker's key type, signs nothing relevant
				switch form % 3 {
				case 0:
					sk.Signature, err = w.m.priv.Sign([]byte(certificatePrefix))
				case 1:
					sk.Signature = append([]byte(nil), genuine...)
					sk.Signature[len(genuine)/2] ^= 0x04
				default:
					sk.Signature, err = w.m.priv.Sign(append([]byte("libp2p-tls-handshake;"), w.m.raw...))
				}
				if err != nil {
					return nil, err
				}
			default:
				if form%2 == 0 {
					sk.Signature = []byte("foobar")
				}
			}
			val, err := asn1.Marshal(sk)
			if err != nil {
				return nil, err
			}
			tmpl.ExtraExtensions = append(tmpl.ExtraExtensions, pkix.Extension{Id: extensionID, Value: val})
		}
		// the issuer signature is made with the key the attacker has
		var err2 error
		leaf, err2 = x509.CreateCertificate(rand.Reader, tmpl, tmpl, pub, w.kM)
		if err2 != nil {
			return nil, err2
		}
	}
	chain := [][]byte{leaf}
	if c.Chain == 2 {
		// the second certificate is the victim's genuine one
		chain = append(chain, w.victimLeaf.Raw)
	}
	return []tls.Certificate{{Certificate: chain, PrivateKey: w.kM}}, nil
}

// ---------------------------------------------------------------------------------------------
// replay
// ---------------------------------------------------------------------------------------------

type vfC01TState struct {
	Mal, Exp, Ec, Es string
	Cert             vfC01TCert
}

func vfC01TExpected(setting string, w *vfC01TWorld) peer.ID {
	switch setting {
	case "M":
		return w.m.id
	case "V":
		return w.v.id
	}
	return ""
}

func vfC01TAuditHonest(c *vfC01TCtx, side string, r vfC01TRes, named peer.ID, holder vfC01TKey, cert *vfC01TCert) {
	if r.err != nil || r.conn == nil {
		return
	}
	got := map[string]any{"side": side, "remote": r.conn.RemotePeer().String(), "named": named.String()}
	if r.conn.RemotePeer() != holder.id {
		c.mismatch("tls-wrong-remote-peer", fmt.Sprintf("%s reports remote peer %s; the other endpoint holds only the identity key of %s", side, r.conn.RemotePeer(), holder.id), holder.id.String(), got)
	}
	if rk := r.conn.RemotePublicKey(); rk == nil || !rk.Equals(holder.pub) {
		c.mismatch("tls-wrong-remote-public-key", side+": RemotePublicKey() is not the identity key the other endpoint holds", holder.id.String(), got)
	} else if id, err := peer.IDFromPublicKey(rk); err != nil || id != r.conn.RemotePeer() {
		c.mismatch("tls-remote-peer-not-derived-from-remote-key", side+": RemotePeer() is not the ID of RemotePublicKey()", id.String(), got)
	}
	if named != "" && r.conn.RemotePeer() != named {
		c.mismatch("tls-expected-peer-violated", fmt.Sprintf("%s named %s and completed the handshake with %s", side, named, r.conn.RemotePeer()), named.String(), got)
	}
	if cert != nil && !cert.genuine() {
		kind := "certificate"
		switch {
		case cert.Chain != 1:
			kind = "chain-length"
		case len(cert.Exts) != 1:
			kind = "extension-count"
		case cert.Key != "kM":
			kind = "certificate-key"
		case cert.Exts[0].Pub != "M":
			kind = "extension-key"
		default:
			kind = "extension-signature"
		}
		c.mismatch("tls-accepted-mutated-certificate:"+kind, fmt.Sprintf("%s completed the handshake although the certificate presented was %s", side, cert), "failure", got)
	}
}

func vfC01TReplayWalk(t *testing.T, res *vfh.Result, w *vfh.Walk, keys map[string]map[string]vfC01TKey, tm, tv, th string, form int) (err error) {
	synctest.Test(t, func(t *testing.T) {
		ctx, cancel := context.WithCancel(context.Background())
		defer cancel()
		var init vfC01TState
		if err = json.Unmarshal(w.Init, &init); err != nil {
			return
		}
		c := &vfC01TCtx{res: res, walk: w.Walk, cfg: map[string]any{"mal": init.Mal, "exp": init.Exp, "ec": init.Ec, "es": init.Es, "keys": tm + "/" + tv + "/" + th, "seed": vfh.Seed()}}
		world, e := vfC01TNewWorld(keys["M"][tm], keys["V"][tv], keys["H"][th])
		if e != nil {
			err = e
			return
		}
		cur := init
		var warmH *Transport
		for _, st := range w.Steps {
			c.prefix = append(c.prefix, st.Op)
			switch st.Op.Name() {
			case "warm":
				// the honest side and the victim (the very Transport whose certificate the attacker copies from)
				// complete honest handshakes in both directions first; the objects stay alive
				if warmH, err = New(ID, world.h.priv, nil); err != nil {
					return
				}
				c.cfg["history"] = "warm"
				if n := vfC01THonestPair(ctx, c, warmH, world.h, world.victim, world.v); n != 4 {
					c.mismatch("L2:honest-session-fails", "TLS: an honest handshake of the warm-up did not complete on both sides", 4, n)
				}
				res.Inc("T.warm", 1)
			case "mutate":
				if err = json.Unmarshal(st.State, &cur); err != nil {
					return
				}
				res.Inc("T.mutate."+st.Op.S("m"), 1)
			case "handshake":
				mt, e := New(ID, world.m.priv, nil)
				if e != nil {
					err = e
					return
				}
				ht, e := New(ID, world.h.priv, nil)
				if e != nil {
					err = e
					return
				}
				if warmH != nil && form%2 == 0 {
					// same verifier object as in the warm-up (otherwise a fresh one in the same process)
					ht = warmH
					c.cfg["history"] = "warm, same transport object"
				}
				certs, e := world.craft(cur.Cert, form)
				if e != nil {
					err = fmt.Errorf("craft %s: %w", cur.Cert, e)
					return
				}
				mt.identity.config.Certificates = certs
				named := vfC01TExpected(cur.Exp, world)
				cc, sc := net.Pipe()
				var hr, mr vfC01TRes
				if cur.Mal == "client" {
					mr, hr = vfC01TRun(ctx, mt, ht, "", named, cc, sc)
				} else {
					hr, mr = vfC01TRun(ctx, ht, mt, named, "", cc, sc)
				}
				cert := cur.Cert
				vfC01TAuditHonest(c, "honest "+map[string]string{"client": "server", "server": "client"}[cur.Mal], hr, named, world.m, &cert)
				got := map[string]any{"hok": hr.err == nil, "herr": fmt.Sprint(hr.err), "merr": fmt.Sprint(mr.err), "mread": fmt.Sprint(mr.read)}
				if (hr.err == nil) != st.Op.B("hok") {
					cls := "L2:model-accepts-code-rejects"
					if hr.err == nil {
						cls = "L2:model-rejects-code-accepts"
					}
					c.mismatch(cls, "TLS: the honest side's verdict on "+cur.Cert.String()+" differs from the model", st.Op.B("hok"), got)
				} else if hr.err != nil {
					mw, rw := st.Op.S("why"), vfC01TWhy(hr.err)
					if mw == "sigerr" {
						mw = "sig"
					}
					if mw != rw {
						c.mismatch("L2:why", "TLS: refused at another stage than the model: "+hr.err.Error(), mw, rw)
					}
					res.Inc("T.refused", 1)
					res.Inc("T.why."+rw, 1)
				} else {
					res.Inc("T.accepted."+map[string]string{"client": "server", "server": "client"}[cur.Mal], 1)
				}
				if w.Walk%211 == 0 {
					res.Sample(map[string]any{"malicious": cur.Mal, "honest side expects": cur.Exp, "certificate": cur.Cert.String(), "keys": tm + "/" + tv + "/" + th, "honest side error": fmt.Sprint(hr.err)})
				}
				// a refused client learns of it at its first Read
				if cur.Mal == "client" && mr.err == nil && mr.did && (mr.read == nil) != (hr.err == nil) {
					c.mismatch("L2:first-read", "the client's first Read does not reflect the server's verdict", hr.err == nil, got)
				}
				if warmH != nil {
					// whatever the attacker presented must not poison later honest handshakes on the same objects
					if n := vfC01THonestPair(ctx, c, warmH, world.h, world.victim, world.v); n != 4 {
						c.mismatch("L2:honest-session-fails", "TLS: an honest handshake after the attack did not complete on both sides", 4, n)
					}
				}
			case "honest":
				ctp, e := New(ID, world.h.priv, nil)
				if e != nil {
					err = e
					return
				}
				stp, e := New(ID, world.v.priv, nil)
				if e != nil {
					err = e
					return
				}
				exp := func(s string, real peer.ID) peer.ID {
					switch s {
					case "match":
						return real
					case "diff":
						return world.m.id
					}
					return ""
				}
				cn, sn := exp(cur.Ec, world.v.id), exp(cur.Es, world.h.id)
				cc, sc := net.Pipe()
				cr, sr := vfC01TRun(ctx, ctp, stp, cn, sn, cc, sc)
				vfC01TAuditHonest(c, "client", cr, cn, world.v, nil)
				vfC01TAuditHonest(c, "server", sr, sn, world.h, nil)
				got := map[string]any{"cok": cr.err == nil, "sok": sr.err == nil, "cread": cr.did && cr.read == nil, "cerr": fmt.Sprint(cr.err), "serr": fmt.Sprint(sr.err)}
				expm := map[string]any{"cok": st.Op.B("cok"), "sok": st.Op.B("sok"), "cread": st.Op.B("cread")}
				if got["cok"] != expm["cok"] || got["sok"] != expm["sok"] {
					cls := "L2:model-accepts-code-rejects"
					if (cr.err == nil && !st.Op.B("cok")) || (sr.err == nil && !st.Op.B("sok")) {
						cls = "L2:model-rejects-code-accepts"
					}
					c.mismatch(cls, "TLS honest/honest: results differ from the model", expm, got)
				} else if got["cread"] != expm["cread"] {
					c.mismatch("L2:first-read", "TLS honest/honest: the client's first Read differs from the model", expm, got)
				}
				if cr.err == nil {
					res.Inc("T.honest.client-ok", 1)
				}
				if sr.err == nil {
					res.Inc("T.honest.server-ok", 1)
				}
			}
		}
		res.Count(1, len(w.Steps))
	})
	return err
}

// ---------------------------------------------------------------------------------------------
// record-layer byte flips
// ---------------------------------------------------------------------------------------------

// vfC01TRelay forwards a -> b, parsing the TLS record framing as the bytes flow; it flips one byte of
// record `rec` at offset `at` within that record (header included; clipped to the record's last byte,
// since signature and certificate lengths vary by a byte or two between runs), and records everything
// it forwarded.
type vfC01TRelay struct {
	mu      sync.Mutex
	seen    []byte
	rec, at int // rec < 0: flip nothing
	mask    byte
	flipped bool
	curRec  int
	inRec   int
	curLen  int
}

func (r *vfC01TRelay) process(in []byte) []byte {
	out := append([]byte(nil), in...)
	for i, b := range in {
		if r.inRec == 3 {
			r.curLen = int(b) << 8
		} else if r.inRec == 4 {
			r.curLen = 5 + (r.curLen | int(b))
		}
		if r.curRec == r.rec && !r.flipped {
			hit := r.inRec == r.at
			if r.at >= 5 && r.inRec >= 5 && r.inRec == r.curLen-1 {
				hit = true
			}
			if hit {
				out[i] ^= r.mask
				r.flipped = true
			}
		}
		r.inRec++
		if r.inRec >= 5 && r.inRec == r.curLen {
			r.curRec++
			r.inRec = 0
		}
	}
	return out
}

func (r *vfC01TRelay) run(a, b net.Conn) {
	buf := make([]byte, 4096)
	for {
		n, err := a.Read(buf)
		if n > 0 {
			r.mu.Lock()
			r.seen = append(r.seen, buf[:n]...)
			out := r.process(buf[:n])
			r.mu.Unlock()
			if _, werr := b.Write(out); werr != nil {
				return
			}
		}
		if err != nil {
			b.Close()
			return
		}
	}
}

type vfC01TRecord struct {
	off, n int
	typ    byte
}

func vfC01TRecords(b []byte) []vfC01TRecord {
	var out []vfC01TRecord
	off := 0
	for off+5 <= len(b) {
		n := int(b[off+3])<<8 | int(b[off+4])
		out = append(out, vfC01TRecord{off: off, n: n, typ: b[off]})
		off += 5 + n
	}
	return out
}

// vfC01TFlipRun: honest client and server through two relays; dir 0 flips client->server in record rec
// at offset off, dir 1 server->client; dir -1 flips nothing.  Returns the results, the bytes seen in both
// directions and whether the flip happened.
func vfC01TFlipRun(t *testing.T, keys map[string]map[string]vfC01TKey, th, tv string, dir, rec, off int, mask byte) (cr, sr vfC01TRes, c2s, s2c []byte, flipped bool, hID, vID peer.ID, hPub, vPub ic.PubKey, err error) {
	synctest.Test(t, func(t *testing.T) {
		ctx, cancel := context.WithCancel(context.Background())
		defer cancel()
		h, v := keys["H"][th], keys["V"][tv]
		hID, vID, hPub, vPub = h.id, v.id, h.pub, v.pub
		ctp, e := New(ID, h.priv, nil)
		if e != nil {
			err = e
			return
		}
		stp, e := New(ID, v.priv, nil)
		if e != nil {
			err = e
			return
		}
		cc, mc := net.Pipe() // client <-> relay
		ms, sc := net.Pipe() // relay <-> server
		r0, r1 := &vfC01TRelay{rec: -1}, &vfC01TRelay{rec: -1}
		if dir == 0 {
			r0.rec, r0.at, r0.mask = rec, off, mask
		} else if dir == 1 {
			r1.rec, r1.at, r1.mask = rec, off, mask
		}
		go r0.run(mc, ms)
		go r1.run(ms, mc)
		cr, sr = vfC01TRun(ctx, ctp, stp, v.id, h.id, cc, sc, mc, ms)
		synctest.Wait()
		r0.mu.Lock()
		c2s = append([]byte(nil), r0.seen...)
		flipped = flipped || r0.flipped
		r0.mu.Unlock()
		r1.mu.Lock()
		s2c = append([]byte(nil), r1.seen...)
		flipped = flipped || r1.flipped
		r1.mu.Unlock()
	})
	return
}

func TestVerifC01TLSReplay(t *testing.T) {
	res := vfh.NewResult()
	res.Rule = "distinct = (behaviour, identity key types) combinations and flipped stream positions executed"
	defer func() {
		if err := res.Write(); err != nil {
			t.Error(err)
		}
	}()
	keys := map[string]map[string]vfC01TKey{}
	for _, role := range []string{"M", "V", "H"} {
		keys[role] = map[string]vfC01TKey{}
		for _, typ := range vfC01TTypes {
			k, err := vfC01TGenKey(typ)
			if err != nil {
				t.Fatal(err)
			}
			keys[role][typ] = k
		}
	}
	_, walks, err := vfh.LoadWalks(filepath.Join(vfh.In(), "T.jsonl"))
	if err != nil {
		t.Fatal(err)
	}
	seed := vfh.Seed()
	T := vfC01TTypes
	type job struct {
		w          *vfh.Walk
		tm, tv, th string
		form       int
	}
	var jobs []job
	for i := range walks {
		w := &walks[i]
		rnd := mrand.New(mrand.NewSource(seed*104729 + int64(i)))
		// the attacker's identity key type decides which Verify runs on its extension; the victim's which
		// one runs on the victim's: all four of each over the walks, all sixteen pairs in the thorough tier (for
		// behaviours with at most two mutations)
		muts := 0
		for _, st := range w.Steps {
			if st.Op.Name() == "mutate" {
				muts++
			}
		}
		for a, tm := range T {
			if vfh.Thorough() && muts <= 2 {
				for _, tv := range T {
					jobs = append(jobs, job{w, tm, tv, T[rnd.Intn(4)], a + i})
				}
			} else if vfh.Thorough() || (a+i+int(seed))%2 == 0 {
				// quick tier: two of the four attacker key types per behaviour, alternating over the behaviours
				jobs = append(jobs, job{w, tm, T[(a+i+int(seed))%4], T[rnd.Intn(4)], a + i + int(seed)})
			}
		}
	}
	// the order of the attacks within the process varies with the seed
	mrand.New(mrand.NewSource(seed)).Shuffle(len(jobs), func(a, b int) { jobs[a], jobs[b] = jobs[b], jobs[a] })
	ch := make(chan job, len(jobs))
	for _, j := range jobs {
		ch <- j
	}
	close(ch)
	var mu sync.Mutex
	var machinery []string
	fail := func(s string) {
		mu.Lock()
		machinery = append(machinery, s)
		mu.Unlock()
	}
	shards := vfh.EnvInt("VERIF_C01_SHARDS", 8)
	// the flip positions come from a dry run
	cr, sr, c2s, s2c, _, _, _, _, _, err := vfC01TFlipRun(t, keys, "Ed25519", "Ed25519", -1, -1, 0, 0)
	if err != nil || cr.err != nil || sr.err != nil || !cr.did || cr.read != nil {
		t.Fatalf("TLS dry run through the relay failed: %v %v %v %v", err, cr.err, sr.err, cr.read)
	}
	type flip struct {
		dir, rec, off int
		mask          byte
		what          string
	}
	var flips []flip
	rnd := mrand.New(mrand.NewSource(seed))
	for dir, stream := range [][]byte{c2s, s2c} {
		recs := vfC01TRecords(stream)
		if dir == 1 && len(recs) > 0 {
			// the last record of the server's stream is the harness's own application byte, not handshake data
			recs = recs[:len(recs)-1]
		}
		res.Set(fmt.Sprintf("T.records.dir%d", dir), len(recs))
		for ri, r := range recs {
			// legacy_record_version (header bytes 1-2) is not authenticated by TLS 1.3 for plaintext records and
			// ignored by crypto/tls: outside the claim.  Type, length and every payload byte are in.
			pos := []int{0, 3, 4}
			if vfh.Thorough() {
				for p := 0; p < r.n; p++ {
					pos = append(pos, 5+p)
				}
			} else {
				for n := 0; n < 12 && r.n > 0; n++ {
					pos = append(pos, 5+rnd.Intn(r.n))
				}
				if r.n > 0 {
					pos = append(pos, 5, 5+r.n-1)
				}
			}
			for _, p := range pos {
				flips = append(flips, flip{dir, ri, p, 1 << uint(rnd.Intn(8)), fmt.Sprintf("dir %d record %d (type %d, %d bytes) offset %d", dir, ri, r.typ, r.n, p)})
			}
		}
	}
	fch := make(chan flip, len(flips))
	for _, f := range flips {
		fch <- f
	}
	close(fch)
	t.Run("shards", func(t *testing.T) {
		for s := 0; s < shards; s++ {
			t.Run(fmt.Sprint(s), func(t *testing.T) {
				t.Parallel()
				for j := range ch {
					if err := vfC01TReplayWalk(t, res, j.w, keys, j.tm, j.tv, j.th, j.form); err != nil {
						fail(fmt.Sprintf("walk %d: %v", j.w.Walk, err))
					}
					res.Case(fmt.Sprintf("%d|%s|%s|%s", j.w.Walk, j.tm, j.tv, j.th))
				}
				for f := range fch {
					th, tv := T[(f.off+f.rec+int(seed))%4], T[(f.off/4+f.dir)%4]
					if !vfh.Thorough() && f.off%3 != 0 {
						th, tv = "Ed25519", "Ed25519"
					}
					cr, sr, _, _, flipped, hID, vID, hPub, vPub, err := vfC01TFlipRun(t, keys, th, tv, f.dir, f.rec, f.off, f.mask)
					if err != nil {
						fail("flip " + f.what + ": " + err.Error())
						continue
					}
					c := &vfC01TCtx{res: res, walk: -1, cfg: map[string]any{"flip": f.what, "mask": f.mask, "keys": th + "/" + tv, "seed": seed}}
					if flipped {
						got := map[string]any{"client": fmt.Sprint(cr.err), "server": fmt.Sprint(sr.err), "read": fmt.Sprint(cr.read)}
						if f.dir == 1 && cr.err == nil {
							c.mismatch("tls-completed-on-altered-input", "the client completed the handshake although a byte of the server's flight was altered: "+f.what, "failure", got)
						}
						if f.dir == 0 && sr.err == nil {
							c.mismatch("tls-completed-on-altered-input", "the server completed the handshake although a byte of the client's flights was altered: "+f.what, "failure", got)
						}
						res.Inc("T.records-flipped", 1)
					}
					for _, x := range []struct {
						side string
						r    vfC01TRes
						id   peer.ID
						pub  ic.PubKey
					}{{"client", cr, vID, vPub}, {"server", sr, hID, hPub}} {
						if x.r.err == nil && (x.r.conn.RemotePeer() != x.id || !x.r.conn.RemotePublicKey().Equals(x.pub)) {
							c.mismatch("tls-wrong-remote-peer", x.side+" reports another remote peer than its counterpart", x.id.String(), x.r.conn.RemotePeer().String())
						}
					}
					res.Case(fmt.Sprintf("flip|%d|%d|%d", f.dir, f.rec, f.off))
					res.Count(1, 1)
				}
			})
		}
	})
	res.Set("T.walks", len(walks))
	res.Set("T.jobs", len(jobs))
	res.Set("T.flips", len(flips))
	if len(machinery) > 0 {
		res.Set("machinery", machinery[:min(len(machinery), 10)])
		t.Fatalf("%d runs could not be executed, first: %s", len(machinery), machinery[0])
	}
}
