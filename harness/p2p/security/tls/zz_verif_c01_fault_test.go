//go:build verif

package libp2ptls

// C01, TLS part: faults INSIDE the handshake (spec/C01_Handshake.tla part F).  One side of an otherwise
// honest handshake between two real transports runs over a connection that fails at one of its Reads /
// Writes - EVERY I/O index of that side's handshake, counted on a dry run.  Kinds: error, EOF / closed
// pipe, deadline error, panic, cancellation of the caller's context while the operation blocks.  (The TLS
// transport invokes no user-supplied callback inside the handshake.)  L1 as in the Noise part: after a
// fault that fired the faulted call returns an error; on every success RemotePublicKey() is non-nil, is
// the key the other endpoint holds, and RemotePeer() is the ID of that key and the named peer.

import (
	"context"
	"encoding/json"
	"errors"
	"fmt"
	"io"
	"net"
	"os"
	"path/filepath"
	"sync"
	"testing"
	"testing/synctest"

	"github.com/libp2p/go-libp2p/core/peer"
	"github.com/libp2p/go-libp2p/core/sec"
	"github.com/libp2p/go-libp2p/internal/vfh"
)

type vfC01TFaultConn struct {
	net.Conn
	mu     sync.Mutex
	ops    int
	at     int
	kind   string
	fired  bool
	cancel context.CancelFunc
	closed chan struct{}
	once   sync.Once
}

func (f *vfC01TFaultConn) Close() error {
	f.once.Do(func() { close(f.closed) })
	return f.Conn.Close()
}
func (f *vfC01TFaultConn) fault(read bool) (error, bool) {
	f.mu.Lock()
	i := f.ops
	f.ops++
	hit := i == f.at && !f.fired
	if hit {
		f.fired = true
	}
	f.mu.Unlock()
	if !hit {
		return nil, true
	}
	switch f.kind {
	case "eof":
		if read {
			return io.EOF, false
		}
		return io.ErrClosedPipe, false
	case "deadline":
		return os.ErrDeadlineExceeded, false
	case "panic":
		panic("vfC01: injected panic in the underlying connection")
	case "cancel":
		f.cancel()
		<-f.closed
		return net.ErrClosed, false
	}
	return errors.New("vfC01: injected I/O error"), false
}
func (f *vfC01TFaultConn) Read(b []byte) (int, error) {
	if err, ok := f.fault(true); !ok {
		return 0, err
	}
	return f.Conn.Read(b)
}
func (f *vfC01TFaultConn) Write(b []byte) (int, error) {
	if err, ok := f.fault(false); !ok {
		return 0, err
	}
	return f.Conn.Write(b)
}
func (f *vfC01TFaultConn) count() int {
	f.mu.Lock()
	defer f.mu.Unlock()
	return f.ops
}

type vfC01TFaultCase struct {
	Proto, Side, Named, Point, Kind string
}

func vfC01TFaultRun(t *testing.T, res *vfh.Result, keys map[string]map[string]vfC01TKey, fc vfC01TFaultCase, types [2]string, at, walk int) (ops int, err error) {
	synctest.Test(t, func(t *testing.T) {
		kc, ks := keys["H"][types[0]], keys["V"][types[1]]
		ctxF, cancelF := context.WithCancel(context.Background())
		defer cancelF()
		ctxH, cancelH := context.WithCancel(context.Background())
		defer cancelH()
		ct, e := New(ID, kc.priv, nil)
		if e != nil {
			err = e
			return
		}
		st, e := New(ID, ks.priv, nil)
		if e != nil {
			err = e
			return
		}
		a, b := net.Pipe()
		faultC := fc.Side == "client"
		fconn := &vfC01TFaultConn{at: at, kind: fc.Kind, cancel: cancelF, closed: make(chan struct{})}
		var cc, sc net.Conn = a, b
		if faultC {
			fconn.Conn = a
			cc = fconn
		} else {
			fconn.Conn = b
			sc = fconn
		}
		pC, pS := ks.id, peer.ID("")
		if faultC && fc.Named == "empty" {
			pC = ""
		}
		if !faultC && fc.Named == "match" {
			pS = kc.id
		}
		type result struct {
			c   sec.SecureConn
			err error
			ops int
		}
		cch, sch := make(chan result, 1), make(chan result, 1)
		go func() {
			ctx := ctxH
			if faultC {
				ctx = ctxF
			}
			c, err := ct.SecureOutbound(ctx, cc, pC)
			r := result{c, err, fconn.count()}
			if err == nil {
				// take whatever the server still sends after its handshake (nothing today) and its one byte
				var b [1]byte
				c.Read(b[:])
			}
			cch <- r
		}()
		go func() {
			ctx := ctxH
			if !faultC {
				ctx = ctxF
			}
			c, err := st.SecureInbound(ctx, sc, pS)
			r := result{c, err, fconn.count()}
			if err == nil {
				c.Write([]byte{7})
			}
			sch <- r
		}()
		synctest.Wait()
		a.Close()
		b.Close()
		fconn.Close()
		rc, rs := <-cch, <-sch
		rf := rs
		if faultC {
			rf = rc
		}
		ops = rf.ops
		cfg := map[string]any{"protocol": "tls", "faulted side": fc.Side, "named": fc.Named, "kind": fc.Kind, "io index": at, "keys": types, "seed": vfh.Seed()}
		mm := func(class, what string, exp, got any) {
			res.AddMismatch(vfh.Mismatch{Class: class, What: what, Walk: walk, Expected: exp, Got: got, Cfg: cfg})
		}
		for _, x := range []struct {
			name  string
			r     result
			other vfC01TKey
			named peer.ID
		}{{"client", rc, ks, pC}, {"server", rs, kc, pS}} {
			if x.r.err != nil {
				continue
			}
			got := map[string]any{"side": x.name, "remote": x.r.c.RemotePeer().String(), "remote key known": x.r.c.RemotePublicKey() != nil}
			k := x.r.c.RemotePublicKey()
			switch {
			case k == nil:
				mm("tls-completed-without-remote-key", x.name+" returned success but RemotePublicKey() is nil: nobody was authenticated", x.other.id.String(), got)
			case !k.Equals(x.other.pub):
				mm("tls-wrong-remote-public-key", x.name+": RemotePublicKey() is not the key the other endpoint holds", x.other.id.String(), got)
			default:
				if id, e := peer.IDFromPublicKey(k); e != nil || id != x.r.c.RemotePeer() {
					mm("tls-remote-peer-not-derived-from-remote-key", x.name+": RemotePeer() is not the ID of RemotePublicKey()", id.String(), got)
				}
			}
			if x.r.c.RemotePeer() != x.other.id {
				mm("tls-wrong-remote-peer", x.name+" reports another remote peer than the endpoint at the other end of the pipe", x.other.id.String(), got)
			}
			if x.named != "" && x.r.c.RemotePeer() != x.named {
				mm("tls-expected-peer-violated", x.name+" named a peer and completed with another", x.named.String(), got)
			}
			x.r.c.Close()
		}
		if fconn.fired && rf.err == nil {
			mm("tls-completed-after-fault", fmt.Sprintf("the %s's handshake was hit by a fault (%s at I/O %d) and the call still returned success, reporting %s", fc.Side, fc.Kind, at, rf.c.RemotePeer()), "error", nil)
		}
		if fconn.fired {
			res.Inc("F.tls.fired."+fc.Kind, 1)
			if rf.err != nil {
				res.Inc("F.tls.refused", 1)
			}
		} else if at >= 0 {
			res.Inc("F.tls.not-reached", 1)
		}
		if at < 0 && (rc.err != nil || rs.err != nil) {
			res.Inc("F.tls.dry-run-incomplete", 1)
		}
		res.Count(1, 1)
	})
	return ops, err
}

func TestVerifC01TLSFaults(t *testing.T) {
	res := vfh.NewResult()
	res.Rule = "distinct = (fault case, I/O index, key types) combinations executed"
	defer func() {
		if err := res.Write(); err != nil {
			t.Error(err)
		}
	}()
	keys := map[string]map[string]vfC01TKey{}
	for _, role := range []string{"V", "H"} {
		keys[role] = map[string]vfC01TKey{}
		for _, typ := range vfC01TTypes {
			k, err := vfC01TGenKey(typ)
			if err != nil {
				t.Fatal(err)
			}
			keys[role][typ] = k
		}
	}
	_, walks, err := vfh.LoadWalks(filepath.Join(vfh.In(), "F.jsonl"))
	if err != nil {
		t.Fatal(err)
	}
	seed := int(vfh.Seed())
	for i := range walks {
		var fc vfC01TFaultCase
		if err := json.Unmarshal(walks[i].Init, &fc); err != nil {
			t.Fatal(err)
		}
		if fc.Proto != "tls" || fc.Point != "io" {
			continue
		}
		types := [2]string{vfC01TTypes[(i+seed)%4], vfC01TTypes[(i/4+seed)%4]}
		if i%2 == 0 && !vfh.Thorough() {
			types = [2]string{"Ed25519", "Ed25519"}
		}
		dry := fc
		dry.Named = "match"
		n, err := vfC01TFaultRun(t, res, keys, dry, types, -1, walks[i].Walk)
		if err != nil {
			t.Fatal(err)
		}
		if n < 3 {
			res.Inc("F.tls.dry-run-short", 1)
			continue
		}
		res.Set("F.tls.io-ops."+fc.Side, n)
		for k := 0; k < n; k++ {
			if _, err := vfC01TFaultRun(t, res, keys, fc, types, k, walks[i].Walk); err != nil {
				t.Fatal(err)
			}
			res.Case(fmt.Sprint(fc, k, types))
		}
	}
}
