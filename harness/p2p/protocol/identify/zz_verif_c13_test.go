//go:build verif

package identify

// Conformance harness for C13 (identify attributes what it learns only to the authenticated peer,
// within bounds).
//
// TestVerifC13Replay executes walks over the TLC state graphs of spec/C13_Identify.tla on a REAL
// idService wired to
//   - a real in-memory peerstore (pstoremem) behind a thin recording decorator (every mutating call
//     with its peer and TTL arguments is logged; Addrs() is returned in a seeded order),
//   - a stub host/network whose Connectedness/ConnsToPeer come from the harness's connection set,
//   - stub connections and in-memory streams: identify responses travel through the real
//     multistream negotiation and handleIdentifyResponse, pushes through handlePush, as one or
//     several length-delimited protobuf frames (real pb types, real keys, real signed envelopes),
// inside a testing/synctest bubble.  After every step the WHOLE peerstore (R, F, the local peer and
// whatever else it lists) is projected and compared with the model state (L2), and the statement's
// clauses are evaluated on observables only (L1): nothing under a peer other than the connection's
// remote, a stored key hashes to the peer, a record is used only if valid and signed by the remote,
// caps, events name the remote.  At the END of each walk virtual time is advanced past the temporary
// and the recently-connected lifetime: addresses of a peer without connections must be gone,
// addresses identified while a connection has existed ever since must survive; every wait channel
// handed out must be closed once the identify timeout has passed.
//
// TestVerifC13Sections pauses Disconnected / consumeMessage at their Connectedness read and, if the
// code lets it (addrMu not held there), runs the racing section in between.

import (
	"bytes"
	"context"
	"crypto/rand"
	"encoding/json"
	"errors"
	"fmt"
	"io"
	mrand "math/rand"
	"os"
	"path/filepath"
	"sort"
	"strings"
	"sync"
	"sync/atomic"
	"testing"
	"testing/synctest"
	"time"

	"github.com/libp2p/go-libp2p/core/crypto"
	"github.com/libp2p/go-libp2p/core/event"
	"github.com/libp2p/go-libp2p/core/host"
	"github.com/libp2p/go-libp2p/core/network"
	"github.com/libp2p/go-libp2p/core/peer"
	"github.com/libp2p/go-libp2p/core/peerstore"
	"github.com/libp2p/go-libp2p/core/protocol"
	"github.com/libp2p/go-libp2p/core/record"
	"github.com/libp2p/go-libp2p/internal/vfh"
	"github.com/libp2p/go-libp2p/p2p/host/eventbus"
	"github.com/libp2p/go-libp2p/p2p/host/peerstore/pstoremem"
	"github.com/libp2p/go-libp2p/p2p/protocol/identify/pb"
	"github.com/libp2p/go-msgio/pbio"
	ma "github.com/multiformats/go-multiaddr"
	msmux "github.com/multiformats/go-multistream"
	"github.com/multiformats/go-varint"
)

// ---------------------------------------------------------------------------------------------
// identities, token expansions, signed envelopes (built once, outside any bubble)

type vfC13Globals struct {
	privL, privR, privF crypto.PrivKey
	idL, idR, idF, idU  peer.ID // U: a peer nobody has ever heard of
	keyR, keyF          []byte
	recs                map[string][]byte // "<rc1>/<rec class>/<ra class>" -> envelope bytes
	mu                  sync.Mutex
	toks                map[string]*vfC13Tokens // by class of c1's remote address
}

var vfC13G *vfC13Globals

type vfC13Tokens struct {
	rc1      string
	ra       ma.Multiaddr            // RemoteMultiaddr of c1 = token "ra"
	sent     map[string][]ma.Multiaddr // token -> addresses as they travel
	ofAddr   map[string]string       // string(stored address bytes) -> token
	protos   map[string][]string
	ofProto  map[string]string
}

// a registered record type that is not a PeerRecord but signs under the peer-record domain
type vfC13OtherRec struct{ B []byte }

func (r *vfC13OtherRec) Domain() string               { return peer.PeerRecordEnvelopeDomain }
func (r *vfC13OtherRec) Codec() []byte                { return []byte{0x7f, 0x13} }
func (r *vfC13OtherRec) MarshalRecord() ([]byte, error) { return r.B, nil }
func (r *vfC13OtherRec) UnmarshalRecord(b []byte) error { r.B = append([]byte{}, b...); return nil }

// a peer record signed under another domain
type vfC13DomainRec struct{ *peer.PeerRecord }

func (r *vfC13DomainRec) Domain() string { return "vf-c13-other-domain" }

// a peer record carried under a payload type nobody registered
type vfC13TypeRec struct{ *peer.PeerRecord }

func (r *vfC13TypeRec) Codec() []byte { return []byte{0x7f, 0x14} }

func vfC13Init() error {
	if vfC13G != nil {
		return nil
	}
	g := &vfC13Globals{recs: map[string][]byte{}, toks: map[string]*vfC13Tokens{}}
	var err error
	gen := func() (crypto.PrivKey, peer.ID, []byte, error) {
		// ECDSA: the peer ID is a hash, so the peerstore cannot derive the key from the ID and a
		// stored key is observable
		sk, pk, err := crypto.GenerateECDSAKeyPair(rand.Reader)
		if err != nil {
			return nil, "", nil, err
		}
		id, err := peer.IDFromPublicKey(pk)
		if err != nil {
			return nil, "", nil, err
		}
		kb, err := crypto.MarshalPublicKey(pk)
		return sk, id, kb, err
	}
	if g.privL, g.idL, _, err = gen(); err != nil {
		return err
	}
	if g.privR, g.idR, g.keyR, err = gen(); err != nil {
		return err
	}
	if g.privF, g.idF, g.keyF, err = gen(); err != nil {
		return err
	}
	if _, g.idU, _, err = gen(); err != nil {
		return err
	}
	if _, err := g.idR.ExtractPublicKey(); err == nil {
		return errors.New("R's key is extractable from its ID")
	}
	record.RegisterType(&vfC13OtherRec{})
	vfC13G = g
	return nil
}

var vfC13RemoteAddr = map[string]map[string]string{
	"c1": {"pub": "/ip4/1.2.3.4/tcp/1234", "priv": "/ip4/192.168.7.7/tcp/1234", "lo": "/ip4/127.0.0.7/tcp/1234"},
	"c2": {"pub": "/ip4/4.3.2.1/tcp/999", "priv": "/ip4/192.168.1.50/tcp/999", "lo": "/ip4/127.0.0.1/tcp/999"},
	"c3": {"pub": "/ip4/4.3.2.2/tcp/999", "priv": "/ip4/192.168.1.51/tcp/999", "lo": "/ip4/127.0.0.1/tcp/998"},
}

func (g *vfC13Globals) tokens(rc1 string, aw, pw map[string]int) (*vfC13Tokens, error) {
	g.mu.Lock()
	defer g.mu.Unlock()
	key := fmt.Sprintf("%s/%d/%d", rc1, aw["big"], pw["pbig"])
	if t, ok := g.toks[key]; ok {
		return t, nil
	}
	t := &vfC13Tokens{rc1: rc1, sent: map[string][]ma.Multiaddr{}, ofAddr: map[string]string{},
		protos: map[string][]string{}, ofProto: map[string]string{}}
	t.ra = ma.StringCast(vfC13RemoteAddr["c1"][rc1])
	one := map[string]string{
		"pa": "/ip4/8.8.8.8/tcp/4001", "pb": "/ip4/192.168.1.7/tcp/4001", "lo": "/ip4/127.0.0.1/tcp/4001",
		"x": "/ip4/9.9.9.9/tcp/4001", "sa": "/ip4/7.7.7.7/udp/4001/quic-v1", "sb": "/ip4/10.1.2.3/tcp/4001",
		"fs": "/ip4/5.5.5.5/tcp/4001/p2p/" + g.idF.String(), "rs": "/ip4/6.6.6.6/tcp/4001/p2p/" + g.idR.String(),
		"us": "/ip4/5.5.5.6/tcp/4001/p2p/" + g.idU.String(),
		"d4": "/ip4/6.6.7.1/tcp/4001", "d4s": "/ip4/6.6.7.1/tcp/4001/p2p/" + g.idR.String(),
		"df": "/ip4/6.6.7.2/tcp/4001", "dfs": "/ip4/6.6.7.2/tcp/4001/p2p/" + g.idF.String(),
	}
	for tok, s := range one {
		if aw[tok] != 1 {
			return nil, fmt.Errorf("token %s has weight %d in the model", tok, aw[tok])
		}
		t.sent[tok] = []ma.Multiaddr{ma.StringCast(s)}
	}
	t.sent["ra"] = []ma.Multiaddr{t.ra}
	for i := 0; i < aw["big"]; i++ {
		t.sent["big"] = append(t.sent["big"], ma.StringCast(fmt.Sprintf("/ip4/11.%d.%d.%d/tcp/4001", i/60000, (i/250)%240, i%250+1)))
	}
	// stored (suffix-free) form -> token; d4s and dfs are second copies of d4 and df
	var toks []string
	for tok := range t.sent {
		toks = append(toks, tok)
	}
	sort.Strings(toks)
	for _, tok := range toks {
		for _, a := range t.sent[tok] {
			bare, _ := peer.SplitAddr(a)
			if tok != "d4s" && tok != "dfs" {
				t.ofAddr[string(bare.Bytes())] = tok
			}
			if !bare.Equal(a) {
				t.ofAddr[string(a.Bytes())] = tok + "+suffix"
			}
		}
	}
	t.protos["p1"], t.protos["p2"], t.protos["px"] = []string{"/vf/p1"}, []string{"/vf/p2"}, []string{"/vf/px"}
	t.protos["idpush"] = []string{IDPush}
	for i := 0; i < pw["pbig"]; i++ {
		t.protos["pbig"] = append(t.protos["pbig"], fmt.Sprintf("/b/%d", i))
	}
	for tok, l := range t.protos {
		for _, p := range l {
			t.ofProto[p] = tok
		}
	}
	g.toks[key] = t
	return t, nil
}

var vfC13LAddrs = map[string][]string{"none": {}, "own": {"pa", "pb", "lo"}, "fsuf": {"pa", "fs", "rs"}, "big": {"pa", "ra", "big", "x"},
	"suf1": {"fs"}, "self1": {"rs"}, "sufU": {"pa", "us"}, "dups": {"d4", "d4s", "df", "dfs"}, "bigd": {"d4", "d4s", "big", "x"}}
var vfC13RAddrs = map[string][]string{"none": {}, "own": {"sa", "sb"}, "fsuf": {"sa", "fs"}, "big": {"sa", "ra", "big", "x"},
	"suf1": {"fs"}, "sufU": {"sa", "us"}, "dups": {"sa", "d4", "d4s", "df", "dfs"}, "bigd": {"sa", "d4s", "big", "x"}}

// tokens whose address travels ONLY with the /p2p suffix of another peer
var vfC13ForeignOnly = map[string]bool{"fs": true, "us": true}
var vfC13PList = map[string][]string{"none": {}, "few": {"p1", "p2"}, "push": {"p1", "idpush"}, "big": {"p1", "pbig", "px"}}

func (t *vfC13Tokens) expand(toks []string) []ma.Multiaddr {
	var out []ma.Multiaddr
	for _, k := range toks {
		out = append(out, t.sent[k]...)
	}
	return out
}

// envelope returns the signed-record bytes of a record class over the record address class ra.
func (g *vfC13Globals) envelope(t *vfC13Tokens, rec, ra string) ([]byte, error) {
	if rec == "absent" {
		return nil, nil
	}
	key := t.rc1 + "/" + rec + "/" + ra + fmt.Sprint(len(t.sent["big"]))
	g.mu.Lock()
	defer g.mu.Unlock()
	if b, ok := g.recs[key]; ok {
		return b, nil
	}
	addrs := t.expand(vfC13RAddrs[ra])
	mk := func(id peer.ID) *peer.PeerRecord { return &peer.PeerRecord{PeerID: id, Addrs: addrs, Seq: 7} }
	var r record.Record
	sk := g.privR
	switch rec {
	case "validR", "badsig":
		r = mk(g.idR)
	case "byF":
		r, sk = mk(g.idF), g.privF
	case "forged":
		r, sk = mk(g.idR), g.privF
	case "pidF":
		r = mk(g.idF)
	case "othertype":
		b, _ := mk(g.idR).MarshalRecord()
		r = &vfC13OtherRec{B: b}
	case "domain":
		r = &vfC13DomainRec{mk(g.idR)}
	case "type":
		r = &vfC13TypeRec{mk(g.idR)}
	case "garbage":
		b := make([]byte, 120)
		mrand.New(mrand.NewSource(13)).Read(b)
		g.recs[key] = b
		return b, nil
	default:
		return nil, fmt.Errorf("unknown record class %q", rec)
	}
	env, err := record.Seal(r, sk)
	if err != nil {
		return nil, err
	}
	b, err := env.Marshal()
	if err != nil {
		return nil, err
	}
	if rec == "badsig" {
		b = append([]byte{}, b...)
		b[len(b)-1] ^= 0x40 // the signature is the last field of the envelope
	}
	g.recs[key] = b
	return b, nil
}

// ---------------------------------------------------------------------------------------------
// message classes

type vfC13Msg struct{ Pr, La, Rec, Ra, Key, Meta string }

func vfC13MsgOf(m map[string]any) vfC13Msg {
	s := func(k string) string { v, _ := m[k].(string); return v }
	return vfC13Msg{s("pr"), s("la"), s("rec"), s("ra"), s("key"), s("meta")}
}

func vfC13RecEffect(rec string) string {
	switch rec {
	case "absent", "domain", "type", "garbage", "badsig":
		return "listen"
	case "validR":
		return "record"
	}
	return "nothing"
}

func (s *vfC13Sys) build(m vfC13Msg, variant int) (*pb.Identify, error) {
	g, t := vfC13G, s.tok
	mes := &pb.Identify{}
	for _, k := range vfC13PList[m.Pr] {
		mes.Protocols = append(mes.Protocols, t.protos[k]...)
	}
	for _, a := range t.expand(vfC13LAddrs[m.La]) {
		mes.ListenAddrs = append(mes.ListenAddrs, a.Bytes())
	}
	if m.La == "fsuf" { // an unparsable entry is skipped, not counted
		mes.ListenAddrs = append([][]byte{{0xff, 0x01, 0x02}}, mes.ListenAddrs...)
	}
	switch m.Key {
	case "R":
		mes.PublicKey = g.keyR
	case "F":
		mes.PublicKey = g.keyF
	case "garbage":
		mes.PublicKey = []byte{0x08, 0x09, 0x12, 0x03, 1, 2, 3}
	}
	env, err := g.envelope(t, m.Rec, m.Ra)
	if err != nil {
		return nil, err
	}
	mes.SignedPeerRecord = env
	if m.Meta != "absent" {
		av, pv := "agent-"+m.Meta, "pv-"+m.Meta
		mes.AgentVersion, mes.ProtocolVersion = &av, &pv
	}
	switch variant % 3 { // the observed address is not recorded anywhere by identify
	case 0:
		mes.ObservedAddr = ma.StringCast("/ip4/3.3.3.3/tcp/5555").Bytes()
	case 1:
		mes.ObservedAddr = []byte{0xfe, 0xfe}
	}
	return mes, nil
}

const vfC13FrameBudget = 6000

// frames renders a message as length-delimited frames.  mode: one | split | dup | nine.
func vfC13Frames(mes *pb.Identify, mode string) ([][]byte, string, error) {
	enc := func(m *pb.Identify) ([]byte, error) {
		var buf bytes.Buffer
		if err := pbio.NewDelimitedWriter(&buf).WriteMsg(m); err != nil {
			return nil, err
		}
		return buf.Bytes(), nil
	}
	split := func() ([]*pb.Identify, error) {
		var parts []*pb.Identify
		cur := &pb.Identify{PublicKey: mes.PublicKey, ObservedAddr: mes.ObservedAddr, AgentVersion: mes.AgentVersion, ProtocolVersion: mes.ProtocolVersion}
		size := 200
		flush := func() {
			parts = append(parts, cur)
			cur, size = &pb.Identify{}, 0
		}
		for _, p := range mes.Protocols {
			if size+len(p)+3 > vfC13FrameBudget {
				flush()
			}
			cur.Protocols = append(cur.Protocols, p)
			size += len(p) + 3
		}
		for _, a := range mes.ListenAddrs {
			if size+len(a)+3 > vfC13FrameBudget {
				flush()
			}
			cur.ListenAddrs = append(cur.ListenAddrs, a)
			size += len(a) + 3
		}
		flush()
		if len(mes.SignedPeerRecord) > 0 { // as the real writer does: the record travels last, alone
			parts = append(parts, &pb.Identify{SignedPeerRecord: mes.SignedPeerRecord})
		}
		return parts, nil
	}
	var parts []*pb.Identify
	switch mode {
	case "one":
		b, err := enc(mes)
		if err != nil {
			return nil, "", err
		}
		if len(b) <= signedIDSize {
			return [][]byte{b}, "one", nil
		}
		mode = "split"
		fallthrough
	case "split", "dup", "nine":
		p, err := split()
		if err != nil {
			return nil, "", err
		}
		parts = p
		if mode == "dup" && 2*len(p) <= maxMessages-1 {
			parts = append(append([]*pb.Identify{}, p...), p...)
		} else if mode == "dup" {
			mode = "split"
		}
		if mode == "nine" {
			// the first frames carry nothing; the last ones the message
			for len(parts) < maxMessages-1 {
				parts = append([]*pb.Identify{{}}, parts...)
			}
		}
	default:
		return nil, "", fmt.Errorf("unknown chunk mode %q", mode)
	}
	if len(parts) > maxMessages-1 {
		return nil, "", fmt.Errorf("message needs %d frames", len(parts))
	}
	var out [][]byte
	for _, p := range parts {
		b, err := enc(p)
		if err != nil {
			return nil, "", err
		}
		if len(b) > signedIDSize {
			return nil, "", fmt.Errorf("frame of %d bytes", len(b))
		}
		out = append(out, b)
	}
	return out, mode, nil
}

// broken frame sequences: the stream fails before consumeMessage
func vfC13BadFrames(good [][]byte, why string) ([][]byte, bool, error) {
	switch why {
	case "oversize": // a good first frame, then a frame announcing more than the reader accepts
		hdr := varint.ToUvarint(uint64(signedIDSize + 1))
		return append(append([][]byte{}, good[0]), append(hdr, make([]byte, 64)...)), false, nil
	case "toomany":
		out := append([][]byte{}, good...)
		for len(out) < maxMessages {
			out = append(out, []byte{0})
		}
		return out, false, nil
	case "garbage":
		bad := []byte{0x0a, 0xff, 0xff, 0xff} // field 1, length running past the end
		return append(append([][]byte{}, good[0]), append(varint.ToUvarint(uint64(len(bad))), bad...)), false, nil
	case "reset": // a good first frame, then the remote resets the stream
		return [][]byte{good[0]}, true, nil
	}
	return nil, false, fmt.Errorf("unknown failure kind %q", why)
}

// ---------------------------------------------------------------------------------------------
// in-memory streams (buffered, with deadlines on virtual time)

type vfC13Half struct {
	mu     sync.Mutex
	buf    bytes.Buffer
	closed bool
	err    error
	sig    chan struct{}
}

func vfC13NewHalf() *vfC13Half { return &vfC13Half{sig: make(chan struct{}, 1)} }

func (h *vfC13Half) write(p []byte) (int, error) {
	h.mu.Lock()
	if h.closed {
		err := h.err
		h.mu.Unlock()
		if err == nil || err == io.EOF {
			err = io.ErrClosedPipe
		}
		return 0, err
	}
	h.buf.Write(p)
	h.mu.Unlock()
	select {
	case h.sig <- struct{}{}:
	default:
	}
	return len(p), nil
}

func (h *vfC13Half) close(err error) {
	h.mu.Lock()
	if !h.closed {
		h.closed, h.err = true, err
	}
	h.mu.Unlock()
	select {
	case h.sig <- struct{}{}:
	default:
	}
}

func (h *vfC13Half) read(p []byte, deadline time.Time) (int, error) {
	for {
		h.mu.Lock()
		if h.buf.Len() > 0 {
			n, _ := h.buf.Read(p)
			rest := h.buf.Len() > 0 || h.closed
			h.mu.Unlock()
			if rest {
				select {
				case h.sig <- struct{}{}:
				default:
				}
			}
			return n, nil
		}
		if h.closed {
			err := h.err
			h.mu.Unlock()
			if err == nil {
				err = io.EOF
			}
			select {
			case h.sig <- struct{}{}:
			default:
			}
			return 0, err
		}
		h.mu.Unlock()
		if deadline.IsZero() {
			<-h.sig
			continue
		}
		d := time.Until(deadline)
		if d <= 0 {
			return 0, os.ErrDeadlineExceeded
		}
		tm := time.NewTimer(d)
		select {
		case <-h.sig:
			tm.Stop()
		case <-tm.C:
			return 0, os.ErrDeadlineExceeded
		}
	}
}

// one end of a stream: reads from in, writes to out
type vfC13End struct {
	in, out *vfC13Half
	mu      sync.Mutex
	dl      time.Time
}

func (e *vfC13End) Read(p []byte) (int, error) {
	e.mu.Lock()
	dl := e.dl
	e.mu.Unlock()
	return e.in.read(p, dl)
}
func (e *vfC13End) Write(p []byte) (int, error) { return e.out.write(p) }
func (e *vfC13End) Close() error                { e.out.close(io.EOF); return nil }
func (e *vfC13End) reset() {
	e.out.close(network.ErrReset)
	e.in.close(network.ErrReset)
}

type vfC13Stream struct {
	network.Stream // nil: anything identify does not use panics (machinery)
	*vfC13End
	c     *vfC13Conn
	id    string
	proto protocol.ID
}

func (s *vfC13Stream) Read(p []byte) (int, error)                { return s.vfC13End.Read(p) }
func (s *vfC13Stream) Write(p []byte) (int, error)               { return s.vfC13End.Write(p) }
func (s *vfC13Stream) Close() error                              { return s.vfC13End.Close() }
func (s *vfC13Stream) CloseWrite() error                         { return s.vfC13End.Close() }
func (s *vfC13Stream) CloseRead() error                          { return nil }
func (s *vfC13Stream) Reset() error                              { s.reset(); return nil }
func (s *vfC13Stream) ResetWithError(network.StreamErrorCode) error { s.reset(); return nil }
func (s *vfC13Stream) SetDeadline(t time.Time) error {
	s.vfC13End.mu.Lock()
	s.dl = t
	s.vfC13End.mu.Unlock()
	return nil
}
func (s *vfC13Stream) SetReadDeadline(t time.Time) error  { return s.SetDeadline(t) }
func (s *vfC13Stream) SetWriteDeadline(t time.Time) error { return nil }
func (s *vfC13Stream) ID() string                         { return s.id }
func (s *vfC13Stream) Protocol() protocol.ID              { return s.proto }
func (s *vfC13Stream) SetProtocol(p protocol.ID) error    { s.proto = p; return nil }
func (s *vfC13Stream) Stat() network.Stats                { return network.Stats{Direction: network.DirOutbound} }
func (s *vfC13Stream) Conn() network.Conn                 { return s.c }
func (s *vfC13Stream) Scope() network.StreamScope         { return &network.NullScope{} }

func vfC13Pipe(c *vfC13Conn, id string) (*vfC13Stream, *vfC13End) {
	a, b := vfC13NewHalf(), vfC13NewHalf()
	local := &vfC13Stream{vfC13End: &vfC13End{in: a, out: b}, c: c, id: id}
	remote := &vfC13End{in: b, out: a}
	if c != nil && c.sys != nil {
		c.sys.endsMu.Lock()
		c.sys.ends = append(c.sys.ends, local.vfC13End, remote)
		c.sys.endsMu.Unlock()
	}
	return local, remote
}

// ---------------------------------------------------------------------------------------------
// stub connection, network, host

type vfC13Conn struct {
	network.Conn // nil
	sys          *vfC13Sys
	name         string
	raddr        ma.Multiaddr
	rp           peer.ID       // the authenticated remote; zero: R
	rpk          crypto.PubKey // its key
	limited      bool
	mu           sync.Mutex
	closed       bool
	nstreams     int
	answered     int            // how many of the outbound streams the harness has answered (or stalled)
	local        []*vfC13Stream // outbound streams handed to identify
	remote       []*vfC13End    // their far ends, in order
}

func (c *vfC13Conn) LocalPeer() peer.ID             { return vfC13G.idL }
func (c *vfC13Conn) RemotePeer() peer.ID {
	if c.rp != "" {
		return c.rp
	}
	return vfC13G.idR
}
func (c *vfC13Conn) RemotePublicKey() crypto.PubKey {
	if c.rpk != nil {
		return c.rpk
	}
	return vfC13G.privR.GetPublic()
}
func (c *vfC13Conn) ConnState() network.ConnectionState {
	return network.ConnectionState{StreamMultiplexer: "/yamux/1.0.0", Security: "/noise", Transport: "tcp"}
}
func (c *vfC13Conn) LocalMultiaddr() ma.Multiaddr  { return ma.StringCast("/ip4/100.64.0.1/tcp/4001") }
func (c *vfC13Conn) RemoteMultiaddr() ma.Multiaddr { return c.raddr }
func (c *vfC13Conn) Stat() network.ConnStats {
	return network.ConnStats{Stats: network.Stats{Direction: network.DirOutbound, Limited: c.limited}}
}
func (c *vfC13Conn) Scope() network.ConnScope { return &network.NullScope{} }
func (c *vfC13Conn) ID() string               { return "vf-" + c.name }
func (c *vfC13Conn) String() string           { return "vfconn-" + c.name }
func (c *vfC13Conn) IsClosed() bool {
	c.mu.Lock()
	defer c.mu.Unlock()
	return c.closed
}
func (c *vfC13Conn) GetStreams() []network.Stream { return nil }
func (c *vfC13Conn) Close() error                 { return errors.New("vf: identify must not close connections") }
func (c *vfC13Conn) NewStream(context.Context) (network.Stream, error) {
	c.mu.Lock()
	defer c.mu.Unlock()
	if c.closed {
		return nil, network.ErrReset
	}
	c.nstreams++
	l, r := vfC13Pipe(c, fmt.Sprintf("%s-out-%d", c.name, c.nstreams))
	c.local = append(c.local, l)
	c.remote = append(c.remote, r)
	return l, nil
}

type vfC13Net struct {
	network.Network // nil
	sys             *vfC13Sys
}

func (n *vfC13Net) LocalPeer() peer.ID               { return vfC13G.idL }
func (n *vfC13Net) Peerstore() peerstore.Peerstore   { return n.sys.ps }
func (n *vfC13Net) Notify(f network.Notifiee)        { n.sys.notifiees = append(n.sys.notifiees, f) }
func (n *vfC13Net) StopNotify(f network.Notifiee)    {}
func (n *vfC13Net) Conns() []network.Conn {
	var out []network.Conn
	for _, name := range n.sys.order {
		if c := n.sys.conns[name]; c != nil && !c.IsClosed() {
			out = append(out, c)
		}
	}
	return out
}
func (n *vfC13Net) ConnsToPeer(p peer.ID) []network.Conn {
	var out []network.Conn
	for _, c := range n.Conns() {
		if c.RemotePeer() == p {
			out = append(out, c)
		}
	}
	return out
}
func (n *vfC13Net) Peers() []peer.ID {
	seen := map[peer.ID]bool{}
	var out []peer.ID
	for _, c := range n.Conns() {
		if !seen[c.RemotePeer()] {
			seen[c.RemotePeer()] = true
			out = append(out, c.RemotePeer())
		}
	}
	return out
}

// Connectedness is what both address sections read; the harness notes whether addrMu is held at that
// moment and lets a test run something right there (gate).
func (n *vfC13Net) Connectedness(p peer.ID) network.Connectedness {
	s := n.sys
	held := true
	if s.ids.addrMu.TryLock() {
		s.ids.addrMu.Unlock()
		held = false
	}
	s.connReads = append(s.connReads, vfC13ConnRead{peer: p, held: held})
	res := network.NotConnected
	for _, c := range n.ConnsToPeer(p) {
		if c.(*vfC13Conn).limited {
			if res == network.NotConnected {
				res = network.Limited
			}
		} else {
			res = network.Connected
		}
	}
	// the gate sits between the read and whatever the caller does with the answer
	if g := s.gate; g != nil {
		s.gate = nil
		g(held)
	}
	return res
}

type vfC13Host struct {
	host.Host // nil
	sys       *vfC13Sys
	mux       *msmux.MultistreamMuxer[protocol.ID]
	bus       event.Bus
	handlers  map[protocol.ID]network.StreamHandler
}

func (h *vfC13Host) ID() peer.ID                    { return vfC13G.idL }
func (h *vfC13Host) Peerstore() peerstore.Peerstore { return h.sys.ps }
func (h *vfC13Host) Addrs() []ma.Multiaddr {
	return []ma.Multiaddr{ma.StringCast("/ip4/100.64.0.1/tcp/4001")}
}
func (h *vfC13Host) Network() network.Network { return h.sys.net }
func (h *vfC13Host) Mux() protocol.Switch     { return h.mux }
func (h *vfC13Host) EventBus() event.Bus      { return h.bus }
func (h *vfC13Host) SetStreamHandler(p protocol.ID, f network.StreamHandler) {
	h.handlers[p] = f
	h.mux.AddHandler(p, nil)
}
func (h *vfC13Host) RemoveStreamHandler(p protocol.ID) { delete(h.handlers, p) }

// ---------------------------------------------------------------------------------------------
// recording peerstore decorator

type vfC13Call struct {
	Method string
	Peer   peer.ID
	TTL    time.Duration
	Old    time.Duration
	N      int
	Held   bool
}

type vfC13PS struct {
	peerstore.Peerstore
	cab     peerstore.CertifiedAddrBook
	sys     *vfC13Sys
	lax     bool // a key book that stores what it is given (the interface does not promise a check)
	laxKeys map[peer.ID]crypto.PubKey
	calls   []vfC13Call
	ttl     map[peer.ID]map[string]time.Duration // shadow of the TTL arguments (L2)
}

func (ps *vfC13PS) note(m string, p peer.ID, ttl, old time.Duration, n int) {
	held := true
	if ps.sys.ids != nil {
		if ps.sys.ids.addrMu.TryLock() {
			ps.sys.ids.addrMu.Unlock()
			held = false
		}
	}
	ps.calls = append(ps.calls, vfC13Call{m, p, ttl, old, n, held})
	if g := ps.sys.addGate; g != nil && m == "AddAddrs" {
		ps.sys.addGate = nil
		g(held)
	}
}
func (ps *vfC13PS) shadow(p peer.ID) map[string]time.Duration {
	if ps.ttl[p] == nil {
		ps.ttl[p] = map[string]time.Duration{}
	}
	return ps.ttl[p]
}
func vfC13Bare(p peer.ID, a ma.Multiaddr) (string, bool) {
	bare, id := peer.SplitAddr(a)
	if bare == nil || (id != "" && id != p) {
		return "", false
	}
	return string(bare.Bytes()), true
}
func (ps *vfC13PS) AddAddr(p peer.ID, a ma.Multiaddr, ttl time.Duration) {
	ps.AddAddrs(p, []ma.Multiaddr{a}, ttl)
}
func (ps *vfC13PS) AddAddrs(p peer.ID, as []ma.Multiaddr, ttl time.Duration) {
	ps.note("AddAddrs", p, ttl, 0, len(as))
	if ttl > 0 {
		sh := ps.shadow(p)
		for _, a := range as {
			if k, ok := vfC13Bare(p, a); ok && sh[k] < ttl {
				sh[k] = ttl
			}
		}
	}
	ps.Peerstore.AddAddrs(p, as, ttl)
}
func (ps *vfC13PS) SetAddr(p peer.ID, a ma.Multiaddr, ttl time.Duration) {
	ps.SetAddrs(p, []ma.Multiaddr{a}, ttl)
}
func (ps *vfC13PS) SetAddrs(p peer.ID, as []ma.Multiaddr, ttl time.Duration) {
	ps.note("SetAddrs", p, ttl, 0, len(as))
	sh := ps.shadow(p)
	for _, a := range as {
		if k, ok := vfC13Bare(p, a); ok {
			if ttl > 0 {
				sh[k] = ttl
			} else {
				delete(sh, k)
			}
		}
	}
	ps.Peerstore.SetAddrs(p, as, ttl)
}
func (ps *vfC13PS) UpdateAddrs(p peer.ID, old, nw time.Duration) {
	ps.note("UpdateAddrs", p, nw, old, 0)
	sh := ps.shadow(p)
	for k, t := range sh {
		if t == old {
			if nw > 0 {
				sh[k] = nw
			} else {
				delete(sh, k)
			}
		}
	}
	ps.Peerstore.UpdateAddrs(p, old, nw)
}
func (ps *vfC13PS) ClearAddrs(p peer.ID) {
	ps.note("ClearAddrs", p, 0, 0, 0)
	delete(ps.ttl, p)
	ps.Peerstore.ClearAddrs(p)
}

// Addrs: the real answer in a seeded order (the memory book answers in map order)
func (ps *vfC13PS) Addrs(p peer.ID) []ma.Multiaddr {
	out := ps.Peerstore.Addrs(p)
	sort.Slice(out, func(i, j int) bool { return bytes.Compare(out[i].Bytes(), out[j].Bytes()) < 0 })
	ps.sys.rnd.Shuffle(len(out), func(i, j int) { out[i], out[j] = out[j], out[i] })
	return out
}
func (ps *vfC13PS) AddPubKey(p peer.ID, k crypto.PubKey) error {
	ps.note("AddPubKey", p, 0, 0, 0)
	if ps.lax {
		ps.laxKeys[p] = k
		return nil
	}
	return ps.Peerstore.AddPubKey(p, k)
}
func (ps *vfC13PS) PubKey(p peer.ID) crypto.PubKey {
	if ps.lax {
		return ps.laxKeys[p]
	}
	return ps.Peerstore.PubKey(p)
}
func (ps *vfC13PS) PeersWithKeys() peer.IDSlice {
	out := ps.Peerstore.PeersWithKeys()
	for p := range ps.laxKeys {
		out = append(out, p)
	}
	return out
}
func (ps *vfC13PS) Peers() peer.IDSlice {
	return append(ps.Peerstore.Peers(), ps.PeersWithKeys()...)
}
func (ps *vfC13PS) AddPrivKey(p peer.ID, k crypto.PrivKey) error {
	ps.note("AddPrivKey", p, 0, 0, 0)
	return ps.Peerstore.AddPrivKey(p, k)
}
func (ps *vfC13PS) SetProtocols(p peer.ID, pr ...protocol.ID) error {
	ps.note("SetProtocols", p, 0, 0, len(pr))
	return ps.Peerstore.SetProtocols(p, pr...)
}
func (ps *vfC13PS) AddProtocols(p peer.ID, pr ...protocol.ID) error {
	ps.note("AddProtocols", p, 0, 0, len(pr))
	return ps.Peerstore.AddProtocols(p, pr...)
}
func (ps *vfC13PS) RemoveProtocols(p peer.ID, pr ...protocol.ID) error {
	ps.note("RemoveProtocols", p, 0, 0, len(pr))
	return ps.Peerstore.RemoveProtocols(p, pr...)
}
func (ps *vfC13PS) Put(p peer.ID, k string, v any) error {
	ps.note("Put:"+k, p, 0, 0, 0)
	return ps.Peerstore.Put(p, k, v)
}
func (ps *vfC13PS) RemovePeer(p peer.ID) {
	ps.note("RemovePeer", p, 0, 0, 0)
	ps.Peerstore.RemovePeer(p)
}
func (ps *vfC13PS) ConsumePeerRecord(e *record.Envelope, ttl time.Duration) (bool, error) {
	var p peer.ID
	if r, err := e.Record(); err == nil {
		if pr, ok := r.(*peer.PeerRecord); ok {
			p = pr.PeerID
		}
	}
	ps.note("ConsumePeerRecord", p, ttl, 0, 0)
	ps.sys.recordStored = append(ps.sys.recordStored, e)
	return ps.cab.ConsumePeerRecord(e, ttl)
}
func (ps *vfC13PS) GetPeerRecord(p peer.ID) *record.Envelope { return ps.cab.GetPeerRecord(p) }

// ---------------------------------------------------------------------------------------------
// the system under test

type vfC13ConnRead struct {
	peer peer.ID
	held bool
}

type vfC13Cfg struct {
	Name        string
	Conns       []string
	RClass      map[string]string
	MaxProtos   int
	MaxAddrs    int
	RecentMax   int
	PsMaxProtos int
	PsMaxAddrs  int
	AW, PW      map[string]int
	Lax         bool
	Limited     string // name of a connection that is a limited (relayed) one, or ""
}

type vfC13Sys struct {
	cfg       vfC13Cfg
	tok       *vfC13Tokens
	rnd       *mrand.Rand
	ps        *vfC13PS
	real      io.Closer
	net       *vfC13Net
	host      *vfC13Host
	ids       *idService
	notifiees []network.Notifiee
	sub       event.Subscription
	conns     map[string]*vfC13Conn
	order     []string
	chans     map[string][]<-chan struct{}
	connReads []vfC13ConnRead
	gate      func(held bool)
	addGate   func(held bool)
	recordStored []*record.Envelope
	step      int
	// ledger for the L1 monitors
	everOpen      bool
	lastMsg       *vfC13Msg // the last message consumed
	validRecSeen  bool
	keepSet       map[string]bool // addresses present after the last consume made while connected ...
	keepValid     bool            // ... and a connection has existed ever since
	chunkModes    map[string]int
	notified, disc map[string]bool
	endsMu         sync.Mutex
	ends           []*vfC13End // every stream end ever made: reset at teardown so that nothing stays blocked
	baseline       map[string]vfC13PeerView // what the peerstore held under the other peers before any message
	prevTokens     map[string]int           // address tokens of R before the current step
}

func vfC13New(cfg vfC13Cfg, seed int64) (*vfC13Sys, error) {
	s := &vfC13Sys{cfg: cfg, rnd: mrand.New(mrand.NewSource(seed)), conns: map[string]*vfC13Conn{},
		chans: map[string][]<-chan struct{}{}, chunkModes: map[string]int{},
		notified: map[string]bool{}, disc: map[string]bool{}}
	tok, err := vfC13G.tokens(cfg.RClass["c1"], cfg.AW, cfg.PW)
	if err != nil {
		return nil, err
	}
	s.tok = tok
	var opts []pstoremem.Option
	if cfg.PsMaxProtos != 128 {
		opts = append(opts, pstoremem.WithMaxProtocols(cfg.PsMaxProtos))
	}
	if cfg.PsMaxAddrs != 64 {
		opts = append(opts, pstoremem.WithMaxAddressesPerPeer(cfg.PsMaxAddrs))
	}
	real, err := pstoremem.NewPeerstore(opts...)
	if err != nil {
		return nil, err
	}
	s.real = real
	s.ps = &vfC13PS{Peerstore: real, cab: real, sys: s, lax: cfg.Lax, laxKeys: map[peer.ID]crypto.PubKey{},
		ttl: map[peer.ID]map[string]time.Duration{}}
	s.net = &vfC13Net{sys: s}
	s.host = &vfC13Host{sys: s, mux: msmux.NewMultistreamMuxer[protocol.ID](), bus: eventbus.NewBus(),
		handlers: map[protocol.ID]network.StreamHandler{}}
	s.sub, err = s.host.bus.Subscribe([]any{new(event.EvtPeerIdentificationCompleted), new(event.EvtPeerIdentificationFailed),
		new(event.EvtPeerProtocolsUpdated)}, eventbus.BufSize(64))
	if err != nil {
		return nil, err
	}
	ids, err := NewIDService(s.host)
	if err != nil {
		return nil, err
	}
	s.ids = ids
	ids.Start()
	if len(s.notifiees) != 1 || s.host.handlers[IDPush] == nil {
		return nil, errors.New("Start did not register the notifiee and the push handler")
	}
	s.ps.calls = nil
	s.baseline = map[string]vfC13PeerView{}
	for p, n := range map[peer.ID]string{vfC13G.idF: "F", vfC13G.idL: "L", "": "zero"} {
		s.baseline[n] = s.view(p)
	}
	return s, nil
}

// teardown closes the stubs: every connection gone, every stream end reset.  Whatever goroutine of the
// service (or of the harness) still waits on a stream returns, so the bubble can end even when the code
// under test never gave up by itself.
func (s *vfC13Sys) teardown() {
	for _, c := range s.conns {
		c.mu.Lock()
		c.closed = true
		c.mu.Unlock()
	}
	s.endsMu.Lock()
	ends := append([]*vfC13End{}, s.ends...)
	s.endsMu.Unlock()
	for _, e := range ends {
		e.reset()
	}
	synctest.Wait()
}

func (s *vfC13Sys) close() {
	s.teardown()
	s.ids.Close()
	s.sub.Close()
	s.real.Close()
}

type vfC13MM struct {
	Class, What string
	Exp, Got    any
}

func (s *vfC13Sys) conn(name string) *vfC13Conn { return s.conns[name] }

func (s *vfC13Sys) openCount() int { return len(s.net.ConnsToPeer(vfC13G.idR)) }

func (s *vfC13Sys) drain() []any {
	var out []any
	for {
		select {
		case e := <-s.sub.Out():
			out = append(out, e)
		default:
			return out
		}
	}
}

func vfC13Closed(ch <-chan struct{}) bool {
	select {
	case <-ch:
		return true
	default:
		return false
	}
}

func (s *vfC13Sys) pending(name string) bool {
	for _, ch := range s.chans[name] {
		if !vfC13Closed(ch) {
			return true
		}
	}
	return false
}

// feed answers the identify request in flight on c: negotiation, then the frames, then close/reset.
func (s *vfC13Sys) feed(c *vfC13Conn, frames [][]byte, reset bool, refuse bool) error {
	c.mu.Lock()
	if len(c.remote) == 0 {
		c.mu.Unlock()
		return errors.New("no identify stream was opened on " + c.name)
	}
	r := c.remote[len(c.remote)-1]
	c.answered = len(c.remote)
	c.mu.Unlock()
	go func() {
		mux := msmux.NewMultistreamMuxer[protocol.ID]()
		if !refuse {
			mux.AddHandler(ID, nil)
		}
		if _, _, err := mux.Negotiate(r); err != nil {
			r.reset()
			return
		}
		for _, f := range frames {
			if _, err := r.Write(f); err != nil {
				return
			}
		}
		if reset {
			r.reset()
		} else {
			r.Close()
		}
	}()
	synctest.Wait()
	return nil
}

func vfC13MsLine(s string) []byte {
	return append(varint.ToUvarint(uint64(len(s)+1)), append([]byte(s), '\n')...)
}

// stall plays the remote of the identify request in flight on c up to a point and then stays silent with
// the stream and the connection open.  at: neg0 (nothing at all), neg1 (the multistream header only),
// neg2 (negotiation complete, no message), mid (one whole frame and half of the next one).
func (s *vfC13Sys) stall(c *vfC13Conn, at string) error {
	c.mu.Lock()
	if len(c.remote) == 0 || c.answered >= len(c.remote) {
		c.mu.Unlock()
		return errors.New("no unanswered identify stream on " + c.name)
	}
	r := c.remote[len(c.remote)-1]
	c.answered = len(c.remote)
	c.mu.Unlock()
	switch at {
	case "neg0":
	case "neg1":
		r.Write(vfC13MsLine("/multistream/1.0.0"))
	case "neg2", "mid":
		r.Write(vfC13MsLine("/multistream/1.0.0"))
		r.Write(vfC13MsLine(ID))
		if at == "mid" {
			fr, err := s.stallFrames()
			if err != nil {
				return err
			}
			for _, f := range fr {
				r.Write(f)
			}
		}
	default:
		return fmt.Errorf("unknown stall point %q", at)
	}
	synctest.Wait()
	return nil
}

// one whole frame and the first half of a second one
func (s *vfC13Sys) stallFrames() ([][]byte, error) {
	mes, err := s.build(vfC13Msg{Pr: "few", La: "own", Rec: "validR", Ra: "own", Key: "R", Meta: "v1"}, 0)
	if err != nil {
		return nil, err
	}
	fr, _, err := vfC13Frames(mes, "split")
	if err != nil || len(fr) < 2 {
		return nil, fmt.Errorf("stall frames: %v (%d frames)", err, len(fr))
	}
	return [][]byte{fr[0], fr[1][:len(fr[1])/2]}, nil
}

// released checks (L1) that no wait channel of the named connections is still open.
func (s *vfC13Sys) released(names []any, when string) []vfC13MM {
	var mm []vfC13MM
	for _, n := range names {
		name := fmt.Sprint(n)
		if s.pending(name) {
			mm = append(mm, vfC13MM{"wait-never-released", fmt.Sprintf("an IdentifyWait channel of %s is still open %s (the connection is open, the remote silent)", name, when), "closed", "open"})
		}
	}
	return mm
}

// inbound builds a push stream on c whose bytes have all arrived already.
func (s *vfC13Sys) inbound(c *vfC13Conn, frames [][]byte, reset bool) *vfC13Stream {
	l, r := s.inboundOpen(c, frames)
	if reset {
		r.out.close(network.ErrReset)
	} else {
		r.Close()
	}
	return l
}

// inboundOpen: the sender has written frames and neither closed nor reset the stream.
func (s *vfC13Sys) inboundOpen(c *vfC13Conn, frames [][]byte) (*vfC13Stream, *vfC13End) {
	c.mu.Lock()
	c.nstreams++
	id := fmt.Sprintf("%s-in-%d", c.name, c.nstreams)
	c.mu.Unlock()
	l, r := vfC13Pipe(c, id)
	l.proto = IDPush
	for _, f := range frames {
		r.Write(f)
	}
	return l, r
}

var vfC13ChunkModes = []string{"one", "split", "dup", "nine"}

func (s *vfC13Sys) framesFor(m vfC13Msg) ([][]byte, error) {
	mes, err := s.build(m, s.rnd.Intn(3))
	if err != nil {
		return nil, err
	}
	mode := vfC13ChunkModes[s.rnd.Intn(len(vfC13ChunkModes))]
	fr, used, err := vfC13Frames(mes, mode)
	if err != nil {
		return nil, err
	}
	s.chunkModes[used]++
	return fr, nil
}

// apply executes one model action on the real service.  A returned error is a machinery problem.
func (s *vfC13Sys) apply(op vfh.Op) ([]vfC13MM, error) {
	var mm []vfC13MM
	s.step++
	s.ps.calls = s.ps.calls[:0]
	s.connReads = s.connReads[:0]
	name := op.S("c")
	c := s.conns[name]
	if op.Name() != "open" && op.Name() != "timeout" && c == nil {
		return nil, fmt.Errorf("op %v on a connection that was never opened", op)
	}
	var consumed *vfC13Msg
	wasOpen := s.openCount() > 0
	switch op.Name() {
	case "open":
		c = &vfC13Conn{sys: s, name: name, raddr: ma.StringCast(vfC13RemoteAddr[name][s.cfg.RClass[name]]), limited: name == s.cfg.Limited}
		s.conns[name] = c
		s.order = append(s.order, name)
	case "connected":
		s.notified[name] = true
		s.notifiees[0].Connected(s.net, c)
		synctest.Wait()
		// the channel IdentifyWait created inside Connected is the entry's
		s.ids.connsMu.RLock()
		if e, ok := s.ids.conns[c]; ok && e.IdentifyWaitChan != nil {
			s.chans[name] = append(s.chans[name], e.IdentifyWaitChan)
		}
		s.ids.connsMu.RUnlock()
	case "wait":
		ch := s.ids.IdentifyWait(c)
		synctest.Wait()
		s.chans[name] = append(s.chans[name], ch)
		if got := vfC13Closed(ch); got != op.B("closed") {
			mm = append(mm, vfC13MM{"L2:wait-result", "IdentifyWait(" + name + "): returned channel closed?", op.B("closed"), got})
		}
	case "close":
		c.mu.Lock()
		c.closed = true
		loc := append([]*vfC13Stream{}, c.local...)
		c.mu.Unlock()
		if op.B("kill") {
			for _, l := range loc {
				l.reset()
			}
		}
		synctest.Wait()
	case "disconnected":
		s.disc[name] = true
		s.notifiees[0].Disconnected(s.net, c)
		synctest.Wait()
	case "push", "done":
		m := vfC13MsgOf(op.M("m"))
		frames, err := s.framesFor(m)
		if err != nil {
			return nil, err
		}
		if op.Name() == "push" {
			s.ids.handlePush(s.inbound(c, frames, false))
			synctest.Wait()
		} else if err := s.feed(c, frames, false, false); err != nil {
			mm = append(mm, vfC13MM{"L2:no-identify-in-flight", err.Error(), nil, nil})
		}
		consumed = &m
	case "pushfail", "fail":
		good, _, err := vfC13Frames(&pb.Identify{Protocols: []string{"/vf/evil"}, ListenAddrs: [][]byte{ma.StringCast("/ip4/66.6.6.6/tcp/666").Bytes()},
			PublicKey: vfC13G.keyF, SignedPeerRecord: s.mustEnv("byF", "own")}, "split")
		if err != nil {
			return nil, err
		}
		why := op.S("why")
		if why == "na" {
			if err := s.feed(c, nil, false, true); err != nil {
				mm = append(mm, vfC13MM{"L2:no-identify-in-flight", err.Error(), nil, nil})
			}
			break
		}
		frames, reset, err := vfC13BadFrames(good, why)
		if err != nil {
			return nil, err
		}
		if op.Name() == "pushfail" {
			s.ids.handlePush(s.inbound(c, frames, reset))
			synctest.Wait()
		} else if err := s.feed(c, frames, reset, false); err != nil {
			mm = append(mm, vfC13MM{"L2:no-identify-in-flight", err.Error(), nil, nil})
		}
	case "timeout":
		for _, n := range op.L("cs") {
			if sc := s.conns[fmt.Sprint(n)]; sc != nil {
				if err := s.stall(sc, op.S("at")); err != nil {
					mm = append(mm, vfC13MM{"L2:no-identify-in-flight", err.Error(), nil, nil})
				}
			}
		}
		time.Sleep(s.ids.timeout + time.Second)
		synctest.Wait()
		mm = append(mm, s.released(op.L("cs"), fmt.Sprintf("%v after the remote stalled at %s", s.ids.timeout+time.Second, op.S("at")))...)
	case "pushstall":
		var frames [][]byte
		if op.S("at") == "mid" {
			fr, err := s.stallFrames()
			if err != nil {
				return nil, err
			}
			frames = fr
		}
		l, _ := s.inboundOpen(c, frames)
		done := make(chan struct{})
		go func() { s.ids.handlePush(l); close(done) }()
		select {
		case <-done:
		case <-time.After(s.ids.timeout + 30*time.Second):
			mm = append(mm, vfC13MM{"L2:push-handler-stuck", "handlePush on a silent stream did not return 30 s after the identify timeout", nil, nil})
			l.reset()
			<-done
		}
		time.Sleep(time.Second)
		synctest.Wait()
		mm = append(mm, s.released(op.L("cs"), fmt.Sprintf("%v after it was started (a silent push stream let that time pass)", s.ids.timeout+time.Second))...)
	default:
		return nil, fmt.Errorf("unknown op %q", op.Name())
	}

	// --- events (L1: they name the remote; a record they carry is valid and the remote's) ---
	var evs []string
	for _, e := range s.drain() {
		switch ev := e.(type) {
		case event.EvtPeerIdentificationCompleted:
			evs = append(evs, "completed")
			if ev.Peer != vfC13G.idR {
				mm = append(mm, vfC13MM{"event-names-other-peer", "EvtPeerIdentificationCompleted.Peer", vfC13G.idR.String(), ev.Peer.String()})
			}
			if ev.SignedPeerRecord != nil {
				if msg := vfC13RecordOK(ev.SignedPeerRecord); msg != "" {
					mm = append(mm, vfC13MM{"invalid-record-used", "EvtPeerIdentificationCompleted carries a signed record that " + msg, nil, nil})
				}
			}
			if consumed != nil && (ev.SignedPeerRecord != nil) != (vfC13RecEffect(consumed.Rec) == "record") {
				mm = append(mm, vfC13MM{"L2:record-use", "signed record reported as used", vfC13RecEffect(consumed.Rec), ev.SignedPeerRecord != nil})
			}
		case event.EvtPeerIdentificationFailed:
			evs = append(evs, "failed")
			if ev.Peer != vfC13G.idR {
				mm = append(mm, vfC13MM{"event-names-other-peer", "EvtPeerIdentificationFailed.Peer", vfC13G.idR.String(), ev.Peer.String()})
			}
		case event.EvtPeerProtocolsUpdated:
			evs = append(evs, "protocols")
			if ev.Peer != vfC13G.idR {
				mm = append(mm, vfC13MM{"event-names-other-peer", "EvtPeerProtocolsUpdated.Peer", vfC13G.idR.String(), ev.Peer.String()})
			}
		}
	}
	var want []string
	for _, e := range op.L("evs") {
		want = append(want, fmt.Sprint(e))
	}
	if fmt.Sprint(evs) != fmt.Sprint(want) {
		mm = append(mm, vfC13MM{"L2:events", "events emitted by " + op.Name(), want, evs})
	}
	// --- internal: both address sections read Connectedness with addrMu held, writes keyed by the remote ---
	for _, r := range s.connReads {
		if !r.held {
			mm = append(mm, vfC13MM{"L2:connectedness-read-outside-addrMu", op.Name() + " reads Connectedness without holding addrMu", nil, nil})
		}
		if r.peer != vfC13G.idR {
			mm = append(mm, vfC13MM{"L2:connectedness-of-other-peer", op.Name(), vfC13G.idR.String(), r.peer.String()})
		}
	}
	for _, cl := range s.ps.calls {
		if cl.Peer != vfC13G.idR {
			mm = append(mm, vfC13MM{"L2:write-keyed-by-other-peer", fmt.Sprintf("%s: peerstore.%s called for another peer", op.Name(), cl.Method), vfC13G.idR.String(), cl.Peer.String()})
		}
		if (cl.Method == "AddAddrs" || cl.Method == "UpdateAddrs") && !cl.Held {
			mm = append(mm, vfC13MM{"L2:address-write-outside-addrMu", fmt.Sprintf("%s: peerstore.%s without addrMu", op.Name(), cl.Method), nil, nil})
		}
	}
	if op.Has("con") && len(s.connReads) > 0 {
		// nothing to compare: the stub computed the answer from the harness's own connection set
		_ = op.B("con")
	}
	// --- ledger ---
	if consumed != nil {
		s.lastMsg = consumed
		if consumed.Rec == "validR" {
			s.validRecSeen = true
		}
		s.keepValid = false
		if wasOpen && s.openCount() > 0 {
			s.keepValid = true
			s.keepSet = map[string]bool{}
			for _, a := range s.ps.Peerstore.Addrs(vfC13G.idR) {
				s.keepSet[string(a.Bytes())] = true
			}
		}
	}
	if s.openCount() == 0 {
		s.keepValid = false
	}
	return mm, nil
}

func (s *vfC13Sys) mustEnv(rec, ra string) []byte {
	b, err := vfC13G.envelope(s.tok, rec, ra)
	if err != nil {
		panic(err)
	}
	return b
}

// vfC13RecordOK: "" if the envelope validates under the peer-record domain, was sealed by R and is a
// PeerRecord for R.
func vfC13RecordOK(e *record.Envelope) string { return vfC13RecordOKFor(e, vfC13G.idR) }

// vfC13RecordOKFor: "" if the envelope validates under the peer-record domain, was sealed by id and is
// a PeerRecord naming id.
func vfC13RecordOKFor(e *record.Envelope, id peer.ID) string {
	b, err := e.Marshal()
	if err != nil {
		return "does not marshal"
	}
	env, rec, err := record.ConsumeEnvelope(b, peer.PeerRecordEnvelopeDomain)
	if err != nil {
		return "does not validate: " + err.Error()
	}
	if !id.MatchesPublicKey(env.PublicKey) {
		return "was not signed by the connection's remote"
	}
	pr, ok := rec.(*peer.PeerRecord)
	if !ok {
		return "is not a peer record"
	}
	if pr.PeerID != id {
		return "names another peer"
	}
	return ""
}

// ---------------------------------------------------------------------------------------------
// projection of the whole peerstore and comparison

type vfC13PeerView struct {
	Addrs   map[string]int `json:"addrs"` // token -> count
	TTL     []string       `json:"ttl"`   // classes of the TTL arguments the present addresses were last written with
	Protos  map[string]int `json:"protos"`
	Key     string         `json:"key"`
	Meta    string         `json:"meta"`
	Record  bool           `json:"record"`
	NAddrs  int            `json:"naddrs"`
	NProtos int            `json:"nprotos"`
}

func vfC13TTLClass(d time.Duration) string {
	switch d {
	case peerstore.ConnectedAddrTTL:
		return "conn"
	case peerstore.RecentlyConnectedAddrTTL:
		return "recent"
	case peerstore.TempAddrTTL:
		return "temp"
	case 0:
		return "unknown"
	}
	return "other:" + d.String()
}

func (s *vfC13Sys) view(p peer.ID) vfC13PeerView {
	v := vfC13PeerView{Addrs: map[string]int{}, Protos: map[string]int{}}
	ttls := map[string]bool{}
	for _, a := range s.ps.Peerstore.Addrs(p) {
		v.NAddrs++
		tok, ok := s.tok.ofAddr[string(a.Bytes())]
		if !ok {
			tok = "?" + a.String()
		}
		v.Addrs[tok]++
		ttls[vfC13TTLClass(s.ps.ttl[p][string(a.Bytes())])] = true
	}
	for k := range ttls {
		v.TTL = append(v.TTL, k)
	}
	sort.Strings(v.TTL)
	var pr []protocol.ID
	if p != "" { // the memory protocol book indexes by the last byte of the ID
		pr, _ = s.ps.GetProtocols(p)
	}
	for _, x := range pr {
		v.NProtos++
		tok, ok := s.tok.ofProto[string(x)]
		if !ok {
			tok = "?" + string(x)
		}
		v.Protos[tok]++
	}
	switch k := s.ps.PubKey(p); {
	case k == nil:
		v.Key = "none"
	case k.Equals(vfC13G.privR.GetPublic()):
		v.Key = "R"
	case k.Equals(vfC13G.privF.GetPublic()):
		v.Key = "F"
	case k.Equals(vfC13G.privL.GetPublic()):
		v.Key = "L"
	default:
		v.Key = "other"
	}
	av, err1 := s.ps.Get(p, "AgentVersion")
	pv, err2 := s.ps.Get(p, "ProtocolVersion")
	switch {
	case err1 != nil && err2 != nil:
		v.Meta = "unset"
	case err1 != nil || err2 != nil:
		v.Meta = fmt.Sprintf("half:%v/%v", av, pv)
	default:
		a, _ := av.(string)
		b, _ := pv.(string)
		if a == "" && b == "" {
			v.Meta = ""
		} else if strings.HasPrefix(a, "agent-") && b == "pv-"+a[6:] {
			v.Meta = a[6:]
		} else {
			v.Meta = "mixed:" + a + "/" + b
		}
	}
	v.Record = s.ps.GetPeerRecord(p) != nil
	return v
}

func (v vfC13PeerView) empty() bool {
	return v.NAddrs == 0 && v.NProtos == 0 && v.Key == "none" && v.Meta == "unset" && !v.Record
}

type vfC13AddrSt struct {
	TTL  string
	Mode string
	Set  []string
	N    int
	Must []string
}

// model state, see St in spec/C13_MC.tla:
// {R, F: [ttl, mode, set, n, must, protocols, key, metadata], c: {conn: [cs, ntf, ent, idf]}}
type vfC13St struct {
	A   map[string]vfC13AddrSt
	P   map[string][]string
	K   map[string]string
	M   map[string]string
	Cs  map[string]string
	Ntf map[string]bool
	Ent map[string]bool
	Idf map[string]string
}

func (st *vfC13St) UnmarshalJSON(b []byte) error {
	var raw struct {
		R, F []json.RawMessage
		C    map[string][]json.RawMessage `json:"c"`
	}
	if err := json.Unmarshal(b, &raw); err != nil {
		return err
	}
	*st = vfC13St{A: map[string]vfC13AddrSt{}, P: map[string][]string{}, K: map[string]string{}, M: map[string]string{},
		Cs: map[string]string{}, Ntf: map[string]bool{}, Ent: map[string]bool{}, Idf: map[string]string{}}
	for pn, l := range map[string][]json.RawMessage{"R": raw.R, "F": raw.F} {
		if len(l) != 8 {
			return fmt.Errorf("peer state of %d fields", len(l))
		}
		var a vfC13AddrSt
		var pr []string
		var k, m string
		for i, dst := range []any{&a.TTL, &a.Mode, &a.Set, &a.N, &a.Must, &pr, &k, &m} {
			if err := json.Unmarshal(l[i], dst); err != nil {
				return err
			}
		}
		st.A[pn], st.P[pn], st.K[pn], st.M[pn] = a, pr, k, m
	}
	for c, l := range raw.C {
		if len(l) != 4 {
			return fmt.Errorf("connection state of %d fields", len(l))
		}
		var cs, idf string
		var ntf, ent bool
		for i, dst := range []any{&cs, &ntf, &ent, &idf} {
			if err := json.Unmarshal(l[i], dst); err != nil {
				return err
			}
		}
		st.Cs[c], st.Ntf[c], st.Ent[c], st.Idf[c] = cs, ntf, ent, idf
	}
	return nil
}

func (s *vfC13Sys) peerID(name string) peer.ID {
	if name == "R" {
		return vfC13G.idR
	}
	return vfC13G.idF
}

// check evaluates the L1 clauses on the whole peerstore and compares it with the model state.
func (s *vfC13Sys) check(op vfh.Op, st *vfC13St) []vfC13MM {
	var mm []vfC13MM
	g := vfC13G
	// every peer the peerstore knows of, plus the ones the model names, plus the zero ID
	universe := map[peer.ID]string{g.idR: "R", g.idF: "F", g.idL: "L", "": "zero"}
	for _, p := range s.ps.Peers() {
		if _, ok := universe[p]; !ok {
			universe[p] = "unlisted:" + p.String()
		}
	}
	for _, p := range s.ps.PeersWithAddrs() {
		if _, ok := universe[p]; !ok {
			universe[p] = "unlisted:" + p.String()
		}
	}
	views := map[string]vfC13PeerView{}
	for p, n := range universe {
		views[n] = s.view(p)
	}
	// L1 only-remote
	for n, v := range views {
		if n == "R" {
			continue
		}
		base, ok := s.baseline[n]
		if !ok {
			base = vfC13PeerView{Addrs: map[string]int{}, Protos: map[string]int{}, Key: "none", Meta: "unset"}
		}
		if vfh.Canon(base) != vfh.Canon(v) {
			mm = append(mm, vfC13MM{"recorded-under-other-peer", fmt.Sprintf("after %s on a connection to R the peerstore's data under %s changed", op.Name(), n), base, v})
		}
	}
	r := views["R"]
	// L1 key
	if k := s.ps.PubKey(g.idR); k != nil && !g.idR.MatchesPublicKey(k) {
		mm = append(mm, vfC13MM{"key-not-matching-stored", "the key stored for R does not hash to R", "none|R", r.Key})
	}
	// L1 suffix: nothing stored for R stems from an address whose /p2p suffix names another peer
	for t := range r.Addrs {
		if vfC13ForeignOnly[t] || (strings.HasSuffix(t, "+suffix") && t != "rs+suffix" && t != "d4s+suffix") {
			mm = append(mm, vfC13MM{"foreign-suffixed-address-recorded", fmt.Sprintf("after %s the peerstore holds for R an address (%s) that the message carried only with the /p2p suffix of another peer", op.Name(), t), nil, r.Addrs})
		}
	}
	// L1 caps (the code's own constants)
	if r.NAddrs > connectedPeerMaxAddrs {
		mm = append(mm, vfC13MM{"address-cap-exceeded", fmt.Sprintf("%d addresses retained for R", r.NAddrs), connectedPeerMaxAddrs, r.NAddrs})
	}
	if r.NProtos > maxPeerProtocols {
		mm = append(mm, vfC13MM{"protocol-cap-exceeded", fmt.Sprintf("%d protocols retained for R", r.NProtos), maxPeerProtocols, r.NProtos})
	}
	// L1 record: stored records are valid and R's; after a message whose record may not be used only
	// its listen addresses can be there
	if r.Record {
		if msg := vfC13RecordOK(s.ps.GetPeerRecord(g.idR)); msg != "" {
			mm = append(mm, vfC13MM{"invalid-record-used", "the peerstore holds a signed record for R that " + msg, nil, nil})
		}
	}
	for _, e := range s.recordStored {
		if msg := vfC13RecordOK(e); msg != "" {
			mm = append(mm, vfC13MM{"invalid-record-used", "a signed record was handed to the certified address book that " + msg, nil, nil})
		}
	}
	if (op.Name() == "push" || op.Name() == "done") && s.lastMsg != nil && s.lastMsg.Rec != "validR" {
		allowed := map[string]bool{}
		for _, t := range vfC13LAddrs[s.lastMsg.La] {
			allowed[t] = true
		}
		for t := range r.Addrs {
			if !allowed[t] && s.prevTokens[t] == 0 {
				for _, rt := range vfC13RAddrs[s.lastMsg.Ra] {
					if rt == t {
						mm = append(mm, vfC13MM{"invalid-record-used", fmt.Sprintf("address %s of a signed record of class %q was recorded", t, s.lastMsg.Rec), nil, r.Addrs})
					}
				}
			}
		}
	}
	s.prevTokens = r.Addrs
	if st == nil {
		return mm
	}
	// ---- L2: equality with the model ----
	for _, pn := range []string{"R", "F"} {
		v, ms := views[pn], st.A[pn]
		what := fmt.Sprintf("addresses of %s after %s", pn, op.Name())
		switch ms.Mode {
		case "exact":
			want := map[string]int{}
			for _, t := range ms.Set {
				want[t] = s.cfg.AW[t]
			}
			if vfh.Canon(want) != vfh.Canon(v.Addrs) {
				mm = append(mm, vfC13MM{"L2:addrs", what, want, v.Addrs})
			}
		case "some":
			bad := v.NAddrs != ms.N
			in := map[string]bool{}
			for _, t := range ms.Set {
				in[t] = true
			}
			for t, n := range v.Addrs {
				if !in[t] || n > s.cfg.AW[t] {
					bad = true
				}
			}
			for _, t := range ms.Must {
				if v.Addrs[t] == 0 {
					bad = true
				}
			}
			if bad {
				mm = append(mm, vfC13MM{"L2:addrs", what + " (count and universe)", ms, v.Addrs})
			}
		}
		wantTTL := []string{ms.TTL}
		if ms.TTL == "none" {
			wantTTL = nil
		}
		if fmt.Sprint(wantTTL) != fmt.Sprint(v.TTL) {
			mm = append(mm, vfC13MM{"L2:ttl-class", "lifetime class of the " + what, wantTTL, v.TTL})
		}
		wantP := map[string]int{}
		for _, t := range st.P[pn] {
			wantP[t] = s.cfg.PW[t]
		}
		if vfh.Canon(wantP) != vfh.Canon(v.Protos) {
			mm = append(mm, vfC13MM{"L2:protocols", fmt.Sprintf("protocols of %s after %s", pn, op.Name()), wantP, v.Protos})
		}
		if st.K[pn] != v.Key {
			mm = append(mm, vfC13MM{"L2:key", fmt.Sprintf("key of %s after %s", pn, op.Name()), st.K[pn], v.Key})
		}
		if st.M[pn] != v.Meta {
			mm = append(mm, vfC13MM{"L2:metadata", fmt.Sprintf("agent/protocol version of %s after %s", pn, op.Name()), st.M[pn], v.Meta})
		}
		if v.Record {
			mm = append(mm, vfC13MM{"L2:record-stored", "identify is modelled as never storing the signed record", false, true})
		}
	}
	for _, name := range s.cfg.Conns {
		c := s.conns[name]
		if c == nil {
			continue
		}
		s.ids.connsMu.RLock()
		_, ent := s.ids.conns[c]
		s.ids.connsMu.RUnlock()
		if ent != st.Ent[name] {
			mm = append(mm, vfC13MM{"L2:entry", "idService.conns entry of " + name + " after " + op.Name(), st.Ent[name], ent})
		}
		if got := s.pending(name); got != (st.Idf[name] == "run") {
			mm = append(mm, vfC13MM{"L2:wait-open", "an identify-wait channel of " + name + " is still open after " + op.Name(), st.Idf[name] == "run", got})
		}
	}
	return mm
}

// finish drives the system to rest and probes lifetimes by letting virtual time pass.
// settle: first close every connection and deliver every pending notification.
func (s *vfC13Sys) finish(settle bool) []vfC13MM {
	var mm []vfC13MM
	g := vfC13G
	if settle {
		for _, name := range s.order {
			c := s.conns[name]
			if !c.IsClosed() {
				c.mu.Lock()
				c.closed = true
				loc := append([]*vfC13Stream{}, c.local...)
				c.mu.Unlock()
				for _, l := range loc {
					l.reset()
				}
				synctest.Wait()
			}
		}
		for _, name := range s.order {
			c := s.conns[name]
			// what a swarm always does: Connected first, Disconnected last, each once
			if !s.notified[name] {
				s.notified[name] = true
				s.notifiees[0].Connected(s.net, c)
				synctest.Wait()
				s.ids.connsMu.RLock()
				if e, ok := s.ids.conns[c]; ok && e.IdentifyWaitChan != nil {
					s.chans[name] = append(s.chans[name], e.IdentifyWaitChan)
				}
				s.ids.connsMu.RUnlock()
			}
			if !s.disc[name] {
				s.disc[name] = true
				s.notifiees[0].Disconnected(s.net, c)
				synctest.Wait()
			}
		}
		s.keepValid = false
	}
	// every identify in flight hits its deadline
	time.Sleep(s.ids.timeout + time.Second)
	synctest.Wait()
	for _, name := range s.order {
		if s.pending(name) {
			mm = append(mm, vfC13MM{"wait-never-released", "an IdentifyWait channel of " + name + " is still open after the identify timeout has passed", "closed", "open"})
		}
	}
	before := s.ps.Peerstore.Addrs(g.idR)
	time.Sleep(peerstore.TempAddrTTL + time.Second)
	synctest.Wait()
	if n := len(s.ps.Peerstore.Addrs(g.idR)); n != len(before) {
		mm = append(mm, vfC13MM{"L2:temporary-residue", "addresses of R with the temporary lifetime were left behind", len(before), n})
	}
	time.Sleep(peerstore.RecentlyConnectedAddrTTL + time.Minute)
	synctest.Wait()
	after := s.ps.Peerstore.Addrs(g.idR)
	if s.openCount() == 0 && settle && len(before) > 0 {
		s.chunkModes["probe_addresses_must_vanish"]++
	}
	if s.keepValid && s.openCount() > 0 && len(s.keepSet) > 0 {
		s.chunkModes["probe_addresses_must_survive"]++
	}
	if s.openCount() == 0 && settle && len(after) > 0 {
		mm = append(mm, vfC13MM{"connected-lifetime-without-connection", fmt.Sprintf("%d addresses of R outlive the recently-connected lifetime although every connection to R is closed and notified", len(after)), 0, len(after)})
	}
	if s.keepValid && s.openCount() > 0 {
		have := map[string]bool{}
		for _, a := range after {
			have[string(a.Bytes())] = true
		}
		lost := 0
		for k := range s.keepSet {
			if !have[k] {
				lost++
			}
		}
		if lost > 0 {
			mm = append(mm, vfC13MM{"connected-addresses-expire-while-connected", fmt.Sprintf("%d of %d addresses identified while connected expired although a connection to R has existed ever since", lost, len(s.keepSet)), len(s.keepSet), len(s.keepSet) - lost})
		}
	}
	// L2: survival = the model's lifetime class
	return append(mm, vfC13MM{Class: "", Got: len(after), Exp: len(before)})
}

// ---------------------------------------------------------------------------------------------

func vfC13CfgOf(hdr map[string]any) (vfC13Cfg, error) {
	b, _ := json.Marshal(hdr["conf"])
	var raw struct {
		Conns       []string          `json:"conns"`
		RClass      map[string]string `json:"rclass"`
		MaxProtos   int               `json:"maxProtos"`
		MaxAddrs    int               `json:"maxAddrs"`
		RecentMax   int               `json:"recentMax"`
		PsMaxProtos int               `json:"psMaxProtos"`
		PsMaxAddrs  int               `json:"psMaxAddrs"`
		AW          map[string]int    `json:"aw"`
		PW          map[string]int    `json:"pw"`
	}
	if err := json.Unmarshal(b, &raw); err != nil {
		return vfC13Cfg{}, err
	}
	name, _ := hdr["name"].(string)
	sort.Strings(raw.Conns)
	return vfC13Cfg{Name: name, Conns: raw.Conns, RClass: raw.RClass, MaxProtos: raw.MaxProtos, MaxAddrs: raw.MaxAddrs,
		RecentMax: raw.RecentMax, PsMaxProtos: raw.PsMaxProtos, PsMaxAddrs: raw.PsMaxAddrs, AW: raw.AW, PW: raw.PW}, nil
}

// vfC13Progress counts executed steps; the watchdog (real time, outside every bubble) turns a harness
// that makes no step for minutes - a call into the service that never returns and is not waiting on
// anything virtual time could end - into a recorded mismatch instead of a dead test binary.
var vfC13Progress atomic.Int64

func vfC13Watchdog(res *vfh.Result, what string) (stop func()) {
	quit := make(chan struct{})
	limit := time.Duration(vfh.EnvInt("VERIF_C13_STUCK_S", 240)) * time.Second
	go func() {
		last, since := vfC13Progress.Load(), time.Now()
		tk := time.NewTicker(5 * time.Second)
		defer tk.Stop()
		for {
			select {
			case <-quit:
				return
			case <-tk.C:
			}
			if n := vfC13Progress.Load(); n != last {
				last, since = n, time.Now()
			} else if time.Since(since) > limit {
				res.AddMismatch(vfh.Mismatch{Class: "service-call-never-returns", Walk: -1, Step: int(last),
					What: fmt.Sprintf("%s: no step finished for %v of real time: a call into the identify service does not return and waits on nothing a deadline could end", what, limit)})
				res.Write()
				os.Exit(1)
			}
		}
	}()
	return func() { close(quit) }
}

func TestVerifC13Replay(t *testing.T) {
	res := vfh.NewResult()
	defer func() {
		if err := res.Write(); err != nil {
			t.Fatal(err)
		}
	}()
	defer vfC13Watchdog(res, "replay")()
	if err := vfC13Init(); err != nil {
		t.Fatal(err)
	}
	files, _ := filepath.Glob(filepath.Join(vfh.In(), "*.jsonl"))
	if len(files) == 0 {
		t.Fatalf("no behaviour files in %q", vfh.In())
	}
	res.Rule = "one case = one (instance, source state, action with its arguments) transition of the TLC graph executed on the real idService (message classes rendered as real protobuf frames over in-memory streams); after each the whole peerstore is projected and compared; every walk ends with a lifetime probe in virtual time"
	shards := vfh.EnvInt("VERIF_C13_SHARDS", 6)
	var mu sync.Mutex
	modes := map[string]int{}
	t.Run("g", func(t *testing.T) {
		for _, f := range files {
			hdr, walks, err := vfh.LoadWalks(f)
			if err != nil {
				t.Fatalf("%s: %v", f, err)
			}
			cfg, err := vfC13CfgOf(hdr)
			if err != nil {
				t.Fatal(err)
			}
			if cfg.MaxProtos != maxPeerProtocols || cfg.MaxAddrs != connectedPeerMaxAddrs || cfg.RecentMax != recentlyConnectedPeerMaxAddrs {
				res.AddMismatch(vfh.Mismatch{Class: "L2:constants", What: "the caps of id.go differ from the model's constants",
					Expected: []int{cfg.MaxProtos, cfg.MaxAddrs, cfg.RecentMax}, Got: []int{maxPeerProtocols, connectedPeerMaxAddrs, recentlyConnectedPeerMaxAddrs}})
			}
			for sh := 0; sh < shards; sh++ {
				t.Run(fmt.Sprintf("%s-%d", cfg.Name, sh), func(t *testing.T) {
					t.Parallel()
					for wi, w := range walks {
						if wi%shards != sh {
							continue
						}
						wcfg := cfg
						variant := int(vfh.Seed()) + w.Walk
						wcfg.Lax = variant%3 == 0
						if len(cfg.Conns) > 1 && variant%4 == 1 {
							wcfg.Limited = cfg.Conns[len(cfg.Conns)-1]
						}
						synctest.Test(t, func(t *testing.T) {
							vfC13Walk(t, res, wcfg, w, filepath.Base(f), variant%2 == 0, &mu, modes)
						})
					}
				})
			}
		}
	})
	res.Set("chunk_modes", modes)
}

func vfC13Walk(t *testing.T, res *vfh.Result, cfg vfC13Cfg, w vfh.Walk, file string, settle bool, mu *sync.Mutex, modes map[string]int) {
	sys, err := vfC13New(cfg, vfh.Seed()*1000003+int64(w.Walk))
	if err != nil {
		t.Fatal(err)
	}
	defer sys.close()
	synctest.Wait()
	var prefix []vfh.Op
	prevKey := string(w.Init)
	degraded := false // after an L2 disagreement the model state no longer describes the peerstore: L1 only
	report := func(i int, m vfC13MM) {
		res.AddMismatch(vfh.Mismatch{Class: m.Class, What: m.What, Walk: w.Walk, Step: i, Expected: m.Exp, Got: m.Got,
			Prefix: append([]vfh.Op{}, prefix...), Cfg: map[string]any{"instance": cfg.Name, "file": file, "lax_keybook": cfg.Lax, "limited": cfg.Limited, "settle": settle}})
		if m.Class == "wait-never-released" {
			res.Write() // whatever happens to this process later, the verdict is on disk
		}
	}
	var last *vfC13St
	for i, stp := range w.Steps {
		prefix = append(prefix, stp.Op)
		vfC13Progress.Add(1)
		mm, err := sys.apply(stp.Op)
		if err != nil {
			t.Fatalf("walk %d step %d: %v", w.Walk, i, err)
		}
		var st vfC13St
		if err := json.Unmarshal(stp.State, &st); err != nil {
			t.Fatal(err)
		}
		last = &st
		if degraded {
			mm = append(mm, sys.check(stp.Op, nil)...)
		} else {
			res.Case(cfg.Name + "|" + prevKey + "|" + vfh.Canon(stp.Op))
			mm = append(mm, sys.check(stp.Op, &st)...)
		}
		prevKey = string(stp.State)
		res.Count(0, 1)
		for _, m := range mm {
			if degraded && strings.HasPrefix(m.Class, "L2:") {
				continue
			}
			report(i, m)
			if strings.HasPrefix(m.Class, "L2:") {
				degraded = true
			}
		}
	}
	// end of the walk: lifetimes
	fm := sys.finish(settle)
	probe := fm[len(fm)-1]
	for _, m := range fm[:len(fm)-1] {
		report(len(w.Steps), m)
	}
	if !degraded && last != nil && !settle {
		// the model's lifetime class of the end state decides which addresses survive
		before, after := probe.Exp.(int), probe.Got.(int)
		want := 0
		if last.A["R"].TTL == "conn" {
			want = before
		}
		if after != want {
			report(len(w.Steps), vfC13MM{"L2:lifetime-probe", fmt.Sprintf("addresses of R surviving the recently-connected lifetime (model class %q)", last.A["R"].TTL), want, after})
		}
	}
	res.Count(1, 0)
	mu.Lock()
	for k, v := range sys.chunkModes {
		modes[k] += v
	}
	if settle {
		modes["probe_settled"]++
	} else {
		modes["probe_as_is"]++
	}
	if cfg.Lax {
		modes["lax_keybook_walks"]++
	}
	if cfg.Limited != "" {
		modes["limited_conn_walks"]++
	}
	mu.Unlock()
	if w.Walk == 0 && len(w.Steps) > 0 {
		k := len(w.Steps)
		if k > 6 {
			k = 6
		}
		res.Sample(map[string]any{"instance": cfg.Name, "first_steps": w.Steps[:k]})
	}
}
