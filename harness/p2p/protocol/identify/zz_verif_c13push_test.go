//go:build verif

package identify

// Conformance harness for the identify PUSH / snapshot side (extension engine of C13, spec/C13_Push.tla).
//
// A REAL idService runs inside a testing/synctest bubble on a stub host whose Mux().Protocols(), Addrs() and
// signed peer record (real pstoremem certified address book) are scripted, a real event bus the harness emits
// EvtLocalProtocolsUpdated / EvtLocalAddressesUpdated on, and stub connections (one remote peer each) whose
// streams are in-memory pipes.  The far end of every stream is played by the harness: real multistream
// negotiation, real length-delimited pb.Identify frames, decoded and compared with the host's scripted state.
// Gates (callbacks the code has to go through) make the steps of the model individually schedulable:
//   loop goroutine   -> Mux().Protocols()          released by "update"
//   push goroutine   -> stream.SetProtocol(IDPush) released by "open"  (ok | fail)
//   push goroutine   -> stream.Scope().SetService  released by "write" (ok | fail: the stream refuses writes)
// TestVerifC13pReplay executes covering walks of the printed TLC graph (sequential skeleton: internal steps of
// the model are what the real goroutines do on their own until synctest.Wait reports quiescence).
// TestVerifC13pFree runs seeded concurrent scenarios without gates (virtual-time delays instead) and records
// observable-level traces for spec/C13_PushObs.tla; it also runs the concurrency-limit scenario.

import (
	"bytes"
	"context"
	"crypto/rand"
	"encoding/json"
	"errors"
	"fmt"
	"io"
	mrand "math/rand"
	"os"
	"path/filepath"
	"sort"
	"strings"
	"sync"
	"testing"
	"testing/synctest"
	"time"

	"github.com/libp2p/go-libp2p/core/crypto"
	"github.com/libp2p/go-libp2p/core/event"
	"github.com/libp2p/go-libp2p/core/host"
	"github.com/libp2p/go-libp2p/core/network"
	"github.com/libp2p/go-libp2p/core/peer"
	"github.com/libp2p/go-libp2p/core/peerstore"
	"github.com/libp2p/go-libp2p/core/protocol"
	"github.com/libp2p/go-libp2p/core/record"
	"github.com/libp2p/go-libp2p/internal/vfh"
	"github.com/libp2p/go-libp2p/p2p/host/eventbus"
	"github.com/libp2p/go-libp2p/p2p/host/peerstore/pstoremem"
	"github.com/libp2p/go-libp2p/p2p/protocol/identify/pb"
	"github.com/libp2p/go-msgio/pbio"
	ma "github.com/multiformats/go-multiaddr"
	msmux "github.com/multiformats/go-multistream"
)

// ---------------------------------------------------------------------------------------------
// identities (built once, outside any bubble)

type vfC13pKeys struct {
	privL crypto.PrivKey
	idL   peer.ID
	rem   []peer.ID // remote peer of the i-th connection
}

var vfC13pG *vfC13pKeys
var vfC13pOnce sync.Once

func vfC13pInit(n int) *vfC13pKeys {
	vfC13pOnce.Do(func() {
		g := &vfC13pKeys{}
		sk, pk, err := crypto.GenerateEd25519Key(rand.Reader)
		if err != nil {
			panic(err)
		}
		g.privL = sk
		g.idL, _ = peer.IDFromPublicKey(pk)
		for i := 0; i < 64; i++ {
			_, pk, err := crypto.GenerateEd25519Key(rand.Reader)
			if err != nil {
				panic(err)
			}
			id, _ := peer.IDFromPublicKey(pk)
			g.rem = append(g.rem, id)
		}
		vfC13pG = g
	})
	if n > len(vfC13pG.rem) {
		panic("too many connections")
	}
	return vfC13pG
}

// ---------------------------------------------------------------------------------------------
// in-memory byte pipe (buffered; no deadlines: the harness never lets virtual time pass while a read waits)

type vfC13pHalf struct {
	mu     sync.Mutex
	cond   *sync.Cond
	buf    bytes.Buffer
	closed bool
	err    error
}

func vfC13pNewHalf() *vfC13pHalf {
	h := &vfC13pHalf{}
	h.cond = sync.NewCond(&h.mu)
	return h
}

func (h *vfC13pHalf) write(p []byte) (int, error) {
	h.mu.Lock()
	defer h.mu.Unlock()
	if h.closed {
		if h.err == nil || h.err == io.EOF {
			return 0, io.ErrClosedPipe
		}
		return 0, h.err
	}
	h.buf.Write(p)
	h.cond.Broadcast()
	return len(p), nil
}

func (h *vfC13pHalf) close(err error) {
	h.mu.Lock()
	if !h.closed {
		h.closed, h.err = true, err
	}
	h.cond.Broadcast()
	h.mu.Unlock()
}

func (h *vfC13pHalf) read(p []byte) (int, error) {
	h.mu.Lock()
	defer h.mu.Unlock()
	for h.buf.Len() == 0 && !h.closed {
		h.cond.Wait()
	}
	if h.buf.Len() > 0 {
		return h.buf.Read(p)
	}
	if h.err == nil {
		return 0, io.EOF
	}
	return 0, h.err
}

// one end of a stream: reads from in, writes to out
type vfC13pEnd struct{ in, out *vfC13pHalf }

func (e *vfC13pEnd) Read(p []byte) (int, error)  { return e.in.read(p) }
func (e *vfC13pEnd) Write(p []byte) (int, error) { return e.out.write(p) }
func (e *vfC13pEnd) Close() error                { e.out.close(io.EOF); return nil }
func (e *vfC13pEnd) reset() {
	e.out.close(network.ErrReset)
	e.in.close(network.ErrReset)
}

// ---------------------------------------------------------------------------------------------
// gates, streams, connections

// a gate is a place the code has to pass; the harness sees the arrival and decides how it goes on
type vfC13pGate struct {
	mu      sync.Mutex
	arrived bool
	ch      chan string
}

func vfC13pNewGate() *vfC13pGate { return &vfC13pGate{ch: make(chan string, 1)} }
func (g *vfC13pGate) wait() string {
	g.mu.Lock()
	g.arrived = true
	g.mu.Unlock()
	return <-g.ch
}
func (g *vfC13pGate) here() bool {
	if g == nil {
		return false
	}
	g.mu.Lock()
	defer g.mu.Unlock()
	return g.arrived
}

type vfC13pStream struct {
	network.Stream // nil: anything identify does not use panics (machinery)
	*vfC13pEnd
	far       *vfC13pEnd
	c         *vfC13pConn
	id        string
	proto     protocol.ID
	inbound   bool
	attempt   int            // push attempt number on this connection (1-based), 0 if not a push stream
	openTick  int
	readTick  int
	ended     bool
	landed    bool // the sender has let go of the stream (Close / Reset): its semaphore slot is about to be free
	openGate  *vfC13pGate    // push streams in gated mode
	writeGate *vfC13pGate
	passed    int            // 0 at/before the open gate, 1 between the gates, 2 past the write gate / finished
	answer    chan *pb.Identify // outbound identify streams: what the remote answers (nil = reset)
}

func (s *vfC13pStream) Read(p []byte) (int, error)                   { return s.vfC13pEnd.Read(p) }
func (s *vfC13pStream) Write(p []byte) (int, error)                  { return s.vfC13pEnd.Write(p) }
func (s *vfC13pStream) Close() error                                 { s.c.sys.flightEnd(s); return s.vfC13pEnd.Close() }
func (s *vfC13pStream) CloseWrite() error                            { return s.vfC13pEnd.Close() }
func (s *vfC13pStream) CloseRead() error                             { return nil }
func (s *vfC13pStream) Reset() error                                 { s.c.sys.flightEnd(s); s.reset(); return nil }
func (s *vfC13pStream) ResetWithError(network.StreamErrorCode) error { return s.Reset() }
func (s *vfC13pStream) SetDeadline(time.Time) error                  { return nil }
func (s *vfC13pStream) SetReadDeadline(time.Time) error              { return nil }
func (s *vfC13pStream) SetWriteDeadline(time.Time) error             { return nil }
func (s *vfC13pStream) ID() string                                   { return s.id }
func (s *vfC13pStream) Protocol() protocol.ID                        { return s.proto }
func (s *vfC13pStream) Stat() network.Stats                          { return network.Stats{Direction: network.DirOutbound} }
func (s *vfC13pStream) Conn() network.Conn                           { return s.c }
func (s *vfC13pStream) Scope() network.StreamScope                   { return &vfC13pScope{st: s} }

// SetProtocol is the first thing newStreamAndNegotiate does with a new stream: here the harness learns
// what the stream is for, and (push) decides whether opening succeeds.
func (s *vfC13pStream) SetProtocol(p protocol.ID) error {
	s.proto = p
	if s.inbound {
		return nil
	}
	switch p {
	case ID:
		s.c.mu.Lock()
		s.c.idStream = s
		s.c.mu.Unlock()
		go s.farIdentify()
		return nil
	case IDPush:
		how := s.c.sys.pushOpen(s) // "ok" | "setproto" | "refuse"
		if how == "setproto" {
			return errors.New("vf: stream refuses the protocol")
		}
		go s.farPush(how == "refuse")
		return nil
	}
	return fmt.Errorf("vf: identify opened a stream for %q", p)
}

type vfC13pScope struct {
	network.NullScope
	st *vfC13pStream
}

// SetService is the first thing sendIdentifyResp does, BEFORE it reads the current snapshot.
func (sc *vfC13pScope) SetService(string) error {
	s := sc.st
	if s.inbound || s.proto != IDPush {
		return nil
	}
	switch s.c.sys.pushWrite(s) { // "ok" | "reset" | "scope"
	case "reset":
		s.reset() // every write fails from now on
	case "scope":
		return errors.New("vf: resource manager refuses the service")
	}
	return nil
}

// far end of an outbound identify request: negotiate, then answer what the harness says
func (s *vfC13pStream) farIdentify() {
	mux := msmux.NewMultistreamMuxer[protocol.ID]()
	mux.AddHandler(ID, nil)
	if _, _, err := mux.Negotiate(s.far); err != nil {
		s.far.reset()
		return
	}
	mes := <-s.answer
	if mes == nil {
		s.far.reset()
		return
	}
	if err := pbio.NewDelimitedWriter(s.far).WriteMsg(mes); err != nil {
		s.far.reset()
		return
	}
	s.far.Close()
}

// far end of a push stream: negotiate (or refuse), read frames until EOF, hand the message to the ledger
func (s *vfC13pStream) farPush(refuse bool) {
	mux := msmux.NewMultistreamMuxer[protocol.ID]()
	mux.AddHandler(ID, nil)
	if !refuse {
		mux.AddHandler(IDPush, nil)
	}
	if _, _, err := mux.Negotiate(s.far); err != nil {
		s.far.reset()
		s.c.sys.pushEnded(s, true)
		return
	}
	mes, err := vfC13pReadAll(s.far)
	if err != nil {
		s.c.sys.broken(s, err)
		return
	}
	s.c.sys.delivered(s, mes, "push")
}

func vfC13pReadAll(r io.Reader) (*pb.Identify, error) {
	rd := pbio.NewDelimitedReader(r, signedIDSize)
	out := &pb.Identify{}
	for i := 0; i < maxMessages+1; i++ {
		m := &pb.Identify{}
		switch err := rd.ReadMsg(m); err {
		case nil:
			out.Protocols = append(out.Protocols, m.Protocols...)
			out.ListenAddrs = append(out.ListenAddrs, m.ListenAddrs...)
			if len(m.SignedPeerRecord) > 0 {
				out.SignedPeerRecord = m.SignedPeerRecord
			}
			if m.PublicKey != nil {
				out.PublicKey = m.PublicKey
			}
			if m.ObservedAddr != nil {
				out.ObservedAddr = m.ObservedAddr
			}
		case io.EOF:
			return out, nil
		default:
			return nil, err
		}
	}
	return nil, errors.New("too many frames")
}

type vfC13pConn struct {
	network.Conn // nil
	sys      *vfC13pSys
	name     string
	idx      int
	mu       sync.Mutex
	closed   bool
	nstreams int
	attempts int
	streams  []*vfC13pStream
	idStream *vfC13pStream // the outbound identify request
	push     *vfC13pStream // the push attempt in flight (gated mode)
}

func (c *vfC13pConn) LocalPeer() peer.ID             { return vfC13pG.idL }
func (c *vfC13pConn) RemotePeer() peer.ID            { return vfC13pG.rem[c.idx] }
func (c *vfC13pConn) RemotePublicKey() crypto.PubKey { return nil }
func (c *vfC13pConn) ConnState() network.ConnectionState {
	return network.ConnectionState{StreamMultiplexer: "/yamux/1.0.0", Security: "/noise", Transport: "tcp"}
}
func (c *vfC13pConn) LocalMultiaddr() ma.Multiaddr { return ma.StringCast("/ip4/100.64.0.1/tcp/4001") }
func (c *vfC13pConn) RemoteMultiaddr() ma.Multiaddr {
	return ma.StringCast(fmt.Sprintf("/ip4/100.64.1.%d/tcp/4001", c.idx+1))
}
func (c *vfC13pConn) Stat() network.ConnStats      { return network.ConnStats{Stats: network.Stats{Direction: network.DirOutbound}} }
func (c *vfC13pConn) Scope() network.ConnScope     { return &network.NullScope{} }
func (c *vfC13pConn) ID() string                   { return "vfp-" + c.name }
func (c *vfC13pConn) String() string               { return "vfpconn-" + c.name }
func (c *vfC13pConn) GetStreams() []network.Stream { return nil }
func (c *vfC13pConn) Close() error                 { return errors.New("vf: identify must not close connections") }
func (c *vfC13pConn) IsClosed() bool {
	c.mu.Lock()
	defer c.mu.Unlock()
	return c.closed
}
func (c *vfC13pConn) NewStream(ctx context.Context) (network.Stream, error) {
	c.sys.noteNewStream(c)
	c.mu.Lock()
	defer c.mu.Unlock()
	if c.closed {
		return nil, network.ErrReset
	}
	if err := ctx.Err(); err != nil {
		return nil, err
	}
	c.nstreams++
	s := c.pipe(fmt.Sprintf("%s-out-%d", c.name, c.nstreams), false)
	return s, nil
}

// pipe must be called with c.mu held
func (c *vfC13pConn) pipe(id string, inbound bool) *vfC13pStream {
	a, b := vfC13pNewHalf(), vfC13pNewHalf()
	s := &vfC13pStream{vfC13pEnd: &vfC13pEnd{in: a, out: b}, far: &vfC13pEnd{in: b, out: a}, c: c, id: id, inbound: inbound,
		answer: make(chan *pb.Identify, 1)}
	c.streams = append(c.streams, s)
	return s
}

func (c *vfC13pConn) resetAll() {
	c.mu.Lock()
	ss := append([]*vfC13pStream{}, c.streams...)
	c.mu.Unlock()
	for _, s := range ss {
		s.reset()
		select {
		case s.answer <- nil:
		default:
		}
	}
}

type vfC13pNet struct {
	network.Network // nil
	sys             *vfC13pSys
}

func (n *vfC13pNet) LocalPeer() peer.ID             { return vfC13pG.idL }
func (n *vfC13pNet) Peerstore() peerstore.Peerstore { return n.sys.ps }
func (n *vfC13pNet) Notify(f network.Notifiee)      { n.sys.notifiees = append(n.sys.notifiees, f) }
func (n *vfC13pNet) StopNotify(network.Notifiee)    {}
func (n *vfC13pNet) Connectedness(p peer.ID) network.Connectedness {
	for _, c := range n.sys.connList() {
		if c.RemotePeer() == p && !c.IsClosed() {
			return network.Connected
		}
	}
	return network.NotConnected
}

// the host's protocol switch: only Protocols() is used by identify; called from the loop goroutine it is the
// "update" gate (everything updateSnapshot reads is read after it)
type vfC13pMux struct {
	protocol.Switch // nil
	sys             *vfC13pSys
}

func (m *vfC13pMux) Protocols() []protocol.ID {
	m.sys.updateGate()
	m.sys.mu.Lock()
	defer m.sys.mu.Unlock()
	return append([]protocol.ID{}, m.sys.hostProtos...)
}

type vfC13pHost struct {
	host.Host // nil
	sys       *vfC13pSys
	mux       *vfC13pMux
	bus       event.Bus
	handlers  map[protocol.ID]network.StreamHandler
}

func (h *vfC13pHost) ID() peer.ID                    { return vfC13pG.idL }
func (h *vfC13pHost) Peerstore() peerstore.Peerstore { return h.sys.ps }
func (h *vfC13pHost) Network() network.Network       { return h.sys.net }
func (h *vfC13pHost) Mux() protocol.Switch           { return h.mux }
func (h *vfC13pHost) EventBus() event.Bus            { return h.bus }
func (h *vfC13pHost) Addrs() []ma.Multiaddr {
	h.sys.mu.Lock()
	defer h.sys.mu.Unlock()
	return append([]ma.Multiaddr{}, h.sys.hostAddrs...)
}
func (h *vfC13pHost) SetStreamHandler(p protocol.ID, f network.StreamHandler) { h.handlers[p] = f }
func (h *vfC13pHost) RemoveStreamHandler(p protocol.ID)                       { delete(h.handlers, p) }

// ---------------------------------------------------------------------------------------------
// the system under test and the ledger of observations

type vfC13pMM struct {
	Class, What string
	Exp, Got    any
}

type vfC13pDelivery struct {
	Tick    int    `json:"tick"`
	Kind    string `json:"kind"` // push | resp
	Key     string `json:"key"`  // canonical content of the message
	Ver     int    `json:"ver"`  // index of the first host version with that content, -1 unknown
	Attempt int    `json:"attempt"`
}

type vfC13pConnLedger struct {
	connected, identified, discTick int // ticks (0 = not yet)
	sup, asked                      bool
	opens                           []int // tick of every push stream opened on the connection
	fails                           []int // tick at which every failed push attempt had been opened
	deliv                           []vfC13pDelivery
}

type vfC13pHostVer struct {
	Tick int
	Key  string
}

type vfC13pSys struct {
	mu        sync.Mutex
	gated     bool
	started   bool
	rnd       *mrand.Rand
	ps        peerstore.Peerstore
	cab       peerstore.CertifiedAddrBook
	cond      *sync.Cond
	reading   bool // updateSnapshot is between its first and its last read of the host
	net       *vfC13pNet
	host      *vfC13pHost
	ids       *idService
	notifiees []network.Notifiee
	emP, emA  event.Emitter
	conns     map[string]*vfC13pConn
	order     []string
	// scripted host state
	hostProtos []protocol.ID
	hostAddrs  []ma.Multiaddr
	recSeq     uint64
	nfresh     int
	saved      map[int]vfC13pSaved // model content id -> host state (for "revert")
	undo       []vfC13pSaved       // free runs: states to flip back to
	// ledger
	tick      int
	hist      []vfC13pHostVer // host content over time
	updTicks  []int           // ticks at which updateSnapshot read the host
	led       map[string]*vfC13pConnLedger
	mm        []vfC13pMM
	inflight  int
	maxFlight int
	upd       *vfC13pGate // loop goroutine waiting in Mux().Protocols()
	free      *vfC13pFreeScript
	trace     *vfh.Trace
	closedSvc bool
	closeDone chan struct{}
}

type vfC13pSaved struct {
	protos []protocol.ID
	addrs  []ma.Multiaddr
	rec    uint64
}

func vfC13pNew(gated bool, seed int64, withRecord bool, opts ...string) (*vfC13pSys, error) {
	vfC13pInit(1)
	s := &vfC13pSys{gated: gated, rnd: mrand.New(mrand.NewSource(seed)), conns: map[string]*vfC13pConn{},
		led: map[string]*vfC13pConnLedger{}, saved: map[int]vfC13pSaved{}}
	ps, err := pstoremem.NewPeerstore()
	if err != nil {
		return nil, err
	}
	s.cond = sync.NewCond(&s.mu)
	s.cab = ps
	s.ps = &vfC13pPS{Peerstore: ps, cab: ps, sys: s}
	if err := ps.AddPrivKey(vfC13pG.idL, vfC13pG.privL); err != nil {
		return nil, err
	}
	if err := ps.AddPubKey(vfC13pG.idL, vfC13pG.privL.GetPublic()); err != nil {
		return nil, err
	}
	s.net = &vfC13pNet{sys: s}
	s.host = &vfC13pHost{sys: s, bus: eventbus.NewBus(), handlers: map[protocol.ID]network.StreamHandler{}}
	s.host.mux = &vfC13pMux{sys: s}
	s.hostProtos = []protocol.ID{ID, IDPush, "/vf/base"}
	s.hostAddrs = []ma.Multiaddr{ma.StringCast("/ip4/100.64.0.1/tcp/4001"), ma.StringCast("/ip4/8.8.4.4/udp/4001/quic-v1")}
	if withRecord {
		s.mu.Lock()
		err := s.newRecord()
		s.mu.Unlock()
		if err != nil {
			return nil, err
		}
	}
	if s.emP, err = s.host.bus.Emitter(new(event.EvtLocalProtocolsUpdated)); err != nil {
		return nil, err
	}
	if s.emA, err = s.host.bus.Emitter(new(event.EvtLocalAddressesUpdated)); err != nil {
		return nil, err
	}
	ids, err := NewIDService(s.host)
	if err != nil {
		return nil, err
	}
	s.ids = ids
	s.mu.Lock()
	s.noteHost()
	s.mu.Unlock()
	s.updTicks = append(s.updTicks, s.tick)
	ids.Start()
	// Start() takes the first snapshot and only then starts the loop goroutine, which subscribes to the bus:
	// an event emitted before that is never seen (see TestVerifC13pFree, startup probe).  The model begins
	// with the loop subscribed.
	if len(opts) == 0 || opts[0] != "nowait" {
		synctest.Wait()
	}
	s.started = true
	if len(s.notifiees) != 1 || s.host.handlers[IDPush] == nil || s.host.handlers[ID] == nil {
		return nil, errors.New("Start did not register the notifiee and the handlers")
	}
	s.saved[0] = s.save()
	return s, nil
}

func (s *vfC13pSys) save() vfC13pSaved {
	return vfC13pSaved{append([]protocol.ID{}, s.hostProtos...), append([]ma.Multiaddr{}, s.hostAddrs...), s.recSeq}
}

// newRecord seals a peer record of the host with the next sequence number and stores it where
// updateSnapshot reads it (the peerstore's certified address book).  s.mu must be held.
func (s *vfC13pSys) newRecord() error {
	s.recSeq++
	rec := &peer.PeerRecord{PeerID: vfC13pG.idL, Addrs: append([]ma.Multiaddr{}, s.hostAddrs...), Seq: s.recSeq}
	env, err := record.Seal(rec, vfC13pG.privL)
	if err != nil {
		return err
	}
	_, err = s.cab.ConsumePeerRecord(env, peerstore.PermanentAddrTTL)
	return err
}

// the peerstore handed to identify: the real one; GetPeerRecord(own ID) is the last thing updateSnapshot reads
type vfC13pPS struct {
	peerstore.Peerstore
	cab peerstore.CertifiedAddrBook
	sys *vfC13pSys
}

func (ps *vfC13pPS) ConsumePeerRecord(e *record.Envelope, ttl time.Duration) (bool, error) {
	return ps.cab.ConsumePeerRecord(e, ttl)
}
func (ps *vfC13pPS) GetPeerRecord(p peer.ID) *record.Envelope {
	r := ps.cab.GetPeerRecord(p)
	if p == vfC13pG.idL {
		ps.sys.mu.Lock()
		ps.sys.reading = false
		ps.sys.cond.Broadcast()
		ps.sys.mu.Unlock()
	}
	return r
}

func vfC13pKey(protos []string, addrs [][]byte, rec uint64) string {
	p := append([]string{}, protos...)
	sort.Strings(p)
	var a []string
	for _, b := range addrs {
		if m, err := ma.NewMultiaddrBytes(b); err == nil {
			a = append(a, m.String())
		} else {
			a = append(a, fmt.Sprintf("bad:%x", b))
		}
	}
	sort.Strings(a)
	return fmt.Sprintf("P=%s|A=%s|R=%d", strings.Join(p, ","), strings.Join(a, ","), rec)
}

// hostKey: canonical content of the host's scripted state.  s.mu must be held.
func (s *vfC13pSys) hostKey() string {
	var a [][]byte
	for _, m := range s.hostAddrs {
		a = append(a, m.Bytes())
	}
	return vfC13pKey(protocol.ConvertToStrings(s.hostProtos), a, s.recSeq)
}

// noteHost appends the host's present state to its history.  s.mu must be held: a change and its line in the
// ledger are one step for everything that reads the host.
func (s *vfC13pSys) noteHost() {
	s.tick++
	s.hist = append(s.hist, vfC13pHostVer{s.tick, s.hostKey()})
	if len(s.hist) > 1 {
		s.trace.Emit("change", "host", len(s.hist)-1)
	}
}

// quiet waits until updateSnapshot is not in the middle of its three reads (protocols, addresses, record): the
// host does not change between them (assumption of the harness; a torn snapshot is repaired by the next event).
// s.mu must be held.
func (s *vfC13pSys) quiet() {
	for s.reading {
		s.cond.Wait()
	}
}

func (s *vfC13pSys) connList() []*vfC13pConn {
	s.mu.Lock()
	defer s.mu.Unlock()
	var out []*vfC13pConn
	for _, n := range s.order {
		out = append(out, s.conns[n])
	}
	return out
}

func (s *vfC13pSys) addMM(m vfC13pMM) {
	s.mu.Lock()
	s.mm = append(s.mm, m)
	s.mu.Unlock()
}

// updateGate: Mux().Protocols() called by updateSnapshot
func (s *vfC13pSys) updateGate() {
	s.mu.Lock()
	if !s.started {
		s.mu.Unlock()
		return
	}
	if !s.gated {
		s.tick++
		s.reading = true
		s.updTicks = append(s.updTicks, s.tick)
		s.trace.Emit("upd", "host", len(s.hist)-1, "cls", s.verOf(s.hist[len(s.hist)-1].Key))
		s.mu.Unlock()
		return
	}
	g := vfC13pNewGate()
	s.upd = g
	s.mu.Unlock()
	g.wait()
	s.mu.Lock()
	s.tick++
	s.updTicks = append(s.updTicks, s.tick)
	s.mu.Unlock()
}

// pushOpen: a stream for the push protocol was opened on s.c
func (s *vfC13pSys) pushOpen(st *vfC13pStream) string {
	c := st.c
	s.mu.Lock()
	s.tick++
	l := s.led[c.name]
	c.attempts++
	st.attempt = c.attempts
	l.opens = append(l.opens, s.tick)
	st.openTick = s.tick
	// (gated mode only: without gates a round that listed the connection earlier may legitimately get here late)
	if s.gated && l.identified > 0 && !l.sup {
		s.mm = append(s.mm, vfC13pMM{"push-to-unsupporting-peer", "a push stream was opened on " + c.name + " after the peer was identified as not supporting identify push", nil, nil})
	}
	s.inflight++
	if s.inflight > s.maxFlight {
		s.maxFlight = s.inflight
	}
	s.trace.Emit("open", "c", c.name, "n", st.attempt, "flight", s.inflight)
	if !s.gated {
		f := s.free
		s.mu.Unlock()
		how := f.open(c, st)
		if how == "setproto" {
			s.pushEnded(st, true)
		}
		return how
	}
	st.openGate = vfC13pNewGate()
	c.mu.Lock()
	c.push = st
	c.mu.Unlock()
	s.mu.Unlock()
	how := st.openGate.wait()
	st.passed = 1
	if how == "setproto" {
		s.pushEnded(st, true)
	}
	return how
}

// pushWrite: sendIdentifyResp is about to read the snapshot and write it to st
func (s *vfC13pSys) pushWrite(st *vfC13pStream) string {
	var how string
	if !s.gated {
		how = s.free.write(st.c, st)
	} else {
		st.writeGate = vfC13pNewGate()
		how = st.writeGate.wait()
		st.passed = 2
	}
	if how == "scope" {
		s.pushEnded(st, true)
	} else {
		s.readStart(st)
	}
	return how
}

// readStart: from here on sendIdentifyResp reads the snapshot it is going to write
func (s *vfC13pSys) readStart(st *vfC13pStream) {
	s.mu.Lock()
	s.tick++
	st.readTick = s.tick
	s.trace.Emit("wstart", "c", st.c.name, "n", st.attempt)
	s.mu.Unlock()
}

func (s *vfC13pSys) pushEnded(st *vfC13pStream, failed bool) {
	s.mu.Lock()
	if st.ended {
		s.mu.Unlock()
		return
	}
	st.ended = true
	s.tick++
	if failed {
		l := s.led[st.c.name]
		l.fails = append(l.fails, st.openTick)
		s.trace.Emit("fail", "c", st.c.name, "n", st.attempt)
	}
	st.c.mu.Lock()
	if st.c.push == st {
		st.c.push = nil
	}
	st.c.mu.Unlock()
	s.mu.Unlock()
}

func (s *vfC13pSys) broken(st *vfC13pStream, err error) { s.pushEnded(st, true) }

// verOf: index of the first host version with that content, -1 if the host never had it.  s.mu held.
func (s *vfC13pSys) verOf(key string) int {
	for i, h := range s.hist {
		if h.Key == key {
			return i
		}
	}
	return -1
}

// delivered: the far end of a stream received a complete identify message
func (s *vfC13pSys) delivered(st *vfC13pStream, mes *pb.Identify, kind string) {
	c := st.c
	var rec uint64
	recBad := ""
	if len(mes.SignedPeerRecord) > 0 {
		env, r, err := record.ConsumeEnvelope(mes.SignedPeerRecord, peer.PeerRecordEnvelopeDomain)
		if err != nil {
			recBad = "does not validate: " + err.Error()
		} else if pr, ok := r.(*peer.PeerRecord); !ok || pr.PeerID != vfC13pG.idL || !vfC13pG.idL.MatchesPublicKey(env.PublicKey) {
			recBad = "is not the host's own peer record"
		} else {
			rec = pr.Seq
		}
	}
	key := vfC13pKey(mes.Protocols, mes.ListenAddrs, rec)
	s.mu.Lock()
	s.tick++
	l := s.led[c.name]
	d := vfC13pDelivery{Tick: s.tick, Kind: kind, Key: key, Ver: s.verOf(key), Attempt: st.attempt}
	if recBad != "" {
		s.mm = append(s.mm, vfC13pMM{"push-record-invalid", kind + " on " + c.name + ": the signed record " + recBad, nil, nil})
	}
	// the content is the host's state at some moment since updateSnapshot last (gated) / last but one (free) read it
	// (counted at the moment the sender began: the log line of a delivery may come late)
	k := 0
	for k < len(s.updTicks) && s.updTicks[k] <= st.readTick {
		k++
	}
	from := s.updTicks[max(k-1, 0)]
	if !s.gated {
		from = s.updTicks[max(k-2, 0)]
	}
	okc := false
	var allowed []string
	for i, h := range s.hist {
		if h.Tick >= from || i == len(s.hist)-1 || s.hist[i+1].Tick > from {
			allowed = append(allowed, h.Key)
			okc = okc || h.Key == key
		}
	}
	if !okc {
		cls := "push-content-not-host-state"
		if d.Ver >= 0 {
			cls = "push-content-stale"
		}
		s.mm = append(s.mm, vfC13pMM{cls, fmt.Sprintf("%s on %s carries content the host did not have between the last snapshot update and the delivery", kind, c.name), allowed, key})
	}
	if kind == "push" {
		for _, e := range l.deliv {
			if e.Key == key && e.Kind == "push" && s.verOf(key) == s.lastVerOf(key) { // (a host that went back to old content pushes it again)
				s.mm = append(s.mm, vfC13pMM{"push-duplicate", "the same snapshot content was pushed twice to " + c.name, nil, key})
			}
		}
		// never older than what the connection already holds: the previous delivery's content must not be newer
		if n := len(l.deliv); n > 0 && d.Ver >= 0 && l.deliv[n-1].Ver > d.Ver && s.lastVerOf(key) < l.deliv[n-1].Ver {
			s.mm = append(s.mm, vfC13pMM{"push-older-than-delivered", "a push to " + c.name + " carries older content than the previous delivery", l.deliv[n-1].Key, key})
		}
		if l.discTick > 0 {
			s.mm = append(s.mm, vfC13pMM{"push-to-disconnected-conn", "a push was delivered on " + c.name + " after its Disconnected notification", nil, nil})
		}
	}
	l.deliv = append(l.deliv, d)
	s.trace.Emit("deliver", "c", c.name, "kind", kind, "ver", d.Ver, "last", s.lastVerOf(key), "n", st.attempt, "known", okc)
	s.mu.Unlock()
	if kind == "push" {
		s.pushEnded(st, false)
	}
}

// lastVerOf: index of the LAST host version with that content (a reverted host returns to old content)
func (s *vfC13pSys) lastVerOf(key string) int {
	for i := len(s.hist) - 1; i >= 0; i-- {
		if s.hist[i].Key == key {
			return i
		}
	}
	return -1
}

// ---------------------------------------------------------------------------------------------
// replay: model actions on the real service

func (s *vfC13pSys) emit(protos bool) {
	if protos {
		s.emP.Emit(event.EvtLocalProtocolsUpdated{})
	} else {
		s.emA.Emit(event.EvtLocalAddressesUpdated{})
	}
}

// change applies a host change.  kind fresh: something nobody has seen (a protocol, an address or a new signed
// record, by the seed; a record only if allowRec); kind revert: back to the saved state `id`.
func (s *vfC13pSys) change(kind string, id int, allowRec bool) (string, error) {
	sub := "proto"
	s.mu.Lock()
	s.quiet()
	switch kind {
	case "fresh":
		s.nfresh++
		n := s.nfresh
		switch k := s.rnd.Intn(4); {
		case k == 0 && allowRec:
			sub = "rec"
			if err := s.newRecord(); err != nil {
				s.mu.Unlock()
				return "", err
			}
		case k == 1:
			sub = "addr"
			if len(s.hostAddrs) > 2 && s.rnd.Intn(2) == 0 {
				s.hostAddrs = s.hostAddrs[:len(s.hostAddrs)-1] // an address is replaced by another
				sub = "addr-"
			}
			s.hostAddrs = append(s.hostAddrs, ma.StringCast(fmt.Sprintf("/ip4/9.9.%d.%d/tcp/%d", s.rnd.Intn(200), n%250, 4000+n)))
		case k == 2 && len(s.hostProtos) > 3:
			sub = "proto-"
			s.hostProtos = append(s.hostProtos[:3:3], s.hostProtos[4:]...) // a protocol handler is replaced by another
			s.hostProtos = append(s.hostProtos, protocol.ID(fmt.Sprintf("/vf/q%d", n)))
		default:
			s.hostProtos = append(s.hostProtos, protocol.ID(fmt.Sprintf("/vf/p%d", n)))
		}
		s.saved[id] = s.save()
	case "revert":
		sv, ok := s.saved[id]
		if !ok || sv.rec != s.recSeq {
			s.mu.Unlock()
			return "", fmt.Errorf("cannot revert to content %d", id)
		}
		s.hostProtos, s.hostAddrs = append([]protocol.ID{}, sv.protos...), append([]ma.Multiaddr{}, sv.addrs...)
		sub = "revert"
	default:
		s.mu.Unlock()
		return "", fmt.Errorf("unknown change kind %q", kind)
	}
	s.noteHost()
	protos := strings.HasPrefix(sub, "proto") || (sub == "revert" && s.rnd.Intn(2) == 0)
	s.mu.Unlock()
	s.emit(protos)
	return sub, nil
}

func (s *vfC13pSys) connect(name string, idx int) *vfC13pConn {
	c := &vfC13pConn{sys: s, name: name, idx: idx}
	s.mu.Lock()
	s.tick++
	s.conns[name] = c
	s.order = append(s.order, name)
	l := &vfC13pConnLedger{connected: 1 << 30}
	s.led[name] = l
	s.trace.Emit("connecting", "c", name)
	s.mu.Unlock()
	s.notifiees[0].Connected(s.net, c)
	s.mu.Lock() // (logged once the entry exists: a round that starts later cannot miss the connection)
	s.tick++
	l.connected = s.tick
	s.trace.Emit("connected", "c", name)
	s.mu.Unlock()
	return c
}

// identify answers the outbound identify request on c
func (s *vfC13pSys) identify(c *vfC13pConn, sup bool) error {
	synctest.Wait()
	c.mu.Lock()
	st := c.idStream
	c.mu.Unlock()
	if st == nil {
		return errors.New("no identify request in flight on " + c.name)
	}
	mes := &pb.Identify{Protocols: []string{ID, "/vf/remote"}, ListenAddrs: [][]byte{c.RemoteMultiaddr().Bytes()}}
	if sup {
		mes.Protocols = append(mes.Protocols, IDPush)
	}
	s.mu.Lock()
	s.tick++
	l := s.led[c.name]
	l.sup = sup
	s.mu.Unlock()
	st.answer <- mes
	synctest.Wait()
	s.mu.Lock()
	s.tick++
	l.identified = s.tick
	s.trace.Emit("identified", "c", c.name, "sup", sup)
	s.mu.Unlock()
	return nil
}

// idresp: the remote asks for identify on c; the answer is decoded like a push
func (s *vfC13pSys) idresp(c *vfC13pConn) error {
	c.mu.Lock()
	c.nstreams++
	st := c.pipe(fmt.Sprintf("%s-in-%d", c.name, c.nstreams), true)
	c.mu.Unlock()
	st.proto = ID
	s.readStart(st)
	s.ids.handleIdentifyRequest(st)
	mes, err := vfC13pReadAll(st.far)
	if err != nil {
		return fmt.Errorf("identify response on %s: %v", c.name, err)
	}
	s.delivered(st, mes, "resp")
	return nil
}

func (s *vfC13pSys) disconnect(c *vfC13pConn) {
	s.mu.Lock()
	s.tick++
	s.led[c.name].discTick = s.tick
	s.trace.Emit("disconnected", "c", c.name)
	s.mu.Unlock()
	s.notifiees[0].Disconnected(s.net, c)
}

// noteNewStream: identify opens a stream on c.  After the Disconnected notification the connection has no entry
// and nothing may be attempted on it (gated mode: no round can be in between its entry check and NewStream).
func (s *vfC13pSys) noteNewStream(c *vfC13pConn) {
	s.mu.Lock()
	defer s.mu.Unlock()
	if l := s.led[c.name]; s.gated && l != nil && l.discTick > 0 {
		s.mm = append(s.mm, vfC13pMM{"push-to-disconnected-conn", "identify tried to open a stream on " + c.name + " after its Disconnected notification", nil, nil})
	}
}

type vfC13pSt struct {
	Hc     int  `json:"hc"`
	Evq    int  `json:"evq"`
	Closed bool `json:"closed"`
	Stable bool `json:"stable"`
	Snap   struct {
		Seq int `json:"seq"`
		C   int `json:"c"`
	} `json:"snap"`
	C map[string]struct {
		Cs     string `json:"cs"`
		Ps     string `json:"ps"`
		Last   int    `json:"last"`
		G      string `json:"g"`
		Pushed []int  `json:"pushed"`
		Dc     int    `json:"dc"`
	} `json:"c"`
}

func (s *vfC13pSys) stage(c *vfC13pConn) string {
	c.mu.Lock()
	st := c.push
	c.mu.Unlock()
	switch {
	case st == nil:
		return "none"
	case st.passed == 0 && st.openGate.here():
		return "open"
	case st.passed == 1 && st.writeGate.here():
		return "write"
	}
	return "running"
}

// apply executes one model action.  A returned error is a machinery problem.
func (s *vfC13pSys) apply(op vfh.Op, allowRec bool, names []string) ([]vfC13pMM, error) {
	var mm []vfC13pMM
	name := op.S("c")
	c := s.conns[name]
	switch op.Name() {
	case "connected":
		idx := sort.SearchStrings(names, name)
		c = s.connect(name, idx)
	default:
		if name != "" && c == nil {
			return nil, fmt.Errorf("op %v on a connection that does not exist", op)
		}
	}
	switch op.Name() {
	case "connected", "rstart", "pick", "rec", "rend":
	case "change":
		if _, err := s.change(op.S("kind"), op.I("hc"), allowRec); err != nil {
			return nil, err
		}
	case "update":
		s.mu.Lock()
		g := s.upd
		s.upd = nil
		s.mu.Unlock()
		if g == nil || !g.here() {
			mm = append(mm, vfC13pMM{"L2:no-event-pending", "the loop is not waiting in updateSnapshot although an event is pending in the model", nil, nil})
			break
		}
		g.ch <- "ok"
		synctest.Wait()
		s.ids.currentSnapshot.Lock()
		seq := int(s.ids.currentSnapshot.snapshot.seq)
		s.ids.currentSnapshot.Unlock()
		if seq != op.I("seq") {
			mm = append(mm, vfC13pMM{"L2:snapshot-seq", "sequence number after updateSnapshot", op.I("seq"), seq})
		}
	case "open", "write":
		stg := s.stage(c)
		if stg != op.Name() {
			mm = append(mm, vfC13pMM{"L2:goroutine-stage", fmt.Sprintf("push goroutine of %s before %s", name, op.Name()), op.Name(), stg})
			break
		}
		c.mu.Lock()
		st := c.push
		c.mu.Unlock()
		before := len(s.led[name].deliv)
		how := "ok"
		if !op.B("ok") {
			how = [2][2]string{{"setproto", "refuse"}, {"reset", "scope"}}[map[string]int{"open": 0, "write": 1}[op.Name()]][s.rnd.Intn(2)]
		}
		if op.Name() == "open" {
			st.openGate.ch <- how
		} else {
			st.writeGate.ch <- how
		}
		synctest.Wait()
		s.mu.Lock()
		after := s.led[name].deliv
		s.mu.Unlock()
		if op.Name() == "write" {
			got := len(after) - before
			if want := map[bool]int{true: 1, false: 0}[op.B("ok")]; got != want {
				mm = append(mm, vfC13pMM{"L2:deliveries", fmt.Sprintf("messages delivered on %s by write(ok=%v)", name, op.B("ok")), want, got})
			} else if got == 1 {
				s.mu.Lock()
				sv, ok := s.saved[op.I("content")]
				s.mu.Unlock()
				if ok {
					var a [][]byte
					for _, m := range sv.addrs {
						a = append(a, m.Bytes())
					}
					if want := vfC13pKey(protocol.ConvertToStrings(sv.protos), a, sv.rec); after[len(after)-1].Key != want {
						mm = append(mm, vfC13pMM{"L2:push-content", "content pushed to " + name + " vs the model's snapshot content", want, after[len(after)-1].Key})
					}
				}
			}
		}
	case "identified":
		if err := s.identify(c, op.B("sup")); err != nil {
			mm = append(mm, vfC13pMM{"L2:no-identify-in-flight", err.Error(), nil, nil})
		}
	case "idresp":
		if err := s.idresp(c); err != nil {
			return nil, err
		}
	case "connclose":
		c.mu.Lock()
		c.closed = true
		c.mu.Unlock()
	case "disconnected":
		s.disconnect(c)
	case "svcclose":
		s.closedSvc = true
		s.closeDone = make(chan struct{})
		go func() { s.ids.Close(); close(s.closeDone) }()
	default:
		return nil, fmt.Errorf("unknown op %q", op.Name())
	}
	synctest.Wait()
	s.mu.Lock()
	mm = append(mm, s.mm...)
	s.mm = nil
	s.mu.Unlock()
	return mm, nil
}

// check compares what can be seen of the real service with a stable model state (all L2: in-package reads and
// model-determined counts; the statement-level monitors run inside the ledger callbacks and in finish)
func (s *vfC13pSys) check(st *vfC13pSt) []vfC13pMM {
	var mm []vfC13pMM
	s.mu.Lock()
	waiting := s.upd != nil && s.upd.here()
	s.mu.Unlock()
	if !st.Closed && waiting != (st.Evq > 0) {
		mm = append(mm, vfC13pMM{"L2:event-queue", "loop waiting in updateSnapshot", st.Evq > 0, waiting})
	}
	s.ids.currentSnapshot.Lock()
	seq := int(s.ids.currentSnapshot.snapshot.seq)
	s.ids.currentSnapshot.Unlock()
	if seq != st.Snap.Seq {
		mm = append(mm, vfC13pMM{"L2:snapshot-seq", "ids.currentSnapshot.seq", st.Snap.Seq, seq})
	}
	for name, m := range st.C {
		c := s.conns[name]
		if c == nil {
			if m.Cs != "new" {
				mm = append(mm, vfC13pMM{"L2:conn-state", name, m.Cs, "new"})
			}
			continue
		}
		s.ids.connsMu.RLock()
		e, ok := s.ids.conns[c]
		s.ids.connsMu.RUnlock()
		if ok != (m.Cs == "up" || m.Cs == "closed") {
			mm = append(mm, vfC13pMM{"L2:entry", "entry of " + name + " in ids.conns (model conn state " + m.Cs + ")", m.Cs, ok})
			continue
		}
		if ok {
			ps := map[identifyPushSupport]string{identifyPushSupportUnknown: "unknown", identifyPushSupported: "yes", identifyPushUnsupported: "no"}[e.PushSupport]
			if ps != m.Ps {
				mm = append(mm, vfC13pMM{"L2:push-support", "PushSupport of " + name, m.Ps, ps})
			}
			if int(e.Sequence) != m.Last {
				mm = append(mm, vfC13pMM{"L2:last-seq", "entry.Sequence of " + name, m.Last, int(e.Sequence)})
			}
			s.mu.Lock()
			np := 0
			for _, d := range s.led[name].deliv {
				if d.Kind == "push" {
					np++
				}
			}
			s.mu.Unlock()
			if np != len(m.Pushed) {
				mm = append(mm, vfC13pMM{"L2:deliveries", "number of pushes delivered on " + name, len(m.Pushed), np})
			}
		}
		if stg := s.stage(c); stg != m.G {
			mm = append(mm, vfC13pMM{"L2:goroutine-stage", "push goroutine of " + name, m.G, stg})
		}
	}
	return mm
}

// settle lets everything that is waiting at a gate go on successfully until nothing waits any more
func (s *vfC13pSys) settle() {
	for round := 0; round < 100; round++ {
		moved := false
		s.mu.Lock()
		g := s.upd
		s.upd = nil
		s.mu.Unlock()
		if g != nil && g.here() {
			g.ch <- "ok"
			synctest.Wait()
			continue
		}
		for _, c := range s.connList() {
			l := s.led[c.name]
			good := !c.IsClosed() && !(l.identified > 0 && !l.sup)
			c.mu.Lock()
			st := c.push
			c.mu.Unlock()
			switch s.stage(c) {
			case "open":
				st.openGate.ch <- map[bool]string{true: "ok", false: "refuse"}[good]
				synctest.Wait()
				moved = true
			case "write":
				st.writeGate.ch <- map[bool]string{true: "ok", false: "reset"}[!c.IsClosed()]
				synctest.Wait()
				moved = true
			}
		}
		synctest.Wait()
		if !moved {
			return
		}
	}
}

// finish: let the system come to rest, evaluate the end-of-run clauses, shut everything down
func (s *vfC13pSys) finish() []vfC13pMM {
	if s.gated {
		s.settle()
	}
	synctest.Wait()
	s.mu.Lock()
	mm := append([]vfC13pMM{}, s.mm...)
	s.mm = nil
	final := s.hist[len(s.hist)-1]
	lastUpd := s.updTicks[len(s.updTicks)-1]
	// content the host had at each snapshot read; U = the last read that saw something new
	at := func(tick int) string {
		k := s.hist[0].Key
		for _, h := range s.hist {
			if h.Tick <= tick {
				k = h.Key
			}
		}
		return k
	}
	u := 0
	for i := 1; i < len(s.updTicks); i++ {
		if at(s.updTicks[i]) != at(s.updTicks[i-1]) {
			u = s.updTicks[i]
		}
	}
	if !s.closedSvc {
		if lastUpd < final.Tick {
			mm = append(mm, vfC13pMM{"change-never-snapshotted", "the host changed (event emitted) and updateSnapshot never read it afterwards", final.Key, at(lastUpd)})
		}
		for _, name := range s.order {
			c, l := s.conns[name], s.led[name]
			if c.closed || l.discTick > 0 || l.identified == 0 || !l.sup || u == 0 || l.connected > u {
				continue
			}
			holds := false // the latest content was delivered after it became the snapshot
			for _, d := range l.deliv {
				holds = holds || (d.Key == final.Key && d.Tick > u)
			}
			excused := false
			for _, f := range l.fails {
				excused = excused || f > u
			}
			if !holds && !excused {
				got := "nothing"
				if len(l.deliv) > 0 {
					got = l.deliv[len(l.deliv)-1].Key
				}
				mm = append(mm, vfC13pMM{"push-supporting-conn-left-behind", "at rest, " + name + " (supports push, connected since before the last snapshot change, no push attempt opened after that change has failed) does not hold the latest snapshot", final.Key, got})
			}
		}
	}
	s.mu.Unlock()
	for _, c := range s.connList() {
		c.mu.Lock()
		c.closed = true
		c.mu.Unlock()
		c.resetAll()
	}
	if s.gated {
		s.settle()
	}
	if !s.closedSvc {
		s.ids.Close()
	} else {
		<-s.closeDone
	}
	s.ps.Close()
	synctest.Wait()
	return mm
}

// ---------------------------------------------------------------------------------------------

func TestVerifC13pReplay(t *testing.T) {
	res := vfh.NewResult()
	defer func() {
		if err := res.Write(); err != nil {
			t.Fatal(err)
		}
	}()
	vfC13pInit(4)
	files, _ := filepath.Glob(filepath.Join(vfh.In(), "*.jsonl"))
	if len(files) == 0 {
		t.Fatalf("no behaviour files in %q", vfh.In())
	}
	res.Rule = "one case = one (instance, source state, action) transition of the printed C13_Push graph executed on the real idService through the gates; stable model states are compared (L2), the statement-level monitors read the decoded identify messages per connection (L1); every walk ends with the at-rest clauses"
	shards := vfh.EnvInt("VERIF_C13P_SHARDS", 6)
	t.Run("g", func(t *testing.T) {
		for _, f := range files {
			hdr, walks, err := vfh.LoadWalks(f)
			if err != nil {
				t.Fatalf("%s: %v", f, err)
			}
			inst, _ := hdr["name"].(string)
			var names []string
			if conf, ok := hdr["conf"].(map[string]any); ok {
				for _, c := range conf["conns"].([]any) {
					names = append(names, c.(string))
				}
				if mc := int(conf["maxConc"].(float64)); mc < len(names) {
					t.Fatalf("%s: the replayed instance must not block on the semaphore (MaxConc %d < %d connections)", inst, mc, len(names))
				}
			}
			sort.Strings(names)
			for sh := 0; sh < shards; sh++ {
				t.Run(fmt.Sprintf("%s-%d", inst, sh), func(t *testing.T) {
					t.Parallel()
					for wi, w := range walks {
						if wi%shards != sh {
							continue
						}
						synctest.Test(t, func(t *testing.T) { vfC13pWalk(t, res, inst, names, w) })
					}
				})
			}
		}
	})
}

func vfC13pWalk(t *testing.T, res *vfh.Result, inst string, names []string, w vfh.Walk) {
	seed := vfh.Seed()*1000003 + int64(w.Walk)
	withRec := (seed/7)%2 == 0
	sys, err := vfC13pNew(true, seed, withRec)
	if err != nil {
		t.Fatal(err)
	}
	synctest.Wait()
	var prefix []vfh.Op
	report := func(i int, m vfC13pMM) {
		res.AddMismatch(vfh.Mismatch{Class: m.Class, What: m.What, Walk: w.Walk, Step: i, Expected: m.Exp, Got: m.Got,
			Prefix: append([]vfh.Op{}, prefix...), Cfg: map[string]any{"instance": inst, "host_has_record_from_start": withRec}})
	}
	// a new signed record cannot be taken back: fresh changes may be record changes only after the last revert
	lastRevert := -1
	for i, stp := range w.Steps {
		if stp.Op.Name() == "change" && stp.Op.S("kind") == "revert" {
			lastRevert = i
		}
	}
	prevKey := string(w.Init)
	degraded := false
	for i, stp := range w.Steps {
		prefix = append(prefix, stp.Op)
		mm, err := sys.apply(stp.Op, i > lastRevert, names)
		if err != nil {
			t.Fatalf("%s walk %d step %d: %v", inst, w.Walk, i, err)
		}
		var st vfC13pSt
		if err := json.Unmarshal(stp.State, &st); err != nil {
			t.Fatal(err)
		}
		if !degraded {
			res.Case(inst + "|" + prevKey + "|" + vfh.Canon(stp.Op))
			if st.Stable {
				mm = append(mm, sys.check(&st)...)
			}
		}
		prevKey = string(stp.State)
		res.Count(0, 1)
		for _, m := range mm {
			l2 := strings.HasPrefix(m.Class, "L2:")
			if degraded && l2 {
				continue
			}
			report(i, m)
			degraded = degraded || l2
		}
	}
	for _, m := range sys.finish() {
		report(len(w.Steps), m)
	}
	res.Count(1, 0)
	sys.mu.Lock()
	res.Inc("push_deliveries", func() int {
		n := 0
		for _, l := range sys.led {
			n += len(l.deliv)
		}
		return n
	}())
	sys.mu.Unlock()
	if w.Walk == 0 && len(w.Steps) > 0 {
		k := len(w.Steps)
		if k > 6 {
			k = 6
		}
		res.Sample(map[string]any{"instance": inst, "first_steps": w.Steps[:k]})
	}
}

// ---------------------------------------------------------------------------------------------
// free runs: no gates; every push attempt takes scripted virtual-time delays and outcomes

type vfC13pFreeScript struct {
	seed     int64
	failPct  int           // chance of a failure per phase, in percent
	maxDelay time.Duration // upper bound of the delay per phase
	hold     chan struct{} // if non-nil every attempt waits here at its open phase (concurrency-limit scenario)
}

func (f *vfC13pFreeScript) draw(c *vfC13pConn, st *vfC13pStream, phase int64) *mrand.Rand {
	return mrand.New(mrand.NewSource(f.seed*7919 + int64(c.idx)*104729 + int64(st.attempt)*1299709 + phase))
}

func (f *vfC13pFreeScript) open(c *vfC13pConn, st *vfC13pStream) string {
	if f.hold != nil {
		<-f.hold
		return "ok"
	}
	r := f.draw(c, st, 1)
	if f.maxDelay > 0 {
		time.Sleep(time.Duration(r.Int63n(int64(f.maxDelay))))
	}
	if r.Intn(100) < f.failPct {
		return []string{"setproto", "refuse"}[r.Intn(2)]
	}
	return "ok"
}

func (f *vfC13pFreeScript) write(c *vfC13pConn, st *vfC13pStream) string {
	if f.hold != nil {
		return "ok"
	}
	r := f.draw(c, st, 2)
	if f.maxDelay > 0 {
		time.Sleep(time.Duration(r.Int63n(int64(f.maxDelay))))
	}
	how := "ok"
	if r.Intn(100) < f.failPct {
		how = []string{"reset", "scope"}[r.Intn(2)]
	}
	return how
}

// closeConn: the swarm closes c (its streams die), then delivers Disconnected
func (s *vfC13pSys) closeConn(c *vfC13pConn) {
	c.mu.Lock()
	c.closed = true
	c.mu.Unlock()
	c.resetAll()
	synctest.Wait()
	s.disconnect(c)
}

// flip: the host goes back to the state it had before its latest change (free runs)
func (s *vfC13pSys) flip() bool {
	s.mu.Lock()
	s.quiet()
	if len(s.undo) == 0 || s.undo[len(s.undo)-1].rec != s.recSeq {
		s.mu.Unlock()
		return false
	}
	sv := s.undo[len(s.undo)-1]
	s.undo = s.undo[:len(s.undo)-1]
	s.hostProtos, s.hostAddrs = sv.protos, sv.addrs
	s.noteHost()
	protos := s.rnd.Intn(2) == 0
	s.mu.Unlock()
	s.emit(protos)
	return true
}

func vfC13pScenario(t *testing.T, res *vfh.Result, it int, path string) {
	seed := vfh.Seed()*7_000_003 + int64(it)
	rnd := mrand.New(mrand.NewSource(seed))
	sys, err := vfC13pNew(false, seed, rnd.Intn(2) == 0)
	if err != nil {
		t.Fatal(err)
	}
	sys.free = &vfC13pFreeScript{seed: seed, failPct: []int{0, 10, 30}[rnd.Intn(3)], maxDelay: time.Duration(1+rnd.Intn(40)) * time.Millisecond}
	sys.trace = vfh.NewTrace(fmt.Sprintf("s%d-%d", vfh.Seed(), it))
	nconn := 0
	pause := func() { time.Sleep(time.Duration(rnd.Intn(25)) * time.Millisecond) }
	live := func() []*vfC13pConn {
		var out []*vfC13pConn
		for _, c := range sys.connList() {
			if !c.IsClosed() {
				out = append(out, c)
			}
		}
		return out
	}
	steps := 6 + rnd.Intn(14)
	for i := 0; i < steps; i++ {
		cs := live()
		switch k := rnd.Intn(10); {
		case k < 2 && nconn < 5:
			sys.connect(fmt.Sprintf("c%d", nconn+1), nconn)
			nconn++
		case k < 4 && len(cs) > 0:
			c := cs[rnd.Intn(len(cs))]
			if l := sys.led[c.name]; l.identified == 0 && !l.asked {
				l.asked = true
				if err := sys.identify(c, rnd.Intn(5) > 0); err != nil {
					t.Fatal(err)
				}
			}
		case k < 5 && len(cs) > 0:
			if err := sys.idresp(cs[rnd.Intn(len(cs))]); err != nil {
				t.Fatal(err)
			}
		case k < 6 && len(cs) > 0 && rnd.Intn(2) == 0:
			sys.closeConn(cs[rnd.Intn(len(cs))])
		case k == 6:
			if sys.flip() {
				break
			}
			fallthrough
		default:
			sys.mu.Lock()
			sys.undo = append(sys.undo, sys.save())
			sys.mu.Unlock()
			if _, err := sys.change("fresh", 1000+i, true); err != nil {
				t.Fatal(err)
			}
		}
		if rnd.Intn(3) > 0 {
			pause()
		}
	}
	time.Sleep(2 * time.Second) // virtual: every delay of the script has passed
	synctest.Wait()
	if os.Getenv("VERIF_C13P_DEBUG") != "" {
		sys.ids.connsMu.RLock()
		for c, e := range sys.ids.conns {
			t.Logf("entry %v: support %d seq %d", c, e.PushSupport, e.Sequence)
		}
		sys.ids.connsMu.RUnlock()
		t.Logf("snapshot seq %d", sys.ids.currentSnapshot.snapshot.seq)
		for _, e := range sys.trace.Events() {
			b, _ := json.Marshal(e)
			t.Logf("%s", b)
		}
	}
	sys.rest()
	for _, m := range sys.finish() {
		res.AddMismatch(vfh.Mismatch{Class: m.Class, What: m.What, Walk: it, Step: -1, Expected: m.Exp, Got: m.Got,
			Cfg: map[string]any{"scenario": it, "seed": vfh.Seed(), "fail_pct": sys.free.failPct}, Prefix: sys.trace.Events()})
	}
	res.Count(1, sys.trace.Len())
	res.Inc("free_deliveries", sys.countDeliveries())
	res.Inc("free_failed_attempts", sys.countFails())
	if err := sys.trace.AppendTo(path, map[string]any{"limit": maxPushConcurrency}); err != nil {
		t.Fatal(err)
	}
}

// rest: the system is at rest; log what every connection holds and what the host's state is
func (s *vfC13pSys) rest() {
	s.mu.Lock()
	defer s.mu.Unlock()
	s.trace.Emit("final", "cls", s.verOf(s.hist[len(s.hist)-1].Key), "host", len(s.hist)-1)
	for _, name := range s.order {
		l := s.led[name]
		held := -1
		if n := len(l.deliv); n > 0 {
			held = l.deliv[n-1].Ver
		}
		s.trace.Emit("rest", "c", name, "held", held)
	}
}

func (s *vfC13pSys) countDeliveries() int {
	s.mu.Lock()
	defer s.mu.Unlock()
	n := 0
	for _, l := range s.led {
		n += len(l.deliv)
	}
	return n
}

func (s *vfC13pSys) countFails() int {
	s.mu.Lock()
	defer s.mu.Unlock()
	n := 0
	for _, l := range s.led {
		n += len(l.fails)
	}
	return n
}

// vfC13pLimit: more supporting connections than maxPushConcurrency, every push attempt held at its open phase
func vfC13pLimit(t *testing.T, res *vfh.Result, path string) {
	const n = maxPushConcurrency + 8
	vfC13pInit(n)
	sys, err := vfC13pNew(false, vfh.Seed(), true)
	if err != nil {
		t.Fatal(err)
	}
	sys.free = &vfC13pFreeScript{seed: vfh.Seed(), hold: make(chan struct{})}
	sys.trace = vfh.NewTrace(fmt.Sprintf("limit-%d", vfh.Seed()))
	for i := 0; i < n; i++ {
		c := sys.connect(fmt.Sprintf("c%d", i+1), i)
		synctest.Wait()
		if i%5 != 4 { // every fifth stays unidentified (PushSupport unknown: pushed as well)
			if err := sys.identify(c, true); err != nil {
				t.Fatal(err)
			}
		}
	}
	if _, err := sys.change("fresh", 1, true); err != nil {
		t.Fatal(err)
	}
	synctest.Wait()
	sys.mu.Lock()
	held := sys.inflight
	sys.mu.Unlock()
	res.Set("limit_conns", n)
	res.Set("limit_attempts_in_flight_while_held", held)
	if held > maxPushConcurrency {
		res.AddMismatch(vfh.Mismatch{Class: "push-concurrency-exceeds-limit", What: "push attempts in flight at the same time", Walk: -1, Step: -1,
			Expected: maxPushConcurrency, Got: held})
	}
	close(sys.free.hold)
	synctest.Wait()
	sys.rest()
	short := 0
	for _, l := range sys.led {
		if len(l.deliv) != 1 {
			short++
		}
	}
	if short > 0 {
		res.AddMismatch(vfh.Mismatch{Class: "push-supporting-conn-left-behind", What: "connections (of more than the concurrency limit) that did not get exactly one push of the new snapshot", Walk: -1, Step: -1, Expected: 0, Got: short})
	}
	for _, m := range sys.finish() {
		res.AddMismatch(vfh.Mismatch{Class: m.Class, What: "limit scenario: " + m.What, Walk: -1, Step: -1, Expected: m.Exp, Got: m.Got})
	}
	res.Count(1, sys.trace.Len())
	if err := sys.trace.AppendTo(path, map[string]any{"limit": maxPushConcurrency}); err != nil {
		t.Fatal(err)
	}
}

func TestVerifC13pFree(t *testing.T) {
	res := vfh.NewResult()
	out := filepath.Join(vfh.Out(), "free")
	if err := os.MkdirAll(out, 0o755); err != nil {
		t.Fatal(err)
	}
	vfC13pInit(maxPushConcurrency + 8)
	res.Rule = "one case = one seeded gate-free scenario (connections come, are identified, ask for identify, go; the host changes and flips back; push attempts take virtual-time delays and fail by script); its observable trace is validated against spec/C13_PushObs.tla"
	path := filepath.Join(out, "traces.ndjson")
	iters := vfh.EnvInt("VERIF_C13P_ITERS", 150)
	only := vfh.EnvInt("VERIF_C13P_ONLY", -1) // re-run one scenario of a replay artefact
	for it := 0; it < iters; it++ {
		if only >= 0 && it != only {
			continue
		}
		synctest.Test(t, func(t *testing.T) { vfC13pScenario(t, res, it, path) })
	}
	synctest.Test(t, func(t *testing.T) { vfC13pLimit(t, res, path) })
	synctest.Test(t, func(t *testing.T) { vfC13pStartup(t, res) })
	res.Traces = []string{path}
	b, err := json.MarshalIndent(res, "", " ")
	if err != nil {
		t.Fatal(err)
	}
	if err := os.WriteFile(filepath.Join(out, "result.json"), b, 0o644); err != nil {
		t.Fatal(err)
	}
}

// flightEnd: the code closes or resets a push stream; the attempt no longer counts as in flight
func (s *vfC13pSys) flightEnd(st *vfC13pStream) {
	if st.inbound || st.attempt == 0 {
		return
	}
	s.mu.Lock()
	if !st.landed {
		st.landed = true
		s.inflight--
		s.trace.Emit("end", "c", st.c.name, "n", st.attempt)
	}
	s.mu.Unlock()
}

// vfC13pStartup: the host changes right after Start() returned.  Start() takes the first snapshot and then starts
// the loop goroutine, which only then subscribes to the bus: an event emitted in between reaches nobody and the
// snapshot (hence every identify response and push) stays behind until the next event.  Outside the statement of
// C13 and scheduling dependent: recorded, never a violation.
func vfC13pStartup(t *testing.T, res *vfh.Result) {
	sys, err := vfC13pNew(false, vfh.Seed(), false, "nowait")
	if err != nil {
		t.Fatal(err)
	}
	sys.free = &vfC13pFreeScript{seed: 1}
	if _, err := sys.change("fresh", 1, false); err != nil {
		t.Fatal(err)
	}
	synctest.Wait()
	sys.mu.Lock()
	lost := len(sys.updTicks) < 2
	sys.mu.Unlock()
	res.Set("startup_window_change_lost", lost)
	if lost {
		res.AddMismatch(vfh.Mismatch{Class: "L2:startup-window-change-lost", Walk: -1, Step: -1,
			What: "a local change emitted right after Start() returned (before the loop goroutine subscribed to the bus) was never read by updateSnapshot: the snapshot stays behind until the next event"})
	}
	sys.mu.Lock()
	sys.hist = sys.hist[:1] // (keep the at-rest clause out of this probe)
	sys.mu.Unlock()
	sys.finish()
}
