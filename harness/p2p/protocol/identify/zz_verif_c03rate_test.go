//go:build verif

package identify

// C03rate, call-site sanity check of the identify service's use of x/rate: Start registers the IDPush handler
// wrapped in rateLimiter.Limit, the limiter is keyed by the REMOTE address of the stream's connection, and the
// declared defaults (per /24, per /56 and /48, loopback exempt) are what it enforces. Virtual time.

import (
	"fmt"
	"testing"
	"testing/synctest"
	"time"

	"github.com/libp2p/go-libp2p/core/event"
	"github.com/libp2p/go-libp2p/core/host"
	"github.com/libp2p/go-libp2p/core/network"
	"github.com/libp2p/go-libp2p/core/peer"
	"github.com/libp2p/go-libp2p/core/peerstore"
	"github.com/libp2p/go-libp2p/core/protocol"
	"github.com/libp2p/go-libp2p/internal/vfh"
	"github.com/libp2p/go-libp2p/p2p/host/eventbus"
	ma "github.com/multiformats/go-multiaddr"
	msmux "github.com/multiformats/go-multistream"
)

type vfC03rateNet struct {
	network.Network
}

func (n *vfC03rateNet) Notify(network.Notifiee)     {}
func (n *vfC03rateNet) StopNotify(network.Notifiee) {}
func (n *vfC03rateNet) Conns() []network.Conn       { return nil }

type vfC03rateHost struct {
	host.Host
	bus      event.Bus
	mux      *msmux.MultistreamMuxer[protocol.ID]
	net      *vfC03rateNet
	handlers map[protocol.ID]network.StreamHandler
}

func (h *vfC03rateHost) ID() peer.ID                    { return "vfC03rate-local" }
func (h *vfC03rateHost) Peerstore() peerstore.Peerstore { return nil }
func (h *vfC03rateHost) Addrs() []ma.Multiaddr          { return nil }
func (h *vfC03rateHost) Network() network.Network       { return h.net }
func (h *vfC03rateHost) Mux() protocol.Switch           { return h.mux }
func (h *vfC03rateHost) EventBus() event.Bus            { return h.bus }
func (h *vfC03rateHost) SetStreamHandler(p protocol.ID, f network.StreamHandler) {
	h.handlers[p] = f
}
func (h *vfC03rateHost) RemoveStreamHandler(p protocol.ID) { delete(h.handlers, p) }

type vfC03rateScope struct {
	network.StreamScope
}

// the handler proper gives up right here: reaching SetService is the observable "the push was handled"
func (s *vfC03rateScope) SetService(string) error { return fmt.Errorf("vfC03rate: stop here") }

type vfC03rateConn struct {
	network.Conn
	remote, local ma.Multiaddr
}

func (c *vfC03rateConn) RemoteMultiaddr() ma.Multiaddr { return c.remote }
func (c *vfC03rateConn) LocalMultiaddr() ma.Multiaddr  { return c.local }

type vfC03rateStream struct {
	network.Stream
	conn     *vfC03rateConn
	handled  int
	limited  int
	resets   int
	deadline int
}

func (s *vfC03rateStream) Conn() network.Conn          { return s.conn }
func (s *vfC03rateStream) Scope() network.StreamScope  { s.handled++; return &vfC03rateScope{} }
func (s *vfC03rateStream) SetDeadline(time.Time) error { s.deadline++; return nil }
func (s *vfC03rateStream) Reset() error                { s.resets++; return nil }
func (s *vfC03rateStream) Protocol() protocol.ID       { return IDPush }
func (s *vfC03rateStream) ResetWithError(c network.StreamErrorCode) error {
	if c == network.StreamRateLimited {
		s.limited++
	} else {
		s.resets++
	}
	return nil
}

func TestVerifC03rateIdentifyCallSite(t *testing.T) {
	res := vfh.NewResult()
	synctest.Test(t, func(t *testing.T) {
		h := &vfC03rateHost{bus: eventbus.NewBus(), mux: msmux.NewMultistreamMuxer[protocol.ID](), net: &vfC03rateNet{},
			handlers: map[protocol.ID]network.StreamHandler{}}
		svc, err := NewIDService(h)
		if err != nil {
			t.Fatal(err)
		}
		svc.Start()
		defer svc.Close()
		push := h.handlers[IDPush]
		if push == nil {
			t.Fatal("Start registered no IDPush handler")
		}
		local, _ := ma.NewMultiaddr("/ip4/127.0.0.1/tcp/4001")
		// push(remote) -> "handled" | "limited"
		call := func(remote string) string {
			m, err := ma.NewMultiaddr(remote)
			if err != nil {
				t.Fatal(err)
			}
			s := &vfC03rateStream{conn: &vfC03rateConn{remote: m, local: local}}
			push(s)
			res.Count(0, 1)
			switch {
			case s.handled == 1 && s.limited == 0:
				return "handled"
			case s.handled == 0 && s.limited == 1 && s.resets == 0:
				return "limited"
			}
			return fmt.Sprintf("handled=%d limited=%d resets=%d", s.handled, s.limited, s.resets)
		}
		burst := func(remote string, n int) (handled int, odd string) {
			for i := 0; i < n; i++ {
				switch r := call(remote); r {
				case "handled":
					handled++
				case "limited":
				default:
					odd = r
				}
			}
			return
		}
		expect := func(what, remote string, n, want int) {
			got, odd := burst(remote, n)
			res.Case(what)
			if odd != "" {
				res.AddMismatch(vfh.Mismatch{Class: "identify-push-limit-wrapper-contract", Walk: -1, What: what + ": " + odd})
			}
			if got > want {
				res.AddMismatch(vfh.Mismatch{Class: "identify-push-not-rate-limited-by-remote-subnet", Walk: -1, Expected: want, Got: got,
					What: fmt.Sprintf("%s: %d of %d pushes from %s handled at one instant, the declared defaults allow %d", what, got, n, remote, want)})
			} else if got < want {
				res.AddMismatch(vfh.Mismatch{Class: "identify-push-spuriously-limited", Walk: -1, Expected: want, Got: got,
					What: fmt.Sprintf("%s: only %d of %d pushes from %s handled at one instant, the declared defaults allow %d", what, got, n, remote, want)})
			}
		}
		v4 := defaultIPv4SubnetRateLimits[0]
		if len(defaultIPv4SubnetRateLimits) != 1 || len(defaultIPv6SubnetRateLimits) != 2 || v4.PrefixLength != 24 {
			t.Fatalf("identify's default subnet limits changed shape: %v %v", defaultIPv4SubnetRateLimits, defaultIPv6SubnetRateLimits)
		}
		n6, w6 := defaultIPv6SubnetRateLimits[0], defaultIPv6SubnetRateLimits[1]
		if n6.PrefixLength < w6.PrefixLength {
			n6, w6 = w6, n6
		}
		// the remote /24 is the key (the local address is loopback for every stream: were it used, nothing would be limited)
		expect("one /24 gets its burst", "/ip4/1.2.3.4/tcp/4001", v4.Burst+5, v4.Burst)
		expect("same /24, other host and transport: same bucket", "/ip4/1.2.3.200/udp/4001/quic-v1", 3, 0)
		expect("another /24 has its own bucket", "/ip4/1.2.4.4/tcp/4001", v4.Burst+5, v4.Burst)
		expect("loopback is exempt", "/ip4/127.0.0.1/tcp/4001", 200, 200)
		expect("::1 is exempt", "/ip6/::1/tcp/4001", 200, 200)
		expect("one narrow v6 subnet gets its burst", "/ip6/2001:db8:1:100::1/tcp/4001", n6.Burst+5, n6.Burst)
		expect("second narrow subnet of the same wide one: what the wide one has left", "/ip6/2001:db8:1:200::1/udp/4001/quic-v1", n6.Burst+5, w6.Burst-n6.Burst)
		expect("third narrow subnet of the exhausted wide one", "/ip6/2001:db8:1:300::1/tcp/4001", 3, 0)
		// refill: one token per 1/RPS
		time.Sleep(time.Duration(float64(time.Second)/v4.RPS) + time.Millisecond)
		expect("after 1/RPS one more push of the first /24", "/ip4/1.2.3.9/tcp/4001", 3, 1)
		res.Count(1, 0)
	})
	if err := res.Write(); err != nil {
		t.Fatal(err)
	}
}
