//go:build verif

package identify_test

// C13 with two REAL hosts (mocknet BasicHosts inside a testing/synctest bubble): the remote host B
// answers A's identify request with crafted, hostile messages (keys, records and /p2p suffixes of a
// foreign host F, more than the caps) and breaks the connection at different points (before the
// answer, in the middle of it, right after it, never answers, resets the stream), while A's user
// keeps calling IdentifyWait and B pushes crafted messages.  The goroutines really race; the verdict
// is taken at rest from observables of A only (L1): every wait channel closed once the identify
// timeout has passed, nothing recorded under F, B's stored key hashes to B, caps, and no address of
// B left after the recently-connected lifetime without a connection.

import (
	"context"
	"fmt"
	mrand "math/rand"
	"sync"
	"testing"
	"testing/synctest"
	"time"

	"github.com/libp2p/go-libp2p/core/crypto"
	"github.com/libp2p/go-libp2p/core/host"
	"github.com/libp2p/go-libp2p/core/network"
	"github.com/libp2p/go-libp2p/core/peer"
	"github.com/libp2p/go-libp2p/core/peerstore"
	"github.com/libp2p/go-libp2p/core/record"
	"github.com/libp2p/go-libp2p/internal/vfh"
	basichost "github.com/libp2p/go-libp2p/p2p/host/basic"
	mocknet "github.com/libp2p/go-libp2p/p2p/net/mock"
	"github.com/libp2p/go-libp2p/p2p/protocol/identify"
	"github.com/libp2p/go-libp2p/p2p/protocol/identify/pb"
	"github.com/libp2p/go-msgio/pbio"
	ma "github.com/multiformats/go-multiaddr"
)

var vfC13HFaults = []string{"answer", "close-before", "close-mid", "close-after", "silent", "reset-mid"}

type vfC13HView struct {
	Addrs, Protos int
	Key           string
	Agent         string
}

func vfC13HViewOf(h host.Host, p peer.ID) vfC13HView {
	v := vfC13HView{Addrs: len(h.Peerstore().Addrs(p))}
	pr, _ := h.Peerstore().GetProtocols(p)
	v.Protos = len(pr)
	if k := h.Peerstore().PubKey(p); k != nil {
		b, _ := crypto.MarshalPublicKey(k)
		v.Key = fmt.Sprintf("%x", b[len(b)-6:])
	}
	if a, err := h.Peerstore().Get(p, "AgentVersion"); err == nil {
		v.Agent = fmt.Sprint(a)
	}
	return v
}

func vfC13HMessage(hB, hF host.Host, kind int) ([]*pb.Identify, error) {
	skB := hB.Peerstore().PrivKey(hB.ID())
	skF := hF.Peerstore().PrivKey(hF.ID())
	kF, _ := crypto.MarshalPublicKey(hF.Peerstore().PubKey(hF.ID()))
	kB, _ := crypto.MarshalPublicKey(hB.Peerstore().PubKey(hB.ID()))
	var addrs []ma.Multiaddr
	n := 3
	if kind%2 == 1 {
		n = 501
	}
	for i := 0; i < n; i++ {
		addrs = append(addrs, ma.StringCast(fmt.Sprintf("/ip4/11.1.%d.%d/tcp/4001", i/250, i%250+1)))
	}
	addrs = append(addrs, ma.StringCast("/ip4/5.5.5.5/tcp/4001/p2p/"+hF.ID().String()))
	av, pv := "hostile-agent", "hostile-pv"
	first := &pb.Identify{AgentVersion: &av, ProtocolVersion: &pv, ObservedAddr: ma.StringCast("/ip4/3.3.3.3/tcp/1").Bytes()}
	for _, a := range addrs {
		first.ListenAddrs = append(first.ListenAddrs, a.Bytes())
	}
	second := &pb.Identify{}
	np := 5
	if kind%2 == 1 {
		np = 1025
	}
	for i := 0; i < np; i++ {
		second.Protocols = append(second.Protocols, fmt.Sprintf("/h/%d", i))
	}
	var rec *peer.PeerRecord
	sk := skB
	switch kind % 4 {
	case 0: // F's key, F's own record
		first.PublicKey = kF
		rec, sk = &peer.PeerRecord{PeerID: hF.ID(), Addrs: addrs[:3], Seq: 9}, skF
	case 1: // B's key, a record naming F sealed by B
		first.PublicKey = kB
		rec = &peer.PeerRecord{PeerID: hF.ID(), Addrs: addrs[:3], Seq: 9}
	case 2: // garbage key, a record naming B sealed by F
		first.PublicKey = []byte{1, 2, 3}
		rec, sk = &peer.PeerRecord{PeerID: hB.ID(), Addrs: addrs[:3], Seq: 9}, skF
	case 3: // F's key, B's valid record with more than the cap
		first.PublicKey = kF
		rec = &peer.PeerRecord{PeerID: hB.ID(), Addrs: addrs, Seq: 9}
	}
	env, err := record.Seal(rec, sk)
	if err != nil {
		return nil, err
	}
	eb, err := env.Marshal()
	if err != nil {
		return nil, err
	}
	return []*pb.Identify{first, second, {SignedPeerRecord: eb}}, nil
}

func TestVerifC13Hosts(t *testing.T) {
	res := vfh.NewResult()
	defer func() {
		if err := res.Write(); err != nil {
			t.Fatal(err)
		}
	}()
	res.Rule = "one round = two real mocknet hosts in a bubble, one crafted hostile identify answer with one fault point, concurrent IdentifyWait calls and a crafted push; audited at rest on A's peerstore, wait channels and by expiry in virtual time"
	rounds := 300
	if vfh.Thorough() {
		rounds = 3000
	}
	for r := 0; r < rounds; r++ {
		synctest.Test(t, func(t *testing.T) { vfC13HRound(t, res, r) })
	}
}

func vfC13HRound(t *testing.T, res *vfh.Result, r int) {
	rnd := mrand.New(mrand.NewSource(vfh.Seed()*7919 + int64(r)))
	fault := vfC13HFaults[r%len(vfC13HFaults)]
	kind := (r / len(vfC13HFaults)) % 4
	cfg := map[string]any{"round": r, "fault": fault, "message": kind}
	report := func(cls, what string, exp, got any) {
		res.AddMismatch(vfh.Mismatch{Class: cls, What: what, Walk: -1, Step: r, Expected: exp, Got: got, Cfg: cfg})
	}
	mn := mocknet.New()
	defer mn.Close()
	hA, err := mn.GenPeer()
	if err != nil {
		t.Fatal(err)
	}
	hB, err := mn.GenPeer()
	if err != nil {
		t.Fatal(err)
	}
	hF, err := mn.GenPeer()
	if err != nil {
		t.Fatal(err)
	}
	if err := mn.LinkAll(); err != nil {
		t.Fatal(err)
	}
	parts, err := vfC13HMessage(hB, hF, kind)
	if err != nil {
		t.Fatal(err)
	}
	beforeF := vfC13HViewOf(hA, hF.ID())
	answered := make(chan struct{})
	var once sync.Once // B's push may dial a new connection, which A identifies as well
	hB.SetStreamHandler(identify.ID, func(s network.Stream) {
		defer once.Do(func() { close(answered) })
		w := pbio.NewDelimitedWriter(s)
		switch fault {
		case "close-before":
			s.Conn().Close()
			return
		case "silent":
			return // never answers, never closes: A's deadline has to end it
		}
		w.WriteMsg(parts[0])
		switch fault {
		case "close-mid":
			s.Conn().Close()
			return
		case "reset-mid":
			s.Reset()
			return
		}
		w.WriteMsg(parts[1])
		w.WriteMsg(parts[2])
		s.Close()
		if fault == "close-after" {
			s.Conn().Close()
		}
	})
	synctest.Wait()
	conn, err := mn.ConnectPeers(hA.ID(), hB.ID())
	if err != nil {
		t.Fatal(err)
	}
	ids := hA.(*basichost.BasicHost).IDService()
	var chans []<-chan struct{}
	chans = append(chans, ids.IdentifyWait(conn))
	// a user keeps asking, before and after the connection is gone
	asker := make(chan []<-chan struct{})
	go func() {
		var l []<-chan struct{}
		for i := 0; i < 3; i++ {
			for _, c := range hA.Network().ConnsToPeer(hB.ID()) {
				l = append(l, ids.IdentifyWait(c))
			}
			l = append(l, ids.IdentifyWait(conn))
			time.Sleep(time.Duration(rnd.Intn(3)) * time.Millisecond)
		}
		asker <- l
	}()
	// B pushes a crafted message too (it may lose against the close)
	pushed := make(chan struct{})
	go func() {
		defer close(pushed)
		ctx, cancel := context.WithTimeout(context.Background(), 3*time.Second)
		defer cancel()
		s, err := hB.NewStream(ctx, hA.ID(), identify.IDPush)
		if err != nil {
			return
		}
		w := pbio.NewDelimitedWriter(s)
		for _, p := range parts {
			if w.WriteMsg(p) != nil {
				break
			}
		}
		s.Close()
	}()
	chans = append(chans, <-asker...)
	<-pushed
	if fault != "silent" {
		<-answered
	}
	synctest.Wait()
	time.Sleep(12 * time.Second) // past the identify timeout
	synctest.Wait()
	stillOpen := func() int {
		n := 0
		for _, ch := range chans {
			select {
			case <-ch:
			default:
				n++
			}
		}
		return n
	}
	// mocknet streams have no deadlines (SetDeadline fails and identify ignores that, as with any muxer
	// without deadlines): a silent remote is ended by the close of the connection, not by the timeout
	if n := stillOpen(); n > 0 && fault != "silent" {
		report("wait-never-released", fmt.Sprintf("%d of %d IdentifyWait channels still open after the identify timeout (fault %s)", n, len(chans), fault), 0, n)
	}
	audit := func(when string) {
		if v := vfC13HViewOf(hA, hF.ID()); v != beforeF {
			report("recorded-under-other-peer", "A's peerstore entry of the foreign host changed "+when, beforeF, v)
		}
		if k := hA.Peerstore().PubKey(hB.ID()); k != nil && !hB.ID().MatchesPublicKey(k) {
			report("key-not-matching-stored", "the key A stores for B does not hash to B "+when, nil, nil)
		}
		v := vfC13HViewOf(hA, hB.ID())
		if v.Addrs > 500 {
			report("address-cap-exceeded", when, 500, v.Addrs)
		}
		if v.Protos > 1024 {
			report("protocol-cap-exceeded", when, 1024, v.Protos)
		}
		for _, a := range hA.Peerstore().Addrs(hB.ID()) {
			if bare, _ := peer.SplitAddr(a); bare != nil && bare.Equal(ma.StringCast("/ip4/5.5.5.5/tcp/4001")) {
				report("foreign-suffixed-address-recorded", "A holds for B an address that B's message carried only with the /p2p suffix of the foreign host "+when, nil, a.String())
			}
			if _, id := peer.SplitAddr(a); id != "" && id != hB.ID() {
				report("L2:foreign-suffix-stored", "an address with a foreign /p2p suffix is stored for B", nil, a.String())
			}
		}
		for _, p := range hA.Peerstore().PeersWithAddrs() {
			if p != hA.ID() && p != hB.ID() && p != hF.ID() {
				report("recorded-under-other-peer", "A's peerstore lists an unknown peer "+when, nil, p.String())
			}
		}
	}
	audit("after the exchange")
	if v := vfC13HViewOf(hA, hB.ID()); v.Agent == "hostile-agent" {
		res.Inc("hostile_message_consumed", 1)
		if v.Addrs > 0 {
			res.Inc("hostile_addresses_recorded_for_B", 1)
		}
	}
	hA.Network().ClosePeer(hB.ID())
	hB.Network().ClosePeer(hA.ID())
	synctest.Wait()
	chans = append(chans, ids.IdentifyWait(conn))
	synctest.Wait()
	if n := stillOpen(); n > 0 {
		report("wait-never-released", fmt.Sprintf("%d of %d IdentifyWait channels still open after the connection was closed (fault %s)", n, len(chans), fault), 0, n)
	}
	time.Sleep(peerstore.RecentlyConnectedAddrTTL + peerstore.TempAddrTTL + time.Minute)
	synctest.Wait()
	if n := len(hA.Peerstore().Addrs(hB.ID())); n > 0 {
		report("connected-lifetime-without-connection", fmt.Sprintf("%d addresses of B outlive the recently-connected lifetime although no connection to B exists (fault %s)", n, fault), 0, n)
	}
	audit("at rest")
	res.Count(1, 1)
	res.Case(fmt.Sprintf("%s/%d", fault, kind))
	res.Inc("fault_"+fault, 1)
}
