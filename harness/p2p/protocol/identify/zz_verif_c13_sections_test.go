//go:build verif

package identify

// C13: the two address sections (consumeMessage's and netNotifiee.Disconnected's) are atomic with
// respect to each other in the model.  This probe stops a section at its Connectedness read (and
// consumeMessage also at its AddAddrs) and, IF the code lets it (addrMu is not held there), runs the
// racing section to completion right there, then lets the first one finish and probes the lifetimes.
// On code that holds addrMu across the read and the writes nothing can be interleaved and the
// scenario only records that fact.

import (
	"fmt"
	"testing"
	"testing/synctest"

	"github.com/libp2p/go-libp2p/internal/vfh"
)

func vfC13SectionCfg() vfC13Cfg {
	aw := map[string]int{"big": connectedPeerMaxAddrs - 2}
	pw := map[string]int{"pbig": maxPeerProtocols - 1}
	for _, t := range []string{"pa", "pb", "lo", "ra", "x", "fs", "rs", "sa", "sb", "us", "d4", "d4s", "df", "dfs"} {
		aw[t] = 1
	}
	for _, t := range []string{"p1", "p2", "idpush", "px"} {
		pw[t] = 1
	}
	return vfC13Cfg{Name: "sections", Conns: []string{"c1", "c2"}, RClass: map[string]string{"c1": "pub", "c2": "priv"},
		MaxProtos: maxPeerProtocols, MaxAddrs: connectedPeerMaxAddrs, RecentMax: recentlyConnectedPeerMaxAddrs,
		PsMaxProtos: 4096, PsMaxAddrs: 64, AW: aw, PW: pw}
}

func vfC13Op(name, c string, kv ...any) vfh.Op {
	op := vfh.Op{"name": name, "c": c, "evs": []any{}}
	for i := 0; i+1 < len(kv); i += 2 {
		op[fmt.Sprint(kv[i])] = kv[i+1]
	}
	return op
}

var vfC13BaseMsg = map[string]any{"pr": "few", "la": "own", "rec": "absent", "ra": "none", "key": "R", "meta": "v1"}
var vfC13BigMsg = map[string]any{"pr": "few", "la": "big", "rec": "absent", "ra": "none", "key": "R", "meta": "v1"}

func TestVerifC13Sections(t *testing.T) {
	res := vfh.NewResult()
	defer func() {
		if err := res.Write(); err != nil {
			t.Fatal(err)
		}
	}()
	if err := vfC13Init(); err != nil {
		t.Fatal(err)
	}
	res.Rule = "one scenario = one address section stopped at its Connectedness read (or at AddAddrs) with the racing section run in between if addrMu is not held there; lifetimes probed in virtual time afterwards"
	type scen struct {
		name   string
		gate   string // "conn" | "add"
		msg    map[string]any
		settle bool
		run    func(s *vfC13Sys, do func(vfh.Op), arm func(func()))
	}
	// common prefix: c1 open, notified, identified while connected
	prefix := func(do func(vfh.Op), msg map[string]any) {
		do(vfC13Op("open", "c1"))
		do(vfC13Op("connected", "c1"))
		do(vfC13Op("done", "c1", "m", msg, "evs", []any{"completed"}))
	}
	scens := []scen{}
	for _, msg := range []map[string]any{vfC13BaseMsg, vfC13BigMsg} {
		msg := msg
		scens = append(scens,
			// the last Disconnected decides "not connected", a new connection is identified, then it downgrades
			scen{"last-disconnect-vs-identify-on-new-connection", "conn", msg, false, func(s *vfC13Sys, do func(vfh.Op), arm func(func())) {
				prefix(do, msg)
				do(vfC13Op("close", "c1", "kill", true))
				arm(func() {
					do(vfC13Op("open", "c2"))
					do(vfC13Op("connected", "c2"))
					do(vfC13Op("done", "c2", "m", msg, "evs", []any{"completed"}))
				})
				do(vfC13Op("disconnected", "c1"))
			}},
			// a push decides "connected", the connection closes and is notified, then the push writes
			scen{"push-vs-last-disconnect", "conn", msg, true, func(s *vfC13Sys, do func(vfh.Op), arm func(func())) {
				prefix(do, msg)
				arm(func() {
					do(vfC13Op("close", "c1", "kill", true))
					do(vfC13Op("disconnected", "c1"))
				})
				do(vfC13Op("push", "c1", "m", msg, "evs", []any{"protocols", "completed"}))
			}},
			scen{"push-write-vs-last-disconnect", "add", msg, true, func(s *vfC13Sys, do func(vfh.Op), arm func(func())) {
				prefix(do, msg)
				arm(func() {
					do(vfC13Op("close", "c1", "kill", true))
					do(vfC13Op("disconnected", "c1"))
				})
				do(vfC13Op("push", "c1", "m", msg, "evs", []any{"protocols", "completed"}))
			}},
			// with a second connection: the last two Disconnected notifications against each other
			scen{"disconnect-vs-disconnect", "conn", msg, true, func(s *vfC13Sys, do func(vfh.Op), arm func(func())) {
				prefix(do, msg)
				do(vfC13Op("open", "c2"))
				do(vfC13Op("connected", "c2"))
				do(vfC13Op("close", "c1", "kill", true))
				arm(func() {
					do(vfC13Op("close", "c2", "kill", true))
					do(vfC13Op("disconnected", "c2"))
				})
				do(vfC13Op("disconnected", "c1"))
			}},
		)
	}
	atomic, raced := 0, 0
	for i, sc := range scens {
		synctest.Test(t, func(t *testing.T) {
			sys, err := vfC13New(vfC13SectionCfg(), vfh.Seed()*31+int64(i))
			if err != nil {
				t.Fatal(err)
			}
			defer sys.close()
			synctest.Wait()
			var prefixOps []vfh.Op
			report := func(m vfC13MM) {
				res.AddMismatch(vfh.Mismatch{Class: m.Class, What: sc.name + ": " + m.What, Walk: -1, Step: len(prefixOps), Expected: m.Exp, Got: m.Got,
					Prefix: append([]vfh.Op{}, prefixOps...), Cfg: map[string]any{"scenario": sc.name, "gate": sc.gate}})
			}
			var do func(op vfh.Op)
			do = func(op vfh.Op) {
				prefixOps = append(prefixOps, op)
				mm, err := sys.apply(op)
				if err != nil {
					t.Fatalf("%s: %v", sc.name, err)
				}
				mm = append(mm, sys.check(op, nil)...)
				for _, m := range mm {
					if m.Class == "L2:events" || m.Class == "L2:wait-result" {
						continue // the scenario does not predict them
					}
					report(m)
				}
				res.Count(0, 1)
			}
			arm := func(racer func()) {
				g := func(held bool) {
					if held {
						atomic++
						return
					}
					raced++
					// apply() keeps per-step scratch: save what the outer step has collected so far
					calls, reads := append([]vfC13Call{}, sys.ps.calls...), append([]vfC13ConnRead{}, sys.connReads...)
					racer()
					sys.ps.calls, sys.connReads = calls, reads
				}
				if sc.gate == "conn" {
					sys.gate = g
				} else {
					sys.addGate = g
				}
			}
			sc.run(sys, do, arm)
			if sys.gate != nil || sys.addGate != nil {
				t.Fatalf("%s: the gate was never reached", sc.name)
			}
			fm := sys.finish(sc.settle)
			for _, m := range fm[:len(fm)-1] {
				report(m)
			}
			res.Count(1, 0)
			res.Case(sc.name + fmt.Sprint(sc.msg["la"]))
		})
	}
	res.Set("sections_found_atomic", atomic)
	res.Set("sections_interleaved", raced)
}
