//go:build verif

package identify

// C13, cross-peer part (spec/C13_Cross.tla): several authenticated peers, each on its own stub
// connection to the real idService; every peer owns three blobs that travel byte for byte - its
// signed peer record, its public key, its listen address - and a peer may put a COPY of another
// peer's blob into its own identify response or push, before (cold) or after (warm) the owner has
// had it accepted on its own connection.  The walks come from the TLC graph whose states carry that
// history, so "accepted from V, then replayed by S" and "replayed cold, then V, then replayed again"
// are executed on response and on push.  After every step the peerstore entries of ALL peers are
// read: L1 = a message on X's connection changes nothing under another peer; no address certified by
// Y's record is stored under X; a stored key hashes to its peer; a record reported as used was sealed
// by and names the connection's remote.  L2 = equality with the model (addresses, key).

import (
	"crypto/rand"
	"encoding/json"
	"fmt"
	"path/filepath"
	"sort"
	"strings"
	"sync"
	"testing"
	"testing/synctest"
	"time"

	"github.com/libp2p/go-libp2p/core/crypto"
	"github.com/libp2p/go-libp2p/core/event"
	"github.com/libp2p/go-libp2p/core/peer"
	"github.com/libp2p/go-libp2p/core/record"
	"github.com/libp2p/go-libp2p/internal/vfh"
	"github.com/libp2p/go-libp2p/p2p/protocol/identify/pb"
	ma "github.com/multiformats/go-multiaddr"
)

type vfC13XPeer struct {
	name   string
	priv   crypto.PrivKey
	id     peer.ID
	key    []byte       // marshalled public key, as it travels
	rec    []byte       // sealed peer record, as it travels
	listen ma.Multiaddr // token l:<name>
	cert   ma.Multiaddr // token r:<name>, certified by rec
	raddr  ma.Multiaddr // remote address of its connections
}

var (
	vfC13XMu    sync.Mutex
	vfC13XPeers = map[string]*vfC13XPeer{}
)

func vfC13XGet(name string) (*vfC13XPeer, error) {
	vfC13XMu.Lock()
	defer vfC13XMu.Unlock()
	if p, ok := vfC13XPeers[name]; ok {
		return p, nil
	}
	i := len(vfC13XPeers) + 1
	sk, pk, err := crypto.GenerateECDSAKeyPair(rand.Reader)
	if err != nil {
		return nil, err
	}
	id, err := peer.IDFromPublicKey(pk)
	if err != nil {
		return nil, err
	}
	p := &vfC13XPeer{name: name, priv: sk, id: id,
		listen: ma.StringCast(fmt.Sprintf("/ip4/21.0.0.%d/tcp/4001", i)),
		cert:   ma.StringCast(fmt.Sprintf("/ip4/22.0.0.%d/udp/4001/quic-v1", i)),
		raddr:  ma.StringCast(fmt.Sprintf("/ip4/23.0.0.%d/tcp/1000", i))}
	if p.key, err = crypto.MarshalPublicKey(pk); err != nil {
		return nil, err
	}
	env, err := record.Seal(&peer.PeerRecord{PeerID: id, Addrs: []ma.Multiaddr{p.cert}, Seq: 1}, sk)
	if err != nil {
		return nil, err
	}
	if p.rec, err = env.Marshal(); err != nil {
		return nil, err
	}
	vfC13XPeers[name] = p
	return p, nil
}

type vfC13XView struct {
	Addrs []string `json:"addrs"`
	Key   string   `json:"key"`
	Agent string   `json:"agent"`
	Protos int     `json:"protos"`
}

type vfC13XSys struct {
	*vfC13Sys
	peers  []*vfC13XPeer
	byName map[string]*vfC13XPeer
	cur    map[string]*vfC13Conn // the open connection of a peer
	fed    map[*vfC13Conn]bool   // its identify request has been answered
	nconn  int
	want   map[string]vfC13XView // the model's ledger of every peer (L2)
}

func (x *vfC13XSys) tokenOf(a ma.Multiaddr) string {
	for _, p := range x.peers {
		if a.Equal(p.listen) {
			return "l:" + p.name
		}
		if a.Equal(p.cert) {
			return "r:" + p.name
		}
	}
	return "?" + a.String()
}

func (x *vfC13XSys) viewOf(id peer.ID) vfC13XView {
	v := vfC13XView{Addrs: []string{}, Key: "none"}
	for _, a := range x.ps.Peerstore.Addrs(id) {
		v.Addrs = append(v.Addrs, x.tokenOf(a))
	}
	sort.Strings(v.Addrs)
	if k := x.ps.PubKey(id); k != nil {
		v.Key = "other"
		for _, p := range x.peers {
			if k.Equals(p.priv.GetPublic()) {
				v.Key = p.name
			}
		}
	}
	if a, err := x.ps.Get(id, "AgentVersion"); err == nil {
		v.Agent = fmt.Sprint(a)
	}
	if id != "" {
		pr, _ := x.ps.GetProtocols(id)
		v.Protos = len(pr)
	}
	return v
}

func (x *vfC13XSys) all() map[string]vfC13XView {
	out := map[string]vfC13XView{"F": x.viewOf(vfC13G.idF), "L": x.viewOf(vfC13G.idL), "R": x.viewOf(vfC13G.idR)}
	for _, p := range x.peers {
		out[p.name] = x.viewOf(p.id)
	}
	known := map[peer.ID]bool{vfC13G.idF: true, vfC13G.idL: true, vfC13G.idR: true}
	for _, p := range x.peers {
		known[p.id] = true
	}
	for _, id := range append(x.ps.Peers(), x.ps.PeersWithAddrs()...) {
		if !known[id] {
			out["unlisted:"+id.String()] = x.viewOf(id)
		}
	}
	return out
}

func (x *vfC13XSys) connect(p *vfC13XPeer) *vfC13Conn {
	x.nconn++
	name := fmt.Sprintf("%s#%d", p.name, x.nconn)
	c := &vfC13Conn{sys: x.vfC13Sys, name: name, raddr: p.raddr, rp: p.id, rpk: p.priv.GetPublic()}
	x.conns[name] = c
	x.order = append(x.order, name)
	x.cur[p.name] = c
	x.notifiees[0].Connected(x.net, c)
	synctest.Wait()
	return c
}

func (x *vfC13XSys) disconnect(p *vfC13XPeer) {
	c := x.cur[p.name]
	if c == nil {
		return
	}
	c.mu.Lock()
	c.closed = true
	loc := append([]*vfC13Stream{}, c.local...)
	c.mu.Unlock()
	for _, l := range loc {
		l.reset()
	}
	synctest.Wait()
	x.notifiees[0].Disconnected(x.net, c)
	synctest.Wait()
	delete(x.cur, p.name)
}

func (x *vfC13XSys) step(op vfh.Op) ([]vfC13MM, error) {
	var mm []vfC13MM
	sender := x.byName[op.S("x")]
	if sender == nil {
		return nil, fmt.Errorf("unknown peer in %v", op)
	}
	m := op.M("m")
	str := func(k string) string { v, _ := m[k].(string); return v }
	mes := &pb.Identify{Protocols: []string{"/vf/p1", "/vf/" + sender.name}}
	av, pv := "agent-"+sender.name, "pv-"+sender.name
	mes.AgentVersion, mes.ProtocolVersion = &av, &pv
	mes.ObservedAddr = ma.StringCast("/ip4/3.3.3.3/tcp/5555").Bytes()
	if o := x.byName[str("la")]; o != nil {
		mes.ListenAddrs = [][]byte{o.listen.Bytes()}
	}
	if o := x.byName[str("key")]; o != nil {
		mes.PublicKey = o.key // the owner's bytes, verbatim
	}
	if o := x.byName[str("rec")]; o != nil {
		mes.SignedPeerRecord = o.rec // the owner's envelope, verbatim
	}
	mode := vfC13ChunkModes[x.rnd.Intn(len(vfC13ChunkModes))]
	frames, used, err := vfC13Frames(mes, mode)
	if err != nil {
		return nil, err
	}
	x.chunkModes[used]++
	before := x.all()
	x.drain()
	switch op.Name() {
	case "push":
		c := x.cur[sender.name]
		if c == nil {
			c = x.connect(sender)
		}
		x.ids.handlePush(x.inbound(c, frames, false))
		synctest.Wait()
	case "done":
		c := x.cur[sender.name]
		if c == nil || x.fed[c] {
			x.disconnect(sender)
			c = x.connect(sender)
		}
		x.fed[c] = true
		if err := x.feed(c, frames, false, false); err != nil {
			return nil, err
		}
	default:
		return nil, fmt.Errorf("unknown op %q", op.Name())
	}
	completed := 0
	for _, e := range x.drain() {
		switch ev := e.(type) {
		case event.EvtPeerIdentificationCompleted:
			completed++
			if ev.Peer != sender.id {
				mm = append(mm, vfC13MM{"event-names-other-peer", "EvtPeerIdentificationCompleted.Peer", sender.name, ev.Peer.String()})
			}
			if ev.SignedPeerRecord != nil {
				if msg := vfC13RecordOKFor(ev.SignedPeerRecord, sender.id); msg != "" {
					mm = append(mm, vfC13MM{"invalid-record-used", fmt.Sprintf("EvtPeerIdentificationCompleted on %s's connection carries a signed record that %s (record of %s, replay %s)", sender.name, msg, str("rec"), op.S("replay")), nil, nil})
				}
			}
			if (ev.SignedPeerRecord != nil) != op.B("used") {
				mm = append(mm, vfC13MM{"L2:record-use", "signed record reported as used", op.B("used"), ev.SignedPeerRecord != nil})
			}
		case event.EvtPeerIdentificationFailed:
			mm = append(mm, vfC13MM{"L2:events", "identification failed for " + ev.Peer.String(), nil, fmt.Sprint(ev.Reason)})
		case event.EvtPeerProtocolsUpdated:
			if ev.Peer != sender.id {
				mm = append(mm, vfC13MM{"event-names-other-peer", "EvtPeerProtocolsUpdated.Peer", sender.name, ev.Peer.String()})
			}
		}
	}
	if completed != 1 {
		mm = append(mm, vfC13MM{"L2:events", "identification-completed events for one message", 1, completed})
	}
	after := x.all()
	// L1: nothing changes under any other peer
	for n, v := range after {
		if n == sender.name {
			continue
		}
		b, ok := before[n]
		if !ok {
			b = vfC13XView{Addrs: []string{}, Key: "none"}
		}
		if vfh.Canon(b) != vfh.Canon(v) {
			mm = append(mm, vfC13MM{"recorded-under-other-peer", fmt.Sprintf("a message on %s's connection changed the peerstore entry of %s", sender.name, n), b, v})
		}
	}
	// L1: certified addresses stem from a record of the peer itself; keys hash to the peer
	for _, p := range x.peers {
		for _, t := range after[p.name].Addrs {
			if p == sender && strings.HasPrefix(t, "r:") && t != "r:"+p.name {
				mm = append(mm, vfC13MM{"invalid-record-used", fmt.Sprintf("the address certified by the signed record of %s is recorded under %s (%s by %s, record replay %s)", t[2:], p.name, op.Name(), sender.name, op.S("replay")), nil, after[p.name].Addrs})
			}
		}
		if k := x.ps.PubKey(p.id); p == sender && k != nil && !p.id.MatchesPublicKey(k) {
			mm = append(mm, vfC13MM{"key-not-matching-stored", fmt.Sprintf("the key stored for %s does not hash to it (%s by %s, key replay %s)", p.name, op.Name(), sender.name, op.S("keyreplay")), "none|" + p.name, after[p.name].Key})
		}
	}
	// L2: the model's ledger
	var set []string
	for _, t := range op.L("set") {
		if l, ok := t.([]any); ok && len(l) == 2 {
			set = append(set, fmt.Sprintf("%v:%v", l[0], l[1]))
		}
	}
	sort.Strings(set)
	if set == nil {
		set = []string{}
	}
	w := x.want[sender.name]
	w.Addrs, w.Key = set, op.S("key")
	x.want[sender.name] = w
	for _, p := range x.peers {
		got, want := after[p.name], x.want[p.name]
		if fmt.Sprint(got.Addrs) != fmt.Sprint(want.Addrs) {
			mm = append(mm, vfC13MM{"L2:addrs", fmt.Sprintf("addresses of %s after %s by %s (record replay %s, own record after a foreign presentation: %v)", p.name, op.Name(), sender.name, op.S("replay"), op.B("aftercold")), want.Addrs, got.Addrs})
		}
		if got.Key != want.Key {
			mm = append(mm, vfC13MM{"L2:key", fmt.Sprintf("key of %s after %s by %s", p.name, op.Name(), sender.name), want.Key, got.Key})
		}
	}
	return mm, nil
}

func TestVerifC13Cross(t *testing.T) {
	res := vfh.NewResult()
	defer func() {
		if err := res.Write(); err != nil {
			t.Fatal(err)
		}
	}()
	defer vfC13Watchdog(res, "cross-peer replay")()
	if err := vfC13Init(); err != nil {
		t.Fatal(err)
	}
	files, _ := filepath.Glob(filepath.Join(vfh.In(), "*.jsonl"))
	if len(files) == 0 {
		t.Fatalf("no behaviour files in %q", vfh.In())
	}
	res.Rule = "one case = one (history state, sender, message made of own or copied blobs, response|push) transition of the TLC graph of C13_Cross executed on the real idService with one stub connection per peer; the peerstore entries of all peers are read before and after"
	var mu sync.Mutex
	modes := map[string]int{}
	shards := vfh.EnvInt("VERIF_C13_SHARDS", 4)
	t.Run("g", func(t *testing.T) {
		for _, f := range files {
			hdr, walks, err := vfh.LoadWalks(f)
			if err != nil {
				t.Fatalf("%s: %v", f, err)
			}
			var conf struct {
				Peers []string `json:"peers"`
			}
			b, _ := json.Marshal(hdr["conf"])
			if err := json.Unmarshal(b, &conf); err != nil || len(conf.Peers) < 2 {
				t.Fatalf("%s: bad conf %s", f, b)
			}
			sort.Strings(conf.Peers)
			var peers []*vfC13XPeer
			for _, n := range conf.Peers {
				p, err := vfC13XGet(n)
				if err != nil {
					t.Fatal(err)
				}
				peers = append(peers, p)
			}
			inst, _ := hdr["name"].(string)
			for sh := 0; sh < shards; sh++ {
				t.Run(fmt.Sprintf("%s-%d", inst, sh), func(t *testing.T) {
					t.Parallel()
					for wi, w := range walks {
						if wi%shards != sh {
							continue
						}
						lax := (int(vfh.Seed())+w.Walk)%2 == 0
						synctest.Test(t, func(t *testing.T) {
							cfg := vfC13SectionCfg()
							cfg.Name, cfg.Lax = inst, lax
							base, err := vfC13New(cfg, vfh.Seed()*1000033+int64(w.Walk))
							if err != nil {
								t.Fatal(err)
							}
							x := &vfC13XSys{vfC13Sys: base, peers: peers, byName: map[string]*vfC13XPeer{}, cur: map[string]*vfC13Conn{},
								fed: map[*vfC13Conn]bool{}, want: map[string]vfC13XView{}}
							for _, p := range peers {
								x.byName[p.name] = p
								x.want[p.name] = vfC13XView{Addrs: []string{}, Key: "none"}
							}
							defer base.close()
							synctest.Wait()
							var prefix []vfh.Op
							prevKey := string(w.Init)
							degraded := false
							for i, stp := range w.Steps {
								prefix = append(prefix, stp.Op)
								vfC13Progress.Add(1)
								mm, err := x.step(stp.Op)
								if err != nil {
									t.Fatalf("walk %d step %d: %v", w.Walk, i, err)
								}
								res.Case(inst + "|" + prevKey + "|" + vfh.Canon(stp.Op))
								prevKey = string(stp.State)
								res.Count(0, 1)
								for _, m := range mm {
									l2 := strings.HasPrefix(m.Class, "L2:")
									if degraded && l2 {
										continue
									}
									res.AddMismatch(vfh.Mismatch{Class: m.Class, What: m.What, Walk: w.Walk, Step: i, Expected: m.Exp, Got: m.Got,
										Prefix: append([]vfh.Op{}, prefix...), Cfg: map[string]any{"instance": inst, "file": filepath.Base(f), "lax_keybook": lax}})
									if l2 {
										degraded = true
									}
								}
							}
							// rest: every connection closed and notified, identifies in flight run into their deadline
							for _, p := range peers {
								x.disconnect(p)
							}
							time.Sleep(base.ids.timeout + time.Second)
							synctest.Wait()
							res.Count(1, 0)
							mu.Lock()
							for k, v := range base.chunkModes {
								modes[k] += v
							}
							if lax {
								modes["lax_keybook_walks"]++
							}
							mu.Unlock()
							if w.Walk == 0 && len(w.Steps) > 0 {
								k := len(w.Steps)
								if k > 5 {
									k = 5
								}
								res.Sample(map[string]any{"instance": inst, "first_steps": w.Steps[:k]})
							}
						})
					}
				})
			}
		}
	})
	res.Set("chunk_modes", modes)
}
