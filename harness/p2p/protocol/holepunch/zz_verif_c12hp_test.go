//go:build verif

package holepunch

// C12, hole-punching part: "hole punching is coordinated only over a relayed connection, dials only the
// peer's non-relay addresses and reports success only when a direct connection exists".
//
// spec -> code: every transition of the printed state graph of spec/C12_HolePunch.tla is replayed on a real
// holepunch.Service (initiator: Service.DirectConnect / the network notifiee; responder: the stream handler
// the service registers) that runs on a FAKE host inside a testing/synctest bubble.  Every point where the
// code waits for its environment (host.Connect, host.NewStream, a message written to / read from the
// coordination stream) is a gate: the code blocks there until the walker answers as the model step says, and
// after every step the gate the code waits at, its arguments, the return value, tracer events, what happened
// to the stream and the projected state are compared with the model (disagreement = class "L2:...").
// code -> spec: the fake host logs every call it receives (context flags, AddrInfo, the addresses the host
// would hand to its dialer, which connection a stream rides) and the harness logs results; the statement's
// clauses are monitors over that ledger (classes without prefix = L1) and the same ledger is written as
// ndjson for TLC to validate against spec/C12_HolePunchObs.tla.
//
// The fake host's Connect/NewStream follow BasicHost.Connect/NewStream + Swarm.dialPeer/NewStream for the
// context flags: without force-direct any acceptable existing connection satisfies Connect and relay
// addresses are dialled; with force-direct only a non-proxied connection counts and relay addresses are
// filtered; NewStream rides the best connection (not limited first, then not proxied).

import (
	"context"
	"encoding/binary"
	"encoding/json"
	"errors"
	"fmt"
	"math/rand"
	"os"
	"path/filepath"
	"sort"
	"strings"
	"sync"
	"sync/atomic"
	"testing"
	"testing/synctest"
	"time"

	"github.com/libp2p/go-libp2p/core/host"
	"github.com/libp2p/go-libp2p/core/network"
	"github.com/libp2p/go-libp2p/core/peer"
	"github.com/libp2p/go-libp2p/core/peerstore"
	"github.com/libp2p/go-libp2p/core/protocol"
	"github.com/libp2p/go-libp2p/internal/vfh"
	"github.com/libp2p/go-libp2p/p2p/host/peerstore/pstoremem"
	"github.com/libp2p/go-libp2p/p2p/protocol/holepunch/pb"
	"github.com/libp2p/go-libp2p/p2p/protocol/identify"
	ma "github.com/multiformats/go-multiaddr"
	"google.golang.org/protobuf/proto"
)

const (
	vfHPRelayID  = "12D3KooWD3eckifWpRn9wQpMG9R9hX3sD158z7EqHWmweQAJU5SA"
	vfHPRemoteID = "QmYyQSo1c1Ym7orWxLYvCrM2EmxFTANf8wXmmE7DWjhx5N"
	vfHPLocalID  = "QmcgpsyWgH8Y8ajJz1Cu72KnS5uo2Aa2LpzU7kinSupNKC"

	vfHPDialTimeout   = 300 * time.Millisecond
	vfHPStreamTimeout = 500 * time.Millisecond
	vfHPRTT           = 40 * time.Millisecond
)

var (
	vfHPTok  = map[string]ma.Multiaddr{}
	vfHPName = map[string]string{} // string(addr bytes) -> token
	vfHPJunk = []byte{0xff, 0xff, 0xff, 0x01}
)

func init() {
	for tok, s := range map[string]string{
		"pP": "/ip4/1.2.3.4/tcp/4001",
		"pV": "/ip4/10.1.2.3/tcp/4001",
		"pR": "/ip4/9.9.9.9/tcp/4001/p2p/" + vfHPRelayID + "/p2p-circuit",
		"mP": "/ip4/2.3.4.5/udp/4001/quic-v1",
		"mV": "/ip4/192.168.7.7/tcp/4001",
		"mR": "/ip4/6.7.8.9/tcp/4001/p2p/" + vfHPRelayID + "/p2p-circuit/p2p/" + vfHPRemoteID,
		"mS": "/ip4/10.9.8.7/udp/4001/quic-v1/p2p/" + vfHPRelayID + "/p2p-circuit",
		"oP": "/ip4/7.7.7.7/tcp/4001",
		"oR": "/ip4/8.8.4.4/udp/4001/quic-v1/p2p/" + vfHPRelayID + "/p2p-circuit",
	} {
		a := ma.StringCast(s)
		vfHPTok[tok] = a
		vfHPName[string(a.Bytes())] = tok
		// the peerstore drops a trailing /p2p/<the peer itself>
		if b, last := ma.SplitLast(a); last != nil && last.Protocol().Code == ma.P_P2P && b != nil {
			if _, ok := vfHPName[string(b.Bytes())]; !ok {
				vfHPName[string(b.Bytes())] = tok
			}
		}
	}
}

func vfHPTokenOf(a ma.Multiaddr) string {
	if a == nil {
		return "?nil"
	}
	if t, ok := vfHPName[string(a.Bytes())]; ok {
		return t
	}
	return "?" + a.String()
}

// relay-ness as the harness sees it: by the token table, else textually (independent of isRelayAddress)
func vfHPIsRelayTok(tok string) bool {
	if len(tok) == 2 {
		return tok[1] == 'R' || tok[1] == 'S'
	}
	return strings.Contains(tok, "/p2p-circuit")
}

func vfHPToks(as []ma.Multiaddr) []string {
	out := make([]string, 0, len(as))
	for _, a := range as {
		out = append(out, vfHPTokenOf(a))
	}
	sort.Strings(out)
	return out
}

func vfHPAddrRecs(toks []string) []any {
	out := make([]any, 0, len(toks))
	for _, t := range toks {
		out = append(out, map[string]any{"a": t, "relay": vfHPIsRelayTok(t)})
	}
	return out
}

// ---------------------------------------------------------------- fakes

type vfHPConn struct {
	network.Conn // nil: anything not implemented below must not be used
	w            *vfHPWorld
	id           string
	kind         string // D | L | U
	raddr        ma.Multiaddr
	dir          network.Direction
	closed       bool
}

func (c *vfHPConn) relay() bool                   { return c.kind != "D" }
func (c *vfHPConn) limited() bool                 { return c.kind == "L" }
func (c *vfHPConn) ID() string                    { return c.id }
func (c *vfHPConn) LocalPeer() peer.ID            { return c.w.local }
func (c *vfHPConn) RemotePeer() peer.ID           { return c.w.remote }
func (c *vfHPConn) LocalMultiaddr() ma.Multiaddr  { return ma.StringCast("/ip4/100.64.0.1/tcp/4001") }
func (c *vfHPConn) RemoteMultiaddr() ma.Multiaddr { return c.raddr }
func (c *vfHPConn) IsClosed() bool                { c.w.mu.Lock(); defer c.w.mu.Unlock(); return c.closed }
func (c *vfHPConn) Close() error {
	return errors.New("vf: the hole puncher must not close connections")
}
func (c *vfHPConn) String() string { return "vfconn-" + c.id }
func (c *vfHPConn) Stat() network.ConnStats {
	c.w.mu.Lock()
	defer c.w.mu.Unlock()
	return network.ConnStats{Stats: network.Stats{Direction: c.dir, Limited: c.limited()}}
}

type vfHPScope struct {
	*network.NullScope
	mode     string // ok | svcfail | memfail
	reserved int
	service  string
}

func (s *vfHPScope) SetService(svc string) error {
	if s.mode == "svcfail" {
		return errors.New("vf: SetService refused")
	}
	s.service = svc
	return nil
}
func (s *vfHPScope) ReserveMemory(n int, _ uint8) error {
	if s.mode == "memfail" {
		return errors.New("vf: ReserveMemory refused")
	}
	s.reserved += n
	return nil
}
func (s *vfHPScope) ReleaseMemory(n int) { s.reserved -= n }

type vfHPAns struct {
	out  string // connect: ok|fail ; newstream: ok|fail|svcfail|memfail ; write: ok|err ; read: data|err
	data []byte
}

type vfHPGate struct {
	kind   string // connect | newstream | write | read
	side   string
	force  bool
	sim    string // none | client | server
	allow  bool
	nodial bool
	addrs  []string
	dialed []string
	dl     time.Duration // context deadline minus now (-1: none)
	mtype  string
	maddrs []string
	resp   chan vfHPAns
}

type vfHPStream struct {
	network.Stream // nil
	w              *vfHPWorld
	id             string
	c              *vfHPConn
	side           string
	scope          *vfHPScope
	wbuf           []byte
	rbuf           []byte
	nwrite, nread  int // complete messages written / read answers delivered
	deadline       time.Time
	closedN        int
	resetN         int
}

func (s *vfHPStream) ID() string                    { return s.id }
func (s *vfHPStream) Conn() network.Conn            { return s.c }
func (s *vfHPStream) Scope() network.StreamScope    { return s.scope }
func (s *vfHPStream) Protocol() protocol.ID         { return Protocol }
func (s *vfHPStream) SetProtocol(protocol.ID) error { return nil }
func (s *vfHPStream) Stat() network.Stats           { return network.Stats{Direction: s.c.dir} }
func (s *vfHPStream) SetDeadline(t time.Time) error {
	s.w.mu.Lock()
	s.deadline = t
	s.w.mu.Unlock()
	return nil
}
func (s *vfHPStream) SetReadDeadline(t time.Time) error              { return s.SetDeadline(t) }
func (s *vfHPStream) SetWriteDeadline(t time.Time) error             { return nil }
func (s *vfHPStream) CloseRead() error                               { return nil }
func (s *vfHPStream) CloseWrite() error                              { return nil }
func (s *vfHPStream) ResetWithError(_ network.StreamErrorCode) error { return s.Reset() }
func (s *vfHPStream) ended() bool                                    { return s.closedN > 0 || s.resetN > 0 }
func (s *vfHPStream) Close() error {
	s.w.mu.Lock()
	s.closedN++
	s.w.mu.Unlock()
	return nil
}
func (s *vfHPStream) Reset() error {
	s.w.mu.Lock()
	s.resetN++
	s.w.mu.Unlock()
	return nil
}

// Write collects bytes; the call that completes a length-delimited message waits at the write gate.
func (s *vfHPStream) Write(p []byte) (int, error) {
	w := s.w
	w.mu.Lock()
	if s.ended() {
		w.mu.Unlock()
		return 0, network.ErrReset
	}
	s.wbuf = append(s.wbuf, p...)
	l, n := binary.Uvarint(s.wbuf)
	if n <= 0 || uint64(len(s.wbuf)-n) < l {
		w.mu.Unlock()
		return len(p), nil
	}
	body := s.wbuf[n : n+int(l)]
	s.wbuf = append([]byte{}, s.wbuf[n+int(l):]...)
	var msg pb.HolePunch
	g := &vfHPGate{kind: "write", side: s.side, resp: make(chan vfHPAns, 1), mtype: "?", maddrs: []string{}}
	if err := proto.Unmarshal(body, &msg); err == nil {
		g.mtype = msg.GetType().String()
		for _, b := range msg.ObsAddrs {
			a, err := ma.NewMultiaddrBytes(b)
			if err != nil {
				g.maddrs = append(g.maddrs, "?bytes")
				continue
			}
			g.maddrs = append(g.maddrs, vfHPTokenOf(a))
		}
		sort.Strings(g.maddrs)
	}
	w.emitLocked("s_write", "side", s.side, "type", g.mtype, "c", s.c.id, "relayed", s.c.relay(), "addrs", vfHPAddrRecs(g.maddrs))
	if s.side == "R" && !s.c.relay() {
		w.l1Locked("holepunch-coordinated-over-direct-conn", fmt.Sprintf("the responder wrote %s on a stream that rides the direct connection %s", g.mtype, s.c.id))
	}
	w.gate = g
	w.mu.Unlock()
	ans := <-g.resp
	if ans.out != "ok" {
		return 0, network.ErrReset
	}
	w.mu.Lock()
	s.nwrite++
	w.mu.Unlock()
	return len(p), nil
}

// Read waits at the read gate unless bytes of an earlier answer are left.
func (s *vfHPStream) Read(p []byte) (int, error) {
	w := s.w
	w.mu.Lock()
	if len(s.rbuf) > 0 {
		n := copy(p, s.rbuf)
		s.rbuf = s.rbuf[n:]
		w.mu.Unlock()
		return n, nil
	}
	if s.ended() {
		w.mu.Unlock()
		return 0, network.ErrReset
	}
	g := &vfHPGate{kind: "read", side: s.side, resp: make(chan vfHPAns, 1)}
	var dlc <-chan time.Time
	if !s.deadline.IsZero() {
		g.dl = time.Until(s.deadline)
		tm := time.NewTimer(g.dl)
		defer tm.Stop()
		dlc = tm.C
	} else {
		g.dl = -1
	}
	w.gate = g
	w.mu.Unlock()
	select {
	case ans := <-g.resp:
		if ans.out != "data" {
			return 0, network.ErrReset
		}
		w.mu.Lock()
		s.nread++
		n := copy(p, ans.data)
		s.rbuf = append(s.rbuf, ans.data[n:]...)
		w.mu.Unlock()
		return n, nil
	case <-dlc:
		w.mu.Lock()
		if w.gate == g {
			w.gate = nil
		}
		w.mu.Unlock()
		return 0, os.ErrDeadlineExceeded
	}
}

type vfHPNet struct {
	network.Network // nil
	w               *vfHPWorld
}

func (n *vfHPNet) LocalPeer() peer.ID             { return n.w.local }
func (n *vfHPNet) Peerstore() peerstore.Peerstore { return n.w.ps }
func (n *vfHPNet) Notify(f network.Notifiee) {
	n.w.mu.Lock()
	n.w.notifs = append(n.w.notifs, f)
	n.w.mu.Unlock()
}
func (n *vfHPNet) StopNotify(network.Notifiee) {}
func (n *vfHPNet) ConnsToPeer(p peer.ID) []network.Conn {
	n.w.mu.Lock()
	defer n.w.mu.Unlock()
	out := []network.Conn{}
	if p != n.w.remote {
		return out
	}
	for _, c := range n.w.conns {
		out = append(out, c)
	}
	return out
}
func (n *vfHPNet) Connectedness(p peer.ID) network.Connectedness {
	n.w.mu.Lock()
	defer n.w.mu.Unlock()
	return n.w.connectednessLocked()
}

type vfHPHost struct {
	host.Host // nil
	w         *vfHPWorld
}

func (h *vfHPHost) ID() peer.ID                    { return h.w.local }
func (h *vfHPHost) Peerstore() peerstore.Peerstore { return h.w.ps }
func (h *vfHPHost) Network() network.Network       { return h.w.net }
func (h *vfHPHost) Addrs() []ma.Multiaddr          { return h.w.listenAddrs() }
func (h *vfHPHost) SetStreamHandler(p protocol.ID, f network.StreamHandler) {
	h.w.mu.Lock()
	if p == Protocol {
		h.w.handler = f
	}
	h.w.mu.Unlock()
}
func (h *vfHPHost) RemoveStreamHandler(p protocol.ID) {
	h.w.mu.Lock()
	if p == Protocol {
		h.w.handler = nil
	}
	h.w.mu.Unlock()
}

// Connect follows BasicHost.Connect + Swarm.dialPeer (bestAcceptableConnToPeer, addrsForDial); the dial
// itself is the gate.
func (h *vfHPHost) Connect(ctx context.Context, pi peer.AddrInfo) error {
	w := h.w
	w.ps.AddAddrs(pi.ID, pi.Addrs, peerstore.TempAddrTTL)
	force, _ := network.GetForceDirectDial(ctx)
	allow, _ := network.GetAllowLimitedConn(ctx)
	simc, isClient, _ := network.GetSimultaneousConnect(ctx)
	sim := "none"
	if simc {
		sim = "server"
		if isClient {
			sim = "client"
		}
	}
	w.mu.Lock()
	g := &vfHPGate{kind: "connect", side: w.side, force: force, sim: sim, allow: allow, resp: make(chan vfHPAns, 1), dl: -1}
	if d, ok := ctx.Deadline(); ok {
		g.dl = time.Until(d)
	}
	g.addrs = vfHPToks(pi.Addrs)
	g.dialed = []string{}
	if !w.acceptableLocked(force, allow) {
		g.dialed = w.dialSetLocked(force)
	}
	w.emitLocked("connect_call", "side", w.side, "force", force, "sim", sim, "addrs", vfHPAddrRecs(g.addrs), "dialed", vfHPAddrRecs(g.dialed))
	if !force {
		w.l1Locked("holepunch-connect-without-force-direct", fmt.Sprintf("host.Connect(%v) during a hole punch does not demand a direct connection", g.addrs))
	}
	for _, a := range append(append([]string{}, g.addrs...), g.dialed...) {
		if vfHPIsRelayTok(a) {
			w.l1Locked("holepunch-dials-relay-address", fmt.Sprintf("relay address %s handed to host.Connect / dialled by the host (addrs %v, dialled %v)", a, g.addrs, g.dialed))
			break
		}
	}
	if w.side == "R" && w.rstream != nil && !w.rstream.c.relay() {
		w.l1Locked("holepunch-coordinated-over-direct-conn", "the responder punches after a coordination over the direct connection "+w.rstream.c.id)
	}
	w.gate = g
	w.mu.Unlock()
	var ans vfHPAns
	select {
	case ans = <-g.resp:
	case <-ctx.Done():
		w.mu.Lock()
		if w.gate == g {
			w.gate = nil
		}
		w.emitLocked("connect_ret", "res", "err", "force", force)
		w.mu.Unlock()
		return fmt.Errorf("failed to dial: %w", ctx.Err())
	}
	w.mu.Lock()
	defer w.mu.Unlock()
	if ans.out == "ok" {
		if w.acceptableLocked(force, allow) {
			w.emitLocked("connect_ret", "res", "ok", "force", force)
			return nil
		}
		if ds := w.dialSetLocked(force); len(ds) > 0 {
			// direct addresses are dialled first (dial ranking): a relayed connection only if there is nothing else
			kind := "L"
			for _, a := range ds {
				if !vfHPIsRelayTok(a) {
					kind = "D"
				}
			}
			w.addConnLocked(kind, network.DirOutbound)
			w.emitLocked("connect_ret", "res", "ok", "force", force)
			return nil
		}
		w.emitLocked("connect_ret", "res", "err", "force", force)
		return errors.New("failed to dial: no good addresses")
	}
	w.emitLocked("connect_ret", "res", "err", "force", force)
	return errors.New("failed to dial: all dials failed")
}

// NewStream follows BasicHost.NewStream + Swarm.NewStream for no-dial / allow-limited.
func (h *vfHPHost) NewStream(ctx context.Context, p peer.ID, pids ...protocol.ID) (network.Stream, error) {
	w := h.w
	allow, _ := network.GetAllowLimitedConn(ctx)
	nodial, _ := network.GetNoDial(ctx)
	force, _ := network.GetForceDirectDial(ctx)
	w.mu.Lock()
	w.nsCalls++
	g := &vfHPGate{kind: "newstream", side: w.side, allow: allow, nodial: nodial, resp: make(chan vfHPAns, 1), dl: -1}
	w.emitLocked("ns_call", "allow", allow, "nodial", nodial)
	if !allow || !nodial {
		w.l1Locked("holepunch-stream-flags", fmt.Sprintf("coordination stream requested with allow-limited=%v no-dial=%v", allow, nodial))
	}
	if !nodial && !w.acceptableLocked(force, allow) {
		// the host would dial first: which addresses it would use is part of the ledger
		ds := w.dialSetLocked(force)
		w.emitLocked("connect_call", "side", w.side, "force", force, "sim", "none", "addrs", vfHPAddrRecs([]string{}), "dialed", vfHPAddrRecs(ds))
		w.emitLocked("connect_ret", "res", "err", "force", force)
	}
	w.gate = g
	w.mu.Unlock()
	var ans vfHPAns
	select {
	case ans = <-g.resp:
	case <-ctx.Done():
		w.mu.Lock()
		if w.gate == g {
			w.gate = nil
		}
		w.emitLocked("ns_ret", "res", "err", "c", "")
		w.mu.Unlock()
		return nil, ctx.Err()
	}
	w.mu.Lock()
	defer w.mu.Unlock()
	best := w.bestLocked()
	switch {
	case ans.out == "fail":
		w.emitLocked("ns_ret", "res", "err", "c", "")
		return nil, errors.New("failed to open stream: vf scripted failure")
	case best == nil:
		w.emitLocked("ns_ret", "res", "err", "c", "")
		return nil, errors.New("connection failed")
	case best.limited() && !allow:
		w.emitLocked("ns_ret", "res", "err", "c", "")
		return nil, network.ErrLimitedConn
	}
	s := w.newStreamLocked(best, "I", ans.out)
	w.emitLocked("ns_ret", "res", "stream", "c", best.id)
	return s, nil
}

type vfHPIDs struct {
	identify.IDService // nil
	n                  *atomic.Int32
}

func (i vfHPIDs) IdentifyWait(network.Conn) <-chan struct{} {
	i.n.Add(1)
	ch := make(chan struct{})
	close(ch)
	return ch
}

type vfHPTrEv struct {
	T     string   `json:"t"`
	OK    bool     `json:"ok"`
	Side  string   `json:"side"`
	N     int      `json:"n"`
	Addrs []string `json:"addrs"`
}

type vfHPTracer struct{ w *vfHPWorld }

func (t *vfHPTracer) record(ev vfHPTrEv, dc string, dcRelay bool) {
	w := t.w
	w.mu.Lock()
	defer w.mu.Unlock()
	if ev.Addrs == nil {
		ev.Addrs = []string{}
	}
	w.trev = append(w.trev, ev)
	w.emitLocked("tracer", "type", ev.T, "ok", ev.OK, "dc", dc, "addrs", vfHPAddrRecs(ev.Addrs))
	if ev.OK && !w.directOpenLocked() {
		w.l1Locked("holepunch-tracer-success-without-direct-conn", fmt.Sprintf("tracer event %s reports success / a direct connection while no direct connection is open", ev.T))
	}
	if dc != "" && dcRelay {
		w.l1Locked("holepunch-tracer-success-without-direct-conn", fmt.Sprintf("tracer event %s was handed the relayed connection %s as the direct one", ev.T, dc))
	}
	for _, a := range ev.Addrs {
		if vfHPIsRelayTok(a) {
			w.l1Locked("holepunch-dials-relay-address", fmt.Sprintf("tracer event %s lists relay address %s among the addresses punched", ev.T, a))
		}
	}
}

func (t *vfHPTracer) Trace(evt *Event) {
	ev := vfHPTrEv{T: evt.Type}
	switch e := evt.Evt.(type) {
	case *DirectDialEvt:
		ev.OK = e.Success
	case *EndHolePunchEvt:
		ev.OK = e.Success
	case *StartHolePunchEvt:
		for _, s := range e.RemoteAddrs {
			a, err := ma.NewMultiaddr(s)
			if err != nil {
				ev.Addrs = append(ev.Addrs, "?"+s)
				continue
			}
			ev.Addrs = append(ev.Addrs, vfHPTokenOf(a))
		}
		sort.Strings(ev.Addrs)
	}
	t.record(ev, "", false)
}
func (t *vfHPTracer) DirectDialFinished(success bool) {
	t.record(vfHPTrEv{T: "DirectDialFinished", OK: success}, "", false)
}
func (t *vfHPTracer) HolePunchFinished(side string, n int, theirs []ma.Multiaddr, _ []ma.Multiaddr, dc network.ConnMultiaddrs) {
	ev := vfHPTrEv{T: "HolePunchFinished", Side: side, N: n, Addrs: vfHPToks(theirs), OK: dc != nil}
	id, rel := "", false
	if dc != nil {
		id = "?"
		if c, ok := dc.(*vfHPConn); ok {
			id, rel = c.id, c.relay()
		}
	}
	t.record(ev, id, rel)
}

// ---------------------------------------------------------------- the world behind the host

type vfHPWorld struct {
	mu      sync.Mutex
	tr      *vfh.Trace
	t0      time.Time
	ps      peerstore.Peerstore
	net     *vfHPNet
	local   peer.ID
	remote  peer.ID
	conns   []*vfHPConn
	nconn   int
	nstream int
	gate    *vfHPGate
	own     []ma.Multiaddr
	handler network.StreamHandler
	notifs  []network.Notifiee
	trev    []vfHPTrEv
	streams []*vfHPStream
	rstream *vfHPStream // the responder's current stream
	side    string      // who runs: "I", "R" or ""
	nsCalls int
	idWaits atomic.Int32 // IdentifyWait calls: the notifiee asks only for connections it will punch for
	via     string
	callRet string // "" while running
	l1      []vfh.Mismatch
	prefix  []any
	walk    int
	step    int
}

func (w *vfHPWorld) listenAddrs() []ma.Multiaddr {
	w.mu.Lock()
	defer w.mu.Unlock()
	return append([]ma.Multiaddr{}, w.own...)
}

func (w *vfHPWorld) emitLocked(ev string, kv ...any) {
	kv = append(kv, "t", int(time.Since(w.t0)/time.Millisecond))
	w.tr.Emit(ev, kv...)
}

func (w *vfHPWorld) l1Locked(class, what string) {
	w.l1 = append(w.l1, vfh.Mismatch{Class: class, What: what, Walk: w.walk, Step: w.step, Prefix: append([]any{}, w.prefix...)})
}

func (w *vfHPWorld) directOpenLocked() bool {
	for _, c := range w.conns {
		if !c.relay() {
			return true
		}
	}
	return false
}

func (w *vfHPWorld) connectednessLocked() network.Connectedness {
	st := network.NotConnected
	for _, c := range w.conns {
		if !c.limited() {
			return network.Connected
		}
		st = network.Limited
	}
	return st
}

// Swarm.bestConnToPeer: not limited first, then not proxied
func (w *vfHPWorld) bestLocked() *vfHPConn {
	var best *vfHPConn
	rank := func(c *vfHPConn) int {
		switch c.kind {
		case "D":
			return 3
		case "U":
			return 2
		}
		return 1
	}
	for _, c := range w.conns {
		if best == nil || rank(c) >= rank(best) {
			best = c
		}
	}
	return best
}

// is there a connection host.Connect would be satisfied with?
func (w *vfHPWorld) acceptableLocked(force, allow bool) bool {
	b := w.bestLocked()
	if b == nil {
		return false
	}
	if force {
		return !b.relay()
	}
	return true // Swarm.dialPeer returns the best connection whatever it is
}

// Swarm.addrsForDial: the peerstore addresses, relay addresses dropped under force-direct
func (w *vfHPWorld) dialSetLocked(force bool) []string {
	out := []string{}
	for _, a := range w.ps.Addrs(w.remote) {
		t := vfHPTokenOf(a)
		if force && vfHPIsRelayTok(t) {
			continue
		}
		out = append(out, t)
	}
	sort.Strings(out)
	return out
}

func (w *vfHPWorld) addConnLocked(kind string, dir network.Direction) *vfHPConn {
	w.nconn++
	c := &vfHPConn{w: w, id: fmt.Sprintf("c%d", w.nconn), kind: kind, dir: dir}
	if kind == "D" {
		c.raddr = ma.StringCast(fmt.Sprintf("/ip4/5.5.5.%d/tcp/4001", w.nconn))
	} else {
		c.raddr = ma.StringCast(fmt.Sprintf("/ip4/9.9.9.%d/tcp/4001/p2p/%s/p2p-circuit", w.nconn, vfHPRelayID))
	}
	w.conns = append(w.conns, c)
	w.emitLocked("conn_add", "c", c.id, "relay", c.relay(), "limited", c.limited())
	return c
}

func (w *vfHPWorld) dropLocked(pred func(*vfHPConn) bool) {
	keep := w.conns[:0:0]
	for _, c := range w.conns {
		if pred(c) {
			c.closed = true
			w.emitLocked("conn_close", "c", c.id)
			continue
		}
		keep = append(keep, c)
	}
	w.conns = keep
}

func (w *vfHPWorld) connOfKindLocked(kind string) *vfHPConn {
	for _, c := range w.conns {
		if c.kind == kind {
			return c
		}
	}
	return nil
}

func (w *vfHPWorld) newStreamLocked(c *vfHPConn, side, scope string) *vfHPStream {
	w.nstream++
	if scope != "svcfail" && scope != "memfail" {
		scope = "ok"
	}
	s := &vfHPStream{w: w, id: fmt.Sprintf("s%d", w.nstream), c: c, side: side, scope: &vfHPScope{NullScope: &network.NullScope{}, mode: scope}}
	w.streams = append(w.streams, s)
	return s
}

func (w *vfHPWorld) answer(a vfHPAns) bool {
	w.mu.Lock()
	g := w.gate
	w.gate = nil
	w.mu.Unlock()
	if g == nil {
		return false
	}
	g.resp <- a
	return true
}

func vfHPDelimited(m *pb.HolePunch) []byte {
	b, _ := proto.Marshal(m)
	return append(binary.AppendUvarint(nil, uint64(len(b))), b...)
}

func vfHPConnectMsg(toks []string, rnd *rand.Rand) []byte {
	m := &pb.HolePunch{Type: pb.HolePunch_CONNECT.Enum()}
	toks = append([]string{}, toks...)
	rnd.Shuffle(len(toks), func(i, j int) { toks[i], toks[j] = toks[j], toks[i] })
	for _, t := range toks {
		if t == "mG" {
			m.ObsAddrs = append(m.ObsAddrs, vfHPJunk)
			continue
		}
		m.ObsAddrs = append(m.ObsAddrs, vfHPTok[t].Bytes())
	}
	return vfHPDelimited(m)
}

func vfHPSyncMsg() []byte { return vfHPDelimited(&pb.HolePunch{Type: pb.HolePunch_SYNC.Enum()}) }

// ---------------------------------------------------------------- projection

type vfHPState struct {
	Pc     string   `json:"pc"`
	Att    int      `json:"att"`
	Conns  []string `json:"conns"`
	Ps     []string `json:"ps"`
	Strm   string   `json:"strm"`
	Closed bool     `json:"closed"`
}

func (w *vfHPWorld) running(svc *Service) bool {
	w.mu.Lock()
	side, via, ret := w.side, w.via, w.callRet
	w.mu.Unlock()
	if side == "" {
		return false
	}
	if side == "I" && via == "notify" {
		hp := svc.holePuncher
		hp.activeMx.Lock()
		n := len(hp.active)
		hp.activeMx.Unlock()
		return n > 0
	}
	return ret == ""
}

func (w *vfHPWorld) project(svc *Service, closed bool) vfHPState {
	run := w.running(svc)
	w.mu.Lock()
	defer w.mu.Unlock()
	st := vfHPState{Pc: "idle", Strm: "none", Closed: closed, Conns: []string{}, Ps: []string{}}
	seen := map[string]bool{}
	for _, c := range w.conns {
		if !seen[c.kind] {
			seen[c.kind] = true
			st.Conns = append(st.Conns, c.kind)
		}
	}
	sort.Strings(st.Conns)
	for _, a := range w.ps.Addrs(w.remote) {
		st.Ps = append(st.Ps, vfHPTokenOf(a))
	}
	sort.Strings(st.Ps)
	var cs *vfHPStream
	for _, s := range w.streams {
		if !s.ended() {
			cs = s
		}
	}
	if cs != nil {
		st.Strm = cs.c.kind
	}
	if !run {
		return st
	}
	if w.side == "I" {
		st.Att = w.nsCalls
	}
	g := w.gate
	switch {
	case g == nil && w.side == "I":
		st.Pc = "tm"
	case g == nil:
		st.Pc = "r?"
	case g.kind == "connect" && w.side == "R":
		st.Pc = "rpc"
	case g.kind == "connect" && g.sim == "none":
		st.Pc = "dd"
	case g.kind == "connect":
		st.Pc = "pc"
	case g.kind == "newstream":
		st.Pc = "ns"
	case g.kind == "write" && w.side == "R":
		st.Pc = "rwc"
	case g.kind == "write" && cs != nil && cs.nwrite == 0:
		st.Pc = "wc"
	case g.kind == "write":
		st.Pc = "ws"
	case g.kind == "read" && w.side == "I":
		st.Pc = "rc"
	case g.kind == "read" && cs != nil && cs.nread == 0:
		st.Pc = "rrc"
	case g.kind == "read":
		st.Pc = "rrs"
	}
	return st
}

func (w *vfHPWorld) gateObs(svc *Service) map[string]any {
	run := w.running(svc)
	w.mu.Lock()
	defer w.mu.Unlock()
	g := w.gate
	if g == nil {
		if w.side == "I" && run {
			return map[string]any{"kind": "timer"}
		}
		return map[string]any{"kind": "none"}
	}
	switch g.kind {
	case "connect":
		return map[string]any{"kind": "connect", "force": g.force, "sim": g.sim, "addrs": g.addrs, "dialed": g.dialed}
	case "newstream":
		return map[string]any{"kind": "newstream", "allow": g.allow, "nodial": g.nodial}
	case "write":
		return map[string]any{"kind": "write", "type": g.mtype, "addrs": g.maddrs}
	}
	return map[string]any{"kind": g.kind}
}

func vfHPSetOf(v any) []string {
	out := []string{}
	switch l := v.(type) {
	case []any:
		for _, e := range l {
			out = append(out, fmt.Sprint(e))
		}
	case []string:
		out = append(out, l...)
	}
	sort.Strings(out)
	return out
}

// normalise a gate / tracer record so that address lists compare as sets
func vfHPNorm(v any) string {
	b, _ := json.Marshal(v)
	var x any
	json.Unmarshal(b, &x)
	var fix func(any) any
	fix = func(x any) any {
		switch t := x.(type) {
		case map[string]any:
			for k, e := range t {
				if k == "addrs" || k == "dialed" {
					t[k] = vfHPSetOf(e)
				} else {
					t[k] = fix(e)
				}
			}
			return t
		case []any:
			for i := range t {
				t[i] = fix(t[i])
			}
			return t
		}
		return x
	}
	b, _ = json.Marshal(fix(x))
	return string(b)
}

// ---------------------------------------------------------------- walker

type vfHPRun struct {
	t      *testing.T
	res    *vfh.Result
	w      *vfHPWorld
	svc    *Service
	rnd    *rand.Rand
	closed bool
	div    bool
	stats  map[string]int
}

func (r *vfHPRun) l2(field, what string, exp, got any) {
	r.div = true
	r.res.AddMismatch(vfh.Mismatch{Class: "L2:holepunch-model-" + field, What: what, Walk: r.w.walk, Step: r.w.step,
		Expected: exp, Got: got, Prefix: append([]any{}, r.w.prefix...)})
}

// a connection that is not an inbound relayed one must not make the notifiee start a hole punch
func (r *vfHPRun) notifieeFilter() {
	w := r.w
	w.mu.Lock()
	if len(w.conns) == 0 || r.closed {
		w.mu.Unlock()
		return
	}
	c := w.conns[r.rnd.Intn(len(w.conns))]
	c.dir = network.DirOutbound
	if !c.relay() && r.rnd.Intn(2) == 0 {
		c.dir = network.DirInbound
	}
	notifs := append([]network.Notifiee{}, w.notifs...)
	w.mu.Unlock()
	waits := w.idWaits.Load()
	for _, n := range notifs {
		n.Connected(w.net, c)
	}
	synctest.Wait()
	hp := r.svc.holePuncher
	hp.activeMx.Lock()
	n := len(hp.active)
	hp.activeMx.Unlock()
	w.mu.Lock()
	g := w.gate
	w.mu.Unlock()
	r.stats["notifiee-filter"]++
	if n == 0 && g == nil && w.idWaits.Load() != waits {
		r.res.AddMismatch(vfh.Mismatch{Class: "L2:holepunch-model-notifiee", Walk: w.walk, Step: w.step,
			What: fmt.Sprintf("the notifiee went for a hole punch on a connection of kind %s, direction %v (it ended at once)", c.kind, c.dir)})
	}
	if n > 0 || g != nil {
		w.mu.Lock()
		w.side, w.nsCalls, w.callRet, w.via = "I", 0, "", "notify"
		w.mu.Unlock()
		r.l2("notifiee", fmt.Sprintf("the notifiee started a hole punch for a connection of kind %s, direction %v", c.kind, c.dir), "nothing", "DirectConnect running")
	}
}

func (r *vfHPRun) startCall(allowNotify bool) {
	w := r.w
	if allowNotify && r.rnd.Intn(6) == 0 {
		r.notifieeFilter()
		if r.div {
			return
		}
	}
	w.mu.Lock()
	w.side, w.nsCalls, w.callRet, w.via = "I", 0, "", "call"
	var rc *vfHPConn
	if allowNotify && !r.closed && r.rnd.Intn(4) == 0 {
		for _, c := range w.conns {
			if c.relay() {
				rc = c
			}
		}
	}
	if rc != nil {
		w.via = "notify"
		rc.dir = network.DirInbound
	}
	notifs := append([]network.Notifiee{}, w.notifs...)
	w.emitLocked("dc_call", "via", w.via)
	w.mu.Unlock()
	if rc != nil {
		r.stats["via-notify"]++
		for _, n := range notifs {
			n.Connected(w.net, rc)
		}
		return
	}
	go func() {
		err := r.svc.DirectConnect(w.remote)
		res := "err"
		switch {
		case err == nil:
			res = "ok"
		case errors.Is(err, ErrClosed):
			res = "closed"
		case errors.Is(err, context.Canceled):
			res = "canceled"
		}
		w.mu.Lock()
		w.emitLocked("dc_ret", "res", res)
		if res == "ok" && !w.directOpenLocked() {
			w.l1Locked("holepunch-success-without-direct-conn", "DirectConnect returned nil while no direct connection to the peer is open")
		}
		w.callRet = res
		w.mu.Unlock()
	}()
}

func (r *vfHPRun) startIncoming(kind, dir, scope string) bool {
	w := r.w
	w.mu.Lock()
	c := w.connOfKindLocked(kind)
	h := w.handler
	if c == nil || h == nil {
		w.mu.Unlock()
		return false
	}
	c.dir = network.DirOutbound
	if dir == "in" {
		c.dir = network.DirInbound
	}
	s := w.newStreamLocked(c, "R", scope)
	w.side, w.callRet, w.via, w.rstream, w.nsCalls = "R", "", "handler", s, 0
	w.emitLocked("in_stream", "c", c.id, "dir", dir, "relayed", c.relay())
	w.mu.Unlock()
	go func() {
		h(s)
		w.mu.Lock()
		w.emitLocked("handler_ret")
		w.callRet = "done"
		w.mu.Unlock()
	}()
	return true
}

func (r *vfHPRun) readAnswer(k string, a []string) {
	switch k {
	case "connect":
		r.w.answer(vfHPAns{out: "data", data: vfHPConnectMsg(a, r.rnd)})
	case "sync":
		r.w.answer(vfHPAns{out: "data", data: vfHPSyncMsg()})
	case "big":
		r.w.answer(vfHPAns{out: "data", data: binary.AppendUvarint(nil, 5000)})
	case "err":
		r.w.answer(vfHPAns{out: "err"})
	case "hang":
		time.Sleep(vfHPStreamTimeout)
	}
}

func (r *vfHPRun) setOwn(toks []string) {
	own := []ma.Multiaddr{}
	for _, t := range toks {
		own = append(own, vfHPTok[t])
	}
	r.w.mu.Lock()
	r.w.own = own
	r.w.mu.Unlock()
}

// perform one model step on the real code
func (r *vfHPRun) perform(op vfh.Op) {
	w := r.w
	arg := op["arg"]
	w.mu.Lock()
	g := w.gate
	w.mu.Unlock()
	switch op.Name() {
	case "call":
		r.startCall(op.S("ret") != "closed")
	case "connect_ret":
		out, _ := arg.(string)
		if out == "timeout" {
			if g != nil && g.dl >= 0 {
				if g.dl != vfHPDialTimeout {
					r.l2("connect-deadline", "host.Connect context deadline", vfHPDialTimeout.String(), g.dl.String())
				}
				time.Sleep(g.dl)
			} else {
				r.l2("connect-deadline", "host.Connect without a deadline", vfHPDialTimeout.String(), "none")
				w.answer(vfHPAns{out: "fail"})
			}
		} else {
			w.answer(vfHPAns{out: out})
		}
	case "newstream_ret":
		m, _ := arg.(map[string]any)
		r.setOwn(vfHPSetOf(m["own"]))
		w.answer(vfHPAns{out: fmt.Sprint(m["out"])})
	case "write_ret":
		out, _ := arg.(string)
		w.answer(vfHPAns{out: out})
	case "read_ret":
		m, _ := arg.(map[string]any)
		if g != nil && g.dl != vfHPStreamTimeout {
			r.l2("stream-deadline", "coordination stream read without the StreamTimeout deadline", vfHPStreamTimeout.String(), g.dl.String())
		}
		if g != nil && g.side == "I" {
			time.Sleep(vfHPRTT) // the round trip the initiator measures
		}
		r.readAnswer(fmt.Sprint(m["k"]), vfHPSetOf(m["a"]))
	case "timer":
		time.Sleep(vfHPRTT/2 - time.Millisecond)
		synctest.Wait()
		if o := w.gateObs(r.svc); o["kind"] != "timer" {
			r.l2("sync-timer", "the initiator did not wait rtt/2 before punching", "timer", o)
		}
		time.Sleep(time.Millisecond)
	case "close":
		r.svc.Close()
		r.closed = true
	case "incoming":
		m, _ := arg.(map[string]any)
		r.setOwn(vfHPSetOf(m["own"]))
		if !r.startIncoming(fmt.Sprint(m["k"]), fmt.Sprint(m["dir"]), fmt.Sprint(m["scope"])) {
			r.l2("handler", "no stream handler registered / no such connection", m, nil)
		}
	case "env":
		ev, _ := arg.(string)
		w.mu.Lock()
		switch ev {
		case "addD":
			w.addConnLocked("D", network.DirInbound)
		case "addL":
			w.addConnLocked("L", network.DirOutbound)
		case "dropD":
			w.dropLocked(func(c *vfHPConn) bool { return !c.relay() })
		case "dropRelayed":
			w.dropLocked(func(c *vfHPConn) bool { return c.relay() })
		}
		w.mu.Unlock()
	}
	synctest.Wait()
}

// after a disagreement with the model: let the code run on against a cooperative environment, so that the
// statement's monitors keep judging what it does
func (r *vfHPRun) freeRun() {
	w := r.w
	for i := 0; i < 60; i++ {
		synctest.Wait()
		if !w.running(r.svc) {
			return
		}
		w.mu.Lock()
		g := w.gate
		var cs *vfHPStream
		for _, s := range w.streams {
			if !s.ended() {
				cs = s
			}
		}
		w.mu.Unlock()
		switch {
		case g == nil:
			time.Sleep(vfHPStreamTimeout)
		case g.kind == "connect":
			w.answer(vfHPAns{out: "ok"})
		case g.kind == "newstream":
			r.setOwn([]string{"oP", "oR"})
			w.answer(vfHPAns{out: "ok"})
		case g.kind == "write":
			w.answer(vfHPAns{out: "ok"})
		case g.kind == "read" && g.side == "R" && cs != nil && cs.nread > 0:
			r.readAnswer("sync", nil)
		case g.kind == "read":
			r.readAnswer("connect", []string{"mG", "mP", "mR", "mS", "mV"})
		}
	}
}

func (r *vfHPRun) compare(op vfh.Op, want vfHPState) {
	w := r.w
	// return value
	w.mu.Lock()
	ret, via, side := w.callRet, w.via, w.side
	trev := w.trev
	w.trev = nil
	w.mu.Unlock()
	run := w.running(r.svc)
	gotRet := "none"
	if !run && side != "" {
		gotRet = ret
		if via == "notify" {
			gotRet = "finished"
		}
	}
	expRet := op.S("ret")
	if op.Name() == "close" && expRet == "none" {
		gotRet = "none"
	}
	switch {
	case gotRet == "finished":
		if expRet == "none" {
			r.l2("ret", "the call started by the notifiee finished early", expRet, gotRet)
		}
	case gotRet != expRet:
		r.l2("ret", fmt.Sprintf("return value after %s", op.Name()), expRet, gotRet)
	}
	if !run {
		w.mu.Lock()
		w.side = ""
		w.rstream = nil
		w.mu.Unlock()
	}
	// next gate
	if eg := op.M("gate"); eg["kind"] != "same" {
		got := w.gateObs(r.svc)
		if vfHPNorm(eg) != vfHPNorm(got) {
			r.l2("gate", fmt.Sprintf("next environment call after %s", op.Name()), eg, got)
		}
	}
	// tracer events
	exp := op.L("tr")
	if exp == nil {
		exp = []any{}
	}
	gotTr := []any{}
	for _, e := range trev {
		gotTr = append(gotTr, e)
	}
	if vfHPNorm(exp) != vfHPNorm(gotTr) {
		r.l2("tracer", fmt.Sprintf("tracer events after %s", op.Name()), exp, gotTr)
	}
	// projected state
	got := w.project(r.svc, r.closed)
	if vfh.Canon(got) != vfh.Canon(want) {
		r.l2("state", fmt.Sprintf("state after %s", op.Name()), want, got)
	}
}

func (r *vfHPRun) streamEnd(op vfh.Op, before map[string][2]int) {
	w := r.w
	w.mu.Lock()
	got := "none"
	for _, s := range w.streams {
		b := before[s.id]
		if s.resetN > b[1] {
			got = "reset"
		} else if s.closedN > b[0] && got == "none" {
			got = "closed"
		}
	}
	w.mu.Unlock()
	if exp := op.S("send"); exp != got {
		r.l2("stream-end", fmt.Sprintf("what happened to the coordination stream at %s", op.Name()), exp, got)
	}
}

func vfHPWalk(t *testing.T, res *vfh.Result, wk vfh.Walk, seed int64, stats map[string]int) (trace *vfh.Trace) {
	synctest.Test(t, func(t *testing.T) {
		var init struct {
			Conns []string `json:"conns"`
			Ps    []string `json:"ps"`
		}
		if err := json.Unmarshal(wk.Init, &init); err != nil {
			t.Fatal(err)
		}
		ps, err := pstoremem.NewPeerstore()
		if err != nil {
			t.Fatal(err)
		}
		defer ps.Close()
		remote, _ := peer.Decode(vfHPRemoteID)
		local, _ := peer.Decode(vfHPLocalID)
		w := &vfHPWorld{tr: vfh.NewTrace(fmt.Sprintf("w%d", wk.Walk)), t0: time.Now(), ps: ps, local: local, remote: remote,
			own: []ma.Multiaddr{vfHPTok["oP"]}, walk: wk.Walk}
		w.net = &vfHPNet{w: w}
		var pa []ma.Multiaddr
		for _, tok := range init.Ps {
			pa = append(pa, vfHPTok[tok])
		}
		if len(pa) > 0 {
			ps.AddAddrs(remote, pa, peerstore.PermanentAddrTTL)
		}
		w.mu.Lock()
		for _, k := range init.Conns {
			dir := network.DirInbound
			if k == "D" {
				dir = network.DirOutbound
			}
			w.addConnLocked(k, dir)
		}
		w.mu.Unlock()
		tracer := &vfHPTracer{w: w}
		svc, err := NewService(&vfHPHost{w: w}, vfHPIDs{n: &w.idWaits}, w.listenAddrs, WithMetricsAndEventTracer(tracer, tracer), DirectDialTimeout(vfHPDialTimeout))
		if err != nil {
			t.Fatal(err)
		}
		synctest.Wait()
		r := &vfHPRun{t: t, res: res, w: w, svc: svc, rnd: rand.New(rand.NewSource(seed*1000003 + int64(wk.Walk))), stats: stats}
		if svc.holePuncher == nil || w.handler == nil {
			t.Fatal("vf: the service did not come up")
		}
		steps, skipTo, resync := 0, 0, 0
		for i, st := range wk.Steps {
			if i < skipTo {
				continue
			}
			w.step = i
			w.prefix = append(w.prefix, map[string]any{"name": st.Op.Name(), "arg": st.Op["arg"]})
			var want vfHPState
			if err := json.Unmarshal(st.State, &want); err != nil {
				t.Fatal(err)
			}
			sort.Strings(want.Conns)
			sort.Strings(want.Ps)
			before := map[string][2]int{}
			w.mu.Lock()
			for _, s := range w.streams {
				before[s.id] = [2]int{s.closedN, s.resetN}
			}
			w.mu.Unlock()
			r.perform(st.Op)
			r.streamEnd(st.Op, before)
			r.compare(st.Op, want)
			steps++
			stats["op-"+st.Op.Name()]++
			if g := st.Op.M("gate"); g["kind"] == "connect" {
				stats["connect-"+fmt.Sprint(g["sim"])]++
			}
			if st.Op.S("ret") == "ok" {
				stats["ret-ok"]++
			}
			if want.Strm == "D" {
				stats["stream-over-direct"]++
			}
			if r.div {
				// the code left the model: let it finish against a cooperative environment (the monitors keep
				// judging), then pick the walk up again where the model is idle in the state the code is in
				stats["free-runs"]++
				w.prefix = append(w.prefix, map[string]any{"name": "free-run", "arg": "cooperative environment until the call ends"})
				r.freeRun()
				w.mu.Lock()
				w.side, w.rstream, w.trev = "", nil, nil
				w.mu.Unlock()
				r.div = false
				got := w.project(r.svc, r.closed)
				next := -1
				for j := i; j < len(wk.Steps) && resync < 3 && got.Pc == "idle"; j++ {
					var s vfHPState
					if json.Unmarshal(wk.Steps[j].State, &s) != nil {
						break
					}
					sort.Strings(s.Conns)
					sort.Strings(s.Ps)
					if vfh.Canon(s) == vfh.Canon(got) {
						next = j
						break
					}
				}
				if next < 0 {
					break
				}
				resync++
				stats["resyncs"]++
				skipTo = next + 1
				continue
			}
			if want.Pc == "idle" {
				w.mu.Lock()
				for _, s := range w.streams {
					if s.scope.reserved != 0 {
						r.res.AddMismatch(vfh.Mismatch{Class: "L2:holepunch-memory-not-released", What: fmt.Sprintf("stream %s keeps %d bytes reserved", s.id, s.scope.reserved), Walk: w.walk, Step: i})
					}
					if !s.ended() {
						r.res.AddMismatch(vfh.Mismatch{Class: "L2:holepunch-stream-left-open", What: "stream " + s.id + " neither closed nor reset", Walk: w.walk, Step: i})
					}
				}
				w.mu.Unlock()
			}
		}
		// wind down: nothing of the service may stay behind in the bubble
		r.freeRun()
		if !r.closed {
			svc.Close()
		}
		synctest.Wait()
		w.mu.Lock()
		l1 := w.l1
		w.mu.Unlock()
		for _, m := range l1 {
			res.AddMismatch(m)
		}
		res.Count(1, steps)
		if wk.Walk%97 == 0 {
			evs := w.tr.Events()
			if len(evs) > 10 {
				evs = evs[:10]
			}
			res.Sample(map[string]any{"walk": wk.Walk, "steps": steps, "first_events": evs})
		}
		trace = w.tr
	})
	return trace
}

// TestVerifC12HolePunchReplay replays the behaviour files of the hole-punch model.
func TestVerifC12HolePunchReplay(t *testing.T) {
	res := vfh.NewResult()
	res.Rule = "one model transition = one answer of the environment at the gate the real code waits at; compared: next gate and its arguments, return value, tracer events, stream end, projected state"
	files, _ := filepath.Glob(filepath.Join(vfh.In(), "*.jsonl"))
	sort.Strings(files)
	if len(files) == 0 {
		t.Fatal("no behaviour files in VERIF_IN")
	}
	traceFile := filepath.Join(vfh.Out(), "holepunch.ndjson")
	os.Remove(traceFile)
	every := vfh.EnvInt("VERIF_C12HP_TRACE_EVERY", 1)
	var walks []vfh.Walk
	for _, f := range files {
		_, ws, err := vfh.LoadWalks(f)
		if err != nil {
			t.Fatal(err)
		}
		walks = append(walks, ws...)
	}
	old := StreamTimeout
	StreamTimeout = vfHPStreamTimeout
	defer func() { StreamTimeout = old }()
	// every walk runs in a bubble of its own: independent, so a few of them run side by side
	nw := vfh.EnvInt("VERIF_C12HP_WORKERS", 4)
	stats := make([]map[string]int, nw)
	traces := make([]*vfh.Trace, len(walks))
	var wg sync.WaitGroup
	for k := 0; k < nw; k++ {
		stats[k] = map[string]int{}
		wg.Add(1)
		go func(k int) {
			defer wg.Done()
			for i := k; i < len(walks); i += nw {
				traces[i] = vfHPWalk(t, res, walks[i], vfh.Seed(), stats[k])
			}
		}(k)
	}
	wg.Wait()
	for i, tr := range traces {
		if tr != nil && every > 0 && walks[i].Walk%every == 0 {
			if err := tr.AppendTo(traceFile, nil); err != nil {
				t.Fatal(err)
			}
		}
	}
	total := map[string]int{}
	for _, m := range stats {
		for k, v := range m {
			total[k] += v
		}
	}
	for k, v := range total {
		res.Set(k, v)
	}
	res.Traces = []string{traceFile}
	if err := res.Write(); err != nil {
		t.Fatal(err)
	}
}

// ---------------------------------------------------------------- exported for zz_verif_c12hp_host_test.go
// (package holepunch_test: the real BasicHost cannot be imported from inside this package)

func VfHPAddr(tok string) ma.Multiaddr  { return vfHPTok[tok] }
func VfHPToken(a ma.Multiaddr) string   { return vfHPTokenOf(a) }
func VfHPRelayToken(tok string) bool    { return vfHPIsRelayTok(tok) }
func VfHPIDs() (string, string, string) { return vfHPLocalID, vfHPRemoteID, vfHPRelayID }

func vfHPBareWorld(conns, psToks []string) (*vfHPWorld, error) {
	ps, err := pstoremem.NewPeerstore()
	if err != nil {
		return nil, err
	}
	remote, _ := peer.Decode(vfHPRemoteID)
	local, _ := peer.Decode(vfHPLocalID)
	w := &vfHPWorld{tr: vfh.NewTrace("fake"), t0: time.Now(), ps: ps, local: local, remote: remote, side: "I"}
	w.net = &vfHPNet{w: w}
	for _, tok := range psToks {
		ps.AddAddr(remote, vfHPTok[tok], peerstore.PermanentAddrTTL)
	}
	w.mu.Lock()
	for _, k := range conns {
		w.addConnLocked(k, network.DirInbound)
	}
	w.mu.Unlock()
	return w, nil
}

func (w *vfHPWorld) kinds() []string {
	w.mu.Lock()
	defer w.mu.Unlock()
	out := []string{}
	for _, c := range w.conns {
		out = append(out, c.kind)
	}
	sort.Strings(out)
	return out
}

// VfHPFakeConnect: what the fake host of the replay harness does for host.Connect in the given situation
// (must be called inside a synctest bubble).
func VfHPFakeConnect(conns, psToks, addrToks []string, force, allow, dialOK bool) (ok bool, dialed, after []string, err error) {
	w, err := vfHPBareWorld(conns, psToks)
	if err != nil {
		return false, nil, nil, err
	}
	defer w.ps.Close()
	ctx := context.Background()
	if force {
		ctx = network.WithForceDirectDial(ctx, "vf")
	}
	if allow {
		ctx = network.WithAllowLimitedConn(ctx, "vf")
	}
	pi := peer.AddrInfo{ID: w.remote}
	for _, tok := range addrToks {
		pi.Addrs = append(pi.Addrs, vfHPTok[tok])
	}
	done := make(chan error, 1)
	go func() { done <- (&vfHPHost{w: w}).Connect(ctx, pi) }()
	synctest.Wait()
	w.mu.Lock()
	g := w.gate
	w.mu.Unlock()
	if g == nil {
		return false, nil, nil, errors.New("vf: the fake Connect did not reach its gate")
	}
	dialed = g.dialed
	out := "fail"
	if dialOK || len(dialed) == 0 {
		out = "ok" // nothing to dial: the answer is decided by the connections that exist
	}
	w.answer(vfHPAns{out: out})
	cerr := <-done
	return cerr == nil, dialed, w.kinds(), nil
}

// VfHPFakeNewStream: the kind of connection the fake host's NewStream rides ("" = refused).
func VfHPFakeNewStream(conns []string, allow, nodial bool) (string, error) {
	w, err := vfHPBareWorld(conns, nil)
	if err != nil {
		return "", err
	}
	defer w.ps.Close()
	ctx := context.Background()
	if nodial {
		ctx = network.WithNoDial(ctx, "vf")
	}
	if allow {
		ctx = network.WithAllowLimitedConn(ctx, "vf")
	}
	type ret struct {
		s   network.Stream
		err error
	}
	done := make(chan ret, 1)
	go func() {
		s, err := (&vfHPHost{w: w}).NewStream(ctx, w.remote, Protocol)
		done <- ret{s, err}
	}()
	synctest.Wait()
	if !w.answer(vfHPAns{out: "ok"}) {
		return "", errors.New("vf: the fake NewStream did not reach its gate")
	}
	r := <-done
	if r.err != nil {
		return "", nil
	}
	return r.s.(*vfHPStream).c.kind, nil
}
