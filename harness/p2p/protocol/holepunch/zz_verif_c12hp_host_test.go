//go:build verif

package holepunch_test

// C12, hole-punching part: the contract the hole puncher relies on, decided on the REAL BasicHost over a
// REAL Swarm (stub transports, virtual time): host.Connect under force-direct returns nil only when a
// non-proxied connection is open and hands no relay address to a transport; host.NewStream rides a limited
// connection only when the caller allowed it.  The same situations are put to the fake host of the replay
// harness (zz_verif_c12hp_test.go): a disagreement means the replay's environment is not the real one
// (class "L2:holepunch-fake-host-fidelity").

import (
	"context"
	"errors"
	"fmt"
	"io"
	"net"
	"os"
	"path/filepath"
	"sort"
	"sync"
	"sync/atomic"
	"testing"
	"testing/synctest"
	"time"

	ic "github.com/libp2p/go-libp2p/core/crypto"
	"github.com/libp2p/go-libp2p/core/network"
	"github.com/libp2p/go-libp2p/core/peer"
	"github.com/libp2p/go-libp2p/core/peerstore"
	"github.com/libp2p/go-libp2p/core/transport"
	"github.com/libp2p/go-libp2p/internal/vfh"
	basichost "github.com/libp2p/go-libp2p/p2p/host/basic"
	"github.com/libp2p/go-libp2p/p2p/host/eventbus"
	"github.com/libp2p/go-libp2p/p2p/host/peerstore/pstoremem"
	"github.com/libp2p/go-libp2p/p2p/net/swarm"
	"github.com/libp2p/go-libp2p/p2p/protocol/holepunch"
	ma "github.com/multiformats/go-multiaddr"
)

var errVfHC = errors.New("vf: stub closed")

type vfHCStream struct {
	once   sync.Once
	closed chan struct{}
}

// the remote never answers: whatever is negotiated on the stream fails at once
func (s *vfHCStream) Read([]byte) (int, error) { return 0, io.EOF }
func (s *vfHCStream) Write(p []byte) (int, error) {
	select {
	case <-s.closed:
		return 0, errVfHC
	default:
		return len(p), nil
	}
}
func (s *vfHCStream) Close() error                                 { s.once.Do(func() { close(s.closed) }); return nil }
func (s *vfHCStream) CloseWrite() error                            { return nil }
func (s *vfHCStream) CloseRead() error                             { return nil }
func (s *vfHCStream) Reset() error                                 { return s.Close() }
func (s *vfHCStream) ResetWithError(network.StreamErrorCode) error { return s.Close() }
func (s *vfHCStream) SetDeadline(time.Time) error                  { return nil }
func (s *vfHCStream) SetReadDeadline(time.Time) error              { return nil }
func (s *vfHCStream) SetWriteDeadline(time.Time) error             { return nil }

type vfHCConn struct {
	kind     string // D | L | U
	lp, rp   peer.ID
	la, ra   ma.Multiaddr
	tpt      transport.Transport
	once     sync.Once
	closedCh chan struct{}
	closed   atomic.Bool
	opens    atomic.Int32
}

func (c *vfHCConn) shut()        { c.once.Do(func() { c.closed.Store(true); close(c.closedCh) }) }
func (c *vfHCConn) Close() error { c.shut(); return nil }
func (c *vfHCConn) CloseWithError(network.ConnErrorCode) error {
	c.shut()
	return nil
}
func (c *vfHCConn) IsClosed() bool { return c.closed.Load() }
func (c *vfHCConn) OpenStream(context.Context) (network.MuxedStream, error) {
	if c.closed.Load() {
		return nil, errVfHC
	}
	c.opens.Add(1)
	return &vfHCStream{closed: make(chan struct{})}, nil
}
func (c *vfHCConn) AcceptStream() (network.MuxedStream, error) {
	<-c.closedCh
	return nil, errVfHC
}
func (c *vfHCConn) LocalPeer() peer.ID                 { return c.lp }
func (c *vfHCConn) RemotePeer() peer.ID                { return c.rp }
func (c *vfHCConn) RemotePublicKey() ic.PubKey         { return nil }
func (c *vfHCConn) ConnState() network.ConnectionState { return network.ConnectionState{} }
func (c *vfHCConn) LocalMultiaddr() ma.Multiaddr       { return c.la }
func (c *vfHCConn) RemoteMultiaddr() ma.Multiaddr      { return c.ra }
func (c *vfHCConn) Scope() network.ConnScope           { return &network.NullScope{} }
func (c *vfHCConn) Transport() transport.Transport     { return c.tpt }
func (c *vfHCConn) As(any) bool                        { return false }
func (c *vfHCConn) Stat() network.ConnStats {
	return network.ConnStats{Stats: network.Stats{Limited: c.kind == "L"}}
}

type vfHCListener struct {
	addr   ma.Multiaddr
	ch     chan transport.CapableConn
	once   sync.Once
	closed chan struct{}
}

func (l *vfHCListener) Accept() (transport.CapableConn, error) {
	select {
	case c := <-l.ch:
		return c, nil
	case <-l.closed:
		return nil, transport.ErrListenerClosed
	}
}
func (l *vfHCListener) Close() error            { l.once.Do(func() { close(l.closed) }); return nil }
func (l *vfHCListener) Addr() net.Addr          { return &net.TCPAddr{IP: net.IPv4(100, 64, 0, 1), Port: 4001} }
func (l *vfHCListener) Multiaddr() ma.Multiaddr { return l.addr }

type vfHCWorld struct {
	mu     sync.Mutex
	local  peer.ID
	remote peer.ID
	dialOK bool
	dialed []string
	conns  []*vfHCConn
}

type vfHCTpt struct {
	w      *vfHCWorld
	proxy  bool
	protos []int
	lis    *vfHCListener
}

func (t *vfHCTpt) isRelay(a ma.Multiaddr) bool {
	_, err := a.ValueForProtocol(ma.P_CIRCUIT)
	return err == nil
}
func (t *vfHCTpt) CanDial(a ma.Multiaddr) bool {
	if t.isRelay(a) {
		return t.proxy
	}
	if t.proxy {
		return false
	}
	for _, p := range a.Protocols() {
		for _, c := range t.protos {
			if p.Code == c {
				return true
			}
		}
	}
	return false
}
func (t *vfHCTpt) Protocols() []int { return t.protos }
func (t *vfHCTpt) Proxy() bool      { return t.proxy }
func (t *vfHCTpt) Listen(a ma.Multiaddr) (transport.Listener, error) {
	t.lis = &vfHCListener{addr: a, ch: make(chan transport.CapableConn, 4), closed: make(chan struct{})}
	return t.lis, nil
}
func (t *vfHCTpt) Dial(ctx context.Context, raddr ma.Multiaddr, p peer.ID) (transport.CapableConn, error) {
	w := t.w
	w.mu.Lock()
	defer w.mu.Unlock()
	w.dialed = append(w.dialed, holepunch.VfHPToken(raddr))
	if !w.dialOK {
		return nil, errors.New("vf: scripted dial failure")
	}
	kind := "D"
	if t.proxy {
		kind = "L"
	}
	c := &vfHCConn{kind: kind, lp: w.local, rp: p, la: ma.StringCast("/ip4/100.64.0.1/tcp/4001"), ra: raddr, tpt: t, closedCh: make(chan struct{})}
	w.conns = append(w.conns, c)
	return c, nil
}

type vfHCSys struct {
	w     *vfHCWorld
	ps    peerstore.Peerstore
	sw    *swarm.Swarm
	h     *basichost.BasicHost
	tcp   *vfHCTpt
	quic  *vfHCTpt
	relay *vfHCTpt
}

func vfHCNew(t *testing.T, conns, psToks []string) *vfHCSys {
	lid, rid, relayID := holepunch.VfHPIDs()
	local, _ := peer.Decode(lid)
	remote, _ := peer.Decode(rid)
	ps, err := pstoremem.NewPeerstore()
	if err != nil {
		t.Fatal(err)
	}
	sw, err := swarm.NewSwarm(local, ps, eventbus.NewBus())
	if err != nil {
		t.Fatal(err)
	}
	w := &vfHCWorld{local: local, remote: remote}
	s := &vfHCSys{w: w, ps: ps, sw: sw,
		tcp:   &vfHCTpt{w: w, protos: []int{ma.P_TCP}},
		quic:  &vfHCTpt{w: w, protos: []int{ma.P_QUIC_V1}},
		relay: &vfHCTpt{w: w, protos: []int{ma.P_CIRCUIT}, proxy: true}}
	for _, tp := range []*vfHCTpt{s.tcp, s.quic, s.relay} {
		if err := sw.AddTransport(tp); err != nil {
			t.Fatal(err)
		}
	}
	if err := sw.Listen(ma.StringCast("/ip4/100.64.0.1/tcp/4001"), ma.StringCast("/ip4/100.64.0.2/tcp/4001/p2p/"+relayID+"/p2p-circuit")); err != nil {
		t.Fatal(err)
	}
	h, err := basichost.NewHost(sw, &basichost.HostOpts{DisableSignedPeerRecord: true})
	if err != nil {
		t.Fatal(err)
	}
	h.Start()
	s.h = h
	for i, k := range conns {
		c := &vfHCConn{kind: k, lp: local, rp: remote, la: ma.StringCast("/ip4/100.64.0.1/tcp/4001"), closedCh: make(chan struct{})}
		if k == "D" {
			c.ra, c.tpt = ma.StringCast(fmt.Sprintf("/ip4/5.5.5.%d/tcp/4001", i+1)), s.tcp
			s.tcp.lis.ch <- c
		} else {
			c.ra, c.tpt = ma.StringCast(fmt.Sprintf("/ip4/9.9.9.%d/tcp/4001/p2p/%s/p2p-circuit", i+1, relayID)), s.relay
			s.relay.lis.ch <- c
		}
		w.mu.Lock()
		w.conns = append(w.conns, c)
		w.mu.Unlock()
	}
	synctest.Wait()
	time.Sleep(time.Second) // identify gives up on every connection (the stub remote never answers)
	synctest.Wait()
	for _, tok := range psToks {
		ps.AddAddr(remote, holepunch.VfHPAddr(tok), peerstore.PermanentAddrTTL)
	}
	w.mu.Lock()
	w.dialed = nil
	w.mu.Unlock()
	return s
}

func (s *vfHCSys) close() {
	s.h.Close()
	s.ps.Close()
	synctest.Wait()
}

func (s *vfHCSys) openKinds() []string {
	out := []string{}
	for _, c := range s.sw.ConnsToPeer(s.w.remote) {
		k := "D"
		if _, err := c.RemoteMultiaddr().ValueForProtocol(ma.P_CIRCUIT); err == nil {
			k = "U"
			if c.Stat().Limited {
				k = "L"
			}
		}
		out = append(out, k)
	}
	sort.Strings(out)
	return out
}

func vfHCSubsets(xs []string) [][]string {
	out := [][]string{}
	for m := 0; m < 1<<len(xs); m++ {
		s := []string{}
		for i, x := range xs {
			if m&(1<<i) != 0 {
				s = append(s, x)
			}
		}
		out = append(out, s)
	}
	return out
}

func vfHCSet(xs []string) []string {
	m := map[string]bool{}
	for _, x := range xs {
		m[x] = true
	}
	out := []string{}
	for x := range m {
		out = append(out, x)
	}
	sort.Strings(out)
	return out
}

func vfHCSubset(a, b []string) bool {
	m := map[string]bool{}
	for _, x := range b {
		m[x] = true
	}
	for _, x := range a {
		if !m[x] {
			return false
		}
	}
	return true
}

func vfHCHas(xs []string, x string) bool {
	for _, y := range xs {
		if y == x {
			return true
		}
	}
	return false
}

// TestVerifC12HolePunchHostContract: host.Connect / host.NewStream of the real BasicHost+Swarm for every
// connection table x peerstore mix x AddrInfo x context flags x dial outcome.
func TestVerifC12HolePunchHostContract(t *testing.T) {
	res := vfh.NewResult()
	res.Rule = "one case = one host.Connect or host.NewStream call on a fresh BasicHost+Swarm; distinct = distinct (call, table, addresses, flags, outcome)"
	thorough := vfh.Thorough()
	tables := vfHCSubsets([]string{"D", "L", "U"})
	psMixes := vfHCSubsets([]string{"pP", "pV", "pR"})
	addrSets := [][]string{{}, {"mP"}, {"mV", "mR"}}
	if !thorough {
		psMixes = [][]string{{}, {"pR"}, {"pP", "pR"}, {"pV", "pR"}, {"pP", "pV"}}
	}
	n := 0
	for _, conns := range tables {
		for _, psToks := range psMixes {
			for _, addrs := range addrSets {
				for f := 0; f < 8; f++ {
					force, allow, dialOK := f&1 != 0, f&2 != 0, f&4 != 0
					n++
					key := fmt.Sprintf("connect conns=%v ps=%v addrs=%v force=%v allow=%v dialOK=%v", conns, psToks, addrs, force, allow, dialOK)
					synctest.Test(t, func(t *testing.T) {
						s := vfHCNew(t, conns, psToks)
						s.w.mu.Lock()
						s.w.dialOK = dialOK
						s.w.mu.Unlock()
						ctx, cancel := context.WithTimeout(context.Background(), 5*time.Minute)
						defer cancel()
						if force {
							ctx = network.WithForceDirectDial(ctx, "vf")
						}
						if allow {
							ctx = network.WithAllowLimitedConn(ctx, "vf")
						}
						pi := peer.AddrInfo{ID: s.w.remote}
						for _, tok := range addrs {
							pi.Addrs = append(pi.Addrs, holepunch.VfHPAddr(tok))
						}
						err := s.h.Connect(ctx, pi)
						ok := err == nil
						after := s.openKinds()
						s.w.mu.Lock()
						dialed := vfHCSet(s.w.dialed)
						s.w.mu.Unlock()
						s.close()
						// the clauses of the statement, at the host
						if force && ok && !vfHCHas(after, "D") {
							res.AddMismatch(vfh.Mismatch{Class: "host-connect-force-direct-without-direct-conn", Walk: -1, Step: n,
								What: "BasicHost.Connect under force-direct returned nil while no direct connection is open: " + key, Got: after})
						}
						for _, a := range dialed {
							if force && holepunch.VfHPRelayToken(a) {
								res.AddMismatch(vfh.Mismatch{Class: "host-connect-force-direct-dialed-relay", Walk: -1, Step: n,
									What: "BasicHost.Connect under force-direct handed relay address " + a + " to a transport: " + key, Got: dialed})
							}
						}
						// the fake host of the replay harness answers the same way
						fok, fdialed, fafter, ferr := holepunch.VfHPFakeConnect(conns, psToks, addrs, force, allow, dialOK)
						if ferr != nil {
							t.Fatal(ferr)
						}
						// (without force-direct the dial ranker decides which of a private direct and a relay address
						// wins, so only "a connection was made" is compared there)
						same := ok == fok && (len(after) > len(conns)) == (len(fafter) > len(conns))
						if force {
							same = same && vfh.Canon(vfHCSet(after)) == vfh.Canon(vfHCSet(fafter))
						}
						if dialOK || !force {
							same = same && vfHCSubset(dialed, fdialed) && (len(dialed) > 0) == (len(fdialed) > 0)
						} else {
							same = same && vfh.Canon(dialed) == vfh.Canon(vfHCSet(fdialed))
						}
						if !same {
							res.AddMismatch(vfh.Mismatch{Class: "L2:holepunch-fake-host-fidelity", Walk: -1, Step: n, What: "host.Connect: " + key,
								Expected: map[string]any{"ok": fok, "dialed": fdialed, "after": fafter}, Got: map[string]any{"ok": ok, "dialed": dialed, "after": after}})
						}
						res.Case(key)
						res.Count(1, 1)
						res.Inc(fmt.Sprintf("connect-force=%v-ok=%v", force, ok), 1)
						if force && len(conns) > 0 && !vfHCHas(conns, "D") {
							res.Inc(fmt.Sprintf("connect-force-only-relayed-conns-ok=%v", ok), 1)
						}
					})
				}
			}
		}
	}
	for _, conns := range tables {
		for f := 0; f < 4; f++ {
			allow, nodial := f&1 != 0, f&2 != 0
			n++
			key := fmt.Sprintf("newstream conns=%v allow=%v nodial=%v", conns, allow, nodial)
			synctest.Test(t, func(t *testing.T) {
				s := vfHCNew(t, conns, nil)
				before := map[*vfHCConn]int32{}
				for _, c := range s.w.conns {
					before[c] = c.opens.Load()
				}
				ctx, cancel := context.WithTimeout(context.Background(), 2*time.Second)
				defer cancel()
				if nodial {
					ctx = network.WithNoDial(ctx, "vf")
				}
				if allow {
					ctx = network.WithAllowLimitedConn(ctx, "vf")
				}
				str, _ := s.h.NewStream(ctx, s.w.remote, holepunch.Protocol)
				if str != nil {
					str.Reset()
				}
				rode := ""
				for _, c := range s.w.conns {
					if c.opens.Load() > before[c] {
						rode = c.kind
					}
				}
				s.close()
				if rode == "L" && !allow {
					res.AddMismatch(vfh.Mismatch{Class: "host-newstream-limited-without-allow", Walk: -1, Step: n,
						What: "BasicHost.NewStream opened a stream over a limited connection for a caller that did not allow it: " + key})
				}
				frode, ferr := holepunch.VfHPFakeNewStream(conns, allow, nodial)
				if ferr != nil {
					t.Fatal(ferr)
				}
				if frode != rode {
					res.AddMismatch(vfh.Mismatch{Class: "L2:holepunch-fake-host-fidelity", Walk: -1, Step: n, What: "host.NewStream: " + key, Expected: frode, Got: rode})
				}
				res.Case(key)
				res.Count(1, 1)
				res.Inc("newstream-rode-"+rode, 1)
			})
		}
	}
	// the replay test of this package owns <out>/result.json
	if out := vfh.Out(); out != "" {
		sub := filepath.Join(out, "host")
		os.MkdirAll(sub, 0o755)
		os.Setenv("VERIF_OUT", sub)
		defer os.Setenv("VERIF_OUT", out)
	}
	if err := res.Write(); err != nil {
		t.Fatal(err)
	}
}
