//go:build verif

package autonatv2

// Conformance harness for C16 (AutoNAT v2 server: no amplification, rate limits).
//
// Part (a): every transition of the bounded TLC graphs of spec/C16_RateLimiter.tla is replayed on the
// real rateLimiter (injectable clock); accept decisions are compared with the model and with an
// independent sliding-window monitor over the harness's own accept log; long seeded arrival patterns
// at realistic parameters run under the same monitor.
// Part (b): every transition of the bounded graph of spec/C16_AutoNAT.tla (request shape x dial-data
// script) is replayed on the real server (handleDialRequest) with a fake dialer host and a scripted
// in-memory stream, inside a testing/synctest bubble (virtual time, no sockets).
//
// Class keys without "L2:" are clauses of the statement failing on observables of the real code.

import (
	"context"
	"encoding/binary"
	"encoding/json"
	"errors"
	"fmt"
	"io"
	"math/rand"
	"os"
	"path/filepath"
	"sort"
	"strings"
	"sync"
	"sync/atomic"
	"testing"
	"testing/synctest"
	"time"

	"github.com/libp2p/go-libp2p/core/host"
	"github.com/libp2p/go-libp2p/core/network"
	"github.com/libp2p/go-libp2p/core/peer"
	"github.com/libp2p/go-libp2p/core/peerstore"
	"github.com/libp2p/go-libp2p/core/protocol"
	"github.com/libp2p/go-libp2p/internal/vfh"
	"github.com/libp2p/go-libp2p/p2p/host/peerstore/pstoremem"
	"github.com/libp2p/go-libp2p/p2p/protocol/autonatv2/pb"
	ma "github.com/multiformats/go-multiaddr"
	"google.golang.org/protobuf/proto"
)

// vfC16Add records a mismatch; L2 divergences are capped at 8 per test so that they can never crowd a
// violation out of the (bounded) result file.
var vfC16L2 atomic.Int32

func vfC16Add(res *vfh.Result, m vfh.Mismatch) {
	if strings.HasPrefix(m.Class, "L2:") && vfC16L2.Add(1) > 8 {
		return
	}
	res.AddMismatch(m)
}

const vfC16Window = time.Minute // the statement's "one-minute window"

// ---------------------------------------------------------------------------------------------
// Part (a): rate limiter
// ---------------------------------------------------------------------------------------------

type vfC16Clock struct{ t time.Time }

func (c *vfC16Clock) Now() time.Time { return c.t }

// vfC16Mon is the L1 monitor of the rate-limit clauses.  It sees only the results of the calls
// (granted / refused, completed) and the time, never the limiter's own lists.  The window is the
// half-open interval (now-60s, now]: two instants exactly one minute apart are not in one window.
type vfC16Mon struct {
	rpm, ppr, ddr, conc int
	acc                 []time.Time
	peerAcc             map[string][]time.Time
	dd                  []time.Time
	serving             map[string]int
	closedMax           int // informational: most grants seen in a CLOSED window [now-60s, now]
}

func vfC16NewMon(rpm, ppr, ddr, conc int) *vfC16Mon {
	return &vfC16Mon{rpm: rpm, ppr: ppr, ddr: ddr, conc: conc, peerAcc: map[string][]time.Time{}, serving: map[string]int{}}
}

// vfC16Trim forgets entries that are outside even the closed window ending now.
func vfC16Trim(l []time.Time, now time.Time) []time.Time {
	i := 0
	for i < len(l) && now.Sub(l[i]) > vfC16Window {
		i++
	}
	return l[i:]
}

// vfC16InWindow counts the entries inside (now-60s, now] and inside [now-60s, now].
func vfC16InWindow(l []time.Time, now time.Time) (open, closed int) {
	for _, t := range l {
		d := now.Sub(t)
		if d < vfC16Window {
			open++
		}
		if d <= vfC16Window {
			closed++
		}
	}
	return
}

// wouldAccept is the reference decision the statement allows at most: below the cap and below the
// two window limits.
func (m *vfC16Mon) wouldAccept(p string, now time.Time) bool {
	g, _ := vfC16InWindow(m.acc, now)
	pp, _ := vfC16InWindow(m.peerAcc[p], now)
	return m.serving[p] < m.conc && g < m.rpm && pp < m.ppr
}
func (m *vfC16Mon) wouldAcceptDD(now time.Time) bool {
	d, _ := vfC16InWindow(m.dd, now)
	return d < m.ddr
}

// granted records a granted Accept(p) and returns the violated clause, if any.
func (m *vfC16Mon) granted(p string, now time.Time) (string, string) {
	m.acc = append(vfC16Trim(m.acc, now), now)
	m.peerAcc[p] = append(vfC16Trim(m.peerAcc[p], now), now)
	m.serving[p]++
	g, gc := vfC16InWindow(m.acc, now)
	if gc > m.closedMax {
		m.closedMax = gc
	}
	if m.serving[p] > m.conc {
		return "limiter-concurrent-cap", fmt.Sprintf("%d requests of peer %s in progress, cap %d", m.serving[p], p, m.conc)
	}
	if g > m.rpm {
		return "limiter-window-global", fmt.Sprintf("%d requests accepted within one minute, RPM %d", g, m.rpm)
	}
	if pp, _ := vfC16InWindow(m.peerAcc[p], now); pp > m.ppr {
		return "limiter-window-peer", fmt.Sprintf("%d requests of peer %s accepted within one minute, PerPeerRPM %d", pp, p, m.ppr)
	}
	return "", ""
}
func (m *vfC16Mon) grantedDD(now time.Time) (string, string) {
	m.dd = append(vfC16Trim(m.dd, now), now)
	if d, _ := vfC16InWindow(m.dd, now); d > m.ddr {
		return "limiter-window-dialdata", fmt.Sprintf("%d dial-data requests accepted within one minute, DialDataRPM %d", d, m.ddr)
	}
	return "", ""
}
func (m *vfC16Mon) completed(p string) {
	if m.serving[p] > 0 {
		m.serving[p]--
	}
}

// vfC16T reads a time stamp of the limiter's lists whatever its representation (time.Time, unix
// seconds / nanoseconds): the projection is L2 evidence and must not stop the harness from building.
func vfC16T(x any) time.Time {
	switch v := x.(type) {
	case time.Time:
		return v
	case int64:
		if v > 1e14 {
			return time.Unix(0, v)
		}
		return time.Unix(v, 0)
	case int:
		return time.Unix(int64(v), 0)
	case time.Duration:
		return time.Unix(0, int64(v))
	}
	return time.Time{}
}

var vfC16Phases = []time.Duration{0, 1, 100 * time.Millisecond, 500 * time.Millisecond, 900 * time.Millisecond, 999999999}

type vfC16Lim struct {
	w     int
	ticks []time.Time // tick instants so far; scale map: any W consecutive ticks span >= 60 s, any W-1 span < 60 s
	rnd   *rand.Rand
	peers []string
	clk   *vfC16Clock
	r     *rateLimiter
	mon   *vfC16Mon
}

func vfC16NewLim(rpm, ppr, ddr, conc, w int, peers []string, seed int64) *vfC16Lim {
	rnd := rand.New(rand.NewSource(seed))
	// a non-zero, non-integral unix time: one of the fixed sub-second phases, sometimes plus a random one
	t0 := time.Date(2024, 1, 1, 0, 0, 0, 0, time.UTC).Add(time.Duration(rnd.Intn(3600)) * time.Second).Add(vfC16Phases[rnd.Intn(len(vfC16Phases))])
	if rnd.Intn(3) == 0 {
		t0 = t0.Add(time.Duration(rnd.Int63n(int64(time.Second))))
	}
	clk := &vfC16Clock{t: t0}
	return &vfC16Lim{w: w, ticks: []time.Time{t0}, rnd: rnd, peers: peers, clk: clk,
		r:   &rateLimiter{RPM: rpm, PerPeerRPM: ppr, DialDataRPM: ddr, MaxConcurrentRequestsPerPeer: conc, now: clk.Now},
		mon: vfC16NewMon(rpm, ppr, ddr, conc)}
}

// age = number of model ticks since t (capped at W)
func (s *vfC16Lim) age(t time.Time) int {
	k := len(s.ticks) - 1
	a := 0
	for k > 0 && s.ticks[k].After(t) && a < s.w {
		k--
		a++
	}
	return a
}

// nextTick advances the clock by one model tick.  Tick lengths vary in [60s/W, 60s/(W-1)) with
// nanosecond resolution, so that W ticks always span at least a minute and W-1 ticks always less:
// the model's "age >= W" is exactly "at least 60 s old", while the real instants have arbitrary
// sub-second phases (e.g. two ticks spanning 59.1 s from x.9 s to y.0 s).
func (s *vfC16Lim) nextTick() {
	lo := int64(vfC16Window) / int64(s.w)
	hi := int64(vfC16Window)
	if s.w > 1 {
		hi = int64(vfC16Window) / int64(s.w-1)
	}
	var d int64
	switch s.rnd.Intn(4) {
	case 0:
		d = lo + s.rnd.Int63n(int64(time.Second))
	case 1:
		d = hi - 1 - s.rnd.Int63n(int64(time.Second))
	case 2:
		d = lo
	default:
		d = lo + s.rnd.Int63n(hi-lo)
	}
	s.clk.t = s.clk.t.Add(time.Duration(d))
	s.ticks = append(s.ticks, s.clk.t)
	if len(s.ticks) > s.w+2 {
		s.ticks = s.ticks[len(s.ticks)-s.w-2:]
	}
}

// project reads the abstract state out of the real limiter (in-package; L2 evidence only).
func (s *vfC16Lim) project() map[string]any {
	s.r.mu.Lock()
	defer s.r.mu.Unlock()
	reqs := []any{}
	for _, e := range s.r.reqs {
		reqs = append(reqs, map[string]any{"p": string(e.PeerID), "a": s.age(vfC16T(e.Time))})
	}
	pr := map[string]any{}
	ip := map[string]any{}
	for _, p := range s.peers {
		l := []any{}
		for _, t := range s.r.peerReqs[peer.ID(p)] {
			l = append(l, s.age(vfC16T(t)))
		}
		pr[p] = l
		ip[p] = s.r.inProgressReqs[peer.ID(p)]
	}
	dd := []any{}
	for _, t := range s.r.dialDataReqs {
		dd = append(dd, s.age(vfC16T(t)))
	}
	return map[string]any{"reqs": reqs, "peerReqs": pr, "ddReqs": dd, "inProg": ip}
}

// step executes one model action; with monitorOnly (after the limiter left the model) only the L1 monitor judges
// and CompleteRequest is called only for a request that really is outstanding.
func (s *vfC16Lim) step(op vfh.Op, monitorOnly bool) (cls, what string, exp, got any) {
	switch op.Name() {
	case "accept":
		p := op.S("p")
		ok := s.r.Accept(peer.ID(p))
		if ok {
			if c, w := s.mon.granted(p, s.clk.t); c != "" {
				return c, w, op.B("ok"), ok
			}
		}
		if ok != op.B("ok") && !monitorOnly {
			if ok {
				return "L2:accept-decision", "Accept granted where the model refuses (" + op.S("why") + ") but no limit is exceeded", false, true
			}
			return "L2:over-rejection", "Accept refused where the model grants", true, false
		}
	case "acceptdd":
		ok := s.r.AcceptDialDataRequest()
		if ok {
			if c, w := s.mon.grantedDD(s.clk.t); c != "" {
				return c, w, op.B("ok"), ok
			}
		}
		if ok != op.B("ok") && !monitorOnly {
			if ok {
				return "L2:accept-decision", "AcceptDialDataRequest granted where the model refuses", false, true
			}
			return "L2:over-rejection", "AcceptDialDataRequest refused where the model grants", true, false
		}
	case "complete":
		if monitorOnly && s.mon.serving[op.S("p")] == 0 {
			break
		}
		s.r.CompleteRequest(peer.ID(op.S("p")))
		s.mon.completed(op.S("p"))
	case "tick":
		s.nextTick()
	default:
		return "L2:unknown-op", "unknown op " + op.Name(), nil, nil
	}
	return "", "", nil, nil
}

func vfC16Int(m map[string]any, k string) int {
	f, _ := m[k].(float64)
	return int(f)
}

func vfC16CanonRaw(b []byte) string {
	var x any
	if err := json.Unmarshal(b, &x); err != nil {
		return string(b)
	}
	return vfh.Canon(x)
}

// TestVerifC16Limiter replays every transition of the bounded limiter graphs.
func TestVerifC16Limiter(t *testing.T) {
	res := vfh.NewResult()
	vfC16L2.Store(0)
	defer func() {
		if err := res.Write(); err != nil {
			t.Fatal(err)
		}
	}()
	files, _ := filepath.Glob(filepath.Join(vfh.In(), "lim_*.jsonl"))
	if len(files) == 0 {
		t.Fatalf("no limiter behaviour files in %q", vfh.In())
	}
	res.Rule = "one case = one (instance, source state, call+arguments) transition of the limiter model executed on the real rateLimiter; every case compares the decision (model + sliding-window monitor) and the projected lists"
	var wg sync.WaitGroup
	defer wg.Wait()
	closedMax := make([]int, len(files))
	rpms := make([]int, len(files))
	for fi, f := range files {
		hdr, walks, err := vfh.LoadWalks(f)
		if err != nil {
			t.Fatalf("%s: %v", f, err)
		}
		wg.Add(1)
		go func() {
			defer wg.Done()
			rpm, ppr, ddr, conc, w := vfC16Int(hdr, "RPM"), vfC16Int(hdr, "PerPeerRPM"), vfC16Int(hdr, "DialDataRPM"), vfC16Int(hdr, "MaxConc"), vfC16Int(hdr, "W")
			var peers []string
			for _, p := range hdr["Peers"].([]any) {
				peers = append(peers, p.(string))
			}
			rpms[fi] = rpm
			inst := filepath.Base(f)
			cfg := map[string]any{"file": inst, "RPM": rpm, "PerPeerRPM": ppr, "DialDataRPM": ddr, "MaxConc": conc, "W": w,
				"scale": "tick lengths vary in [60s/W, 60s/(W-1)) with ns resolution, start at a non-integral unix time"}
			for _, wk := range walks {
				sys := vfC16NewLim(rpm, ppr, ddr, conc, w, peers, vfh.Seed()*15485863+int64(fi)*1000003+int64(wk.Walk))
				var prefix []vfh.Op
				prev := string(wk.Init)
				left := false // the real limiter left the model (L2): the rest of the walk runs under the L1 monitor only
				for i, st := range wk.Steps {
					prefix = append(prefix, st.Op)
					cls, what, exp, got := sys.step(st.Op, left)
					if !left {
						res.Case(inst + "|" + prev + "|" + vfh.Canon(st.Op))
					}
					prev = string(st.State)
					if cls == "" && !left {
						if m, r := vfC16CanonRaw(st.State), vfh.Canon(sys.project()); m != r {
							cls, what, exp, got = "L2:limiter-state", "limiter lists differ from the model after "+st.Op.Name(), m, r
						}
					}
					res.Count(0, 1)
					if cls != "" {
						vfC16Add(res, vfh.Mismatch{Class: cls, What: what, Walk: wk.Walk, Step: i, Expected: exp, Got: got, Prefix: prefix, Cfg: cfg})
						if !strings.HasPrefix(cls, "L2:") {
							break
						}
						left = true
					}
				}
				res.Count(1, 0)
				if sys.mon.closedMax > closedMax[fi] {
					closedMax[fi] = sys.mon.closedMax
				}
				if wk.Walk == 0 && len(wk.Steps) > 0 {
					k := min(8, len(wk.Steps))
					res.Sample(map[string]any{"instance": inst, "first_steps": wk.Steps[:k]})
				}
			}
		}()
	}
	wg.Wait()
	// boundary adjudication, measured: grants inside a CLOSED one-minute window [t-60s, t]
	over := 0
	for i := range files {
		if closedMax[i] > rpms[i] {
			over++
		}
	}
	res.Set("closed_window_instances_over_rpm", over)
	res.Set("closed_window_max", closedMax)
}

// TestVerifC16Patterns: long seeded arrival patterns at realistic parameters under the L1 monitor;
// the real decision is also compared with the reference decision (the most the statement allows).
func TestVerifC16Patterns(t *testing.T) {
	res := vfh.NewResult()
	vfC16L2.Store(0)
	defer func() {
		if err := res.Write(); err != nil {
			t.Fatal(err)
		}
	}()
	res.Rule = "one case = one seeded arrival pattern (population of peers, virtual time incl. instants exactly 60 s apart) on the real rateLimiter; monitors: sliding-window bounds over the accept log, in-progress cap"
	type par struct{ rpm, ppr, ddr, conc, peers int }
	pars := []par{{60, 12, 12, 2, 25}, {60, 12, 12, 2, 4}, {10, 3, 2, 1, 6}, {5, 5, 5, 3, 3}, {1, 1, 1, 1, 2}, {30, 30, 1, 2, 2}}
	seqs, steps := 24, 20000
	if vfh.Thorough() {
		seqs, steps = 72, 100000
	}
	var mu sync.Mutex
	closedOver := 0
	var wg sync.WaitGroup
	sem := make(chan struct{}, 4)
	for i := 0; i < seqs; i++ {
		wg.Add(1)
		sem <- struct{}{}
		go func() {
			defer wg.Done()
			defer func() { <-sem }()
			p := pars[i%len(pars)]
			mode := (i / len(pars)) % 4
			rnd := rand.New(rand.NewSource(vfh.Seed()*1000003 + int64(i)))
			var peers []string
			for k := 0; k < p.peers; k++ {
				peers = append(peers, fmt.Sprintf("peer-%d", k))
			}
			sys := vfC16NewLim(p.rpm, p.ppr, p.ddr, p.conc, 3, peers, vfh.Seed()*999983+int64(i))
			cfg := map[string]any{"seq": i, "RPM": p.rpm, "PerPeerRPM": p.ppr, "DialDataRPM": p.ddr, "MaxConc": p.conc, "peers": p.peers, "mode": mode}
			var hist []string
			n := 0
			under := 0
			for ; n < steps; n++ {
				now := sys.clk.t
				var cls, what string
				switch k := rnd.Intn(10); {
				case k < 5:
					pn := peers[rnd.Intn(len(peers))]
					want := sys.mon.wouldAccept(pn, now)
					ok := sys.r.Accept(peer.ID(pn))
					hist = append(hist, fmt.Sprintf("%d:accept(%s)=%v", now.UnixNano(), pn, ok))
					if ok {
						cls, what = sys.mon.granted(pn, now)
						if cls == "" && !want {
							cls, what = "L2:accept-decision", "granted where the reference refuses although no bound is exceeded"
						}
					} else if want {
						under++
					}
				case k < 7:
					want := sys.mon.wouldAcceptDD(now)
					ok := sys.r.AcceptDialDataRequest()
					hist = append(hist, fmt.Sprintf("%d:acceptdd=%v", now.UnixNano(), ok))
					if ok {
						cls, what = sys.mon.grantedDD(now)
					} else if want {
						under++
					}
				case k < 9:
					// complete one outstanding request (the server completes each granted request once)
					var out []string
					for _, pn := range peers {
						if sys.mon.serving[pn] > 0 {
							out = append(out, pn)
						}
					}
					if len(out) > 0 {
						pn := out[rnd.Intn(len(out))]
						sys.r.CompleteRequest(peer.ID(pn))
						sys.mon.completed(pn)
						hist = append(hist, fmt.Sprintf("%d:complete(%s)", now.UnixNano(), pn))
					}
				}
				if cls != "" {
					k := max(0, len(hist)-400)
					vfC16Add(res, vfh.Mismatch{Class: cls, What: what, Walk: -1, Step: n, Prefix: hist[k:], Cfg: cfg})
					break
				}
				// advance the clock: bursts at one instant, small steps, and jumps to exactly one minute
				// (+-1 ns) after the oldest grant that still counts
				next := now
				zero := rnd.Intn(10) < 6
				switch {
				case mode != 3 && rnd.Intn(50) == 0:
					var cand []time.Time
					if len(sys.mon.acc) > 0 {
						cand = append(cand, sys.mon.acc[0])
					}
					if l := sys.mon.peerAcc[peers[rnd.Intn(len(peers))]]; len(l) > 0 {
						cand = append(cand, l[0], l[len(l)-1])
					}
					if len(sys.mon.dd) > 0 {
						cand = append(cand, sys.mon.dd[0])
					}
					if len(cand) > 0 {
						c := cand[rnd.Intn(len(cand))]
						switch rnd.Intn(3) {
						case 0: // exactly (+-1 ns) one minute later
							next = c.Add(vfC16Window + time.Duration(rnd.Intn(3)-1))
						case 1: // a little less than a minute later: still inside the window
							next = c.Add(vfC16Window - time.Duration(1+rnd.Int63n(int64(time.Second))))
						default: // the start of the wall-clock second in which the minute ends
							next = c.Add(vfC16Window).Truncate(time.Second)
						}
					}
				case zero:
				case mode == 0:
					next = now.Add(time.Duration(1+rnd.Intn(2)) * time.Second)
				case mode == 1:
					next = now.Add(time.Duration(1+rnd.Intn(8)) * 250 * time.Millisecond)
				case mode == 2:
					next = now.Add(time.Duration(rnd.Int63n(int64(time.Second))))
				default:
					if rnd.Intn(200) == 0 {
						next = now.Add(time.Duration(rnd.Intn(90)) * time.Second)
					} else {
						next = now.Add(time.Duration(rnd.Int63n(int64(300 * time.Millisecond))))
					}
				}
				if next.After(now) {
					sys.clk.t = next
				}
				if len(hist) > 800 {
					hist = append([]string{}, hist[len(hist)-400:]...)
				}
			}
			res.Count(1, n)
			res.Case(fmt.Sprintf("pattern-%d", i))
			mu.Lock()
			if sys.mon.closedMax > p.rpm {
				closedOver++
			}
			mu.Unlock()
			if under > 0 {
				vfC16Add(res, vfh.Mismatch{Class: "L2:over-rejection", What: fmt.Sprintf("%d calls refused where the reference grants", under), Walk: -1, Step: n, Cfg: cfg})
			}
		}()
	}
	wg.Wait()
	res.Set("closed_window_patterns_over_rpm", closedOver)
}

// ---------------------------------------------------------------------------------------------
// Part (b): server
// ---------------------------------------------------------------------------------------------

var errVFC16Reset = errors.New("vf: stream reset")

// vfC16Stream is a scripted in-memory network.Stream: the harness appends client bytes, the server
// reads them; everything the server writes is kept for the harness.
type vfC16Stream struct {
	mu        sync.Mutex
	in        []byte
	eof       bool // client closed its side
	reset     bool
	closed    bool
	out       []byte
	outOff    int
	readBytes int64 // bytes handed to the server so far
	chunk     int   // at most this many bytes per Read
	deadline  time.Time
	waiting   bool // a Read is blocked for want of client bytes
	sig       chan struct{}
	conn      *vfC16Conn
}

type vfC16Conn struct {
	network.Conn
	rp peer.ID
	ra ma.Multiaddr
}

func (c *vfC16Conn) RemotePeer() peer.ID            { return c.rp }
func (c *vfC16Conn) RemoteMultiaddr() ma.Multiaddr  { return c.ra }
func (c *vfC16Conn) LocalMultiaddr() ma.Multiaddr   { return ma.StringCast("/ip4/203.0.114.1/tcp/4001") }
func (c *vfC16Conn) ID() string                     { return "vf-conn" }
func (c *vfC16Conn) Stat() network.ConnStats        { return network.ConnStats{} }
func (c *vfC16Conn) IsClosed() bool                 { return false }
func (c *vfC16Conn) Scope() network.ConnScope       { return &network.NullScope{} }
func (c *vfC16Conn) ConnState() network.ConnectionState { return network.ConnectionState{} }

func vfC16NewStream(rp peer.ID, ra ma.Multiaddr, chunk int) *vfC16Stream {
	return &vfC16Stream{chunk: chunk, sig: make(chan struct{}, 1), conn: &vfC16Conn{rp: rp, ra: ra}}
}

func (s *vfC16Stream) feed(b []byte) {
	s.mu.Lock()
	s.in = append(s.in, b...)
	s.mu.Unlock()
	select {
	case s.sig <- struct{}{}:
	default:
	}
}
func (s *vfC16Stream) clientClose() {
	s.mu.Lock()
	s.eof = true
	s.mu.Unlock()
	select {
	case s.sig <- struct{}{}:
	default:
	}
}
func (s *vfC16Stream) isWaiting() bool {
	s.mu.Lock()
	defer s.mu.Unlock()
	return s.waiting && len(s.in) == 0 && !s.eof
}
func (s *vfC16Stream) nread() int64 {
	s.mu.Lock()
	defer s.mu.Unlock()
	return s.readBytes
}

func (s *vfC16Stream) Read(p []byte) (int, error) {
	for {
		s.mu.Lock()
		if s.reset {
			s.mu.Unlock()
			return 0, errVFC16Reset
		}
		if len(p) == 0 {
			s.mu.Unlock()
			return 0, nil
		}
		if len(s.in) > 0 {
			n := len(p)
			if n > len(s.in) {
				n = len(s.in)
			}
			if s.chunk > 0 && n > s.chunk {
				n = s.chunk
			}
			copy(p, s.in[:n])
			s.in = s.in[n:]
			s.readBytes += int64(n)
			s.mu.Unlock()
			return n, nil
		}
		if s.eof {
			s.mu.Unlock()
			return 0, io.EOF
		}
		dl := s.deadline
		s.waiting = true
		s.mu.Unlock()
		var tc <-chan time.Time
		var tm *time.Timer
		if !dl.IsZero() {
			d := time.Until(dl)
			if d <= 0 {
				s.mu.Lock()
				s.waiting = false
				s.mu.Unlock()
				return 0, os.ErrDeadlineExceeded
			}
			tm = time.NewTimer(d)
			tc = tm.C
		}
		select {
		case <-s.sig:
		case <-tc:
		}
		if tm != nil {
			tm.Stop()
		}
		s.mu.Lock()
		s.waiting = false
		s.mu.Unlock()
	}
}

func (s *vfC16Stream) Write(p []byte) (int, error) {
	s.mu.Lock()
	defer s.mu.Unlock()
	if s.reset || s.closed {
		return 0, errVFC16Reset
	}
	s.out = append(s.out, p...)
	return len(p), nil
}
func (s *vfC16Stream) Close() error {
	s.mu.Lock()
	s.closed = true
	s.mu.Unlock()
	return nil
}
func (s *vfC16Stream) CloseWrite() error { return nil }
func (s *vfC16Stream) CloseRead() error  { return nil }
func (s *vfC16Stream) Reset() error {
	s.mu.Lock()
	s.reset = true
	s.mu.Unlock()
	select {
	case s.sig <- struct{}{}:
	default:
	}
	return nil
}
func (s *vfC16Stream) ResetWithError(network.StreamErrorCode) error { return s.Reset() }
func (s *vfC16Stream) SetDeadline(t time.Time) error {
	s.mu.Lock()
	s.deadline = t
	s.mu.Unlock()
	return nil
}
func (s *vfC16Stream) SetReadDeadline(t time.Time) error  { return s.SetDeadline(t) }
func (s *vfC16Stream) SetWriteDeadline(t time.Time) error { return nil }
func (s *vfC16Stream) ID() string                         { return "vf-stream" }
func (s *vfC16Stream) Protocol() protocol.ID              { return DialProtocol }
func (s *vfC16Stream) SetProtocol(protocol.ID) error      { return nil }
func (s *vfC16Stream) Stat() network.Stats                { return network.Stats{Direction: network.DirInbound} }
func (s *vfC16Stream) Conn() network.Conn                 { return s.conn }
func (s *vfC16Stream) Scope() network.StreamScope         { return &network.NullScope{} }

// nextMsgs parses the delimited pb.Messages the server wrote since the last call.
func (s *vfC16Stream) nextMsgs() ([]*pb.Message, error) {
	s.mu.Lock()
	defer s.mu.Unlock()
	var out []*pb.Message
	for s.outOff < len(s.out) {
		l, n := binary.Uvarint(s.out[s.outOff:])
		if n <= 0 || s.outOff+n+int(l) > len(s.out) {
			return out, fmt.Errorf("server wrote a truncated message")
		}
		var m pb.Message
		if err := proto.Unmarshal(s.out[s.outOff+n:s.outOff+n+int(l)], &m); err != nil {
			return out, err
		}
		out = append(out, &m)
		s.outOff += n + int(l)
	}
	return out, nil
}

// vfC16DialEv is one use of the dialer host by the server.
type vfC16DialEv struct {
	Kind        string   `json:"kind"` // connect | newstream | dialpeer
	Peer        string   `json:"peer"`
	Addrs       []string `json:"addrs"` // addresses the dialer would dial (peerstore + AddrInfo)
	addrBytes   [][]byte
	ForceDirect bool  `json:"force_direct"`
	HasDeadline bool  `json:"has_deadline"`
	Read        int64 `json:"stream_bytes_read"` // bytes of the request stream consumed by the server at that moment
	At          int64 `json:"virtual_ms"`
}

// vfC16Dialer is the fake dialer host: it records, never touches a network.  Its peerstore is a REAL
// pstoremem that lives for the whole walk (TTLs run on the bubble's virtual clock): what a Connect
// would dial is whatever that peerstore holds for the peer at that moment plus AddrInfo.Addrs, exactly
// as for a real host.
type vfC16Dialer struct {
	host.Host
	mu       sync.Mutex
	pstore   peerstore.Peerstore
	events   []vfC16DialEv
	canDial  []string
	cur      *vfC16Stream // the request stream being served (sequential scenarios)
	outcome  string       // ok | dialerr | streamerr
	t0       time.Time
	net      *vfC16Net
	closedPs int
}

type vfC16Net struct {
	network.Network
	d *vfC16Dialer
}

func vfC16NewDialer() *vfC16Dialer {
	ps, err := pstoremem.NewPeerstore()
	if err != nil {
		panic(err)
	}
	d := &vfC16Dialer{pstore: ps, outcome: "ok", t0: time.Now()}
	d.net = &vfC16Net{d: d}
	return d
}
func (d *vfC16Dialer) ID() peer.ID                     { return peer.ID("vf-dialer") }
func (d *vfC16Dialer) Network() network.Network        { return d.net }
func (d *vfC16Dialer) Peerstore() peerstore.Peerstore  { return d.pstore }
func (d *vfC16Dialer) Close() error                    { return d.pstore.Close() }
func (d *vfC16Dialer) residue() int                    { return len(d.pstore.PeersWithAddrs()) }
func (d *vfC16Dialer) Addrs() []ma.Multiaddr           { return nil }
func (d *vfC16Dialer) record(kind string, ctx context.Context, p peer.ID, extra []ma.Multiaddr) {
	held := d.pstore.Addrs(p) // what a real host would dial for p now (unexpired entries)
	d.mu.Lock()
	defer d.mu.Unlock()
	ev := vfC16DialEv{Kind: kind, Peer: string(p), At: time.Since(d.t0).Milliseconds()}
	seen := map[string]bool{}
	for _, a := range append(held, extra...) {
		if seen[string(a.Bytes())] {
			continue
		}
		seen[string(a.Bytes())] = true
		ev.Addrs = append(ev.Addrs, a.String())
		ev.addrBytes = append(ev.addrBytes, a.Bytes())
	}
	ev.ForceDirect, _ = network.GetForceDirectDial(ctx)
	_, ev.HasDeadline = ctx.Deadline()
	if d.cur != nil {
		ev.Read = d.cur.nread()
	}
	d.events = append(d.events, ev)
}
func (d *vfC16Dialer) setOutcome(o string) {
	d.mu.Lock()
	d.outcome = o
	d.mu.Unlock()
}
func (d *vfC16Dialer) getOutcome() string {
	d.mu.Lock()
	defer d.mu.Unlock()
	return d.outcome
}
func (d *vfC16Dialer) Connect(ctx context.Context, pi peer.AddrInfo) error {
	d.record("connect", ctx, pi.ID, pi.Addrs)
	if d.getOutcome() == "dialerr" {
		return errors.New("vf: dial failed")
	}
	return nil
}
func (d *vfC16Dialer) NewStream(ctx context.Context, p peer.ID, _ ...protocol.ID) (network.Stream, error) {
	d.record("newstream", ctx, p, nil)
	if d.getOutcome() != "ok" {
		return nil, errors.New("vf: no stream")
	}
	s := vfC16NewStream(p, ma.StringCast("/ip4/198.51.100.9/tcp/1"), 0)
	s.feed([]byte{1, 0}) // the client's DialBackResponse; the server reads one byte of it
	return s, nil
}
func (d *vfC16Dialer) setCur(st *vfC16Stream) {
	d.mu.Lock()
	d.cur = st
	d.mu.Unlock()
}
func (d *vfC16Dialer) takeEvents() []vfC16DialEv {
	d.mu.Lock()
	defer d.mu.Unlock()
	ev := d.events
	d.events = nil
	return ev
}

// CanDial: addresses with port 9999 are not dialable by this dialer (class "undial").
func (n *vfC16Net) CanDial(_ peer.ID, a ma.Multiaddr) bool {
	n.d.mu.Lock()
	n.d.canDial = append(n.d.canDial, a.String())
	n.d.mu.Unlock()
	return !strings.Contains(a.String(), "/9999")
}
func (n *vfC16Net) ClosePeer(peer.ID) error {
	n.d.mu.Lock()
	n.d.closedPs++
	n.d.mu.Unlock()
	return nil
}
func (n *vfC16Net) DialPeer(ctx context.Context, p peer.ID) (network.Conn, error) {
	n.d.record("dialpeer", ctx, p, nil)
	return nil, errors.New("vf: DialPeer is not scripted")
}
func (n *vfC16Net) LocalPeer() peer.ID { return n.d.ID() }
func (n *vfC16Net) Connectedness(peer.ID) network.Connectedness { return network.NotConnected }

type vfC16Tracer struct {
	mu   sync.Mutex
	evts []EventDialRequestCompleted
}

func (m *vfC16Tracer) CompletedRequest(e EventDialRequestCompleted) {
	m.mu.Lock()
	m.evts = append(m.evts, e)
	m.mu.Unlock()
}
func (m *vfC16Tracer) ClientCompletedRequest([]Request, Result, error) {}
func (m *vfC16Tracer) n() int {
	m.mu.Lock()
	defer m.mu.Unlock()
	return len(m.evts)
}

// Concrete forms of the abstract address classes, per observed address.  `other` = the IP differs
// from the observed one or is not known (dns name): the statement's "IP differs" case.
type vfC16Obs struct {
	observed string
	same     []string
	other    []string
}

var vfC16Observed = []vfC16Obs{
	{"/ip4/1.2.3.4/tcp/12345",
		[]string{"/ip4/1.2.3.4/tcp/4001", "/ip4/1.2.3.4/udp/4001/quic-v1", "/ip4/1.2.3.4/tcp/443/tls/ws", "/ip4/1.2.3.4/tcp/12345"},
		[]string{"/ip4/1.2.3.5/tcp/4001", "/ip4/5.6.7.8/udp/4001/quic-v1", "/ip6/2606:4700::1111/tcp/4001", "/ip4/1.2.3.5/tcp/12345", "/dns4/example.com/tcp/4001", "/dns/example.com/udp/443/quic-v1"}},
	{"/ip4/8.8.4.4/udp/4001/quic-v1",
		[]string{"/ip4/8.8.4.4/tcp/4001", "/ip4/8.8.4.4/udp/4001/quic-v1", "/ip4/8.8.4.4/udp/1/quic-v1/webtransport"},
		[]string{"/ip4/8.8.8.8/udp/4001/quic-v1", "/ip4/8.8.4.5/tcp/4001", "/ip6/2001:4860:4860::8844/udp/4001/quic-v1", "/dns6/example.org/tcp/4001"}},
	{"/ip6/2606:4700::1111/tcp/5000",
		[]string{"/ip6/2606:4700::1111/tcp/4001", "/ip6/2606:4700::1111/udp/4001/quic-v1"},
		[]string{"/ip6/2606:4700::1112/tcp/4001", "/ip4/1.2.3.4/tcp/4001", "/ip6/2606:4700:0:1::1111/tcp/5000", "/dnsaddr/example.net"}},
}
// The harness's own table of addresses that are NOT public (the statement: "a request naming no public,
// dialable address is refused without any dial").  Listed, not computed with the code's predicate: every
// special-purpose IPv4 / IPv6 registry block that is not globally routable, IPv4-mapped private and
// loopback addresses, and special-use dns names; crossed with the transports.  (Blocks on which the
// meaning of "public" is debatable - NAT64, 6to4, IPv4-mapped public addresses, 192.0.0.64/26.. - are in
// neither table.)
var vfC16NonPublicIP4 = []string{
	"0.0.0.0", "0.1.2.3", // "this network" 0/8
	"10.0.0.1", "10.255.255.254", // RFC 1918
	"100.64.0.1", "100.127.255.254", // shared address space 100.64/10
	"127.0.0.1", "127.9.9.9", // loopback
	"169.254.1.1",                 // link local
	"172.16.9.9", "172.31.255.254", // RFC 1918
	"192.0.0.1", "192.0.0.8", // IETF protocol assignments
	"192.0.2.1",       // TEST-NET-1
	"192.88.99.1",     // 6to4 relay anycast (deprecated)
	"192.168.1.5",     // RFC 1918
	"198.18.0.1", "198.19.255.254", // benchmarking 198.18/15
	"198.51.100.7", // TEST-NET-2
	"203.0.113.9",  // TEST-NET-3
	"224.0.0.1", "239.255.255.250", // multicast 224/4
	"240.0.0.1", "254.1.2.3", // reserved 240/4
	"255.255.255.255", // limited broadcast
}
var vfC16NonPublicIP6 = []string{
	"::", "::1", // unspecified, loopback
	"::ffff:10.0.0.1", "::ffff:127.0.0.1", "::ffff:192.168.1.1", "::ffff:169.254.1.1", // IPv4-mapped private / loopback
	"100::1",                    // discard-only
	"2001:db8::1", "2001:db8:ffff::9", // documentation
	"fc00::1", "fd12:3456:789a::1", // unique local fc00::/7
	"fe80::1", "febf::1", // link local fe80::/10
	"ff02::1", "ff0e::1234", "ff05::2", // multicast ff00::/8
}
var vfC16NonPublicDNS = []string{"localhost", "foo.localhost", "printer.local", "nas.home.arpa", "db.test", "nothing.invalid", "4.3.2.1.in-addr.arpa", "1.0.0.0.ip6.arpa"}
var vfC16Transports = []string{"/tcp/4001", "/udp/4001/quic-v1", "/udp/4001/quic-v1/webtransport", "/udp/4001/webrtc-direct", "/tcp/443/tls/ws", "/tcp/80/ws"}

// vfC16Priv is the cross product, parsed once; the replay cycles through it so that every entry is used.
var vfC16Priv = func() []string {
	var out []string
	add := func(prefix string) {
		for _, tr := range vfC16Transports {
			a := prefix + tr
			if _, err := ma.NewMultiaddr(a); err != nil {
				panic("vf: non-public table entry does not parse: " + a)
			}
			out = append(out, a)
		}
	}
	for _, ip := range vfC16NonPublicIP4 {
		add("/ip4/" + ip)
	}
	for _, ip := range vfC16NonPublicIP6 {
		add("/ip6/" + ip)
	}
	for i, n := range vfC16NonPublicDNS {
		add([]string{"/dns4/", "/dns6/", "/dns/"}[i%3] + n)
	}
	return out
}()
var vfC16PrivUsed sync.Map

// vfC16NextPriv hands out the non-public addresses round robin (all walks together cover the table).
func (s *vfC16Srv) nextPriv() string {
	s.privNext++
	a := vfC16Priv[s.privNext%len(vfC16Priv)]
	vfC16PrivUsed.Store(a, true)
	return a
}

var vfC16Undial = []string{"/ip4/9.9.9.9/tcp/9999", "/ip4/1.2.3.4/tcp/9999", "/ip4/8.8.4.4/udp/9999/quic-v1", "/ip6/2606:4700::1111/tcp/9999", "/ip4/5.6.7.8/udp/9999/quic-v1"}
var vfC16Malformed = [][]byte{{}, {0xff, 0xff, 0x01}, {0x04, 1, 2, 3}, {0x06, 0x1f}, {0x04, 1, 2, 3, 4, 0x06}, {0x00}, []byte("/ip4/1.2.3.4/tcp/1")}

const (
	vfC16Same = iota
	vfC16Other
	vfC16OtherDNS
	vfC16NotDialable
)

// vfC16Req is one request in flight and what the harness knows about it.
type vfC16Req struct {
	st       *vfC16Stream
	done     chan struct{}
	classes  []string // model classes
	pos      []int    // real index of model element j
	raw      [][]byte // real address list as sent
	kindOf   map[string]int
	anyDial  bool   // the real list names a public dialable address somewhere
	asked    int64  // NumBytes of the DialDataRequest (0 = none seen)
	askedIdx uint32 // AddrIdx of the DialDataRequest
	baseRead int64  // stream bytes consumed when the DialDataRequest arrived
	sent     int64  // dial-data bytes sent so far
	runs     []vfC16Run
	resp     *pb.DialResponse
	dials    []vfC16DialEv
	nevt     int
	normal   bool // a well-formed DialRequest was sent
	ddCounted bool
}

// vfC16Run: n messages of raw stream bytes each.  A well-formed DialDataResponse is credited with its
// data field (data bytes, once completely read); a raw frame (rawCredit) is credited with every stream
// byte of it the server has read - the most dial data those bytes could possibly carry.
type vfC16Run struct {
	raw, data, n int64
	rawCredit    bool
}

func (q *vfC16Req) isDone() bool {
	select {
	case <-q.done:
		return true
	default:
		return false
	}
}

// delivered = dial-data bytes of the messages the server has completely consumed.
func (q *vfC16Req) delivered(read int64) int64 {
	c := read - q.baseRead
	var d int64
	for _, r := range q.runs {
		if c <= 0 {
			break
		}
		if r.rawCredit {
			d += min(c, r.n*r.raw)
		} else {
			k := c / r.raw
			if k > r.n {
				k = r.n
			}
			d += k * r.data
		}
		c -= r.n * r.raw
	}
	return d
}

func vfC16Delim(m proto.Message) []byte {
	b, err := proto.Marshal(m)
	if err != nil {
		panic(err)
	}
	return append(binary.AppendUvarint(nil, uint64(len(b))), b...)
}

func vfC16DataMsg(n int) []byte {
	return vfC16Delim(&pb.Message{Msg: &pb.Message_DialDataResponse{DialDataResponse: &pb.DialDataResponse{Data: make([]byte, n)}}})
}

type vfC16Srv struct {
	t       *testing.T
	rnd     *rand.Rand
	srv     *server
	dialer  *vfC16Dialer
	tracer  *vfC16Tracer
	peerID  peer.ID
	rpm     int
	ddrpm   int
	cur     *vfC16Req
	accLog  []time.Time // requests not answered E_REQUEST_REJECTED (L1, server level)
	ddLog   []time.Time // LEDGER: dial-data requests served (the server asked for data and went on to dial back)
	privNext int
	maxWait time.Duration
	stats   map[string]int
}

func vfC16NewSrv(t *testing.T, rpm, ddrpm, conc int, seed int64) *vfC16Srv {
	s := &vfC16Srv{t: t, rnd: rand.New(rand.NewSource(seed)), rpm: rpm, ddrpm: ddrpm, stats: map[string]int{}}
	s.dialer = vfC16NewDialer()
	s.tracer = &vfC16Tracer{}
	set := defaultSettings()
	set.serverRPM, set.serverPerPeerRPM, set.serverDialDataRPM, set.maxConcurrentRequestsPerPeer = rpm, rpm, ddrpm, conc
	set.metricsTracer = s.tracer
	s.srv = newServer(s.dialer, set)
	s.peerID = peer.ID("vf-requester")
	s.privNext = int(uint64(seed*131) % uint64(len(vfC16Priv)))
	return s
}

// settle lets the server run until it has finished the request or waits for the client; virtual
// time advances in small steps while it does neither (the random wait before the dial back).
func (s *vfC16Srv) settle(q *vfC16Req) {
	for i := 0; i < 40; i++ {
		synctest.Wait()
		if q.isDone() || q.st.isWaiting() {
			return
		}
		if i == 0 {
			time.Sleep(s.srv.amplificatonAttackPreventionDialWait + time.Millisecond) // the longest random wait before the dial back
		} else {
			time.Sleep(time.Second)
		}
	}
	s.t.Fatalf("server neither finished nor waits for the client after 40 s of virtual time")
}

func (s *vfC16Srv) start(st *vfC16Stream) *vfC16Req {
	q := &vfC16Req{st: st, done: make(chan struct{}), kindOf: map[string]int{}, nevt: s.tracer.n()}
	s.dialer.mu.Lock()
	s.dialer.cur = st
	s.dialer.mu.Unlock()
	go func() {
		defer close(q.done)
		s.srv.handleDialRequest(st)
	}()
	return q
}

// build turns a sequence of model classes into a real address list.  Scale map: with three model
// elements the second sits at real index maxPeerAddresses-1 (last inspected) and the third at
// maxPeerAddresses (first ignored); gaps are filled with addresses that can never be chosen.
func (s *vfC16Srv) build(q *vfC16Req, obs vfC16Obs, classes []string, maxAddrs int) {
	filler := func() []byte {
		switch s.rnd.Intn(3) {
		case 0:
			return ma.StringCast(vfC16Priv[s.rnd.Intn(len(vfC16Priv))]).Bytes()
		case 1:
			return ma.StringCast(vfC16Undial[s.rnd.Intn(len(vfC16Undial))]).Bytes()
		}
		return vfC16Malformed[s.rnd.Intn(len(vfC16Malformed))]
	}
	q.classes = classes
	for j, c := range classes {
		target := len(q.raw)
		switch {
		case len(classes) > maxAddrs && j == maxAddrs-1:
			target = maxPeerAddresses - 1
		case len(classes) > maxAddrs && j >= maxAddrs:
			target = maxPeerAddresses + (j - maxAddrs)
		default:
			target += s.rnd.Intn(3) * s.rnd.Intn(3)
		}
		for len(q.raw) < target {
			b := filler()
			q.raw = append(q.raw, b)
		}
		var b []byte
		switch c {
		case "priv":
			b = ma.StringCast(s.nextPriv()).Bytes()
		case "undial":
			b = ma.StringCast(vfC16Undial[s.rnd.Intn(len(vfC16Undial))]).Bytes()
		case "malformed":
			b = vfC16Malformed[s.rnd.Intn(len(vfC16Malformed))]
		case "pubSame":
			b = ma.StringCast(obs.same[s.rnd.Intn(len(obs.same))]).Bytes()
			q.kindOf[string(b)] = vfC16Same
			q.anyDial = true
		case "pubOther":
			f := obs.other[s.rnd.Intn(len(obs.other))]
			b = ma.StringCast(f).Bytes()
			q.kindOf[string(b)] = vfC16Other
			if strings.HasPrefix(f, "/dns") {
				q.kindOf[string(b)] = vfC16OtherDNS
			}
			q.anyDial = true
		}
		q.pos = append(q.pos, len(q.raw))
		q.raw = append(q.raw, b)
	}
	for _, b := range q.raw {
		if _, ok := q.kindOf[string(b)]; !ok {
			q.kindOf[string(b)] = vfC16NotDialable
		}
	}
}

func vfC16Strs(l []any) []string {
	var out []string
	for _, e := range l {
		out = append(out, e.(string))
	}
	return out
}

// split cuts total dial-data bytes into messages of legal size (>= 100 bytes each, message <= maxMsgSize).
func (s *vfC16Srv) split(total int64, style int) []int64 {
	var out []int64
	for total > 0 {
		var sz int64
		switch style {
		case 0:
			sz = 100
		case 1:
			sz = 4096
		case 2:
			sz = 8000
		case 3:
			sz = 120 + s.rnd.Int63n(16) // around the one/two-byte length-prefix boundary of the protobuf framing
		default:
			sz = 100 + s.rnd.Int63n(3000)
		}
		if sz > total || (total-sz < 100 && total-sz > 0) {
			sz = total
		}
		out = append(out, sz)
		total -= sz
	}
	return out
}

// send appends dial-data messages of the given sizes to the stream and to the delivery ledger.
func (s *vfC16Srv) send(q *vfC16Req, sizes []int64) {
	var buf, m []byte
	last := int64(-1)
	for _, n := range sizes {
		if n != last {
			m, last = vfC16DataMsg(int(n)), n
		}
		buf = append(buf, m...)
		if k := len(q.runs); k > 0 && q.runs[k-1].raw == int64(len(m)) && q.runs[k-1].data == n {
			q.runs[k-1].n++
		} else {
			q.runs = append(q.runs, vfC16Run{raw: int64(len(m)), data: n, n: 1})
		}
		q.sent += n
	}
	s.stats["dial_data_stream_bytes"] += len(buf)
	s.stats["dial_data_messages"] += len(sizes)
	q.st.feed(buf)
}

// sendRaw appends n copies of a raw frame (delimiter included) to the stream; credited by stream bytes.
func (s *vfC16Srv) sendRaw(q *vfC16Req, frame []byte, n int64) {
	buf := make([]byte, 0, int64(len(frame))*n)
	for i := int64(0); i < n; i++ {
		buf = append(buf, frame...)
	}
	q.runs = append(q.runs, vfC16Run{raw: int64(len(frame)), n: n, rawCredit: true})
	q.sent += int64(len(buf)) // upper bound of what was carried
	s.stats["raw_frames"] += int(n)
	s.stats["dial_data_stream_bytes"] += len(buf)
	q.st.feed(buf)
}

// vfC16Frame builds a delimited frame: oneof tag 0x22, outer length prefix `outer`, data tag 0x0a, inner
// length prefix `inner`, then body; the delimiter says `delim` bytes (0 = the true length).
func vfC16Frame(outer, inner uint64, body []byte, delim uint64) []byte {
	m := []byte{0x22}
	m = binary.AppendUvarint(m, outer)
	m = append(m, 0x0a)
	m = binary.AppendUvarint(m, inner)
	m = append(m, body...)
	if delim == 0 {
		delim = uint64(len(m))
	}
	return append(binary.AppendUvarint(nil, delim), m...)
}

// checkDials applies the L1 clauses to every new use of the dialer host.
func (s *vfC16Srv) checkDials(q *vfC16Req) (string, string, any) {
	evs := s.dialer.takeEvents()
	q.dials = append(q.dials, evs...)
	for _, e := range evs {
		s.stats["dialer_"+e.Kind]++
		if q.asked > 0 && !q.ddCounted {
			// the ledger of the dial-data limit: a request for which the server asked for dial data and which it
			// then served.  (A request whose client never paid is not counted: the most lenient reading.)
			q.ddCounted = true
			now := time.Now()
			s.ddLog = append(vfC16Trim(s.ddLog, now), now)
			if d, _ := vfC16InWindow(s.ddLog, now); d > s.ddrpm {
				return "server-window-dialdata", fmt.Sprintf("%d requests that required dial data served within one minute, DialDataRPM %d", d, s.ddrpm), e
			}
		}
		if e.Peer != string(s.peerID) {
			return "dial-wrong-peer", fmt.Sprintf("%s to peer %q, requester is %q", e.Kind, e.Peer, s.peerID), e
		}
		if e.Kind == "connect" || e.Kind == "dialpeer" {
			if len(e.addrBytes) == 0 {
				s.stats["dial_without_address"]++
			}
		}
		for i, ab := range e.addrBytes {
			k, ok := q.kindOf[string(ab)]
			if !ok {
				return "dial-address-not-requested", fmt.Sprintf("%s with address %s which is not in the request", e.Kind, e.Addrs[i]), e
			}
			if !q.anyDial {
				return "undialable-request-dialed", fmt.Sprintf("%s to %s for a request naming no public dialable address", e.Kind, e.Addrs[i]), e
			}
			if k == vfC16Other || k == vfC16OtherDNS {
				got := int64(0)
				if q.asked > 0 {
					got = q.delivered(e.Read)
				}
				if q.asked == 0 || got < q.asked {
					cls := "dial-before-data"
					if k == vfC16OtherDNS {
						cls = "dial-before-data-dns"
					}
					return cls, fmt.Sprintf("%s to %s (IP differs from observed %s) after %d of %d asked dial-data bytes", e.Kind, e.Addrs[i], q.st.conn.ra, got, q.asked), e
				}
			}
		}
		if !q.anyDial && (e.Kind == "connect" || e.Kind == "dialpeer" || e.Kind == "newstream") {
			return "undialable-request-dialed", fmt.Sprintf("%s for a request naming no public dialable address", e.Kind), e
		}
	}
	return "", "", nil
}

var vfC16StatusName = map[pb.DialResponse_ResponseStatus]string{
	pb.DialResponse_E_REQUEST_REJECTED: "REJECTED", pb.DialResponse_E_DIAL_REFUSED: "REFUSED", pb.DialResponse_OK: "OK",
	pb.DialResponse_E_INTERNAL_ERROR: "E_INTERNAL_ERROR"}

// observe collects what the server did in this step and classifies it:
// DATAREQ | MORE | OK | REJECTED | REFUSED | RESET | E_INTERNAL_ERROR
func (s *vfC16Srv) observe(q *vfC16Req) (resp string, cls, what string, ev any) {
	msgs, err := q.st.nextMsgs()
	if err != nil {
		return "", "L2:server-output", "unparsable server output: " + err.Error(), nil
	}
	resp = "MORE"
	for _, m := range msgs {
		switch {
		case m.GetDialDataRequest() != nil:
			dr := m.GetDialDataRequest()
			q.asked, q.askedIdx, q.baseRead = int64(dr.NumBytes), dr.AddrIdx, q.st.nread()
			resp = "DATAREQ"
			s.stats["dial_data_requests"]++
			if v, ok := s.stats["asked_min"]; !ok || int(dr.NumBytes) < v {
				s.stats["asked_min"] = int(dr.NumBytes)
			}
			if int(dr.NumBytes) > s.stats["asked_max"] {
				s.stats["asked_max"] = int(dr.NumBytes)
			}
			if dr.NumBytes < 30_000 || dr.NumBytes > 100_000 {
				return resp, "asked-bytes-out-of-range", fmt.Sprintf("server asked for %d bytes of dial data (statement: 30 to 100 kB)", dr.NumBytes), nil
			}
		case m.GetDialResponse() != nil:
			q.resp = m.GetDialResponse()
			resp = vfC16StatusName[q.resp.Status]
			if resp == "" {
				resp = q.resp.Status.String()
			}
		default:
			return "", "L2:server-output", fmt.Sprintf("unexpected server message %T", m.Msg), nil
		}
	}
	if c, w, e := s.checkDials(q); c != "" {
		return resp, c, w, e
	}
	if q.isDone() && q.resp == nil {
		resp = "RESET"
	}
	return resp, "", "", nil
}

// finished is called once per request when the handler has returned: server-level limiter clauses and
// the refusal clause.
func (s *vfC16Srv) finished(q *vfC16Req, resp string, normal bool) (string, string) {
	now := time.Now()
	if resp != "REJECTED" {
		s.accLog = append(vfC16Trim(s.accLog, now), now)
		if g, _ := vfC16InWindow(s.accLog, now); g > s.rpm {
			return "server-window-global", fmt.Sprintf("%d requests served within one minute, limit %d", g, s.rpm)
		}
	}
	if normal && !q.anyDial {
		if len(q.dials) > 0 {
			return "undialable-request-dialed", "a request naming no public dialable address caused a dial"
		}
		if resp == "OK" {
			return "undialable-request-not-refused", "a request naming no public dialable address was answered OK"
		}
	}
	return "", ""
}

func (s *vfC16Srv) project(p string) map[string]any {
	// grants of the real limiter inside the current minute (in-package, L2 only)
	l := s.srv.limiter
	l.mu.Lock()
	defer l.mu.Unlock()
	now := time.Now()
	acc, dd := 0, 0
	for _, e := range l.reqs {
		if now.Sub(vfC16T(e.Time)) < vfC16Window {
			acc++
		}
	}
	for _, t := range l.dialDataReqs {
		if now.Sub(vfC16T(t)) < vfC16Window {
			dd++
		}
	}
	return map[string]any{"acc": acc, "ddacc": dd, "phase": p, "inProgress": l.inProgressReqs[s.peerID]}
}

// step executes one action of the server model.
func (s *vfC16Srv) step(op vfh.Op, maxAddrs int) (cls, what string, exp, got any) {
	expResp := op.S("resp")
	var resp string
	var ev any
	switch op.Name() {
	case "minute":
		time.Sleep(vfC16Window + time.Second)
		return "", "", nil, nil
	case "request":
		if s.cur != nil {
			return "L2:harness", "request while another is in flight", nil, nil
		}
		obs := vfC16Observed[s.rnd.Intn(len(vfC16Observed))]
		chunk := []int{0, 0, 1, 7, 4096}[s.rnd.Intn(5)]
		st := vfC16NewStream(s.peerID, ma.StringCast(obs.observed), chunk)
		s.dialer.setOutcome("ok")
		if op.B("dial") {
			s.dialer.setOutcome(op.S("dres"))
		}
		q := s.start(st)
		s.cur = q
		normal := op.S("kind") == "normal"
		q.normal = normal
		switch op.S("kind") {
		case "normal":
			s.build(q, obs, vfC16Strs(op.L("addrs")), maxAddrs)
			st.feed(vfC16Delim(&pb.Message{Msg: &pb.Message_DialRequest{DialRequest: &pb.DialRequest{Addrs: q.raw, Nonce: s.rnd.Uint64()}}}))
		case "wrongtype":
			st.feed(vfC16Delim(&pb.Message{Msg: &pb.Message_DialResponse{DialResponse: &pb.DialResponse{Status: pb.DialResponse_OK}}}))
		case "garbage":
			switch s.rnd.Intn(3) {
			case 0:
				st.feed([]byte{5, 0xff, 0xff, 0xff, 0xff, 0xff})
			case 1:
				st.feed(binary.AppendUvarint(nil, maxMsgSize+1+uint64(s.rnd.Intn(5000))))
			default:
				st.feed([]byte{0})
			}
			st.clientClose()
		case "eof":
			st.clientClose()
		}
		s.settle(q)
		resp, cls, what, ev = s.observe(q)
		if cls != "" {
			return cls, what, expResp, ev
		}
		if q.isDone() {
			if c, w := s.finished(q, resp, normal); c != "" {
				return c, w, expResp, resp
			}
		}
	case "data":
		q := s.cur
		if q == nil || q.asked == 0 {
			return "L2:harness", "data step without a dial-data request in flight", nil, nil
		}
		rem := q.asked - q.sent
		s.dialer.setOutcome("ok")
		if op.B("dial") {
			s.dialer.setOutcome(op.S("dres"))
		}
		style := s.rnd.Intn(6)
		switch op.S("seg") {
		case "part":
			s.send(q, s.split(rem/2, style))
		case "allbut1":
			s.send(q, s.split(rem-1, style))
		case "rest":
			if rem > 400 && s.rnd.Intn(2) == 0 {
				// a small LAST message is legal
				last := 1 + s.rnd.Int63n(99)
				s.send(q, append(s.split(rem-last, style), last))
			} else {
				s.send(q, s.split(rem, style))
			}
		case "over":
			sz := s.split(rem, []int{0, 1, 3, 4}[s.rnd.Intn(4)])
			sz[len(sz)-1] += 1 + s.rnd.Int63n(3000)
			s.send(q, sz)
		case "tiny":
			// a flood of messages below the per-message minimum: more stream bytes than asked, fewer
			// dial-data bytes than asked
			d := []int64{0, 1, 10, 50}[s.rnd.Intn(4)]
			if d >= rem {
				d = 0
			}
			ml := int64(len(vfC16DataMsg(int(d)))) - 1
			k := rem/ml + 3
			for k*d >= rem {
				k--
			}
			sizes := make([]int64, k)
			for i := range sizes {
				sizes[i] = d
			}
			s.send(q, sizes)
		case "lie":
			// tiny frames whose data-length prefix claims far more than the frame holds; enough of them to
			// satisfy a reader that believes the prefix
			claim := []uint64{8000, 8192, 5000, 200, 127}[s.rnd.Intn(5)]
			body := make([]byte, 1+s.rnd.Intn(3))
			outer := []uint64{uint64(3 + len(body)), claim + 3, 2}[s.rnd.Intn(3)]
			s.sendRaw(q, vfC16Frame(outer, claim, body, 0), rem/int64(claim)+2)
		case "fields":
			// the data split over several small fields of one short frame (below the per-message minimum)
			var inner []byte
			for i := 0; i < 5; i++ {
				inner = append(append(inner, 0x0a, 10), make([]byte, 10)...)
			}
			m := append([]byte{0x22, byte(len(inner))}, inner...)
			s.sendRaw(q, append(binary.AppendUvarint(nil, uint64(len(m))), m...), rem/50+2)
		case "trunc":
			switch s.rnd.Intn(3) {
			case 0: // the delimiter promises 5000 bytes, 3000 arrive, then the client closes
				f := vfC16Frame(4996, 4993, make([]byte, 2990), 5000)
				s.sendRaw(q, f, 1)
			case 1: // truncated inside the data field of an otherwise honest message
				f := vfC16DataMsg(4000)
				s.sendRaw(q, f[:1500+s.rnd.Intn(2000)], 1)
			default: // the delimiter promises fewer bytes than are sent: the tail is read as the next frame
				f := vfC16Frame(146, 144, make([]byte, 144+30), 150)
				s.sendRaw(q, f, 1)
			}
			q.st.clientClose()
		case "pad":
			// full-size frames, data prefix claiming little, the rest unknown-field padding: counted by
			// frame length (4096 - 6 header bytes each)
			body := append(make([]byte, 10), 0x7a, 0xe9, 0x1f) // field 15, length-delimited, padding follows
			body = append(body, make([]byte, 4096-5-len(body))...)
			f := vfC16Frame(4093, 10, body, 0)
			if len(f) != 4098 {
				s.t.Fatalf("pad frame has %d bytes", len(f))
			}
			s.sendRaw(q, f, (rem+4089)/4090)
		case "huge":
			n := uint64(maxMsgSize + 1 + s.rnd.Intn(20000))
			b := binary.AppendUvarint(nil, n)
			if s.rnd.Intn(2) == 0 {
				b = append(b, make([]byte, n)...)
			}
			q.runs = append(q.runs, vfC16Run{raw: int64(len(b)) + 1<<40, data: 0, n: 1}) // never counts as delivered
			q.st.feed(b)
		}
		s.settle(q)
		resp, cls, what, ev = s.observe(q)
		if cls != "" {
			return cls, what, expResp, ev
		}
		if q.isDone() {
			if c, w := s.finished(q, resp, true); c != "" {
				return c, w, expResp, resp
			}
		}
	case "end":
		q := s.cur
		if q == nil {
			return "L2:harness", "end step without a request in flight", nil, nil
		}
		if op.S("kind") == "close" {
			q.st.clientClose()
		} else {
			time.Sleep(streamTimeout + time.Second)
		}
		s.settle(q)
		resp, cls, what, ev = s.observe(q)
		if cls != "" {
			return cls, what, expResp, ev
		}
		if q.isDone() {
			if c, w := s.finished(q, resp, true); c != "" {
				return c, w, expResp, resp
			}
		}
	default:
		return "L2:unknown-op", "unknown op " + op.Name(), nil, nil
	}

	// ---- comparison with the model (everything below is L2: the statement allows more than the model)
	q := s.cur
	if q.isDone() {
		s.cur = nil
		if s.tracer.n() != q.nevt+1 {
			s.t.Fatalf("handler returned without reporting a completed request (panic in the handler?)")
		}
	}
	if resp != expResp {
		return "L2:response", fmt.Sprintf("%s: server answered %s, model %s", op.Name(), resp, expResp), expResp, resp
	}
	dialed := false
	for _, e := range q.dials {
		if e.Kind == "connect" {
			dialed = true
		}
	}
	if q.isDone() && dialed != op.B("dial") {
		return "L2:dial", fmt.Sprintf("dialed=%v, model %v", dialed, op.B("dial")), op.B("dial"), dialed
	}
	if op.I("idx") > 0 && op.Name() != "end" && len(q.pos) >= op.I("idx") {
		want := uint32(q.pos[op.I("idx")-1])
		if resp == "DATAREQ" && q.askedIdx != want {
			return "L2:addr-idx", "DialDataRequest.AddrIdx differs from the first dialable address", want, q.askedIdx
		}
		if resp == "OK" {
			if q.resp.AddrIdx != want {
				return "L2:addr-idx", "DialResponse.AddrIdx differs from the first dialable address", want, q.resp.AddrIdx
			}
			if q.resp.DialStatus.String() != op.S("dstat") {
				return "L2:dial-status", "dial status", op.S("dstat"), q.resp.DialStatus.String()
			}
			for _, e := range q.dials {
				if len(e.addrBytes) != 1 || string(e.addrBytes[0]) != string(q.raw[want]) {
					return "L2:dial-address", "dialed address set differs from {first dialable address}", ma.Cast(q.raw[want]).String(), e.Addrs
				}
				if !e.ForceDirect || !e.HasDeadline {
					return "L2:dial-context", "dial back without force-direct or without deadline", true, e
				}
			}
		}
	}
	if q.isDone() && s.dialer.residue() != 0 {
		return "L2:peer-not-forgotten", "dialer peerstore still holds addresses after the request", 0, s.dialer.residue()
	}
	return "", "", nil, nil
}

// pursue is called after the server left the model (L2): if it waits for dial data the harness supplies
// all of it and lets the request run to its end, so that the L1 clauses still judge what it finally does.
func (s *vfC16Srv) pursue() (string, string, any) {
	q := s.cur
	if q == nil || q.isDone() || q.asked == 0 || q.sent >= q.asked {
		return "", "", nil
	}
	s.dialer.setOutcome("ok")
	s.send(q, s.split(q.asked-q.sent, 1))
	s.settle(q)
	resp, cls, what, ev := s.observe(q)
	if cls != "" && !strings.HasPrefix(cls, "L2:") {
		return cls, what, ev
	}
	if q.isDone() {
		if c, w := s.finished(q, resp, q.normal); c != "" {
			return c, w, resp
		}
	}
	return "", "", nil
}

func (s *vfC16Srv) drain() {
	if q := s.cur; q != nil {
		q.st.clientClose()
		s.settle(q)
		if !q.isDone() {
			q.st.Reset()
			s.settle(q)
		}
		s.cur = nil
	}
}

// TestVerifC16Server replays every transition of the bounded server model on the real server.
func TestVerifC16Server(t *testing.T) {
	res := vfh.NewResult()
	vfC16L2.Store(0)
	defer func() {
		if err := res.Write(); err != nil {
			t.Fatal(err)
		}
	}()
	files, _ := filepath.Glob(filepath.Join(vfh.In(), "srv_*.jsonl"))
	if len(files) == 0 {
		t.Fatalf("no server behaviour files in %q", vfh.In())
	}
	res.Rule = "one case = one (source state, action+arguments) transition of the server model = one request shape / dial-data segment / stream end executed on the real server with a fake dialer host; every case checks the dial log against the bytes delivered, the response and the limiter counters"
	type job struct {
		hdr  map[string]any
		file string
		w    vfh.Walk
	}
	var jobs []job
	for _, f := range files {
		hdr, walks, err := vfh.LoadWalks(f)
		if err != nil {
			t.Fatalf("%s: %v", f, err)
		}
		for _, w := range walks {
			jobs = append(jobs, job{hdr, filepath.Base(f), w})
		}
	}
	const shards = 4
	var smu sync.Mutex
	stats := map[string]int{}
	t.Run("walks", func(t *testing.T) {
		for sh := 0; sh < shards; sh++ {
			t.Run(fmt.Sprint(sh), func(t *testing.T) {
				t.Parallel()
				for ji := sh; ji < len(jobs); ji += shards {
					j := jobs[ji]
					synctest.Test(t, func(t *testing.T) {
						rpm, ddrpm, maxAddrs := vfC16Int(j.hdr, "RPM"), vfC16Int(j.hdr, "DDRPM"), vfC16Int(j.hdr, "MaxAddrs")
						sys := vfC16NewSrv(t, rpm, ddrpm, 1, vfh.Seed()*7919+int64(j.w.Walk))
						cfg := map[string]any{"file": j.file, "RPM": rpm, "DDRPM": ddrpm, "MaxAddrs": maxAddrs,
							"scale": "model element MaxAddrs -> real index 49, MaxAddrs+1 -> real index 50; part = rem/2 bytes, allbut1 = rem-1 bytes, tiny = flood of <100-byte messages"}
						var prefix []vfh.Op
						prev := string(j.w.Init)
						for i, st := range j.w.Steps {
							prefix = append(prefix, st.Op)
							cls, what, exp, got := sys.step(st.Op, maxAddrs)
							res.Case(j.file + "|" + prev + "|" + vfh.Canon(st.Op))
							prev = string(st.State)
							if cls == "" {
								var m map[string]any
								json.Unmarshal(st.State, &m)
								ph, _ := m["phase"].(string)
								inp := 0
								if ph == "data" {
									inp = 1
								}
								realPh := "idle"
								if sys.cur != nil {
									realPh = "data"
								}
								want := map[string]any{"acc": vfC16Int(m, "acc"), "ddacc": vfC16Int(m, "ddacc"), "phase": ph, "inProgress": inp}
								if a, b := vfh.Canon(want), vfh.Canon(sys.project(realPh)); a != b {
									cls, what, exp, got = "L2:server-state", "limiter counters / phase differ from the model after "+st.Op.Name(), a, b
								}
							}
							res.Count(0, 1)
							if cls == "L2:peer-not-forgotten" {
								// the server still follows the model; keep walking so that the L1 clauses judge the
								// later requests of this walk (what a left-over address leads to)
								vfC16Add(res, vfh.Mismatch{Class: cls, What: what, Walk: j.w.Walk, Step: i, Expected: exp, Got: got, Prefix: prefix, Cfg: cfg})
								cls = ""
							}
							if cls != "" {
								vfC16Add(res, vfh.Mismatch{Class: cls, What: what, Walk: j.w.Walk, Step: i, Expected: exp, Got: got, Prefix: prefix, Cfg: cfg})
								if strings.HasPrefix(cls, "L2:") {
									if c, w, g := sys.pursue(); c != "" {
										vfC16Add(res, vfh.Mismatch{Class: c, What: w + " (after the server left the model: " + cls + "; all asked dial data was then supplied)", Walk: j.w.Walk, Step: i, Got: g, Prefix: prefix, Cfg: cfg})
									}
								}
								break
							}
						}
						sys.drain()
						sys.dialer.Close()
						res.Count(1, 0)
						smu.Lock()
						for k, v := range sys.stats {
							switch k {
							case "asked_min":
								if o, ok := stats[k]; !ok || v < o {
									stats[k] = v
								}
							case "asked_max":
								stats[k] = max(stats[k], v)
							default:
								stats[k] += v
							}
						}
						smu.Unlock()
						if j.w.Walk == 0 && len(j.w.Steps) > 0 {
							res.Sample(map[string]any{"instance": j.file, "first_steps": j.w.Steps[:min(6, len(j.w.Steps))]})
						}
					})
				}
			})
		}
	})
	for k, v := range stats {
		res.Set(k, v)
	}
	used := 0
	vfC16PrivUsed.Range(func(_, _ any) bool { used++; return true })
	res.Set("non_public_table_size", len(vfC16Priv))
	res.Set("non_public_table_used", used)
}

// TestVerifC16Concurrent: concurrent requests of one or two peers.  Requests are PARKED inside the server
// (blocked reading the request, or blocked reading dial data) while further requests of the same peer
// arrive and leave through every exit of the handler: rejected by the concurrency cap, the global limit,
// the per-peer limit, the dial-data limit; refused (no dialable address); read error / garbage / wrong
// message; served with a dial.  L1 monitor, from the harness's own entry/exit bookkeeping only: the
// number of handlers of one peer that are inside the serving section at the same time (running and not
// answered E_REQUEST_REJECTED) never exceeds MaxConcurrentRequestsPerPeer.
func TestVerifC16Concurrent(t *testing.T) {
	res := vfh.NewResult()
	vfC16L2.Store(0)
	defer func() {
		if err := res.Write(); err != nil {
			t.Fatal(err)
		}
	}()
	res.Rule = "one case = one seeded schedule of concurrent requests of one or two peers on the real server, with requests parked before the request / inside the dial-data read while others leave through each exit (cap, global, per-peer, dial-data limit, refused, read error, dial); monitor: handlers of one peer inside the serving section at the same time <= MaxConcurrentRequestsPerPeer"
	n := 60
	if vfh.Thorough() {
		n = 240
	}
	type par struct{ rpm, ddrpm int }
	pars := []par{{10000, 10000}, {10000, 1}, {10000, 2}, {8, 1}, {5, 10000}, {12, 2}}
	kinds := map[string]int{}
	for i := 0; i < n; i++ {
		cap := 1 + i%3
		pr := pars[(i/3)%len(pars)]
		synctest.Test(t, func(t *testing.T) {
			sys := vfC16NewSrv(t, pr.rpm, pr.ddrpm, cap, vfh.Seed()*31337+int64(i))
			defer sys.dialer.Close()
			obs := vfC16Observed[0]
			peers := []peer.ID{"vf-requester", "vf-other"}
			open := map[peer.ID][]*vfC16Req{}
			var hist []string
			var ddServed []time.Time // ledger: requests that required dial data and were served with a dial back
			cfg := map[string]any{"schedule": i, "MaxConc": cap, "RPM": pr.rpm, "DialDataRPM": pr.ddrpm}
			bad := false
			sweep := func() {
				for p, l := range open {
					var keep []*vfC16Req
					for _, q := range l {
						if !q.isDone() {
							keep = append(keep, q)
						}
					}
					open[p] = keep
				}
			}
			req := func(addrs ...string) []byte {
				var raw [][]byte
				for _, a := range addrs {
					raw = append(raw, ma.StringCast(a).Bytes())
				}
				return vfC16Delim(&pb.Message{Msg: &pb.Message_DialRequest{DialRequest: &pb.DialRequest{Addrs: raw, Nonce: 7}}})
			}
			for k := 0; k < 60 && !bad; k++ {
				p := peers[sys.rnd.Intn(3)%2] // mostly the first peer
				switch c := sys.rnd.Intn(12); {
				case c < 3 && len(open[p]) > 0:
					// let one parked request of p go on to its end
					j := sys.rnd.Intn(len(open[p]))
					q := open[p][j]
					how := sys.rnd.Intn(3)
					switch {
					case q.asked > 0 && how == 0: // pay the dial data: the request ends with a dial
						sys.send(q, sys.split(q.asked-q.sent, 1))
					case q.asked == 0 && how == 0:
						q.st.feed(req()) // empty request: refused
					case q.asked == 0 && how == 1:
						q.st.feed(req(obs.same[0])) // served with a dial at once
					default:
						q.st.clientClose()
					}
					sys.settle(q)
					hist = append(hist, fmt.Sprintf("resume(%s,#%d,%d)", p, j, how))
					kinds["resume"]++
					for _, e := range sys.dialer.takeEvents() {
						if e.Kind == "connect" && q.asked > 0 && !q.ddCounted {
							q.ddCounted = true
							now := time.Now()
							ddServed = append(vfC16Trim(ddServed, now), now)
							if d, _ := vfC16InWindow(ddServed, now); d > pr.ddrpm {
								vfC16Add(res, vfh.Mismatch{Class: "server-window-dialdata", What: fmt.Sprintf("%d requests that required dial data served within one minute (overlapping requests), DialDataRPM %d", d, pr.ddrpm), Walk: -1, Step: k, Prefix: hist, Cfg: cfg})
								bad = true
							}
						}
					}
					if !q.isDone() {
						// an empty-handed request turned into one that waits for dial data: still parked
						if msgs, _ := q.st.nextMsgs(); len(msgs) == 1 && msgs[0].GetDialDataRequest() != nil {
							q.asked, q.baseRead = int64(msgs[0].GetDialDataRequest().NumBytes), q.st.nread()
						}
					}
					sweep()
					continue
				case c == 3:
					time.Sleep([]time.Duration{time.Second, 5 * time.Second, vfC16Window + time.Second}[sys.rnd.Intn(3)])
					synctest.Wait()
					sweep() // parked requests may have hit the stream deadline
					hist = append(hist, "sleep")
					continue
				}
				// a new request of p arrives
				st := vfC16NewStream(p, ma.StringCast(obs.observed), 0)
				var kind string
				switch sys.rnd.Intn(6) {
				case 0, 1:
					kind = "park" // nothing sent yet: parks reading the request (if admitted)
				case 2, 3:
					kind = "needdata" // foreign IP: parks reading dial data, or is rejected by the dial-data limit
					st.feed(req(obs.other[0]))
				case 4:
					kind = "refused"
					st.feed(req(sys.nextPriv(), vfC16Undial[0]))
				default:
					kind = "garbage"
					st.feed([]byte{5, 0xff, 0xff, 0xff, 0xff, 0xff})
				}
				sys.dialer.setOutcome("ok")
				q := sys.start(st)
				sys.settle(q)
				msgs, _ := st.nextMsgs()
				status := ""
				for _, m := range msgs {
					if m.GetDialResponse() != nil {
						status = vfC16StatusName[m.GetDialResponse().Status]
					}
					if m.GetDialDataRequest() != nil {
						q.asked, q.baseRead = int64(m.GetDialDataRequest().NumBytes), st.nread()
						status = "DATAREQ"
					}
				}
				kinds[kind+"/"+status]++
				hist = append(hist, fmt.Sprintf("start(%s,%s)=%s parked=%v", p, kind, status, !q.isDone()))
				res.Count(0, 1)
				if !q.isDone() {
					// the handler is inside the serving section and stays there
					open[p] = append(open[p], q)
					if len(open[p]) > cap {
						vfC16Add(res, vfh.Mismatch{Class: "concurrent-cap", What: fmt.Sprintf("%d requests of one peer served concurrently, MaxConcurrentRequestsPerPeer=%d", len(open[p]), cap), Walk: -1, Step: k, Prefix: hist, Cfg: cfg})
						bad = true
					}
				} else if status == "REJECTED" && kind != "needdata" && pr.rpm >= 10000 && len(open[p]) < cap {
					vfC16Add(res, vfh.Mismatch{Class: "L2:over-rejection", What: fmt.Sprintf("request rejected with %d of %d in progress", len(open[p]), cap), Walk: -1, Step: k, Prefix: hist, Cfg: cfg})
					bad = true
				}
				sweep()
			}
			for _, l := range open {
				for _, q := range l {
					q.st.clientClose()
					sys.settle(q)
				}
			}
			sys.dialer.takeEvents()
			res.Count(1, 0)
			res.Case(fmt.Sprintf("conc-%d", i))
		})
	}
	for k, v := range kinds {
		res.Set("n_"+k, v)
	}
}

// ---------------------------------------------------------------------------------------------
// Part (c): interleaved concurrent requests (spec/C16_Interleave.tla)
// ---------------------------------------------------------------------------------------------

// vfC16Ledger is the L1 monitor of part (c): it is fed only by what the harness itself sees (handlers
// entering / leaving, responses, dials), never by the limiter's counters.
type vfC16Ledger struct {
	rpm, ppr, ddr, cap int
	admitted           []time.Time
	peerAdmitted       map[string][]time.Time
	ddServed           []time.Time
}

func (l *vfC16Ledger) admit(p string) (string, string) {
	now := time.Now()
	l.admitted = append(vfC16Trim(l.admitted, now), now)
	l.peerAdmitted[p] = append(vfC16Trim(l.peerAdmitted[p], now), now)
	if g, _ := vfC16InWindow(l.admitted, now); g > l.rpm {
		return "server-window-global", fmt.Sprintf("%d requests served within one minute, RPM %d", g, l.rpm)
	}
	if g, _ := vfC16InWindow(l.peerAdmitted[p], now); g > l.ppr {
		return "server-window-peer", fmt.Sprintf("%d requests of one peer served within one minute, PerPeerRPM %d", g, l.ppr)
	}
	return "", ""
}
func (l *vfC16Ledger) served() (string, string) {
	now := time.Now()
	l.ddServed = append(vfC16Trim(l.ddServed, now), now)
	if d, _ := vfC16InWindow(l.ddServed, now); d > l.ddr {
		return "server-window-dialdata", fmt.Sprintf("%d requests that required dial data served within one minute (overlapping requests), DialDataRPM %d", d, l.ddr)
	}
	return "", ""
}

type vfC16Inter struct {
	sys    *vfC16Srv
	led    *vfC16Ledger
	slots  map[string]*vfC16Req
	peerOf map[string]string
	obs    vfC16Obs
}

func (it *vfC16Inter) inService(p string) int {
	n := 0
	for sl, q := range it.slots {
		if q != nil && !q.isDone() && it.peerOf[sl] == p {
			n++
		}
	}
	return n
}

// after applies the L1 clauses to what the request did in this step; returns the observed response.
func (it *vfC16Inter) after(sl string, q *vfC16Req, first bool) (resp, cls, what string, got any) {
	p := it.peerOf[sl]
	msgs, err := q.st.nextMsgs()
	if err != nil {
		return "", "L2:server-output", err.Error(), nil
	}
	for _, m := range msgs {
		if d := m.GetDialDataRequest(); d != nil {
			q.asked, q.baseRead = int64(d.NumBytes), q.st.nread()
			resp = "DATAREQ"
			if d.NumBytes < 30_000 || d.NumBytes > 100_000 {
				return resp, "asked-bytes-out-of-range", fmt.Sprintf("server asked for %d bytes", d.NumBytes), nil
			}
		}
		if r := m.GetDialResponse(); r != nil {
			q.resp = r
			resp = vfC16StatusName[r.Status]
		}
	}
	if resp == "" {
		if q.isDone() {
			resp = "RESET"
		} else {
			resp = "PARKED"
		}
	}
	if first && resp != "REJECTED" {
		if c, w := it.led.admit(p); c != "" {
			return resp, c, w, nil
		}
	}
	if n := it.inService(p); n > it.led.cap {
		return resp, "concurrent-cap", fmt.Sprintf("%d requests of one peer served concurrently, MaxConcurrentRequestsPerPeer=%d", n, it.led.cap), nil
	}
	for _, e := range it.sys.dialer.takeEvents() {
		q.dials = append(q.dials, e)
		if e.Peer != p {
			return resp, "dial-wrong-peer", fmt.Sprintf("%s to peer %q, requester is %q", e.Kind, e.Peer, p), e
		}
		for i, ab := range e.addrBytes {
			k, ok := q.kindOf[string(ab)]
			if !ok {
				return resp, "dial-address-not-requested", fmt.Sprintf("%s with address %s which is not in the request", e.Kind, e.Addrs[i]), e
			}
			if k == vfC16NotDialable {
				return resp, "undialable-request-dialed", fmt.Sprintf("%s to %s", e.Kind, e.Addrs[i]), e
			}
			if k == vfC16Other && (q.asked == 0 || q.delivered(e.Read) < q.asked) {
				return resp, "dial-before-data", fmt.Sprintf("%s to %s after %d of %d asked bytes", e.Kind, e.Addrs[i], q.delivered(e.Read), q.asked), e
			}
		}
		if q.asked > 0 && !q.ddCounted {
			q.ddCounted = true
			if c, w := it.led.served(); c != "" {
				return resp, c, w, e
			}
		}
	}
	return resp, "", "", nil
}

func (it *vfC16Inter) step(op vfh.Op) (cls, what string, exp, got any) {
	sl := op.S("s")
	var resp string
	switch op.Name() {
	case "minute":
		time.Sleep(vfC16Window + time.Second)
		return "", "", nil, nil
	case "start":
		st := vfC16NewStream(peer.ID(it.peerOf[sl]), ma.StringCast(it.obs.observed), 0)
		it.sys.dialer.setOutcome("ok")
		q := it.sys.start(st)
		it.slots[sl] = q
		it.sys.settle(q)
		resp, cls, what, got = it.after(sl, q, true)
	case "send":
		q := it.slots[sl]
		if q == nil || q.isDone() {
			return "L2:harness", "send on a request that is not parked", nil, nil
		}
		var raw [][]byte
		add := func(a string, k int) {
			b := ma.StringCast(a).Bytes()
			raw = append(raw, b)
			q.kindOf[string(b)] = k
		}
		switch op.S("kind") {
		case "refused":
			add(it.sys.nextPriv(), vfC16NotDialable)
			add(vfC16Undial[it.sys.rnd.Intn(len(vfC16Undial))], vfC16NotDialable)
		case "same":
			add(it.obs.same[it.sys.rnd.Intn(len(it.obs.same))], vfC16Same)
		case "other":
			add(it.obs.other[it.sys.rnd.Intn(3)], vfC16Other) // ip forms only
		}
		it.sys.dialer.setCur(q.st)
		if op.S("kind") == "bad" {
			q.st.feed([]byte{5, 0xff, 0xff, 0xff, 0xff, 0xff})
		} else {
			q.st.feed(vfC16Delim(&pb.Message{Msg: &pb.Message_DialRequest{DialRequest: &pb.DialRequest{Addrs: raw, Nonce: 9}}}))
		}
		it.sys.settle(q)
		resp, cls, what, got = it.after(sl, q, false)
	case "pay":
		q := it.slots[sl]
		if q == nil || q.isDone() || q.asked == 0 {
			return "L2:harness", "pay on a request that does not wait for dial data", nil, nil
		}
		it.sys.dialer.setCur(q.st)
		it.sys.send(q, it.sys.split(q.asked-q.sent, 1+it.sys.rnd.Intn(2)))
		it.sys.settle(q)
		resp, cls, what, got = it.after(sl, q, false)
	case "close":
		q := it.slots[sl]
		if q == nil || q.isDone() {
			return "L2:harness", "close on a request that is not in flight", nil, nil
		}
		q.st.clientClose()
		it.sys.settle(q)
		resp, cls, what, got = it.after(sl, q, false)
	default:
		return "L2:unknown-op", op.Name(), nil, nil
	}
	if cls != "" {
		return cls, what, op.S("resp"), got
	}
	if resp != op.S("resp") {
		return "L2:response", fmt.Sprintf("%s(%s): server answered %s, model %s", op.Name(), sl, resp, op.S("resp")), op.S("resp"), resp
	}
	q := it.slots[sl]
	dialed := false
	for _, e := range q.dials {
		if e.Kind == "connect" {
			dialed = true
		}
	}
	if q.isDone() && dialed != op.B("dial") {
		return "L2:dial", "dial differs from the model", op.B("dial"), dialed
	}
	return "", "", nil, nil
}

// pursue: the server left the model.  Every request that waits for dial data gets all of it, every other one
// is closed; the ledger judges what the server finally served.
func (it *vfC16Inter) pursue() (string, string, any) {
	var names []string
	for sl := range it.slots {
		names = append(names, sl)
	}
	sort.Strings(names)
	for _, sl := range names {
		q := it.slots[sl]
		if q == nil || q.isDone() {
			continue
		}
		it.sys.dialer.setCur(q.st)
		if q.asked > 0 && q.sent < q.asked {
			it.sys.send(q, it.sys.split(q.asked-q.sent, 1))
		} else {
			q.st.clientClose()
		}
		it.sys.settle(q)
		if _, c, w, g := it.after(sl, q, false); c != "" && !strings.HasPrefix(c, "L2:") {
			return c, w, g
		}
	}
	return "", "", nil
}

// TestVerifC16Interleave replays every transition of the interleaving model on the real server: the
// scripted streams are the gates that hold a request "parked reading the request" / "parked reading dial
// data" while the other requests take their steps.
func TestVerifC16Interleave(t *testing.T) {
	res := vfh.NewResult()
	vfC16L2.Store(0)
	defer func() {
		if err := res.Write(); err != nil {
			t.Fatal(err)
		}
	}()
	files, _ := filepath.Glob(filepath.Join(vfh.In(), "int_*.jsonl"))
	if len(files) == 0 {
		t.Fatalf("no interleaving behaviour files in %q", vfh.In())
	}
	res.Rule = "one case = one (source state, action) transition of the interleaving model = one step of one of several concurrent requests on the real server (others parked at their stream gates); every case feeds the harness's ledger: requests in service per peer <= cap, admitted per window <= RPM / PerPeerRPM, dial-data requests served per window <= DialDataRPM"
	for _, f := range files {
		hdr, walks, err := vfh.LoadWalks(f)
		if err != nil {
			t.Fatalf("%s: %v", f, err)
		}
		rpm, ppr, ddr, cap := vfC16Int(hdr, "RPM"), vfC16Int(hdr, "PerPeerRPM"), vfC16Int(hdr, "DDRPM"), vfC16Int(hdr, "Cap")
		cfg := map[string]any{"file": filepath.Base(f), "RPM": rpm, "PerPeerRPM": ppr, "DDRPM": ddr, "Cap": cap}
		for _, w := range walks {
			synctest.Test(t, func(t *testing.T) {
				sys := vfC16NewSrv(t, rpm, ddr, cap, vfh.Seed()*6151+int64(w.Walk))
				defer sys.dialer.Close()
				sys.srv.limiter.PerPeerRPM = ppr
				it := &vfC16Inter{sys: sys, slots: map[string]*vfC16Req{}, peerOf: map[string]string{}, obs: vfC16Observed[sys.rnd.Intn(len(vfC16Observed))],
					led: &vfC16Ledger{rpm: rpm, ppr: ppr, ddr: ddr, cap: cap, peerAdmitted: map[string][]time.Time{}}}
				for _, sl := range hdr["Slots"].([]any) {
					p := "vf-peer-a"
					if strings.HasPrefix(sl.(string), "b") {
						p = "vf-peer-b"
					}
					it.peerOf[sl.(string)] = p
				}
				var prefix []vfh.Op
				prev := string(w.Init)
				for i, st := range w.Steps {
					prefix = append(prefix, st.Op)
					cls, what, exp, got := it.step(st.Op)
					res.Case(filepath.Base(f) + "|" + prev + "|" + vfh.Canon(st.Op))
					prev = string(st.State)
					if cls == "" {
						// L2: the limiter's own counters against the model
						var m map[string]any
						json.Unmarshal(st.State, &m)
						l := sys.srv.limiter
						l.mu.Lock()
						acc, dd := 0, 0
						for _, e := range l.reqs {
							if time.Since(vfC16T(e.Time)) < vfC16Window {
								acc++
							}
						}
						for _, x := range l.dialDataReqs {
							if time.Since(vfC16T(x)) < vfC16Window {
								dd++
							}
						}
						ipa, ipb := l.inProgressReqs["vf-peer-a"], l.inProgressReqs["vf-peer-b"]
						l.mu.Unlock()
						mi, _ := m["inProg"].(map[string]any)
						want := fmt.Sprintf("acc=%d dd=%d inProg=%d/%d", vfC16Int(m, "acc"), vfC16Int(m, "dd"), vfC16Int(mi, "pa"), vfC16Int(mi, "pb"))
						if have := fmt.Sprintf("acc=%d dd=%d inProg=%d/%d", acc, dd, ipa, ipb); have != want {
							cls, what, exp, got = "L2:limiter-counters", "limiter counters differ from the model after "+st.Op.Name(), want, have
						}
					}
					res.Count(0, 1)
					if cls != "" {
						vfC16Add(res, vfh.Mismatch{Class: cls, What: what, Walk: w.Walk, Step: i, Expected: exp, Got: got, Prefix: prefix, Cfg: cfg})
						if strings.HasPrefix(cls, "L2:") {
							if c, ww, g := it.pursue(); c != "" {
								vfC16Add(res, vfh.Mismatch{Class: c, What: ww + " (after the server left the model: " + cls + "; outstanding dial data was then supplied)", Walk: w.Walk, Step: i, Got: g, Prefix: prefix, Cfg: cfg})
							}
						}
						break
					}
				}
				for _, q := range it.slots {
					if q != nil && !q.isDone() {
						q.st.clientClose()
						sys.settle(q)
					}
				}
				res.Count(1, 0)
			})
		}
	}
}
