//go:build verif

package relay

// Conformance harness for C11 (circuit relay v2 honours reservations, ACL, caps and per-circuit limits).
//
// TestVerifC11Replay executes covering walks of the TLC state graphs of spec/C11_Relay.tla on a real
// Relay driven through a fake host (zz_verif_c11_fake_test.go) inside a testing/synctest bubble, so
// reservation expiry, the one-minute collection, the handshake time-out and circuit deadlines run in
// virtual time.  After every step
//   - the result the client sees (status code, voucher, bytes delivered, EOF) is compared with the
//     model's expectation,
//   - the projection rsvp / constraints / conns / conn-manager tags / service-scope Stat() / attempts is
//     compared with the model state (L2: internal conformance),
//   - the statement's clauses are evaluated as L1 monitors over the harness's OWN ledger of requests
//     sent and answers received (never over the model): caps on live reservations, a circuit only with a
//     reservation / non-relayed parties / ACL / below MaxCircuits, voucher, data and time limits,
//     counters / tags / memory rolled back once the relay has finished with an attempt.
//
// TestVerifC11Direct (zz_verif_c11_direct_test.go) drives single circuits with production-sized limits
// and payloads around the data limit in each direction and the duration limit, and races RESERVE /
// CONNECT requests from many goroutines, auditing the relay at quiescence.

import (
	"bytes"
	"encoding/binary"
	"encoding/json"
	"fmt"
	"hash/fnv"
	"log/slog"
	"math/rand"
	"os"
	"path/filepath"
	"sort"
	"strings"
	"sync"
	"testing"
	"testing/synctest"
	"time"

	asnutil "github.com/libp2p/go-libp2p-asn-util"
	"github.com/libp2p/go-libp2p/core/crypto"
	"github.com/libp2p/go-libp2p/core/network"
	"github.com/libp2p/go-libp2p/core/peer"
	"github.com/libp2p/go-libp2p/core/protocol"
	"github.com/libp2p/go-libp2p/core/record"
	"github.com/libp2p/go-libp2p/internal/vfh"
	rcmgr "github.com/libp2p/go-libp2p/p2p/host/resource-manager"
	bconnmgr "github.com/libp2p/go-libp2p/p2p/net/connmgr"
	pbv2 "github.com/libp2p/go-libp2p/p2p/protocol/circuitv2/pb"
	"github.com/libp2p/go-libp2p/p2p/protocol/circuitv2/proto"
	ma "github.com/multiformats/go-multiaddr"
	manet "github.com/multiformats/go-multiaddr/net"
	gproto "google.golang.org/protobuf/proto"
)

const (
	vfC11Unit   = 30 * time.Second // one model time unit
	vfC11Offset = 15 * time.Second // requests happen in the middle of a unit, the collection on a boundary
	vfC11None   = -9
)

// ---------------------------------------------------------------------------------------------
// identities and addresses

type vfC11Globals struct {
	relayKey crypto.PrivKey
	relayID  peer.ID
	otherID  peer.ID
	other2ID peer.ID
	peers    map[string]peer.ID
	pnames   map[peer.ID]string
	addrs    map[string]ma.Multiaddr
	asn      map[string]uint32
}

var vfC11G *vfC11Globals

func vfC11Init() error {
	if vfC11G != nil {
		return nil
	}
	log = slog.New(slog.DiscardHandler)
	g := &vfC11Globals{peers: map[string]peer.ID{}, pnames: map[peer.ID]string{}, addrs: map[string]ma.Multiaddr{}, asn: map[string]uint32{}}
	rnd := rand.New(rand.NewSource(0xC11))
	mk := func() (crypto.PrivKey, peer.ID, error) {
		k, _, err := crypto.GenerateEd25519Key(rnd)
		if err != nil {
			return nil, "", err
		}
		id, err := peer.IDFromPrivateKey(k)
		return k, id, err
	}
	var err error
	if g.relayKey, g.relayID, err = mk(); err != nil {
		return err
	}
	if _, g.otherID, err = mk(); err != nil {
		return err
	}
	if _, g.other2ID, err = mk(); err != nil {
		return err
	}
	for i := 1; i <= 40; i++ {
		_, id, err := mk()
		if err != nil {
			return err
		}
		n := fmt.Sprintf("p%d", i)
		g.peers[n] = id
		g.pnames[id] = n
	}
	for n, s := range map[string]string{
		"ip1": "/ip4/198.51.100.1/tcp/4001", "ip2": "/ip4/198.51.100.2/tcp/4001", "ip3": "/ip4/198.51.100.3/tcp/4001",
		"v6a": "/ip6/2001:4860:4860::8888/tcp/4001", "v6b": "/ip6/2001:4860:4860::8844/tcp/4001",
		"v6c": "/ip6/2606:4700:4700::1111/tcp/4001", "v6n": "/ip6/fd00::1/tcp/4001",
		"noip":  "/dns4/relay-client.example/tcp/4001",
		"relay":  "/ip4/203.0.113.9/tcp/4001/p2p/" + g.otherID.String() + "/p2p-circuit",
		"relayu": "/ip4/203.0.113.10/tcp/4001/p2p/" + g.other2ID.String() + "/p2p-circuit", // a front relay without limits
	} {
		a, err := ma.NewMultiaddr(s)
		if err != nil {
			return err
		}
		g.addrs[n] = a
		if ip, err := manet.ToIP(a); err == nil && ip.To4() == nil {
			g.asn[n] = asnutil.AsnForIPv6(ip)
		}
	}
	for i := 1; i <= 20; i++ {
		g.addrs[fmt.Sprintf("x%d", i)] = ma.StringCast(fmt.Sprintf("/ip4/198.51.101.%d/tcp/4001", i))
	}
	// the model's address classes must be what the asn table says
	if g.asn["v6a"] == 0 || g.asn["v6a"] != g.asn["v6b"] || g.asn["v6c"] == 0 || g.asn["v6c"] == g.asn["v6a"] || g.asn["v6n"] != 0 {
		return fmt.Errorf("asn table does not fit the address classes: %v", g.asn)
	}
	if _, err := manet.ToIP(g.addrs["noip"]); err == nil {
		return fmt.Errorf("the noip address has an IP")
	}
	vfC11G = g
	return nil
}

// ---------------------------------------------------------------------------------------------
// configuration (header of a behaviour file) and model state

type vfC11Cfg struct {
	Name      string
	Links     map[string][]any // link -> [peer, address name, Stat().Limited]
	DenyRes   []string
	DenyConn  [][]string
	MaxRes    int
	MaxPerIP  int
	MaxPerASN int
	MaxCirc   int
	TTL       int
	GCP       int
	Limited   bool
	DataLimit int
	Duration  int
	HSTimeout int
	MaxAtt    int
	Buf       int
}

func vfC11CfgOf(hdr map[string]any) (*vfC11Cfg, error) {
	b, _ := json.Marshal(hdr)
	var h struct {
		Name   string         `json:"name"`
		Consts map[string]any `json:"consts"`
		Conf   struct {
			Links       map[string][]any    `json:"links"`
			DenyReserve []string            `json:"denyReserve"`
			DenyConnect [][]string          `json:"denyConnect"`
		} `json:"conf"`
	}
	if err := json.Unmarshal(b, &h); err != nil {
		return nil, err
	}
	num := func(k string) int {
		switch v := h.Consts[k].(type) {
		case float64:
			return int(v)
		case string:
			var n int
			fmt.Sscanf(v, "%d", &n)
			return n
		}
		return 0
	}
	c := &vfC11Cfg{Name: h.Name, Links: h.Conf.Links, DenyRes: h.Conf.DenyReserve, DenyConn: h.Conf.DenyConnect,
		MaxRes: num("MaxRes"), MaxPerIP: num("MaxPerIP"), MaxPerASN: num("MaxPerASN"), MaxCirc: num("MaxCirc"),
		TTL: num("TTL"), GCP: num("GCP"), DataLimit: num("DataLimit"), Duration: num("Duration"),
		HSTimeout: num("HSTimeout"), MaxAtt: num("MaxAtt"), Buf: 2}
	c.Limited = fmt.Sprint(h.Consts["Limited"]) == "TRUE" || h.Consts["Limited"] == true
	if time.Duration(c.GCP)*vfC11Unit != time.Minute || time.Duration(c.HSTimeout)*vfC11Unit != HandshakeTimeout {
		return nil, fmt.Errorf("GCP/HSTimeout of the instance do not match the code's constants")
	}
	if len(c.Links) == 0 || c.MaxRes == 0 || c.TTL == 0 {
		return nil, fmt.Errorf("incomplete header %s", string(b))
	}
	return c, nil
}

type vfC11MAtt struct {
	St, Src, Dst, Via, Ab string
	T, F, R               int
	Fd, Rd                bool
}

type vfC11MState struct {
	Up     []string
	Closed bool
	Ph     int
	Rsvp   map[string]int
	Cons   map[string][]any // peer -> [rem, ip]
	Circ   map[string]int
	TagR   map[string]bool
	TagH   map[string]bool
	Svc    []int // spans, msgs, sin, sout
	Att    []vfC11MAtt
}

// layout printed by C11_MC!StOf: [up, closed, ph, rsvp, cons, circ, tagR, tagH, svc, att, gl]
func vfC11ParseState(raw json.RawMessage) (*vfC11MState, error) {
	var top []json.RawMessage
	if err := json.Unmarshal(raw, &top); err != nil || len(top) != 11 {
		return nil, fmt.Errorf("state layout: %v %s", err, string(raw))
	}
	m := &vfC11MState{}
	var atts [][]any
	for i, dst := range []any{&m.Up, &m.Closed, &m.Ph, &m.Rsvp, &m.Cons, &m.Circ, &m.TagR, &m.TagH, &m.Svc, &atts} {
		if err := json.Unmarshal(top[i], dst); err != nil {
			return nil, fmt.Errorf("state field %d: %v in %s", i, err, string(top[i]))
		}
	}
	for _, a := range atts {
		if len(a) != 10 {
			return nil, fmt.Errorf("attempt layout %v", a)
		}
		str := func(i int) string { s, _ := a[i].(string); return s }
		num := func(i int) int { f, _ := a[i].(float64); return int(f) }
		bl := func(i int) bool { b, _ := a[i].(bool); return b }
		m.Att = append(m.Att, vfC11MAtt{St: str(0), Src: str(1), Dst: str(2), Via: str(3), Ab: str(4), T: num(5), F: num(6), R: num(7), Fd: bl(8), Rd: bl(9)})
	}
	return m, nil
}

// ---------------------------------------------------------------------------------------------
// the system under test, attempts, ledger

type vfC11Att struct {
	slot     int
	src      string // link
	srcPeer  string
	dst      string // peer
	hop      *vfC11Pipe
	stop     *vfC11Pipe
	stopVia  string
	stopPeer peer.ID
	phase    string // "hs" | "open" as OBSERVED (OK status received => open)
	openedAt time.Time
	hopBuf   []byte
	hopMsg   *pbv2.HopMessage
	stopBuf  []byte
	stopMsg  *pbv2.StopMessage
	recv     map[string][]byte // "f": bytes the destination received, "r": bytes the source received
	sent     map[string][]byte
	eof      map[string]bool
}

type vfC11Res struct {
	expiry  time.Time
	link    string
	ip      string
	asn     uint32
	refused bool // a refresh was refused while this reservation was live
}

type vfC11Sys struct {
	cfg    *vfC11Cfg
	w      *vfC11World
	host   *vfC11Host
	relay  *Relay
	cm     *bconnmgr.BasicConnMgr
	t0     time.Time
	atts   map[int]*vfC11Att
	all    []*vfC11Att
	res    map[string]*vfC11Res // ledger: reservations granted (by peer name)
	ended  map[string]string    // how the peer's last reservation ended
	closed bool
	out    *vfh.Result
	walk     int
	step     int
	diverged int // step of the first L2 divergence of this walk, -1: none
	prefix   []vfh.Op
	pnames []string
}

func vfC11NewSys(cfg *vfC11Cfg, out *vfh.Result) (*vfC11Sys, error) {
	g := vfC11G
	w := &vfC11World{relayID: g.relayID, relayKey: g.relayKey, conns: map[string]*vfC11Conn{},
		handlers: map[protocol.ID]network.StreamHandler{}, removed: map[protocol.ID]bool{},
		denyRes: map[string]bool{}, denyConn: map[string]bool{}, pnames: g.pnames}
	w.lim = vfC11NewLimit()
	rm, err := rcmgr.NewResourceManager(&vfC11Limiter{Limiter: rcmgr.NewFixedLimiter(rcmgr.InfiniteLimits), svc: w.lim},
		rcmgr.WithMetricsDisabled())
	if err != nil {
		return nil, err
	}
	w.rm = rm
	cm, err := bconnmgr.NewConnManager(1000, 2000)
	if err != nil {
		return nil, err
	}
	w.cm = cm
	s := &vfC11Sys{cfg: cfg, w: w, cm: cm, atts: map[int]*vfC11Att{}, res: map[string]*vfC11Res{}, ended: map[string]string{}, out: out, diverged: -1}
	pn := map[string]bool{}
	for l, pa := range cfg.Links {
		pn0, _ := pa[0].(string)
		an, _ := pa[1].(string)
		lim, okL := pa[2].(bool)
		if len(pa) != 3 || !okL || g.peers[pn0] == "" || g.addrs[an] == nil {
			return nil, fmt.Errorf("bad link %s %v", l, pa)
		}
		_, circ := g.addrs[an].ValueForProtocol(ma.P_CIRCUIT)
		w.conns[l] = &vfC11Conn{name: l, pname: pn0, addrName: an, pid: g.peers[pn0], addr: g.addrs[an],
			viaRelay: circ == nil, limited: lim, local: g.relayID}
		pn[pn0] = true
	}
	w.order = vfC11SortedKeys(w.conns)
	s.pnames = vfC11SortedKeys(pn)
	for _, l := range cfg.DenyRes {
		w.denyRes[l] = true
	}
	for _, ld := range cfg.DenyConn {
		w.denyConn[ld[0]+">"+ld[1]] = true
	}
	s.host = &vfC11Host{w: w}
	s.host.net = &vfC11Net{w: w}
	s.host.ps = &vfC11PS{w: w}
	// as in the basic host: the conn manager listens first, services afterwards
	s.host.net.Notify(cm.Notifee())
	rc := Resources{ReservationTTL: time.Duration(cfg.TTL) * vfC11Unit, MaxReservations: cfg.MaxRes, MaxCircuits: cfg.MaxCirc,
		BufferSize: cfg.Buf, MaxReservationsPerPeer: 1, MaxReservationsPerIP: cfg.MaxPerIP, MaxReservationsPerASN: cfg.MaxPerASN}
	if cfg.Limited {
		rc.Limit = &RelayLimit{Duration: time.Duration(cfg.Duration) * vfC11Unit, Data: int64(cfg.DataLimit)}
	}
	s.t0 = time.Now()
	r, err := New(s.host, WithResources(rc), WithACL(&vfC11ACL{w: w}))
	if err != nil {
		return nil, err
	}
	s.relay = r
	return s, nil
}

func (s *vfC11Sys) shutdown() {
	// end whatever is left so that every goroutine of the bubble can finish
	for _, a := range s.all {
		a.hop.ends[1].Reset()
		if a.stop != nil {
			a.stop.ends[1].Reset()
		}
	}
	synctest.Wait()
	s.relay.Close()
	s.cm.Close()
	s.w.rm.Close()
	synctest.Wait()
}

func (s *vfC11Sys) hopHandler() network.StreamHandler {
	s.w.mu.Lock()
	defer s.w.mu.Unlock()
	return s.w.handlers[proto.ProtoIDv2Hop]
}

func (s *vfC11Sys) svcStat() network.ScopeStat {
	var st network.ScopeStat
	s.w.rm.ViewService(ServiceName, func(sc network.ServiceScope) error { st = sc.Stat(); return nil })
	return st
}

func (s *vfC11Sys) openHop(c *vfC11Conn) (*vfC11Pipe, error) {
	scope, err := s.w.rm.OpenStream(c.pid, network.DirInbound)
	if err != nil {
		return nil, err
	}
	if err := scope.SetProtocol(proto.ProtoIDv2Hop); err != nil {
		return nil, err
	}
	s.w.mu.Lock()
	s.w.seq++
	id := s.w.seq
	s.w.mu.Unlock()
	p := vfC11NewPipe(fmt.Sprintf("hop%d", id))
	re := p.ends[0]
	re.conn, re.scope, re.proto = c, scope, proto.ProtoIDv2Hop
	return p, nil
}

func vfC11Delimited(m gproto.Message) []byte {
	b, err := gproto.Marshal(m)
	if err != nil {
		panic(err)
	}
	return append(binary.AppendUvarint(nil, uint64(len(b))), b...)
}

// vfC11Take parses one length-delimited message off the front of buf.
func vfC11Take(buf []byte, m gproto.Message) (rest []byte, ok bool) {
	n, k := binary.Uvarint(buf)
	if k <= 0 || uint64(len(buf)-k) < n {
		return buf, false
	}
	if err := gproto.Unmarshal(buf[k:k+int(n)], m); err != nil {
		return buf, false
	}
	return buf[k+int(n):], true
}

// ---------------------------------------------------------------------------------------------
// observation of an attempt from its two far ends

func (a *vfC11Att) alive() bool {
	if !a.hop.ends[0].over() {
		return true
	}
	return a.stop != nil && !a.stop.ends[0].over()
}

// pollHop drains the source's end of the hop stream: first the relay's answer, then relayed bytes.
func (a *vfC11Att) pollHop() {
	data, eof, _ := a.hop.ends[1].drain()
	a.hopBuf = append(a.hopBuf, data...)
	if a.hopMsg == nil {
		var m pbv2.HopMessage
		if rest, ok := vfC11Take(a.hopBuf, &m); ok {
			a.hopMsg = &m
			a.hopBuf = rest
		}
	}
	if a.hopMsg != nil && len(a.hopBuf) > 0 {
		a.recv["r"] = append(a.recv["r"], a.hopBuf...)
		a.hopBuf = nil
	}
	if eof {
		a.eof["r"] = true
	}
}

func (a *vfC11Att) pollStop() {
	if a.stop == nil {
		return
	}
	data, eof, _ := a.stop.ends[1].drain()
	a.stopBuf = append(a.stopBuf, data...)
	if a.stopMsg == nil {
		var m pbv2.StopMessage
		if rest, ok := vfC11Take(a.stopBuf, &m); ok {
			a.stopMsg = &m
			a.stopBuf = rest
		}
	}
	if a.stopMsg != nil && len(a.stopBuf) > 0 {
		a.recv["f"] = append(a.recv["f"], a.stopBuf...)
		a.stopBuf = nil
	}
	if eof {
		a.eof["f"] = true
	}
}

// status the source has seen: a status name, "pending" (nothing yet, stream open) or "none" (the
// relay finished with the stream without an answer).
func (a *vfC11Att) status() string {
	a.pollHop()
	if a.hopMsg != nil {
		if a.hopMsg.GetType() != pbv2.HopMessage_STATUS {
			return "not-a-status"
		}
		return a.hopMsg.GetStatus().String()
	}
	if a.hop.ends[0].over() {
		return "none"
	}
	return "pending"
}

func vfC11NewAtt(slot int, src *vfC11Conn, dst string) *vfC11Att {
	return &vfC11Att{slot: slot, src: src.name, srcPeer: src.pname, dst: dst, recv: map[string][]byte{},
		sent: map[string][]byte{}, eof: map[string]bool{}}
}

// ---------------------------------------------------------------------------------------------
// mismatch reporting

func (s *vfC11Sys) mismatch(class, what string, exp, got any) {
	if strings.HasPrefix(class, "L2:") {
		// Once the relay has left the model, later model-derived expectations mean nothing: the divergence is
		// reported where it is first seen (all fields of that step), the rest of the walk is still EXECUTED
		// (its requests are legitimate inputs) and judged by the L1 monitors alone, which never read the model.
		if s.diverged >= 0 && s.step > s.diverged {
			return
		}
		s.diverged = s.step
	}
	pre := make([]vfh.Op, len(s.prefix))
	copy(pre, s.prefix)
	s.out.AddMismatch(vfh.Mismatch{Class: class, What: what, Walk: s.walk, Step: s.step, Expected: exp, Got: got,
		Prefix: pre, Cfg: map[string]any{"instance": s.cfg.Name, "cfg": s.cfg}})
}

func (s *vfC11Sys) now() time.Time { return time.Now() }

// collected: the reservation expired before a collection instant that has passed
func (s *vfC11Sys) collected(r *vfC11Res) bool {
	el := s.now().Sub(s.t0)
	last := s.t0.Add(el.Truncate(time.Minute)) // latest collection instant <= now
	return !last.Equal(s.t0) && r.expiry.Before(last)
}

// purge drops ledger reservations that a collection must have removed.
func (s *vfC11Sys) purge() {
	for p, r := range s.res {
		if s.collected(r) {
			delete(s.res, p)
			s.ended[p] = "expiry"
		}
	}
}

func (s *vfC11Sys) aliveCount(p string) int {
	n := 0
	for _, a := range s.all {
		if a.alive() {
			if a.srcPeer == p {
				n++
			}
			if a.dst == p {
				n++
			}
		}
	}
	return n
}

// ---------------------------------------------------------------------------------------------
// actions

func (s *vfC11Sys) notifiees() []network.Notifiee {
	s.w.mu.Lock()
	defer s.w.mu.Unlock()
	return append([]network.Notifiee(nil), s.w.notifiees...)
}

func (s *vfC11Sys) linkUp(l string) {
	c := s.w.conns[l]
	s.w.mu.Lock()
	c.up = true
	s.w.mu.Unlock()
	for _, n := range s.notifiees() {
		n.Connected(s.host.net, c)
	}
	synctest.Wait()
}

func (s *vfC11Sys) linkDown(l string) {
	c := s.w.conns[l]
	s.w.mu.Lock()
	c.up = false
	s.w.mu.Unlock()
	// the swarm resets the streams of a closed connection locally
	for _, a := range s.all {
		if a.src == l && !a.hop.ends[0].over() {
			a.hop.ends[0].Reset()
		}
		if a.stop != nil && a.stopVia == l && !a.stop.ends[0].over() {
			a.stop.ends[0].Reset()
		}
	}
	synctest.Wait()
	for _, n := range s.notifiees() {
		n.Disconnected(s.host.net, c)
	}
	synctest.Wait()
	if len(s.w.unlimUp(c.pid)) == 0 { // Connectedness(p) != Connected: the peer "disconnected" as the host sees it
		if _, ok := s.res[c.pname]; ok {
			delete(s.res, c.pname)
			s.ended[c.pname] = "disconnect"
		}
	}
}

func (s *vfC11Sys) doReserve(op vfh.Op) {
	g := vfC11G
	l, ab := op.S("l"), op.B("ab")
	c := s.w.conns[l]
	pipe, err := s.openHop(c)
	if err != nil {
		panic(err)
	}
	cl := pipe.ends[1]
	cl.Write(vfC11Delimited(&pbv2.HopMessage{Type: pbv2.HopMessage_RESERVE.Enum()}))
	re := pipe.ends[0]
	if ab {
		// the client goes away after the relay has read the request: from the ACL callback on, whatever the
		// relay writes on this stream is lost (the write fails)
		s.w.mu.Lock()
		s.w.aclGate = func() { pipe.mu.Lock(); re.failWrite = true; pipe.mu.Unlock() }
		s.w.mu.Unlock()
	}
	now := s.now()
	go s.hopHandler()(re)
	synctest.Wait()
	s.w.mu.Lock()
	s.w.aclGate = nil
	s.w.mu.Unlock()
	att := &vfC11Att{hop: pipe, recv: map[string][]byte{}, eof: map[string]bool{}}
	st := att.status()
	if !pipe.ends[0].over() {
		s.mismatch("L2:reserve-stream-left-open", "the relay did not finish the reservation stream", nil, l)
		pipe.ends[0].Reset()
	}
	want := op.S("status")
	held := s.res[c.pname]
	// what the relay decided: the answer the client received or, when the client had left, the answer the
	// relay tried to write (never the model's expectation)
	decided, answer := st, att.hopMsg
	if ab {
		pipe.mu.Lock()
		lost := append([]byte(nil), re.lost...)
		pipe.mu.Unlock()
		var m pbv2.HopMessage
		decided, answer = "none", nil
		if _, ok := vfC11Take(lost, &m); ok && m.GetType() == pbv2.HopMessage_STATUS {
			decided, answer = m.GetStatus().String(), &m
		}
	}
	granted := decided == "OK"
	if st != want {
		if (st == "OK") == (want == "OK") {
			s.mismatch("L2:reserve-status", "reservation answered with another status than the model's", want, st)
		} else if want == "OK" {
			s.mismatch("L2:reserve-refused", "the model grants this reservation, the relay refuses it (the statement only bounds grants)", want, st)
		} else {
			s.mismatch("L2:reserve-granted", "the relay grants a reservation the model refuses (judged by the L1 clauses)", want, st)
		}
	}
	if ab {
		if wantOK := op.S("why") == "ok"; wantOK != granted {
			s.mismatch("L2:reserve-unseen-decision", "the decision on a request whose client left differs from the model's", op.S("why"), decided)
		}
	}
	if !granted {
		if decided == "RESERVATION_REFUSED" && held != nil && !held.expiry.Before(now) {
			held.refused = true
		}
		return
	}
	// L1: the clauses on a granted reservation
	if c.viaRelay { // keyed on the address alone: Stat().Limited does not matter
		s.mismatch("reservation-granted-over-relayed-connection", fmt.Sprintf("RESERVE over a /p2p-circuit connection (Stat().Limited=%v) was granted", c.limited), "refused", st)
	}
	if s.w.denyRes[l] {
		s.mismatch("reservation-granted-against-acl", "RESERVE the ACL refuses was granted", "refused", st)
	}
	expiry := now.Add(time.Duration(s.cfg.TTL) * vfC11Unit)
	s.checkVoucher(answer, c, expiry)
	var asn uint32
	if ip, err := manet.ToIP(c.addr); err == nil && ip.To4() == nil {
		asn = asnutil.AsnForIPv6(ip)
	}
	s.res[c.pname] = &vfC11Res{expiry: expiry, link: l, ip: c.addrName, asn: asn}
	delete(s.ended, c.pname)
	// caps over the live reservations: granted, not expired, holder still directly connected
	tot, ipn, asnn, refused := 0, 0, 0, false
	var live []string
	for _, p := range s.pnames {
		r := s.res[p]
		if r == nil || r.expiry.Before(now) {
			continue
		}
		live = append(live, p+"@"+r.ip)
		tot++
		if r.ip == c.addrName {
			ipn++
		}
		if asn != 0 && r.asn == asn {
			asnn++
		}
		refused = refused || r.refused
	}
	over := ""
	switch {
	case tot > s.cfg.MaxRes:
		over = fmt.Sprintf("%d live reservations, MaxReservations=%d", tot, s.cfg.MaxRes)
	case ipn > s.cfg.MaxPerIP:
		over = fmt.Sprintf("%d live reservations from %s, MaxReservationsPerIP=%d", ipn, c.addrName, s.cfg.MaxPerIP)
	case asn != 0 && asnn > s.cfg.MaxPerASN:
		over = fmt.Sprintf("%d live reservations from AS%d, MaxReservationsPerASN=%d", asnn, asn, s.cfg.MaxPerASN)
	}
	if over != "" {
		cls := "caps-exceeded"
		if refused {
			cls = "caps-exceeded-after-refused-refresh"
		}
		s.mismatch(cls, "a reservation was granted beyond the caps: "+over, "within caps", live)
	}
	_ = g
}

func (s *vfC11Sys) checkVoucher(m *pbv2.HopMessage, c *vfC11Conn, expiry time.Time) {
	g := vfC11G
	rs := m.GetReservation()
	if rs == nil {
		s.mismatch("voucher-missing", "OK without reservation info", "reservation", nil)
		return
	}
	if int64(rs.GetExpire()) != expiry.Unix() {
		s.mismatch("reservation-expiry", "the announced expiry is not now+TTL", expiry.Unix(), rs.GetExpire())
	}
	env, rec, err := record.ConsumeEnvelope(rs.GetVoucher(), proto.RecordDomain)
	if err != nil {
		s.mismatch("voucher-invalid", "the voucher envelope does not verify: "+err.Error(), "valid envelope", len(rs.GetVoucher()))
		return
	}
	v, ok := rec.(*proto.ReservationVoucher)
	if !ok {
		s.mismatch("voucher-invalid", "the voucher is not a ReservationVoucher", "ReservationVoucher", fmt.Sprintf("%T", rec))
		return
	}
	signer, _ := peer.IDFromPublicKey(env.PublicKey)
	if signer != g.relayID {
		s.mismatch("voucher-wrong-signer", "the voucher is not signed by the relay", g.relayID.String(), signer.String())
	}
	if v.Relay != g.relayID {
		s.mismatch("voucher-wrong-relay", "voucher.Relay is not the relay", g.relayID.String(), v.Relay.String())
	}
	if v.Peer != c.pid {
		s.mismatch("voucher-wrong-peer", "voucher.Peer is not the reserving peer", c.pid.String(), v.Peer.String())
	}
	if v.Expiration.Unix() != expiry.Unix() {
		s.mismatch("voucher-expiry", "voucher.Expiration is not now+TTL", expiry.Unix(), v.Expiration.Unix())
	}
	for _, ab := range rs.GetAddrs() {
		a, err := ma.NewMultiaddrBytes(ab)
		if err != nil {
			s.mismatch("L2:reservation-addr", "unparsable relay address", nil, ab)
			continue
		}
		if id, _ := peer.IDFromP2PAddr(a); id != g.relayID || !manet.IsPublicAddr(a) {
			s.mismatch("L2:reservation-addr", "relay address without the relay's id or not public", g.relayID.String(), a.String())
		}
	}
	s.checkLimit("reserve", m.GetLimit())
}

func (s *vfC11Sys) checkLimit(where string, lim *pbv2.Limit) {
	if !s.cfg.Limited {
		if lim != nil {
			s.mismatch("L2:limit-announced", where+": a limit is announced by an unlimited relay", nil, lim.String())
		}
		return
	}
	wd := uint32(time.Duration(s.cfg.Duration) * vfC11Unit / time.Second)
	if lim == nil || lim.GetDuration() != wd || lim.GetData() != uint64(s.cfg.DataLimit) {
		s.mismatch("L2:limit-announced", where+": announced limit differs from the configuration",
			fmt.Sprintf("duration %d data %d", wd, s.cfg.DataLimit), fmt.Sprint(lim))
	}
}

func (s *vfC11Sys) doConnect(op vfh.Op) {
	g := vfC11G
	l, d, exit, fault, via, slot := op.S("l"), op.S("d"), op.S("exit"), op.S("fault"), op.S("via"), op.I("c")
	c := s.w.conns[l]
	dpid := g.peers[d]
	att := vfC11NewAtt(slot, c, d)
	pipe, err := s.openHop(c)
	if err != nil {
		panic(err)
	}
	att.hop = pipe
	cl := pipe.ends[1]
	// the ledger's facts before the request
	now := s.now()
	s.purge()
	aliveSrc, aliveDst := s.aliveCount(c.pname), s.aliveCount(d)
	held := s.res[d]
	dstDirect := len(s.w.notViaRelayUp(dpid)) > 0 // keyed on the address alone
	dstRelayedUnlimited := false
	for _, k := range s.w.unlimUp(dpid) {
		dstRelayedUnlimited = dstRelayedUnlimited || s.w.conns[k].viaRelay
	}
	denied := s.w.denyConn[l+">"+d]
	nsBefore := len(s.w.nsCalls)
	mem0 := s.svcStat().Memory

	switch exit {
	case "h_bad":
		cl.Write([]byte{0x05, 0xff, 0xff, 0xff, 0xff, 0xff}) // five bytes that are no HopMessage
	case "badpeer":
		cl.Write(vfC11Delimited(&pbv2.HopMessage{Type: pbv2.HopMessage_CONNECT.Enum(), Peer: &pbv2.Peer{Id: []byte{0x01, 0x02, 0x03}}}))
	default:
		cl.Write(vfC11Delimited(&pbv2.HopMessage{Type: pbv2.HopMessage_CONNECT.Enum(), Peer: &pbv2.Peer{Id: []byte(dpid)}}))
	}
	sc := &vfC11NSScript{via: via, att: att}
	switch exit {
	case "h_svc":
		s.w.lim.set(func(x *vfC11Limit) { x.sIn = 0 })
	case "h_mem":
		s.w.lim.set(func(x *vfC11Limit) { x.mem = mem0 })
	case "mem":
		s.w.lim.set(func(x *vfC11Limit) { x.mem = mem0 + maxMessageSize })
	case "open":
		sc.fail = fault == "open"
	case "svc":
		sc.pre = func() { s.w.lim.set(func(x *vfC11Limit) { x.sOut = 0 }) }
	case "smem":
		sc.pre = func() { m := s.svcStat().Memory; s.w.lim.set(func(x *vfC11Limit) { x.mem = m }) }
	case "swrite":
		sc.failWrite = true
	}
	s.w.mu.Lock()
	s.w.nsScript = sc
	s.w.mu.Unlock()
	s.all = append(s.all, att)
	go s.hopHandler()(pipe.ends[0])
	synctest.Wait()
	s.w.lim.open()
	s.w.mu.Lock()
	s.w.nsScript = nil
	nsAfter := len(s.w.nsCalls)
	var nsPeer peer.ID
	if nsAfter > nsBefore {
		nsPeer = s.w.nsCalls[nsAfter-1]
	}
	s.w.mu.Unlock()

	st := att.status()
	att.pollStop()
	want := op.S("status")
	went := nsAfter > nsBefore // the relay went on to reach the destination
	wantGo := exit == "hs" || exit == "open" || exit == "svc" || exit == "smem" || exit == "swrite"

	// L1: the relay connects ONLY IF ... (evaluated on the ledger, whatever the model says)
	if went {
		if nsPeer != dpid {
			s.mismatch("stop-stream-to-wrong-peer", "the relay opened the stop stream to another peer than the requested destination", d, g.pnames[nsPeer])
		}
		if held == nil {
			why := s.ended[d]
			if why == "" {
				why = "never-reserved"
			}
			s.mismatch("connect-without-reservation/"+why, "the relay went on to connect to a destination that holds no reservation ("+why+")", "NO_RESERVATION", st)
		}
		if c.viaRelay {
			s.mismatch("connect-relayed-source", fmt.Sprintf("the relay went on to connect a source that came through another relay (Stat().Limited=%v)", c.limited), "PERMISSION_DENIED", st)
		}
		if !dstDirect {
			if dstRelayedUnlimited {
				s.mismatch("connect-destination-over-unlimited-relay", "the relay went on to connect to a destination it reaches only through another relay (a relayed connection not flagged Limited keeps Connectedness at Connected, so the reservation outlived the direct connection, and carries the stop stream)", "refused", st)
			} else {
				s.mismatch("connect-relayed-destination", "the relay went on to connect to a destination without a direct connection", "refused", st)
			}
		}
		if denied {
			s.mismatch("connect-against-acl", "the relay went on to connect although the ACL refuses", "PERMISSION_DENIED", st)
		}
		if aliveSrc >= s.cfg.MaxCirc {
			s.mismatch("connect-over-max-circuits/source", fmt.Sprintf("the source already has %d circuits (MaxCircuits %d)", aliveSrc, s.cfg.MaxCirc), "RESOURCE_LIMIT_EXCEEDED", st)
		}
		if aliveDst >= s.cfg.MaxCirc {
			s.mismatch("connect-over-max-circuits/destination", fmt.Sprintf("the destination already has %d circuits (MaxCircuits %d)", aliveDst, s.cfg.MaxCirc), "RESOURCE_LIMIT_EXCEEDED", st)
		}
	}
	if went != wantGo {
		if wantGo {
			s.mismatch("L2:connect-refused", "the model lets this request through, the relay refuses it (the statement only bounds grants)", want, st)
		} else {
			s.mismatch("L2:connect-went-on", "the relay went on where the model refuses", want, st)
		}
	} else if st != want {
		s.mismatch("L2:connect-status", "another status than the model's at exit "+exit, want, st)
	}
	if att.stop != nil && att.stopMsg != nil {
		m := att.stopMsg
		if m.GetType() != pbv2.StopMessage_CONNECT || !bytes.Equal(m.GetPeer().GetId(), []byte(c.pid)) {
			s.mismatch("stop-message-wrong-source", "the stop request does not name the source peer", c.pname, m.String())
		}
		s.checkLimit("stop", m.GetLimit())
	}
	if att.alive() {
		att.phase = "hs"
	}
	if exit == "hs" {
		if old := s.atts[slot]; old != nil {
			s.forceEnd(old)
		}
		s.atts[slot] = att
	} else if att.alive() {
		// the model has no attempt here: judged above and by audit(); afterwards brought back in step
		s.mismatch("L2:attempt-liveness", "connect: an attempt the model refuses is still in flight", false, true)
		s.forceEnd(att)
	}
	_ = now
}

// forceEnd brings the real relay back in step with the model after a disagreement on whether an
// attempt is over (reported where it was seen): both far ends reset their streams.
func (s *vfC11Sys) forceEnd(a *vfC11Att) {
	a.hop.ends[1].Reset()
	if a.stop != nil {
		a.stop.ends[1].Reset()
	}
	synctest.Wait()
}

func (s *vfC11Sys) att(op vfh.Op) *vfC11Att {
	a := s.atts[op.I("c")]
	if a == nil {
		a = &vfC11Att{slot: op.I("c"), hop: vfC11NewPipe("ghost"), recv: map[string][]byte{}, sent: map[string][]byte{}, eof: map[string]bool{}}
		a.hop.ends[0].Reset()
	}
	return a
}

func (s *vfC11Sys) noteOpen(a *vfC11Att) {
	if a.phase == "hs" && a.hopMsg != nil && a.hopMsg.GetStatus() == pbv2.Status_OK {
		a.phase = "open"
		a.openedAt = s.now()
		s.checkLimit("connect", a.hopMsg.GetLimit())
	}
}

func (s *vfC11Sys) doStop(op vfh.Op) {
	a := s.att(op)
	if a.stop == nil {
		s.mismatch("L2:no-stop-stream", "the model replies on a stop stream the relay never opened", nil, op)
		return
	}
	he := a.stop.ends[1]
	a.pollHop()
	waiting := a.phase == "hs" && a.hopMsg == nil // the source has no answer yet
	switch op.S("kind") {
	case "ok":
		he.Write(vfC11Delimited(&pbv2.StopMessage{Type: pbv2.StopMessage_STATUS.Enum(), Status: pbv2.Status_OK.Enum()}))
	case "wrongtype":
		he.Write(vfC11Delimited(&pbv2.StopMessage{Type: pbv2.StopMessage_CONNECT.Enum(), Status: pbv2.Status_OK.Enum()}))
	case "nonok":
		he.Write(vfC11Delimited(&pbv2.StopMessage{Type: pbv2.StopMessage_STATUS.Enum(), Status: pbv2.Status_PERMISSION_DENIED.Enum()}))
	case "reset":
		he.Reset()
	}
	synctest.Wait()
	st := a.status()
	s.noteOpen(a)
	if st != op.S("status") {
		cls := "L2:stop-status"
		if waiting && st == "OK" && op.S("kind") != "ok" {
			cls = "connect-ok-without-destination-consent"
		}
		s.mismatch(cls, "status after the destination's answer "+op.S("kind"), op.S("status"), st)
	}
	s.endedAsModel(a, op.B("ended"), "stop/"+op.S("kind"))
}

// endedAsModel: L2 comparison of "the relay has finished with the attempt"; the L1 consequences
// (counters, tags, memory) are judged by audit() on the observed liveness.
func (s *vfC11Sys) endedAsModel(a *vfC11Att, ended bool, where string) {
	if a.alive() == ended {
		s.mismatch("L2:attempt-liveness", where+": attempt alive/ended differently from the model", ended, !a.alive())
	}
	if ended || !a.alive() {
		if a.alive() {
			// first let the L1 monitors see the state as it is, then resynchronise
			got, _ := s.project()
			s.audit(got, where+" (attempt the model has ended)")
			s.forceEnd(a)
		}
		if s.atts[a.slot] == a {
			delete(s.atts, a.slot)
		}
	}
}

func (s *vfC11Sys) doFwd(op vfh.Op) {
	a := s.att(op)
	dir, n := op.S("dir"), op.I("n")
	var snd *vfC11End
	if dir == "f" {
		snd = a.hop.ends[1]
	} else if a.stop != nil {
		snd = a.stop.ends[1]
	}
	if snd == nil {
		s.mismatch("L2:no-stop-stream", "forward on a circuit without stop stream", nil, op)
		return
	}
	before := len(a.recv[dir])
	pay := make([]byte, n)
	for i := range pay {
		pay[i] = byte(len(a.sent[dir]) + i + 1)
	}
	a.sent[dir] = append(a.sent[dir], pay...)
	snd.Write(pay)
	synctest.Wait()
	a.pollHop()
	a.pollStop()
	got := len(a.recv[dir]) - before
	if got != op.I("delivered") {
		s.mismatch("L2:delivered", "bytes delivered by this write differ from the model", op.I("delivered"), got)
	}
	if a.eof[dir] != op.B("eof") {
		s.mismatch("L2:eof", "EOF at the receiver differs from the model", op.B("eof"), a.eof[dir])
	}
	s.dataMonitor(a)
	s.endedAsModel(a, op.B("ended"), "fwd")
}

// dataMonitor: L1 - at most Limit.Data bytes are forwarded in each direction, and what arrives is what was sent
func (s *vfC11Sys) dataMonitor(a *vfC11Att) {
	for _, dir := range []string{"f", "r"} {
		if s.cfg.Limited && len(a.recv[dir]) > s.cfg.DataLimit {
			s.mismatch("data-limit-exceeded/"+dir, "more bytes than Limit.Data were forwarded in one direction", s.cfg.DataLimit, len(a.recv[dir]))
		}
		if !bytes.HasPrefix(a.sent[dir], a.recv[dir]) {
			s.mismatch("relayed-bytes-differ/"+dir, "the bytes received are not a prefix of the bytes sent",
				fmt.Sprintf("%d bytes %x..", len(a.sent[dir]), a.sent[dir][:min(8, len(a.sent[dir]))]),
				fmt.Sprintf("%d bytes %x..", len(a.recv[dir]), a.recv[dir][:min(8, len(a.recv[dir]))]))
		}
	}
}

func (s *vfC11Sys) doSClose(op vfh.Op) {
	a := s.att(op)
	dir := op.S("dir")
	if dir == "f" {
		a.hop.ends[1].CloseWrite()
	} else if a.stop != nil {
		a.stop.ends[1].CloseWrite()
	}
	synctest.Wait()
	a.pollHop()
	a.pollStop()
	if !a.eof[dir] {
		s.mismatch("L2:eof", "the half-close was not forwarded", true, false)
	}
	s.endedAsModel(a, op.B("ended"), "sclose")
}

func (s *vfC11Sys) doAbort(op vfh.Op) {
	a := s.att(op)
	if op.S("side") == "src" {
		a.hop.ends[1].Reset()
	} else if a.stop != nil {
		a.stop.ends[1].Reset()
	}
	synctest.Wait()
	s.endedAsModel(a, true, "abort")
}

func (s *vfC11Sys) doTick(op vfh.Op) {
	time.Sleep(vfC11Unit)
	synctest.Wait()
	s.purge()
	ended := map[int]bool{}
	for _, x := range op.L("ended") {
		ended[int(x.(float64))] = true
	}
	hs := map[int]bool{}
	for _, x := range op.L("hs") {
		hs[int(x.(float64))] = true
	}
	for slot, a := range s.atts {
		if hs[slot] {
			if st := a.status(); st != "CONNECTION_FAILED" {
				s.mismatch("L2:handshake-timeout-status", "status after the handshake time-out", "CONNECTION_FAILED", st)
			}
		}
		s.endedAsModel(a, ended[slot], "tick")
	}
}

// timeMonitor: L1 - a circuit of a limited relay is over once Limit.Duration has passed
func (s *vfC11Sys) timeMonitor() {
	if !s.cfg.Limited {
		return
	}
	d := time.Duration(s.cfg.Duration) * vfC11Unit
	for _, a := range s.all {
		if a.phase == "open" && a.alive() && !s.now().Before(a.openedAt.Add(d)) {
			s.mismatch("circuit-outlives-duration", "a circuit is still open after Limit.Duration", d.String(), s.now().Sub(a.openedAt).String())
		}
	}
}

func (s *vfC11Sys) doClose() {
	s.relay.Close()
	synctest.Wait()
	s.closed = true
	for p := range s.res {
		delete(s.res, p)
		s.ended[p] = "close"
	}
}

func (s *vfC11Sys) apply(op vfh.Op) {
	switch op.Name() {
	case "up":
		s.linkUp(op.S("l"))
	case "down":
		s.linkDown(op.S("l"))
		for _, x := range op.L("failed") {
			if a := s.atts[int(x.(float64))]; a != nil {
				if st := a.status(); st != "CONNECTION_FAILED" {
					s.mismatch("L2:down-status", "status after the destination's connection closed during the handshake", "CONNECTION_FAILED", st)
				}
			}
		}
		ended := map[int]bool{}
		for _, x := range op.L("ended") {
			ended[int(x.(float64))] = true
		}
		for slot, a := range s.atts {
			s.endedAsModel(a, ended[slot], "down")
		}
	case "reserve":
		s.doReserve(op)
	case "connect":
		s.doConnect(op)
	case "stop":
		s.doStop(op)
	case "cabort":
		s.att(op).hop.ends[1].Reset()
		synctest.Wait()
	case "fwd":
		s.doFwd(op)
	case "sclose":
		s.doSClose(op)
	case "abort":
		s.doAbort(op)
	case "tick":
		s.doTick(op)
	case "close":
		s.doClose()
	default:
		panic("unknown op " + op.Name())
	}
}

// ---------------------------------------------------------------------------------------------
// projection (L2) and audit (L1)

type vfC11Proj struct {
	Closed bool                `json:"closed"`
	Rsvp   map[string]int      `json:"rsvp"`
	Cons   map[string][]string `json:"cons"` // peer -> [rem, ip]
	Circ   map[string]int      `json:"circ"`
	TagR   map[string]bool     `json:"tagR"`
	TagH   map[string]bool     `json:"tagH"`
	Mem    int64               `json:"mem"`
	Sin    int                 `json:"sin"`
	Sout   int                 `json:"sout"`
	Busy   []int               `json:"busy"`
}

func (s *vfC11Sys) units(t time.Time) (int, bool) {
	d := t.Sub(s.now())
	u := d / vfC11Unit
	return int(u), d%vfC11Unit == 0
}

func (s *vfC11Sys) project() (vfC11Proj, []string) {
	g := vfC11G
	r := s.relay
	var odd []string
	p := vfC11Proj{Rsvp: map[string]int{}, Cons: map[string][]string{}, Circ: map[string]int{}, TagR: map[string]bool{}, TagH: map[string]bool{}}
	r.mx.Lock()
	p.Closed = r.closed
	for _, n := range s.pnames {
		p.Rsvp[n] = vfC11None
		p.Circ[n] = 0
	}
	for id, exp := range r.rsvp {
		u, exact := s.units(exp)
		if !exact {
			odd = append(odd, "rsvp expiry off the unit grid")
		}
		p.Rsvp[g.pnames[id]] = u
	}
	for id, n := range r.conns {
		p.Circ[g.pnames[id]] = n
	}
	c := r.constraints
	ent := map[string]map[string]string{} // peer -> list -> "rem/key"
	add := func(list, key string, pe peerWithExpiry) {
		n := g.pnames[pe.Peer]
		if ent[n] == nil {
			ent[n] = map[string]string{}
		}
		if _, dup := ent[n][list]; dup {
			odd = append(odd, "peer twice in constraints."+list)
		}
		rem := -1
		if !pe.Expiry.Before(s.now()) {
			rem, _ = s.units(pe.Expiry)
		}
		ent[n][list] = fmt.Sprintf("%d/%s", rem, key)
	}
	for _, pe := range c.total {
		add("total", "", pe)
	}
	for ip, l := range c.ips {
		for _, pe := range l {
			add("ips", ip, pe)
		}
	}
	for asn, l := range c.asns {
		for _, pe := range l {
			add("asns", fmt.Sprint(asn), pe)
		}
	}
	r.mx.Unlock()
	ipName := map[string]string{}
	for n, a := range g.addrs {
		if ip, err := manet.ToIP(a); err == nil {
			ipName[ip.String()] = n
		}
	}
	for _, n := range s.pnames {
		e := ent[n]
		if e == nil {
			p.Cons[n] = []string{fmt.Sprint(vfC11None), "-"}
			continue
		}
		tot, okT := e["total"]
		ips, okI := e["ips"]
		if !okT || !okI {
			odd = append(odd, "peer not in both constraints.total and constraints.ips")
			p.Cons[n] = []string{"?", "?"}
			continue
		}
		rem := strings.SplitN(tot, "/", 2)[0]
		ipk := strings.SplitN(ips, "/", 2)
		if ipk[0] != rem {
			odd = append(odd, "different expiries in constraints.total and constraints.ips")
		}
		name := ipName[ipk[1]]
		as, okA := e["asns"]
		if wantASN := g.asn[name]; (wantASN != 0) != okA || (okA && as != fmt.Sprintf("%s/%d", rem, wantASN)) {
			odd = append(odd, "constraints.asns entry does not fit the peer's address")
		}
		p.Cons[n] = []string{rem, name}
	}
	for _, n := range s.pnames {
		ti := s.cm.GetTagInfo(g.peers[n])
		if ti != nil {
			if v, ok := ti.Tags["relay-reservation"]; ok {
				p.TagR[n] = true
				if v != ReservationTagWeight {
					odd = append(odd, "reservation tag weight")
				}
			}
			if _, ok := ti.Tags[relayHopTag]; ok {
				p.TagH[n] = true
			}
		}
		if !p.TagR[n] {
			p.TagR[n] = false
		}
		if !p.TagH[n] {
			p.TagH[n] = false
		}
	}
	st := s.svcStat()
	p.Mem, p.Sin, p.Sout = st.Memory, st.NumStreamsInbound, st.NumStreamsOutbound
	for slot, a := range s.atts {
		if a.alive() {
			p.Busy = append(p.Busy, slot)
		}
	}
	sort.Ints(p.Busy)
	return p, odd
}

func (s *vfC11Sys) expected(m *vfC11MState) vfC11Proj {
	p := vfC11Proj{Closed: m.Closed, Rsvp: m.Rsvp, Cons: map[string][]string{}, Circ: m.Circ, TagR: m.TagR, TagH: m.TagH}
	for n, c := range m.Cons {
		p.Cons[n] = []string{fmt.Sprint(c[0]), fmt.Sprint(c[1])}
	}
	p.Mem = int64(m.Svc[0]*2*s.cfg.Buf + m.Svc[1]*maxMessageSize)
	p.Sin, p.Sout = m.Svc[2], m.Svc[3]
	for i, a := range m.Att {
		if a.St != "free" {
			p.Busy = append(p.Busy, i+1)
		}
	}
	return p
}

// audit: the statement's rollback clause on what is OBSERVED: the attempts the relay has not finished
// with are the only ones that may hold counters, hop tags, memory and streams; a reservation tag only
// with a reservation.
func (s *vfC11Sys) audit(p vfC11Proj, where string) {
	g := vfC11G
	s.purge()
	var mem int64
	nalive := 0
	for _, a := range s.all {
		if !a.alive() {
			continue
		}
		nalive++
		mem += int64(2 * s.cfg.Buf)
		if a.phase != "open" {
			mem += 2 * maxMessageSize
		}
	}
	for _, n := range s.pnames {
		al := s.aliveCount(n)
		if p.Circ[n] > al {
			s.mismatch("circuit-counter-not-rolled-back", fmt.Sprintf("%s: Relay.conns[%s]=%d with %d attempts/circuits in flight", where, n, p.Circ[n], al), al, p.Circ[n])
		} else if p.Circ[n] < al {
			s.mismatch("L2:circuit-counter-low", fmt.Sprintf("%s: Relay.conns[%s]=%d with %d in flight", where, n, p.Circ[n], al), al, p.Circ[n])
		}
		if p.Circ[n] > s.cfg.MaxCirc {
			s.mismatch("circuit-counter-over-max", fmt.Sprintf("%s: Relay.conns[%s]=%d > MaxCircuits", where, n, p.Circ[n]), s.cfg.MaxCirc, p.Circ[n])
		}
		if p.TagH[n] && al == 0 {
			s.mismatch("hop-tag-not-rolled-back", fmt.Sprintf("%s: %s keeps the tag %s without a circuit", where, n, relayHopTag), false, true)
		}
		if p.TagR[n] && s.res[n] == nil {
			why := s.ended[n]
			if why == "" {
				why = "never-reserved"
			}
			s.mismatch("reservation-tag-left-after-"+why, fmt.Sprintf("%s: %s keeps the tag relay-reservation without a reservation (%s)", where, n, why), false, true)
		}
		_ = g
	}
	if p.Mem > mem {
		s.mismatch("memory-not-released", fmt.Sprintf("%s: the relay service scope holds %d bytes, the %d attempts in flight account for %d", where, p.Mem, nalive, mem), mem, p.Mem)
	}
	if p.Sin > nalive || p.Sout > nalive {
		s.mismatch("service-streams-not-released", fmt.Sprintf("%s: service scope streams in/out %d/%d with %d attempts in flight", where, p.Sin, p.Sout, nalive), nalive, []int{p.Sin, p.Sout})
	}
	s.timeMonitor()
	for _, a := range s.all {
		s.dataMonitor(a)
	}
	// forget what is over
	keep := s.all[:0]
	for _, a := range s.all {
		if a.alive() {
			keep = append(keep, a)
		}
	}
	s.all = keep
}

func (s *vfC11Sys) compare(raw json.RawMessage) {
	m, err := vfC11ParseState(raw)
	if err != nil {
		panic(err)
	}
	got, odd := s.project()
	for _, o := range odd {
		s.mismatch("L2:constraints-shape", o, nil, got.Cons)
	}
	want := s.expected(m)
	// up: the harness's own table, checked for machinery sanity
	var up []string
	for _, k := range s.w.order {
		if s.w.conns[k].up {
			up = append(up, k)
		}
	}
	sort.Strings(m.Up)
	if strings.Join(up, ",") != strings.Join(m.Up, ",") {
		panic(fmt.Sprintf("harness link table %v differs from the model's %v", up, m.Up))
	}
	type fld struct {
		n    string
		a, b any
	}
	for _, f := range []fld{{"closed", want.Closed, got.Closed}, {"rsvp", want.Rsvp, got.Rsvp}, {"constraints", want.Cons, got.Cons},
		{"conns", want.Circ, got.Circ}, {"tag-reservation", want.TagR, got.TagR}, {"tag-hop", want.TagH, got.TagH},
		{"service-memory", want.Mem, got.Mem}, {"service-streams", []int{want.Sin, want.Sout}, []int{got.Sin, got.Sout}},
		{"attempts", want.Busy, got.Busy}} {
		if fmt.Sprint(f.a) != fmt.Sprint(f.b) {
			s.mismatch("L2:state-"+f.n, "projection differs from the model state after "+s.prefix[len(s.prefix)-1].Name(), f.a, f.b)
		}
	}
	s.audit(got, "after "+s.prefix[len(s.prefix)-1].Name())
}

// finish: end of a walk - everything still open is ended by its far ends; afterwards nothing may be
// left (L1: counters, hop tags, memory and streams back to their values before any attempt).
func (s *vfC11Sys) finish() {
	for _, a := range s.all {
		a.hop.ends[1].Reset()
		if a.stop != nil {
			a.stop.ends[1].Reset()
		}
	}
	synctest.Wait()
	// an attempt still waiting for the destination after its source went away ends with the handshake
	for i := 0; i < 3; i++ {
		left := false
		for _, a := range s.all {
			left = left || a.alive()
		}
		if !left {
			break
		}
		time.Sleep(vfC11Unit)
		synctest.Wait()
	}
	for _, a := range s.all {
		if a.alive() {
			s.mismatch("attempt-never-ends", "an attempt whose two streams were reset by their far ends is still held by the relay after the handshake time-out", "ended", a.phase)
		}
	}
	s.atts = map[int]*vfC11Att{}
	got, _ := s.project()
	s.audit(got, "at the end of the walk (every stream reset)")
}

// ---------------------------------------------------------------------------------------------
// replay

func vfC11RunWalk(t *testing.T, cfg *vfC11Cfg, w vfh.Walk, out *vfh.Result) {
	synctest.Test(t, func(t *testing.T) {
		s, err := vfC11NewSys(cfg, out)
		if err != nil {
			t.Fatalf("setup: %v", err)
		}
		defer s.shutdown()
		s.walk = w.Walk
		time.Sleep(vfC11Offset)
		init, err := vfC11ParseState(w.Init)
		if err != nil {
			t.Fatalf("init state: %v", err)
		}
		for _, l := range init.Up {
			s.linkUp(l)
		}
		prev := []byte(w.Init)
		for i, st := range w.Steps {
			s.step = i
			s.prefix = append(s.prefix, st.Op)
			s.apply(st.Op)
			s.compare(st.State)
			h := fnv.New64a()
			h.Write([]byte(cfg.Name))
			h.Write(prev)
			ob, _ := json.Marshal(st.Op)
			h.Write(ob)
			h.Write(st.State)
			out.Case(string(h.Sum(nil)))
			prev = st.State
		}
		s.step = len(w.Steps)
		s.finish()
		out.Count(1, len(w.Steps))
	})
}

func TestVerifC11Replay(t *testing.T) {
	if err := vfC11Init(); err != nil {
		t.Fatalf("init: %v", err)
	}
	out := vfh.NewResult()
	out.Rule = "distinct = distinct (instance, pre-state, op, post-state) transitions executed"
	files, _ := filepath.Glob(filepath.Join(vfh.In(), "*.jsonl"))
	sort.Strings(files)
	if len(files) == 0 {
		t.Fatalf("no behaviour files in %q", vfh.In())
	}
	only := os.Getenv("VERIF_C11_ONLY")
	var jobs []func(t *testing.T)
	for _, f := range files {
		hdr, walks, err := vfh.LoadWalks(f)
		if err != nil {
			t.Fatalf("%s: %v", f, err)
		}
		cfg, err := vfC11CfgOf(hdr)
		if err != nil {
			t.Fatalf("%s: %v", f, err)
		}
		if only != "" && cfg.Name != only {
			continue
		}
		// walks are independent (one bubble each): run them in parallel lanes
		lanes := vfh.EnvInt("VERIF_C11_LANES", 6)
		for k := 0; k < lanes; k++ {
			k := k
			jobs = append(jobs, func(t *testing.T) {
				for i := k; i < len(walks); i += lanes {
					vfC11RunWalk(t, cfg, walks[i], out)
				}
			})
		}
		if len(walks) > 0 && len(out.Samples) < 4 {
			ops := []string{}
			for i, st := range walks[0].Steps {
				if i >= 8 {
					break
				}
				ops = append(ops, vfh.Canon(st.Op))
			}
			out.Sample(map[string]any{"instance": cfg.Name, "walk": 0, "first_ops": ops})
		}
	}
	t.Run("lanes", func(t *testing.T) {
		for i, j := range jobs {
			j := j
			t.Run(fmt.Sprint(i), func(t *testing.T) { t.Parallel(); j(t) })
		}
	})
	if err := out.Write(); err != nil {
		t.Fatal(err)
	}
}

var _ = sync.Mutex{}
