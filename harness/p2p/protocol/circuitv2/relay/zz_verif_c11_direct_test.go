//go:build verif

package relay

// TestVerifC11Direct: the parts of C11 that are not replayed from the model.
//
//  forwarding: one circuit of a relay with production-sized limits (BufferSize 2048, Limit.Data
//    128 KiB and a small odd one, Limit.Duration 2 min); payload sizes around the data limit in
//    each direction and in both, written in several chunkings; the duration limit to the second.
//  bursts: RESERVE and CONNECT requests from many peers handled concurrently (every handler in its own
//    goroutine of the bubble), audited at quiescence against the statement: caps, MaxCircuits,
//    a circuit only to a peer whose reservation was granted, counters / memory / tags exact and back
//    to zero once everything is over.

import (
	"bytes"
	"fmt"
	"math/rand"
	"sort"
	"sync"
	"testing"
	"testing/synctest"
	"time"

	"github.com/libp2p/go-libp2p/core/peer"
	"github.com/libp2p/go-libp2p/internal/vfh"
	pbv2 "github.com/libp2p/go-libp2p/p2p/protocol/circuitv2/pb"
)

func vfC11DirectCfg(name string, links map[string][]any) *vfC11Cfg {
	return &vfC11Cfg{Name: name, Links: links, MaxRes: 4, MaxPerIP: 2, MaxPerASN: 2, MaxCirc: 2, TTL: 120, GCP: 2,
		Limited: true, DataLimit: 1 << 17, Duration: 4, HSTimeout: 2, MaxAtt: 1, Buf: 2048}
}

// openCircuit: p2 reserves, p1 connects to p2, p2 accepts.
func (s *vfC11Sys) openCircuit() *vfC11Att {
	s.prefix = append(s.prefix, vfh.Op{"name": "reserve", "l": "a2"})
	s.doReserve(vfh.Op{"name": "reserve", "l": "a2", "ab": false, "status": "OK", "why": "ok"})
	s.prefix = append(s.prefix, vfh.Op{"name": "connect", "l": "a1", "d": "p2"})
	s.doConnect(vfh.Op{"name": "connect", "l": "a1", "d": "p2", "exit": "hs", "fault": "none", "via": "a2", "c": float64(1), "status": "pending"})
	s.prefix = append(s.prefix, vfh.Op{"name": "stop", "c": 1, "kind": "ok"})
	s.doStop(vfh.Op{"name": "stop", "c": float64(1), "kind": "ok", "status": "OK", "ended": false})
	return s.atts[1]
}

func (s *vfC11Sys) send(a *vfC11Att, dir string, n, chunk int) {
	snd := a.hop.ends[1]
	if dir == "r" {
		snd = a.stop.ends[1]
	}
	s.prefix = append(s.prefix, vfh.Op{"name": "send", "dir": dir, "n": n, "chunk": chunk})
	for n > 0 {
		k := min(n, chunk)
		pay := make([]byte, k)
		for i := range pay {
			pay[i] = byte((len(a.sent[dir]) + i) * 31 % 251)
		}
		a.sent[dir] = append(a.sent[dir], pay...)
		if _, err := snd.Write(pay); err != nil {
			// the relay stopped reading (limit reached): what is written now is lost, as on a real stream
			a.sent[dir] = a.sent[dir][:len(a.sent[dir])-k]
			break
		}
		n -= k
		synctest.Wait()
	}
	synctest.Wait()
	a.pollHop()
	a.pollStop()
}

func vfC11ForwardCase(t *testing.T, out *vfh.Result, limit int, dirs string, size, chunk int) {
	synctest.Test(t, func(t *testing.T) {
		cfg := vfC11DirectCfg(fmt.Sprintf("forward limit=%d dirs=%s size=%d chunk=%d", limit, dirs, size, chunk),
			map[string][]any{"a1": {"p1", "ip1", false}, "a2": {"p2", "ip2", false}})
		cfg.DataLimit = limit
		s, err := vfC11NewSys(cfg, out)
		if err != nil {
			t.Fatalf("setup: %v", err)
		}
		defer s.shutdown()
		s.walk = -1
		time.Sleep(vfC11Offset)
		s.linkUp("a1")
		s.linkUp("a2")
		a := s.openCircuit()
		if a == nil || a.phase != "open" {
			s.mismatch("L2:forward-setup", "the circuit did not open", "open", nil)
			return
		}
		for _, d := range dirs {
			s.send(a, string(d), size, chunk)
		}
		for _, d := range dirs {
			dir := string(d)
			want := min(size, limit)
			if got := len(a.recv[dir]); got > limit {
				s.mismatch("data-limit-exceeded/"+dir, "more bytes than Limit.Data were forwarded in one direction", limit, got)
			} else if got != want {
				s.mismatch("L2:forwarded-short", "fewer bytes forwarded than sent below the limit", want, got)
			}
			if !bytes.HasPrefix(a.sent[dir], a.recv[dir]) {
				s.mismatch("relayed-bytes-differ/"+dir, "the bytes received are not a prefix of the bytes sent", len(a.sent[dir]), len(a.recv[dir]))
			}
			if a.eof[dir] != (size >= limit) {
				s.mismatch("L2:eof", "EOF at the receiver iff the limit was reached", size >= limit, a.eof[dir])
			}
		}
		got, _ := s.project()
		s.audit(got, "after forwarding")
		// the other direction still works after one direction hit its limit
		if len(dirs) == 1 && size >= limit {
			other := "r"
			if dirs == "r" {
				other = "f"
			}
			s.send(a, other, 10, 10)
			if len(a.recv[other]) != 10 {
				s.mismatch("L2:forwarded-short", "the other direction is dead after one direction reached its limit", 10, len(a.recv[other]))
			}
		}
		s.finish()
		out.Count(1, 4+len(dirs))
	})
}

func vfC11DurationCase(t *testing.T, out *vfh.Result, busy bool) {
	synctest.Test(t, func(t *testing.T) {
		cfg := vfC11DirectCfg(fmt.Sprintf("duration busy=%v", busy), map[string][]any{"a1": {"p1", "ip1", false}, "a2": {"p2", "ip2", false}})
		s, err := vfC11NewSys(cfg, out)
		if err != nil {
			t.Fatalf("setup: %v", err)
		}
		defer s.shutdown()
		s.walk = -1
		time.Sleep(vfC11Offset)
		s.linkUp("a1")
		s.linkUp("a2")
		a := s.openCircuit()
		if a == nil || a.phase != "open" {
			s.mismatch("L2:forward-setup", "the circuit did not open", "open", nil)
			return
		}
		d := time.Duration(cfg.Duration) * vfC11Unit
		// traffic does not extend the deadline
		for el := time.Duration(0); el < d-time.Second; el += 10 * time.Second {
			if busy {
				s.send(a, "f", 100, 100)
				s.send(a, "r", 100, 100)
			}
			time.Sleep(min(10*time.Second, d-time.Second-el))
			synctest.Wait()
		}
		s.prefix = append(s.prefix, vfh.Op{"name": "at", "t": (d - time.Second).String()})
		if !a.alive() {
			s.mismatch("L2:circuit-ended-early", "the circuit ended before Limit.Duration", d.String(), s.now().Sub(a.openedAt).String())
		}
		time.Sleep(time.Second)
		synctest.Wait()
		s.prefix = append(s.prefix, vfh.Op{"name": "at", "t": d.String()})
		got, _ := s.project()
		s.audit(got, "at Limit.Duration") // timeMonitor: circuit-outlives-duration
		before := len(a.recv["f"])
		a.hop.ends[1].Write([]byte("late"))
		synctest.Wait()
		a.pollStop()
		if len(a.recv["f"]) != before {
			s.mismatch("circuit-outlives-duration", "bytes were forwarded after Limit.Duration", before, len(a.recv["f"]))
		}
		s.finish()
		out.Count(1, 6)
	})
}

// ---------------------------------------------------------------------------------------------
// bursts

type vfC11Req struct {
	kind   string // "reserve" | "connect"
	link   string
	src    string
	dst    string
	att    *vfC11Att
	status string
}

func vfC11BurstRound(t *testing.T, out *vfh.Result, seed int64) {
	synctest.Test(t, func(t *testing.T) {
		g := vfC11G
		rnd := rand.New(rand.NewSource(seed))
		const N = 10
		links := map[string][]any{}
		for i := 1; i <= N; i++ {
			links[fmt.Sprintf("d%02d", i)] = []any{fmt.Sprintf("p%d", i), fmt.Sprintf("x%d", (i+1)/2), false}
		}
		cfg := vfC11DirectCfg(fmt.Sprintf("burst seed=%d", seed), links)
		cfg.MaxRes, cfg.MaxPerIP, cfg.MaxCirc = 2+rnd.Intn(4), 1+rnd.Intn(2), 1+rnd.Intn(3)
		s, err := vfC11NewSys(cfg, out)
		if err != nil {
			t.Fatalf("setup: %v", err)
		}
		defer s.shutdown()
		s.walk = -1
		time.Sleep(vfC11Offset)
		for _, l := range s.w.order {
			s.linkUp(l)
		}
		h := s.hopHandler()
		fire := func(reqs []*vfC11Req) {
			var start sync.WaitGroup
			start.Add(1)
			for _, r := range reqs {
				c := s.w.conns[r.link]
				pipe, err := s.openHop(c)
				if err != nil {
					panic(err)
				}
				r.att = vfC11NewAtt(-1, c, r.dst)
				r.att.hop = pipe
				if r.kind == "reserve" {
					pipe.ends[1].Write(vfC11Delimited(&pbv2.HopMessage{Type: pbv2.HopMessage_RESERVE.Enum()}))
				} else {
					pipe.ends[1].Write(vfC11Delimited(&pbv2.HopMessage{Type: pbv2.HopMessage_CONNECT.Enum(), Peer: &pbv2.Peer{Id: []byte(g.peers[r.dst])}}))
				}
				re := pipe.ends[0]
				go func() { start.Wait(); h(re) }()
			}
			start.Done()
			synctest.Wait()
			for _, r := range reqs {
				r.status = r.att.status()
			}
		}
		// round A: everybody reserves, twice, at once
		var rs []*vfC11Req
		for k := 0; k < 2; k++ {
			for _, l := range s.w.order {
				rs = append(rs, &vfC11Req{kind: "reserve", link: l, src: s.w.conns[l].pname})
			}
		}
		rnd.Shuffle(len(rs), func(i, j int) { rs[i], rs[j] = rs[j], rs[i] })
		s.prefix = []vfh.Op{{"name": "burst-reserve", "requests": len(rs), "MaxRes": cfg.MaxRes, "MaxPerIP": cfg.MaxPerIP, "MaxCirc": cfg.MaxCirc}}
		fire(rs)
		granted := map[string]bool{}
		byIP := map[string]int{}
		for _, r := range rs {
			if r.status == "OK" && !granted[r.src] {
				granted[r.src] = true
				byIP[s.w.conns[r.link].addrName]++
			}
		}
		if len(granted) > cfg.MaxRes {
			s.mismatch("caps-exceeded/burst", "concurrent RESERVE requests were granted beyond MaxReservations", cfg.MaxRes, len(granted))
		}
		for ip, n := range byIP {
			if n > cfg.MaxPerIP {
				s.mismatch("caps-exceeded/burst", "concurrent RESERVE requests from "+ip+" were granted beyond MaxReservationsPerIP", cfg.MaxPerIP, n)
			}
		}
		if len(granted) < min(cfg.MaxRes, N/2*cfg.MaxPerIP) {
			s.mismatch("L2:burst-underfilled", "fewer reservations granted than the caps allow", min(cfg.MaxRes, N/2*cfg.MaxPerIP), len(granted))
		}
		pr, _ := s.project()
		for _, n := range s.pnames {
			if (pr.Rsvp[n] != vfC11None) != granted[n] {
				s.mismatch("L2:burst-rsvp", "Relay.rsvp differs from the granted set for "+n, granted[n], pr.Rsvp[n])
			}
			if pr.TagR[n] != granted[n] {
				s.mismatch("L2:burst-tag", "reservation tag differs from the granted set for "+n, granted[n], pr.TagR[n])
			}
		}
		// round B: CONNECT burst over distinct (source, destination) pairs
		var cs []*vfC11Req
		seen := map[string]bool{}
		for len(cs) < 24 {
			a, b := 1+rnd.Intn(N), 1+rnd.Intn(N)
			k := fmt.Sprintf("%d>%d", a, b)
			if a == b || seen[k] {
				continue
			}
			seen[k] = true
			cs = append(cs, &vfC11Req{kind: "connect", link: fmt.Sprintf("d%02d", a), src: fmt.Sprintf("p%d", a), dst: fmt.Sprintf("p%d", b)})
		}
		s.prefix = append(s.prefix, vfh.Op{"name": "burst-connect", "requests": len(cs)})
		fire(cs)
		// match the stop streams the relay opened to the requests (the stop request names the source)
		s.w.mu.Lock()
		strays := s.w.nsStray
		s.w.nsStray = nil
		s.w.mu.Unlock()
		byPair := map[string]*vfC11Req{}
		for _, r := range cs {
			byPair[r.src+">"+r.dst] = r
		}
		for _, st := range strays {
			st.recv, st.eof = map[string][]byte{}, map[string]bool{}
			st.hop = vfC11NewPipe("x")
			st.hop.ends[0].Reset()
			st.pollStop()
			src := ""
			if st.stopMsg != nil {
				src = g.pnames[peer.ID(st.stopMsg.GetPeer().GetId())]
			}
			r := byPair[src+">"+g.pnames[st.stopPeer]]
			if r == nil || r.att.stop != nil {
				s.mismatch("stop-stream-to-wrong-peer", "a stop stream matches no CONNECT request of the burst", nil, src+">"+g.pnames[st.stopPeer])
				st.stop.ends[1].Reset()
				continue
			}
			r.att.stop, r.att.stopVia, r.att.stopPeer, r.att.stopMsg = st.stop, st.stopVia, st.stopPeer, st.stopMsg
		}
		per := map[string]int{}
		var open []*vfC11Req
		for _, r := range cs {
			if r.att.stop == nil {
				continue
			}
			open = append(open, r)
			per[r.src]++
			per[r.dst]++
			if !granted[r.dst] {
				s.mismatch("connect-without-reservation/never-reserved", "burst: the relay went on to connect to "+r.dst+" whose reservation was never granted", "NO_RESERVATION", r.status)
			}
		}
		for p, n := range per {
			if n > cfg.MaxCirc {
				s.mismatch("connect-over-max-circuits/burst", fmt.Sprintf("burst: %s takes part in %d circuits (MaxCircuits %d)", p, n, cfg.MaxCirc), cfg.MaxCirc, n)
			}
		}
		// the destinations accept, all at once
		var start sync.WaitGroup
		start.Add(1)
		for _, r := range open {
			e := r.att.stop.ends[1]
			go func() {
				start.Wait()
				e.Write(vfC11Delimited(&pbv2.StopMessage{Type: pbv2.StopMessage_STATUS.Enum(), Status: pbv2.Status_OK.Enum()}))
			}()
		}
		start.Done()
		synctest.Wait()
		s.all = nil
		for _, r := range open {
			r.status = r.att.status()
			if r.status != "OK" {
				s.mismatch("L2:burst-connect-status", "a circuit the destination accepted did not open", "OK", r.status)
			}
			r.att.phase = "open"
			r.att.openedAt = s.now()
			s.all = append(s.all, r.att)
		}
		for _, n := range s.pnames {
			if granted[n] {
				s.res[n] = &vfC11Res{expiry: s.now().Add(time.Hour), ip: "-"}
			}
		}
		pr, _ = s.project()
		for _, n := range s.pnames {
			if pr.Circ[n] != per[n] {
				cls := "L2:circuit-counter-low"
				if pr.Circ[n] > per[n] {
					cls = "circuit-counter-not-rolled-back"
				}
				s.mismatch(cls, fmt.Sprintf("burst: Relay.conns[%s]=%d with %d circuits open", n, pr.Circ[n], per[n]), per[n], pr.Circ[n])
			}
		}
		s.audit(pr, "after the connect burst")
		// some traffic on every circuit, both directions at once
		start.Add(1)
		for _, r := range open {
			a := r.att
			a.sent["f"], a.sent["r"] = bytes.Repeat([]byte{7}, 3000), bytes.Repeat([]byte{7}, 3000)
			for _, e := range []*vfC11End{a.hop.ends[1], a.stop.ends[1]} {
				go func() { start.Wait(); e.Write(bytes.Repeat([]byte{7}, 3000)) }()
			}
		}
		start.Done()
		synctest.Wait()
		for _, r := range open {
			r.att.pollHop()
			r.att.pollStop()
			if len(r.att.recv["f"]) != 3000 || len(r.att.recv["r"]) != 3000 {
				s.mismatch("L2:forwarded-short", "burst: 3000 bytes each way did not arrive", 3000, []int{len(r.att.recv["f"]), len(r.att.recv["r"])})
			}
		}
		// half of the peers disconnect while the circuits are open, the rest is reset by its far ends
		var downs []string
		for _, l := range s.w.order {
			if rnd.Intn(2) == 0 {
				downs = append(downs, l)
			}
		}
		sort.Strings(downs)
		s.prefix = append(s.prefix, vfh.Op{"name": "burst-down", "links": downs})
		for _, l := range downs {
			s.linkDown(l)
		}
		pr, _ = s.project()
		s.audit(pr, "after the disconnects")
		for _, l := range downs {
			p := s.w.conns[l].pname
			if pr.Rsvp[p] != vfC11None {
				s.mismatch("L2:burst-rsvp", "reservation of a disconnected peer still present: "+p, vfC11None, pr.Rsvp[p])
			}
		}
		s.finish()
		out.Count(1, len(rs)+len(cs)+len(open)+len(downs))
		out.Inc("burst_requests", len(rs)+len(cs))
		out.Inc("burst_circuits", len(open))
	})
}

func TestVerifC11Direct(t *testing.T) {
	if err := vfC11Init(); err != nil {
		t.Fatalf("init: %v", err)
	}
	out := vfh.NewResult()
	out.Rule = "scenarios: forwarding cases (limit x directions x payload size x chunking), duration cases, burst rounds"
	n := 0
	for _, limit := range []int{1 << 17, 5001} {
		for _, dirs := range []string{"f", "r", "fr"} {
			for _, size := range []int{1, limit - 2049, limit - 1, limit, limit + 1, limit + 2048, 2*limit + 7} {
				for _, chunk := range []int{size, 2048, 1000} {
					if size > 0 {
						vfC11ForwardCase(t, out, limit, dirs, size, chunk)
						n++
					}
				}
			}
		}
	}
	out.Set("forward_cases", n)
	vfC11DurationCase(t, out, false)
	vfC11DurationCase(t, out, true)
	iters := vfh.EnvInt("VERIF_C11_ITERS", 60)
	for i := 0; i < iters; i++ {
		vfC11BurstRound(t, out, vfh.Seed()*100003+int64(i))
	}
	out.Set("burst_rounds", iters)
	out.Sample(map[string]any{"forward_cases": n, "burst_rounds": iters})
	if err := out.Write(); err != nil {
		t.Fatal(err)
	}
}
