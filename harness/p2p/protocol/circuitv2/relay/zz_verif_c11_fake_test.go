//go:build verif

package relay

// Fake environment of the C11 harness: an in-memory host whose stream-handler registry captures the
// relay's hop handler, whose Network() answers Notify / Connectedness / ConnsToPeer from the harness's
// connection table and whose NewStream returns a scripted in-memory stop stream.  Every fake stream
// carries a REAL resource-manager stream scope (so ViewService(ServiceName).Stat() is observable), the
// connection manager is a real BasicConnMgr, and the relay's service limits are a Limit object the
// harness can tighten for exactly one call (resource refusals injected at a chosen step).

import (
	"context"
	"encoding/binary"
	"errors"
	"fmt"
	"io"
	"math"
	"os"
	"sort"
	"sync"
	"time"

	"github.com/libp2p/go-libp2p/core/connmgr"
	"github.com/libp2p/go-libp2p/core/crypto"
	"github.com/libp2p/go-libp2p/core/host"
	"github.com/libp2p/go-libp2p/core/network"
	"github.com/libp2p/go-libp2p/core/peer"
	"github.com/libp2p/go-libp2p/core/peerstore"
	"github.com/libp2p/go-libp2p/core/protocol"
	rcmgr "github.com/libp2p/go-libp2p/p2p/host/resource-manager"
	ma "github.com/multiformats/go-multiaddr"
)

// ---------------------------------------------------------------------------------------------
// in-memory stream: two ends, unbounded buffers (writes never block), half-close, reset, read
// deadlines in (virtual) time

type vfC11Pipe struct {
	mu   sync.Mutex
	cond *sync.Cond
	buf  [2][]byte // buf[i]: bytes end i can read
	wcl  [2]bool   // end i closed its write side
	rcl  [2]bool   // end i closed its read side
	rst  bool
	ends [2]*vfC11End
}

type vfC11End struct {
	p   *vfC11Pipe
	i   int
	rdl time.Time

	conn  *vfC11Conn
	scope network.StreamManagementScope
	proto protocol.ID
	id    string

	released  bool // Close or Reset was called on this end (the stream is over for its owner)
	nClose    int
	nReset    int
	failWrite bool
	lost      []byte // what this end tried to write while failWrite was set (bytes lost on the wire)
}

var errVfC11Write = errors.New("vf: scripted write failure")

func vfC11NewPipe(id string) *vfC11Pipe {
	p := &vfC11Pipe{}
	p.cond = sync.NewCond(&p.mu)
	p.ends[0] = &vfC11End{p: p, i: 0, id: id + "/r"}
	p.ends[1] = &vfC11End{p: p, i: 1, id: id + "/h"}
	return p
}

func (e *vfC11End) Read(b []byte) (int, error) {
	p := e.p
	p.mu.Lock()
	defer p.mu.Unlock()
	for {
		if p.rst {
			return 0, network.ErrReset
		}
		if e.p.rcl[e.i] {
			return 0, errors.New("vf: read on a stream closed for reading")
		}
		if len(p.buf[e.i]) > 0 {
			n := copy(b, p.buf[e.i])
			p.buf[e.i] = p.buf[e.i][n:]
			return n, nil
		}
		if p.wcl[1-e.i] {
			return 0, io.EOF
		}
		if !e.rdl.IsZero() && !time.Now().Before(e.rdl) {
			return 0, os.ErrDeadlineExceeded
		}
		p.cond.Wait()
	}
}

func (e *vfC11End) Write(b []byte) (int, error) {
	p := e.p
	p.mu.Lock()
	defer p.mu.Unlock()
	if p.rst {
		return 0, network.ErrReset
	}
	if p.wcl[e.i] {
		return 0, errors.New("vf: write on a stream closed for writing")
	}
	if e.failWrite {
		// the bytes are lost on the wire; the writer learns of it once a whole length-delimited message has
		// gone (the delimited writer sends the length first: failing that write would hide the message)
		e.lost = append(e.lost, b...)
		if n, k := binary.Uvarint(e.lost); k > 0 && uint64(len(e.lost)-k) >= n {
			return 0, errVfC11Write
		}
		return len(b), nil
	}
	if !p.rcl[1-e.i] { // the other side stopped reading: the bytes are dropped
		p.buf[1-e.i] = append(p.buf[1-e.i], b...)
	}
	p.cond.Broadcast()
	return len(b), nil
}

func (e *vfC11End) release() {
	if !e.released {
		e.released = true
		if e.scope != nil {
			e.scope.Done()
		}
	}
}

func (e *vfC11End) Close() error {
	e.p.mu.Lock()
	e.nClose++
	e.p.wcl[e.i] = true
	e.p.rcl[e.i] = true
	e.p.buf[e.i] = nil
	e.release()
	e.p.cond.Broadcast()
	e.p.mu.Unlock()
	return nil
}

func (e *vfC11End) CloseWrite() error {
	e.p.mu.Lock()
	e.p.wcl[e.i] = true
	e.p.cond.Broadcast()
	e.p.mu.Unlock()
	return nil
}

func (e *vfC11End) CloseRead() error {
	e.p.mu.Lock()
	e.p.rcl[e.i] = true
	e.p.buf[e.i] = nil
	e.p.cond.Broadcast()
	e.p.mu.Unlock()
	return nil
}

func (e *vfC11End) Reset() error {
	e.p.mu.Lock()
	e.nReset++
	e.p.rst = true
	e.release()
	e.p.cond.Broadcast()
	e.p.mu.Unlock()
	return nil
}
func (e *vfC11End) ResetWithError(network.StreamErrorCode) error { return e.Reset() }

func (e *vfC11End) SetReadDeadline(t time.Time) error {
	e.p.mu.Lock()
	e.rdl = t
	e.p.mu.Unlock()
	if !t.IsZero() {
		p := e.p
		time.AfterFunc(time.Until(t), func() {
			p.mu.Lock()
			p.cond.Broadcast()
			p.mu.Unlock()
		})
	}
	return nil
}
func (e *vfC11End) SetWriteDeadline(time.Time) error { return nil } // writes never block
func (e *vfC11End) SetDeadline(t time.Time) error    { return e.SetReadDeadline(t) }
func (e *vfC11End) ID() string                       { return e.id }
func (e *vfC11End) Protocol() protocol.ID            { return e.proto }
func (e *vfC11End) SetProtocol(p protocol.ID) error  { e.proto = p; return nil }
func (e *vfC11End) Stat() network.Stats              { return network.Stats{} }
func (e *vfC11End) Conn() network.Conn               { return e.conn }
func (e *vfC11End) Scope() network.StreamScope       { return e.scope }
func (e *vfC11End) As(any) bool                      { return false }

var _ network.Stream = (*vfC11End)(nil)

// drain takes whatever this end can read right now, without blocking.
func (e *vfC11End) drain() (data []byte, eof, rst bool) {
	p := e.p
	p.mu.Lock()
	defer p.mu.Unlock()
	data = p.buf[e.i]
	p.buf[e.i] = nil
	return data, p.wcl[1-e.i], p.rst
}

// over: the owner of this end has finished with the stream (Close or Reset).
func (e *vfC11End) over() bool {
	e.p.mu.Lock()
	defer e.p.mu.Unlock()
	return e.released
}

// ---------------------------------------------------------------------------------------------
// connections

type vfC11Conn struct {
	network.Conn // nil: whatever the relay / conn manager do not use panics
	name         string
	pname        string
	addrName     string
	pid          peer.ID
	addr         ma.Multiaddr
	viaRelay     bool // the remote address is a /p2p-circuit address (the peer came through another relay)
	limited      bool // Stat().Limited - set INDEPENDENTLY of viaRelay: a relay without limits does not flag its circuits
	up           bool
	local        peer.ID
}

func (c *vfC11Conn) RemotePeer() peer.ID           { return c.pid }
func (c *vfC11Conn) LocalPeer() peer.ID            { return c.local }
func (c *vfC11Conn) RemoteMultiaddr() ma.Multiaddr { return c.addr }
func (c *vfC11Conn) LocalMultiaddr() ma.Multiaddr  { return ma.StringCast("/ip4/203.0.113.1/tcp/4001") }
func (c *vfC11Conn) ID() string                    { return "vfc11-" + c.name }
func (c *vfC11Conn) IsClosed() bool                { return !c.up }
func (c *vfC11Conn) Stat() network.ConnStats {
	return network.ConnStats{Stats: network.Stats{Direction: network.DirInbound, Limited: c.limited}}
}
func (c *vfC11Conn) String() string { return "vfc11conn-" + c.name }

// ---------------------------------------------------------------------------------------------
// resource limits of the relay service, adjustable for one call

type vfC11Limit struct {
	mu   sync.Mutex
	mem  int64
	sIn  int
	sOut int
}

func vfC11NewLimit() *vfC11Limit { l := &vfC11Limit{}; l.open(); return l }
func (l *vfC11Limit) open() {
	l.mu.Lock()
	l.mem, l.sIn, l.sOut = math.MaxInt64, math.MaxInt, math.MaxInt
	l.mu.Unlock()
}
func (l *vfC11Limit) set(f func(l *vfC11Limit)) { l.mu.Lock(); f(l); l.mu.Unlock() }
func (l *vfC11Limit) GetMemoryLimit() int64     { l.mu.Lock(); defer l.mu.Unlock(); return l.mem }
func (l *vfC11Limit) GetStreamLimit(d network.Direction) int {
	l.mu.Lock()
	defer l.mu.Unlock()
	if d == network.DirInbound {
		return l.sIn
	}
	return l.sOut
}
func (l *vfC11Limit) GetStreamTotalLimit() int           { return math.MaxInt }
func (l *vfC11Limit) GetConnLimit(network.Direction) int { return math.MaxInt }
func (l *vfC11Limit) GetConnTotalLimit() int             { return math.MaxInt }
func (l *vfC11Limit) GetFDLimit() int                    { return math.MaxInt }

type vfC11Limiter struct {
	rcmgr.Limiter
	svc *vfC11Limit
}

func (l *vfC11Limiter) GetServiceLimits(svc string) rcmgr.Limit {
	if svc == ServiceName {
		return l.svc
	}
	return l.Limiter.GetServiceLimits(svc)
}

// ---------------------------------------------------------------------------------------------
// host, network, peerstore, ACL

type vfC11NSScript struct {
	via       string // link to open the stop stream on
	fail      bool   // NewStream fails
	failWrite bool   // the relay's writes on the stop stream fail
	pre       func() // runs just before NewStream returns (limits tightened for the next call)
	att       *vfC11Att
}

type vfC11World struct {
	mu        sync.Mutex
	relayID   peer.ID
	relayKey  crypto.PrivKey
	rm        network.ResourceManager
	lim       *vfC11Limit
	cm        connmgr.ConnManager
	conns     map[string]*vfC11Conn
	order     []string // link names, sorted
	notifiees []network.Notifiee
	handlers  map[protocol.ID]network.StreamHandler
	removed   map[protocol.ID]bool
	nsScript  *vfC11NSScript
	nsCalls   []peer.ID      // every NewStream call of the relay (destination)
	nsStray   []*vfC11Att    // stop streams opened without a script (the model expected none)
	aclGate   func()         // runs once inside the next ACL callback
	denyRes   map[string]bool
	denyConn  map[string]bool
	pnames    map[peer.ID]string
	seq       int
}

type vfC11PS struct {
	peerstore.Peerstore
	w *vfC11World
}

func (ps *vfC11PS) PrivKey(p peer.ID) crypto.PrivKey {
	if p == ps.w.relayID {
		return ps.w.relayKey
	}
	return nil
}

type vfC11Net struct {
	network.Network
	w *vfC11World
}

func (n *vfC11Net) LocalPeer() peer.ID { return n.w.relayID }
func (n *vfC11Net) Notify(f network.Notifiee) {
	n.w.mu.Lock()
	n.w.notifiees = append(n.w.notifiees, f)
	n.w.mu.Unlock()
}
func (n *vfC11Net) StopNotify(f network.Notifiee) {
	n.w.mu.Lock()
	defer n.w.mu.Unlock()
	for i, x := range n.w.notifiees {
		if x == f {
			n.w.notifiees = append(n.w.notifiees[:i:i], n.w.notifiees[i+1:]...)
			return
		}
	}
}
func (n *vfC11Net) ResourceManager() network.ResourceManager { return n.w.rm }

// Connectedness as the swarm computes it: Connected with a non-limited connection, Limited with
// limited ones only, NotConnected otherwise.
func (n *vfC11Net) Connectedness(p peer.ID) network.Connectedness {
	n.w.mu.Lock()
	defer n.w.mu.Unlock()
	lim := false
	for _, c := range n.w.conns {
		if c.up && c.pid == p {
			if !c.limited {
				return network.Connected
			}
			lim = true
		}
	}
	if lim {
		return network.Limited
	}
	return network.NotConnected
}
func (n *vfC11Net) ConnsToPeer(p peer.ID) []network.Conn {
	n.w.mu.Lock()
	defer n.w.mu.Unlock()
	var out []network.Conn
	for _, k := range n.w.order {
		if c := n.w.conns[k]; c.up && c.pid == p {
			out = append(out, c)
		}
	}
	return out
}

type vfC11Host struct {
	host.Host
	w   *vfC11World
	net *vfC11Net
	ps  *vfC11PS
}

func (h *vfC11Host) ID() peer.ID                      { return h.w.relayID }
func (h *vfC11Host) Peerstore() peerstore.Peerstore   { return h.ps }
func (h *vfC11Host) Network() network.Network         { return h.net }
func (h *vfC11Host) ConnManager() connmgr.ConnManager { return h.w.cm }
func (h *vfC11Host) Addrs() []ma.Multiaddr {
	return []ma.Multiaddr{ma.StringCast("/ip4/203.0.113.1/tcp/4001"), ma.StringCast("/ip4/192.168.1.7/tcp/4001")}
}
func (h *vfC11Host) SetStreamHandler(pid protocol.ID, f network.StreamHandler) {
	h.w.mu.Lock()
	h.w.handlers[pid] = f
	delete(h.w.removed, pid)
	h.w.mu.Unlock()
}
func (h *vfC11Host) RemoveStreamHandler(pid protocol.ID) {
	// the handler stays callable: a stream accepted just before Close is still handled by it
	h.w.mu.Lock()
	h.w.removed[pid] = true
	h.w.mu.Unlock()
}

// unlimUp lists the names of the peer's non-limited connections that are up, sorted: what the swarm counts
// for Connectedness == Connected and accepts for a new stream.
func (w *vfC11World) unlimUp(p peer.ID) []string {
	var out []string
	for _, k := range w.order {
		if c := w.conns[k]; c.up && c.pid == p && !c.limited {
			out = append(out, k)
		}
	}
	return out
}

// bestUp: the swarm's preference among them (isBetterConn): direct before relayed.
func (w *vfC11World) bestUp(p peer.ID) []string {
	all := w.unlimUp(p)
	var direct []string
	for _, k := range all {
		if !w.conns[k].viaRelay {
			direct = append(direct, k)
		}
	}
	if len(direct) > 0 {
		return direct
	}
	return all
}

// notViaRelayUp: the peer's connections that are up and whose remote address is no /p2p-circuit address.
func (w *vfC11World) notViaRelayUp(p peer.ID) []string {
	var out []string
	for _, k := range w.order {
		if c := w.conns[k]; c.up && c.pid == p && !c.viaRelay {
			out = append(out, k)
		}
	}
	return out
}

func (h *vfC11Host) NewStream(ctx context.Context, p peer.ID, pids ...protocol.ID) (network.Stream, error) {
	w := h.w
	w.mu.Lock()
	w.nsCalls = append(w.nsCalls, p)
	sc := w.nsScript
	w.nsScript = nil
	var att *vfC11Att
	stray := false
	if sc == nil {
		sc = &vfC11NSScript{}
		stray = true
	}
	att = sc.att
	if sc.fail {
		w.mu.Unlock()
		return nil, errors.New("vf: scripted NewStream failure")
	}
	var conn *vfC11Conn
	if c, ok := w.conns[sc.via]; ok && c.up && c.pid == p && !c.limited {
		conn = c
	} else if du := w.bestUp(p); len(du) > 0 {
		conn = w.conns[du[0]]
	}
	w.seq++
	seq := w.seq
	w.mu.Unlock()
	if conn == nil {
		return nil, network.ErrNoConn
	}
	if len(pids) == 0 {
		return nil, errors.New("vf: NewStream without a protocol")
	}
	scope, err := w.rm.OpenStream(p, network.DirOutbound)
	if err != nil {
		return nil, err
	}
	if err := scope.SetProtocol(pids[0]); err != nil {
		scope.Done()
		return nil, err
	}
	pipe := vfC11NewPipe(fmt.Sprintf("stop%d", seq))
	re := pipe.ends[0]
	re.conn, re.scope, re.proto = conn, scope, pids[0]
	re.failWrite = sc.failWrite
	if att == nil {
		att = &vfC11Att{slot: -1}
	}
	w.mu.Lock()
	att.stop = pipe
	att.stopVia = conn.name
	att.stopPeer = p
	if stray {
		w.nsStray = append(w.nsStray, att)
	}
	w.mu.Unlock()
	if sc.pre != nil {
		sc.pre()
	}
	return re, nil
}

type vfC11ACL struct{ w *vfC11World }

func (a *vfC11ACL) gate() {
	a.w.mu.Lock()
	g := a.w.aclGate
	a.w.aclGate = nil
	a.w.mu.Unlock()
	if g != nil {
		g()
	}
}
func (a *vfC11ACL) linkOf(p peer.ID, addr ma.Multiaddr) string {
	a.w.mu.Lock()
	defer a.w.mu.Unlock()
	for _, k := range a.w.order {
		if c := a.w.conns[k]; c.pid == p && c.addr.Equal(addr) {
			return k
		}
	}
	return "?"
}
func (a *vfC11ACL) AllowReserve(p peer.ID, addr ma.Multiaddr) bool {
	a.gate()
	return !a.w.denyRes[a.linkOf(p, addr)]
}
func (a *vfC11ACL) AllowConnect(src peer.ID, srcAddr ma.Multiaddr, dest peer.ID) bool {
	a.gate()
	return !a.w.denyConn[a.linkOf(src, srcAddr)+">"+a.w.pnames[dest]]
}

func vfC11SortedKeys[V any](m map[string]V) []string {
	out := make([]string, 0, len(m))
	for k := range m {
		out = append(out, k)
	}
	sort.Strings(out)
	return out
}
