//go:build verif

package client

// C11cl, direct scenarios (no model walk):
//   A  the REAL upgrader (p2p/net/upgrader with noise or TLS, yamux) on the fake host: a relayed dial whose security
//      handshake fails - grounds the stub upgrader's "upfail2" (the connection is closed twice) and shows clause K6 on
//      the real stack;
//   B  Accept on a closed listener while connections are still queued (both cases of its select are ready: either
//      outcome is allowed), judged by the monitors only;
//   C  the production values of AcceptTimeout / StreamTimeout / DialTimeout / DialRelayTimeout / ReserveTimeout: the
//      time-outs fire at those instants, not earlier;
//   D  the voucher record codec (proto/voucher.go): domain, codec bytes, wire format, round trip over key types.

import (
	"bytes"
	"context"
	"encoding/binary"
	"errors"
	"fmt"
	"testing"
	"testing/synctest"
	"time"

	"github.com/libp2p/go-libp2p/core/crypto"
	"github.com/libp2p/go-libp2p/core/network"
	"github.com/libp2p/go-libp2p/core/peer"
	"github.com/libp2p/go-libp2p/core/protocol"
	"github.com/libp2p/go-libp2p/core/record"
	recpb "github.com/libp2p/go-libp2p/core/record/pb"
	"github.com/libp2p/go-libp2p/core/sec"
	"github.com/libp2p/go-libp2p/core/transport"
	"github.com/libp2p/go-libp2p/internal/vfh"
	"github.com/libp2p/go-libp2p/p2p/muxer/yamux"
	tptu "github.com/libp2p/go-libp2p/p2p/net/upgrader"
	pbv2 "github.com/libp2p/go-libp2p/p2p/protocol/circuitv2/pb"
	circuitproto "github.com/libp2p/go-libp2p/p2p/protocol/circuitv2/proto"
	"github.com/libp2p/go-libp2p/p2p/security/noise"
	libp2ptls "github.com/libp2p/go-libp2p/p2p/security/tls"
	ma "github.com/multiformats/go-multiaddr"
	mss "github.com/multiformats/go-multistream"
	"google.golang.org/protobuf/proto"
)

func vfC11clDirectCfg(name string) *vfC11clCfg {
	return &vfC11clCfg{Name: name, Relays: []string{"r1", "r2"}, Dests: []string{"d1", "d2"}, MaxDial: 3, MaxIn: 3, MaxAcc: 3,
		AcceptTO: 2, StreamTO: 3, DialTO: 3, RelayTO: 1}
}

// ---------------------------------------------------------------------------------------------
// A: the real upgrader

func vfC11clRealUpgrader(s *vfC11clSys, secName string) (transport.Upgrader, error) {
	key := vfC11clG.ids[(s.v.n)%len(vfC11clKeyTypes)]["self"].key
	id, _ := peer.IDFromPrivateKey(key)
	s.w.self = id
	muxers := []tptu.StreamMuxer{{ID: yamux.ID, Muxer: yamux.DefaultTransport}}
	var st sec.SecureTransport
	var err error
	if secName == "tls" {
		st, err = libp2ptls.New(libp2ptls.ID, key, muxers)
	} else {
		st, err = noise.New(noise.ID, key, muxers)
	}
	if err != nil {
		return nil, err
	}
	return tptu.New([]sec.SecureTransport{st}, muxers, nil, s.w.rm, nil)
}

// how the destination makes the security handshake fail once the security protocol is agreed
var vfC11clHandshakeFailures = []string{"eof", "garbage", "reset"}

func vfC11clRealUpgrade(t *testing.T, out *vfh.Result, secName, fail string, n int) {
	vfC11clBubble(t, out, "real upgrader "+secName+" "+fail, func(t *testing.T) {
		cfg := vfC11clDirectCfg("real-upgrader-" + secName + "-" + fail)
		s, err := vfC11clNewSys(cfg, vfC11clVariant{n: n}, out)
		if err != nil {
			t.Fatal(err)
		}
		defer s.shutdown()
		up, err := vfC11clRealUpgrader(s, secName)
		if err != nil {
			t.Fatal(err)
		}
		s.cl.upgrader = up
		type res struct {
			cc  transport.CapableConn
			err error
		}
		dial := func(slot int, d string) (chan res, *vfC11clPipe) {
			ch := make(chan res, 1)
			ctx := context.WithValue(context.Background(), vfC11clCtxKey{}, slot)
			go func() {
				cc, err := s.cl.Dial(ctx, s.dialAddr("r1", d, "ok"), s.v.id(d))
				ch <- res{cc, err}
			}()
			synctest.Wait()
			c := s.w.takePending(slot)
			if c == nil {
				t.Fatalf("dial %d did not reach NewStream", slot)
			}
			s.seq++
			pipe, err := s.w.openStream(fmt.Sprintf("hop%d", s.seq), s.v.id("r1"), s.v.relayConnAddr("r1"), network.DirOutbound, circuitproto.ProtoIDv2Hop)
			if err != nil {
				t.Fatal(err)
			}
			c.reply <- vfC11clNSReply{pipe.ends[0], nil}
			synctest.Wait()
			pipe.ends[1].drain() // the CONNECT request
			b, _, _ := s.v.hopAnswer("ok")
			pipe.ends[1].Write(b)
			synctest.Wait()
			return ch, pipe
		}
		// circuit 1: the destination agrees on the security protocol and then fails the handshake
		ch1, p1 := dial(1, "d1")
		negotiated := make(chan error, 1)
		go func() {
			mux := mss.NewMultistreamMuxer[protocol.ID]()
			mux.AddHandler(noise.ID, nil)
			mux.AddHandler(libp2ptls.ID, nil)
			_, _, err := mux.Negotiate(p1.ends[1])
			negotiated <- err
		}()
		synctest.Wait()
		select {
		case err := <-negotiated:
			if err != nil {
				t.Fatalf("security protocol negotiation: %v", err)
			}
		default:
			t.Fatalf("security protocol negotiation did not finish")
		}
		switch fail {
		case "eof":
			p1.ends[1].CloseWrite()
		case "garbage":
			p1.ends[1].Write([]byte{0x00, 0x05, 1, 2, 3, 4, 5, 0x16, 0x03, 0x01, 0x00, 0x02, 0xff, 0xff})
			p1.ends[1].CloseWrite()
		case "reset":
			p1.ends[1].Reset()
		}
		synctest.Wait()
		var r1 res
		select {
		case r1 = <-ch1:
		default:
			t.Fatalf("dial 1 did not return after the failed handshake")
		}
		if r1.err == nil {
			t.Fatalf("dial 1 succeeded although the handshake failed")
		}
		_, nr := p1.ends[0].counts()
		out.Inc(fmt.Sprintf("real_upgrader_%s_%s_conn_closes", secName, fail), nr)
		if nr >= 2 {
			s.second["r1"] = true
			out.Inc("real_upgrader_closed_the_connection_twice", 1)
		}
		s.step = 1
		s.monitors(fmt.Sprintf("real upgrader (%s), after the security handshake of a relayed dial failed (%s) and Dial returned %v; Conn.Close was called %d times", secName, fail, r1.err, nr))
		// circuit 2 through the same relay: open while its handshake is in progress
		ch2, p2 := dial(2, "d2")
		d2 := &vfC11clDial{slot: 2, r: "r1", d: "d2", st: "upg", pipe: p2, cancel: func() {}}
		s.dials[2] = d2
		s.allD = append(s.allD, d2)
		s.step = 2
		s.monitors(fmt.Sprintf("real upgrader (%s): a second circuit through the same relay is open (its handshake in progress) after the first one's handshake failed (%s, Conn.Close called %d times)", secName, fail, nr))
		p2.ends[1].Reset()
		synctest.Wait()
		select {
		case <-ch2:
		default:
			t.Fatalf("dial 2 did not return after its stream was reset")
		}
		d2.st = "free"
		s.step = 3
		s.monitors("real upgrader: at the end")
		out.Count(1, 3)
	})
}

// ---------------------------------------------------------------------------------------------
// B: Accept racing with Close

func vfC11clAcceptRace(t *testing.T, out *vfh.Result, n int) {
	vfC11clBubble(t, out, "accept race", func(t *testing.T) {
		cfg := vfC11clDirectCfg("accept-race")
		s, err := vfC11clNewSys(cfg, vfC11clVariant{n: n}, out)
		if err != nil {
			t.Fatal(err)
		}
		defer s.shutdown()
		queued := 1 + n%3
		for j := 1; j <= queued; j++ {
			m := []string{"ok", "oklim", "oklim0"}[(n+j)%3]
			s.opStop(vfh.Op{"name": "stop", "j": float64(j), "r": []string{"r1", "r2"}[(n/3+j)%2], "m": m, "wf": false, "out": "queued", "k": 0.0})
		}
		s.opCloseL(vfh.Op{"name": "closel", "unblocked": []any{}})
		calls := 1 + (n/3)%3
		delivered := 0
		for k := 1; k <= calls; k++ {
			a := &vfC11clAcc{k: k, done: make(chan vfC11clAccRes, 1)}
			s.accs[k] = a
			go func() {
				c, err := s.cl.Listener().Accept()
				a.done <- vfC11clAccRes{c, err}
			}()
			_, _, acc := s.observe()
			r, ok := acc[k]
			switch {
			case !ok:
				s.mismatch("accept-blocked-after-close", fmt.Sprintf("Accept call %d on a closed listener did not return", k), "returned", "blocked")
			case r.err != nil && (r.c != nil || !errors.Is(r.err, transport.ErrListenerClosed)):
				s.mismatch("accept-after-close", fmt.Sprintf("Accept call %d on a closed listener returned (%v, %v)", k, r.c, r.err), "ErrListenerClosed", fmt.Sprint(r.err))
			case r.err == nil:
				delivered++
			}
		}
		if delivered > queued {
			s.mismatch("stop-delivered-twice", fmt.Sprintf("%d Accept calls returned a connection, %d were queued", delivered, queued), queued, delivered)
		}
		s.step = 1
		s.monitors("after Accept calls on a closed listener with queued connections")
		time.Sleep(time.Duration(cfg.AcceptTO) * vfC11clUnit)
		s.observe()
		for _, in := range s.allI {
			switch {
			case in.conn != nil:
				if len(in.answers) != 1 || in.answers[0] != "OK" {
					s.mismatch("accepted-without-ok", fmt.Sprintf("STOP stream %d was returned by Accept, answers %v", in.slot, in.answers), "OK", in.answers)
				}
			case len(in.answers) != 1 || in.answers[0] != "CONNECTION_FAILED" || !in.pipe.ends[0].over():
				s.mismatch("stop-not-refused-in-time", fmt.Sprintf("STOP stream %d queued at Close and not accepted: state %s answers %v after the accept time-out", in.slot, in.st, in.answers), "CONNECTION_FAILED", fmt.Sprint(in.answers))
			}
		}
		out.Inc(fmt.Sprintf("accept_race_delivered_%d_of_%d", delivered, min(queued, calls)), 1)
		s.step = 2
		s.finish()
		out.Count(1, 2+calls)
	})
}

// ---------------------------------------------------------------------------------------------
// C: the production time-outs

func vfC11clDefaults(t *testing.T, out *vfh.Result, n int) {
	vfC11clBubble(t, out, "production time-outs", func(t *testing.T) {
		cfg := vfC11clDirectCfg("production-timeouts")
		s, err := vfC11clNewSys(cfg, vfC11clVariant{n: n}, out)
		if err != nil {
			t.Fatal(err)
		}
		defer s.shutdown()
		t0 := time.Now()
		at := func(d time.Duration) { time.Sleep(time.Until(t0.Add(d))); synctest.Wait() }
		// STOP 1: a good CONNECT nobody accepts; STOP 2: silent
		s.opStop(vfh.Op{"name": "stop", "j": 1.0, "r": "r1", "m": "oklim", "wf": false, "out": "queued", "k": 0.0})
		s.opStop(vfh.Op{"name": "stop", "j": 2.0, "r": "r2", "m": "late", "wf": false, "out": "read", "k": 0.0})
		// dial 1: NewStream never returns; dial 2 (another destination): CONNECT never answered
		s.opDial(vfh.Op{"name": "dial", "i": 1.0, "r": "r1", "d": "d1", "how": "ok", "out": "ns"})
		s.opDial(vfh.Op{"name": "dial", "i": 2.0, "r": "r2", "d": "d2", "how": "ok", "out": "ns"})
		s.opNS(vfh.Op{"name": "ns", "i": 2.0, "how": "ok", "ended": []any{}, "next": []any{}})
		check := func(when string, d1, d2, i1, i2 string) {
			s.observe()
			got := []string{"free", "free", "free", "free"}
			if d := s.dials[1]; d != nil {
				got[0] = d.st
			}
			if d := s.dials[2]; d != nil {
				got[1] = d.st
			}
			if in := s.incs[1]; in != nil {
				got[2] = in.st
			}
			if in := s.incs[2]; in != nil {
				got[3] = in.st
			}
			want := []string{d1, d2, i1, i2}
			if fmt.Sprint(got) != fmt.Sprint(want) {
				s.mismatch("production-timeout", fmt.Sprintf("%s (DialRelayTimeout %v, AcceptTimeout %v, DialTimeout %v, StreamTimeout %v): <dial in NewStream, dial waiting for the answer, queued STOP, silent STOP> = %v", when, DialRelayTimeout, AcceptTimeout, DialTimeout, StreamTimeout, got), want, got)
			}
			for _, d := range []int{1, 2} {
				if x := s.dials[d]; x != nil && x.st == "free" {
					delete(s.dials, d)
				}
			}
			for _, j := range []int{1, 2} {
				if x := s.incs[j]; x != nil && x.st == "free" {
					delete(s.incs, j)
				}
			}
			s.monitors(when)
		}
		if !(DialRelayTimeout < AcceptTimeout && AcceptTimeout < DialTimeout && DialTimeout == StreamTimeout) {
			t.Skipf("the scenario assumes DialRelayTimeout < AcceptTimeout < DialTimeout = StreamTimeout")
		}
		ms := time.Millisecond
		at(DialRelayTimeout - ms)
		check("just before DialRelayTimeout", "ns", "resp", "queued", "read")
		at(DialRelayTimeout + ms)
		check("just after DialRelayTimeout", "free", "resp", "queued", "read")
		at(AcceptTimeout - ms)
		check("just before AcceptTimeout", "free", "resp", "queued", "read")
		at(AcceptTimeout + ms)
		check("just after AcceptTimeout", "free", "resp", "free", "read")
		if in := s.allI[0]; len(in.answers) != 1 || in.answers[0] != "CONNECTION_FAILED" {
			s.mismatch("stop-answer", fmt.Sprintf("a CONNECT nobody accepted within AcceptTimeout was answered %v", in.answers), "CONNECTION_FAILED", in.answers)
		}
		at(DialTimeout - ms)
		check("just before DialTimeout / StreamTimeout", "free", "resp", "free", "read")
		at(DialTimeout + 2*ms) // dial 2 wrote CONNECT a moment after t0 (same virtual instant)
		check("just after DialTimeout / StreamTimeout", "free", "free", "free", "free")
		if in := s.allI[1]; len(in.answers) != 1 || in.answers[0] != "MALFORMED_MESSAGE" {
			s.mismatch("stop-answer", fmt.Sprintf("a STOP stream without message was answered %v at StreamTimeout", in.answers), "MALFORMED_MESSAGE", in.answers)
		}
		s.step = 9
		s.finish()
		out.Count(1, 9)
	})
}

// ---------------------------------------------------------------------------------------------
// D: the voucher record

func vfC11clVoucherCodec(out *vfh.Result) {
	mm := func(class, what string, exp, got any) {
		out.AddMismatch(vfh.Mismatch{Class: class, What: "[voucher codec] " + what, Walk: -1, Step: -1, Expected: exp, Got: got})
	}
	if circuitproto.RecordDomain != "libp2p-relay-rsvp" || !bytes.Equal(circuitproto.RecordCodec, []byte{0x03, 0x02}) {
		mm("voucher-codec-constants", fmt.Sprintf("domain %q codec %x", circuitproto.RecordDomain, circuitproto.RecordCodec), "libp2p-relay-rsvp 0302", circuitproto.RecordDomain)
	}
	exps := []int64{0, 1, 946684800, 1 << 31, 1<<32 + 5, 1 << 40}
	n := 0
	for ki := range vfC11clKeyTypes {
		for kj := range vfC11clKeyTypes {
			relay, cl := vfC11clG.ids[ki]["h"], vfC11clG.ids[kj]["self"]
			for _, e := range exps {
				n++
				rv := &circuitproto.ReservationVoucher{Relay: relay.id, Peer: cl.id, Expiration: time.Unix(e, 0)}
				if rv.Domain() != circuitproto.RecordDomain || !bytes.Equal(rv.Codec(), circuitproto.RecordCodec) {
					mm("voucher-codec-constants", "Domain()/Codec() differ from the package constants", circuitproto.RecordDomain, rv.Domain())
				}
				env, err := record.Seal(rv, relay.key)
				if err != nil {
					mm("voucher-codec-seal", fmt.Sprintf("Seal: %v", err), nil, err.Error())
					continue
				}
				b, err := env.Marshal()
				if err != nil {
					mm("voucher-codec-seal", fmt.Sprintf("Marshal: %v", err), nil, err.Error())
					continue
				}
				// wire format, decoded independently
				var pe recpb.Envelope
				var pv pbv2.ReservationVoucher
				if err := proto.Unmarshal(b, &pe); err != nil || !bytes.Equal(pe.PayloadType, []byte{0x03, 0x02}) || proto.Unmarshal(pe.Payload, &pv) != nil ||
					string(pv.GetRelay()) != string(relay.id) || string(pv.GetPeer()) != string(cl.id) || pv.GetExpiration() != uint64(e) {
					mm("voucher-codec-wire", fmt.Sprintf("the sealed voucher does not decode to (relay, peer, expiration) = (%s, %s, %d): %v", relay.id, cl.id, e, &pv), e, pv.GetExpiration())
					continue
				}
				pk, _ := crypto.PublicKeyFromProto(pe.PublicKey)
				if ok, err := pk.Verify(vfC11clUnsigned("libp2p-relay-rsvp", []byte{0x03, 0x02}, pe.Payload), pe.Signature); err != nil || !ok || !pk.Equals(relay.key.GetPublic()) {
					mm("voucher-codec-signature", fmt.Sprintf("the signature does not verify over (domain, codec, payload) with the relay's key (%v)", err), true, ok)
				}
				// round trip through the registry
				env2, rec, err := record.ConsumeEnvelope(b, circuitproto.RecordDomain)
				if err != nil {
					mm("voucher-codec-roundtrip", fmt.Sprintf("ConsumeEnvelope of a freshly sealed voucher: %v", err), nil, err.Error())
					continue
				}
				got, ok := rec.(*circuitproto.ReservationVoucher)
				if !ok || got.Relay != relay.id || got.Peer != cl.id || !got.Expiration.Equal(time.Unix(e, 0)) || !env2.PublicKey.Equals(relay.key.GetPublic()) {
					mm("voucher-codec-roundtrip", fmt.Sprintf("round trip gives %T %+v", rec, rec), fmt.Sprint(rv), fmt.Sprint(rec))
				}
				if _, _, err := record.ConsumeEnvelope(b, peer.PeerRecordEnvelopeDomain); err == nil {
					mm("voucher-codec-domain", "a voucher envelope validates in the peer-record domain", "error", "nil")
				}
				var typed circuitproto.ReservationVoucher
				if _, err := record.ConsumeTypedEnvelope(b, &typed); err != nil || typed.Relay != relay.id || typed.Peer != cl.id {
					mm("voucher-codec-roundtrip", fmt.Sprintf("ConsumeTypedEnvelope: %v %+v", err, typed), nil, fmt.Sprint(err))
				}
				out.Case(fmt.Sprintf("codec-%d-%d-%d", ki, kj, e))
			}
		}
	}
	// malformed payloads are rejected by UnmarshalRecord
	for _, bad := range [][]byte{{0x0a, 0x01, 0x00, 0x12, 0x01, 0x00}, {0x0a}, {0x12, 0x03, 0x01, 0x02, 0x03}} {
		var rv circuitproto.ReservationVoucher
		if err := rv.UnmarshalRecord(bad); err == nil {
			mm("voucher-codec-malformed", fmt.Sprintf("UnmarshalRecord(%x) succeeded: %+v", bad, rv), "error", "nil")
		}
	}
	_ = binary.MaxVarintLen64
	_ = ma.StringCast
	out.Count(1, n)
}

// the transport's surface the swarm relies on
func vfC11clSurface(t *testing.T, out *vfh.Result) {
	vfC11clBubble(t, out, "transport surface", func(t *testing.T) {
		s, err := vfC11clNewSys(vfC11clDirectCfg("surface"), vfC11clVariant{n: 1}, out)
		if err != nil {
			t.Fatal(err)
		}
		defer s.shutdown()
		r, d := s.v.id("r1").String(), s.v.id("d1").String()
		for a, want := range map[string]bool{
			"/ip4/203.0.113.1/tcp/4001/p2p/" + r + "/p2p-circuit":             true,
			"/p2p/" + r + "/p2p-circuit/p2p/" + d:                             true,
			"/p2p-circuit":                                                    true,
			"/ip4/203.0.113.1/tcp/4001/p2p/" + r:                              false,
			"/ip4/203.0.113.1/udp/4001/quic-v1":                               false,
			"/dns4/example.org/tcp/443/tls/ws/p2p/" + r + "/p2p-circuit/p2p/" + d: true,
		} {
			if got := s.cl.CanDial(ma.StringCast(a)); got != want {
				s.mismatch("transport-surface", fmt.Sprintf("CanDial(%s) = %v", a, got), want, got)
			}
		}
		if p := s.cl.Protocols(); len(p) != 1 || p[0] != ma.P_CIRCUIT || !s.cl.Proxy() || !s.cl.SkipResolve(context.Background(), ma.StringCast("/p2p-circuit")) {
			s.mismatch("transport-surface", fmt.Sprintf("Protocols %v Proxy %v", p, s.cl.Proxy()), "[290] true", fmt.Sprint(p))
		}
		l := s.cl.Listener()
		if !l.Multiaddr().Equal(ma.StringCast("/p2p-circuit")) || l.Addr().Network() != "libp2p-circuit-relay" {
			s.mismatch("transport-surface", fmt.Sprintf("Listener.Multiaddr %s Addr %v", l.Multiaddr(), l.Addr()), "/p2p-circuit", l.Multiaddr().String())
		}
		if s.stopHandler() == nil {
			s.mismatch("transport-surface", "Start() did not register a handler for "+circuitproto.ProtoIDv2Stop, "handler", "none")
		}
		out.Count(1, 1)
	})
}

func TestVerifC11clDirect(t *testing.T) {
	if err := vfC11clInit(); err != nil {
		t.Fatalf("init: %v", err)
	}
	out := vfh.NewResult()
	out.Rule = "distinct = voucher codec cases"
	iters := vfh.EnvInt("VERIF_C11CL_ITERS", 40)
	seed := int(vfh.Seed())
	// C first: it needs the production values of the package variables
	for n := 0; n < 4; n++ {
		vfC11clDefaults(t, out, n+seed)
	}
	restore := vfC11clSetTimeouts(vfC11clDirectCfg(""))
	for i, secName := range []string{"noise", "tls"} {
		for j, f := range vfC11clHandshakeFailures {
			for n := 0; n < 4; n++ {
				vfC11clRealUpgrade(t, out, secName, f, seed+n+4*j+12*i)
			}
		}
	}
	for n := 0; n < iters; n++ {
		vfC11clAcceptRace(t, out, n+seed*iters)
	}
	restore()
	vfC11clSurface(t, out)
	vfC11clVoucherCodec(out)
	if err := out.Write(); err != nil {
		t.Fatal(err)
	}
}
